#!/bin/bash
# usage: regress_par.sh [N]  -- the matrix of regress.sh (all behaviour-preserving patches must stay silent, all seeded
# changes must be caught by their own property), sharded over N scratch worktrees of /repo (/tmp/wt_par_<i>, created
# and removed here; /repo itself is never touched). Prints the same lines as regress.sh, then a summary.
N=${1:-6}
LACHK=${LACHK:-/verif/bin/lachk}
export GOFLAGS=-mod=mod GOPROXY=off GOSUMDB=off GOTOOLCHAIN=local GOWORK=off
head=$(git -C /repo rev-parse HEAD)
items=$( (ls /verif/regress/refac*/*/*.diff | sort -V | sed 's/^/R /'; ls -d /verif/seeded/*/ | sed 's/^/S /') )
out=$(mktemp -d /tmp/regress_par.XXXX)
shard() {
  i=$1; WT=/tmp/wt_par_$i
  git -C /repo worktree remove --force $WT 2>/dev/null; git -C /repo worktree add -q --detach $WT $head || exit 2
  echo "$items" | awk -v n=$N -v i=$i 'NR % n == i' | while read kind p; do
    git -C $WT checkout -q -- . ; git -C $WT clean -fdq
    if [ $kind = R ]; then
      name=${p#/verif/regress/}
      if ! git -C $WT apply $p 2>/dev/null; then echo "REFAC $name DOES-NOT-APPLY"; continue; fi
      o=$($LACHK -property all -repo $WT 2>&1); rc=$?
      if [ $rc -eq 0 ]; then echo "REFAC $name silent"; else echo "REFAC $name FALSE-ALARM $(echo "$o" | tail -1 | sed 's/.*alarmed=//')"; echo "$o" | grep '^ALARM' | cut -c1-230 | sed 's/^/    /'; fi
    else
      id=$(basename $p); prop=$(python3 -c "import json;print(json.load(open('$p/meta.json'))['property'])")
      if ! git -C $WT apply $p/patch.diff 2>/dev/null; then echo "SEED $id DOES-NOT-APPLY"; continue; fi
      o=$($LACHK -property all -repo $WT 2>&1)
      if echo "$o" | grep -q "^ALARM $prop "; then echo "SEED $id caught by $prop ($(echo "$o" | grep -c "^ALARM $prop ") obligations; all alarmed: $(echo "$o" | tail -1 | sed 's/.*alarmed=//'))"; else echo "SEED $id MISSED by $prop (alarmed: $(echo "$o" | tail -1 | sed 's/.*alarmed=//'))"; fi
    fi
  done > $out/$i.log 2>&1
  git -C /repo worktree remove --force $WT
}
for i in $(seq 0 $((N-1))); do shard $i & done
wait
cat $out/*.log
echo "SUMMARY refac=$(cat $out/*.log | grep -c '^REFAC') silent=$(cat $out/*.log | grep -c '^REFAC.* silent$') seeds=$(cat $out/*.log | grep -c '^SEED') caught=$(cat $out/*.log | grep -c '^SEED.* caught by') unchanged-tree: $($LACHK -property all -repo /repo 2>&1 | tail -1)"
rm -rf $out
