#!/bin/bash
# usage: refcheck.sh <dir with N.diff files>  -- applies each behaviour-preserving patch in a scratch worktree and runs ALL quick checks; prints alarms
dir=$1
WT=/tmp/wt_ref
export GOFLAGS=-mod=mod GOPROXY=off GOSUMDB=off GOTOOLCHAIN=local GOWORK=off
head=$(git -C /repo rev-parse HEAD)
if [ ! -d $WT ]; then git -C /repo worktree add -q --detach $WT HEAD || exit 2; fi
mkdir -p /tmp/ref_verif; cp /verif/known_findings.jsonl /tmp/ref_verif/
for d in $(ls $dir/*.diff | sort -V); do
  git -C $WT checkout -q -- . ; git -C $WT clean -fdq; git -C $WT checkout -q --detach $head
  if ! git -C $WT apply $d 2>/tmp/ref_apply.txt; then echo "[$(basename $d)] DOES NOT APPLY: $(head -1 /tmp/ref_apply.txt)"; continue; fi
  if ! (cd $WT && go build ./... >/tmp/ref_build.txt 2>&1); then echo "[$(basename $d)] DOES NOT BUILD"; head -3 /tmp/ref_build.txt; continue; fi
  alarms=0
  for p in $(/verif/bin/lachk -list); do
    /verif/bin/lachk -property $p -tier quick -repo $WT -verif /tmp/ref_verif > /tmp/ref_chk.txt 2>&1; rc=$?
    if [ $rc -ne 0 ]; then alarms=$((alarms+1)); echo "[$(basename $d)] ALARM $p exit=$rc"; grep -E "^(VIOLATED|UNDECIDED|internal)" /tmp/ref_chk.txt | cut -c1-260; fi
  done
  echo "[$(basename $d)] files: $(git -C $WT diff --stat | tail -1) alarms=$alarms"
done
git -C $WT checkout -q -- .
