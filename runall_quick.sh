#!/bin/bash
# runs every registered quick check from /verif against /repo (as MANIFEST.json registers them) and prints one line per property
cd /verif
for id in $(./bin/lachk -list); do
  out=$(./bin/lachk -property $id -tier quick 2>&1); rc=$?
  echo "$id exit=$rc $(echo "$out" | grep -E '^summary' | cut -c1-160) $(echo "$out" | grep -E '^(VIOLATION|KNOWN-FINDING)' | tr '\n' ' ' | cut -c1-200)"
done
