#!/bin/bash
# usage: seedsave.sh <ID> [origin-note]  -- after seedcheck.sh <ID> was run: stores the confirmed seeded change under /verif/seeded/<ID>/
id=$1; note=${2:-"independent sub-agent given only the property text and a scratch worktree"}
SRC=${SEEDSRC:-/tmp/seed_out}/$id; DST=/verif/seeded/$id
mkdir -p $DST
cp $SRC/patch.diff $DST/patch.diff
cp $SRC/demo_test.go $DST/demo_test.go
python3 - "$id" "$note" <<'PY'
import json,sys,re,subprocess
id,note=sys.argv[1],sys.argv[2]
m=json.load(open(__import__('os').environ.get('SEEDSRC','/tmp/seed_out')+f'/{id}/meta.json'))
first=open(__import__('os').environ.get('SEEDSRC','/tmp/seed_out')+f'/{id}/demo_test.go').readline().strip()
chk=open(f'/tmp/seed_chk_{id}.txt').read().splitlines()
viol=[l for l in chk if l.startswith(('VIOLATED','UNDECIDED'))]
keys=[re.sub(r'^(VIOLATED|UNDECIDED)\s+','',l).split(' [')[0] for l in viol]
head=subprocess.check_output(['git','-C','/repo','rev-parse','--short','HEAD']).decode().strip()
out={
 "property": m.get("property", id),
 "seed_id": id,
 "summary": m.get("summary"),
 "needs_to_manifest": m.get("needs"),
 "breaks": m.get("breaks"),
 "touched_packages": m.get("touched_packages"),
 "origin": note,
 "repo_commit": head,
 "confirmed": {
   "how": "scratch worktree of /repo HEAD (never /repo itself): demo placed as named in its first line; demo passes without patch.diff; patch applies; go build ./... ok; demo fails with the patch; existing tests of the touched packages pass with the patch (./seedcheck.sh "+id+")",
   "demo": first,
 },
 "detected": len(viol)>0,
 "detected_by": keys,
 "check_cmd": f"git -C /repo apply /verif/seeded/{id}/patch.diff && ./bin/lachk -property {m.get('property', id)} -tier quick ; git -C /repo checkout -- .",
}
json.dump(out,open(f'/verif/seeded/{id}/meta.json','w'),indent=1)
print(id,'detected' if viol else 'MISSED',keys[:2])
PY
