#!/bin/bash
# usage: mut.sh <property> <file> <python-regex-from> <to>   -- applies a one-off textual mutation to /repo, runs the quick check, reverts
prop=$1; file=$2; from=$3; to=$4
cd /repo || exit 2
if [ -n "$(git status --porcelain)" ]; then echo "repo dirty"; exit 2; fi
python3 - "$file" "$from" "$to" <<'PY'
import sys,re
p,fr,to=sys.argv[1:4]
s=open(p).read()
n=re.subn(fr,to,s,count=1,flags=re.S)
if n[1]!=1: print("MUTATION DID NOT APPLY"); sys.exit(3)
open(p,'w').write(n[0])
PY
rc=$?
if [ $rc -eq 0 ]; then
  GOFLAGS=-mod=mod GOPROXY=off go build ./... 2>&1 | head -5
  (cd /verif && ./bin/lachk -property $prop -tier quick | grep -v "^ok" | cut -c1-400)
fi
git checkout -- . 
