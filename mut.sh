#!/bin/bash
# usage: mut.sh <property> <file> <python-regex-from> <to>
# applies a one-off textual mutation in a scratch worktree of /repo (never /repo itself), runs the quick check against it
prop=$1; file=$2; from=$3; to=$4
WT=/tmp/wt_main
head=$(git -C /repo rev-parse HEAD)
if [ ! -d $WT ]; then git -C /repo worktree add -q --detach $WT HEAD || exit 2; fi
git -C $WT checkout -q -- . ; git -C $WT checkout -q --detach $head || exit 2
cd $WT || exit 2
python3 - "$file" "$from" "$to" <<'PY'
import sys,re
p,fr,to=sys.argv[1:4]
s=open(p).read()
n=re.subn(fr,to,s,count=1,flags=re.S)
if n[1]!=1: print("MUTATION DID NOT APPLY"); sys.exit(3)
open(p,'w').write(n[0])
PY
rc=$?
if [ $rc -eq 0 ]; then
  GOFLAGS=-mod=mod GOPROXY=off go build ./... 2>&1 | head -5
  (cd /verif && ${LACHK:-./bin/lachk} -property $prop -tier quick -repo $WT -verif /tmp/mut_out | grep -v "^ok" | cut -c1-400)
fi
git -C $WT checkout -q -- .
