#!/bin/bash
# runs every registered thorough check from /verif against /repo and prints one line per property
cd /verif
for id in $(./bin/lachk -list); do
  out=$(./bin/lachk -property $id -tier thorough 2>&1); rc=$?
  echo "$id exit=$rc $(echo "$out" | grep -E '^summary' | cut -c1-160) $(echo "$out" | grep -E '^(VIOLATION|KNOWN-FINDING|internal)|control did not|skipped' | tr '\n' ' ' | cut -c1-300)"
done
