#!/bin/bash
# usage: regress.sh [refac|seed|seed2|all]  -- regression matrix: behaviour-preserving patches must stay silent, seeded changes must be caught
what=${1:-all}
WT=${REGWT:-/tmp/wt_reg}
export GOFLAGS=-mod=mod GOPROXY=off GOSUMDB=off GOTOOLCHAIN=local GOWORK=off
head=$(git -C /repo rev-parse HEAD)
if [ ! -d $WT ]; then git -C /repo worktree add -q --detach $WT HEAD || exit 2; fi
reset() { git -C $WT checkout -q -- . ; git -C $WT clean -fdq; git -C $WT checkout -q --detach $head; }
if [ "$what" = refac -o "$what" = all ]; then
  for d in $(ls /verif/regress/refac*/*/*.diff | sort -V); do
    reset; name=$(echo $d | sed "s,/verif/regress/,,")
    if ! git -C $WT apply $d 2>/dev/null; then echo "REFAC $name DOES-NOT-APPLY"; continue; fi
    out=$(${LACHK:-/verif/bin/lachk} -property all -repo $WT 2>&1); rc=$?
    if [ $rc -eq 0 ]; then echo "REFAC $name silent"; else echo "REFAC $name FALSE-ALARM $(echo "$out" | tail -1 | sed 's/.*alarmed=//')"; echo "$out" | grep '^ALARM' | cut -c1-230 | sed 's/^/    /'; fi
  done
fi
if [ "$what" = seed -o "$what" = all ]; then
  for dir in /verif/seeded/*/; do
    id=$(basename $dir); reset
    prop=$(python3 -c "import json;print(json.load(open('$dir/meta.json'))['property'])")
    if ! git -C $WT apply $dir/patch.diff 2>/dev/null; then echo "SEED $id DOES-NOT-APPLY"; continue; fi
    out=$(${LACHK:-/verif/bin/lachk} -property all -repo $WT 2>&1)
    if echo "$out" | grep -q "^ALARM $prop "; then echo "SEED $id caught by $prop ($(echo "$out" | grep -c "^ALARM $prop ") obligations; all alarmed: $(echo "$out" | tail -1 | sed 's/.*alarmed=//'))"; else echo "SEED $id MISSED by $prop (alarmed: $(echo "$out" | tail -1 | sed 's/.*alarmed=//'))"; fi
  done
fi
reset
