#!/bin/bash
# usage: [REFAC_FILTER=<regex on patch path, e.g. "/(abft|vec)/">] regress_prop.sh <lachk binary> <worktree dir> <PROP> [PROP...]
# For the given properties: (1) unchanged tree must be silent, (2) every behaviour-preserving patch in
# /verif/regress/refac must be silent, (3) every seeded change of the property in /verif/seeded must be caught.
bin=$1; WT=$2; shift; shift; props="$@"
export GOFLAGS=-mod=mod GOPROXY=off GOSUMDB=off GOTOOLCHAIN=local GOWORK=off
head=$(git -C /repo rev-parse HEAD)
if [ ! -d $WT ]; then git -C /repo worktree add -q --detach $WT HEAD || exit 2; fi
reset() { git -C $WT checkout -q -- . ; git -C $WT clean -fdq; git -C $WT checkout -q --detach $head; }
pat=$(echo $props | sed 's/ /|/g')
reset
out=$($bin -property all -repo $WT 2>&1)
n=$(echo "$out" | grep -E "^ALARM ($pat) " | wc -l)
echo "UNCHANGED alarms=$n"; echo "$out" | grep -E "^ALARM ($pat) " | cut -c1-300 | sed 's/^/    /'
fa=0; tot=0
for d in $(ls /verif/regress/refac*/*/*.diff | sort -V); do
  if [ -n "$REFAC_FILTER" ] && ! echo "$d" | grep -Eq "$REFAC_FILTER"; then continue; fi
  reset; name=$(echo $d | sed "s,/verif/regress/,,")
  git -C $WT apply $d 2>/dev/null || { echo "REFAC $name does-not-apply"; continue; }
  out=$($bin -property all -repo $WT 2>&1)
  tot=$((tot+1))
  if echo "$out" | grep -qE "^ALARM ($pat) "; then fa=$((fa+1)); echo "REFAC $name FALSE-ALARM"; echo "$out" | grep -E "^ALARM ($pat) " | cut -c1-300 | sed 's/^/    /'; fi
done
echo "REFAC total=$tot false-alarms-for-[$props]=$fa"
miss=0; nseed=0
for dir in /verif/seeded/*/; do
  id=$(basename $dir)
  prop=$(python3 -c "import json;print(json.load(open('$dir/meta.json'))['property'])")
  echo " $props " | grep -q " $prop " || continue
  reset; nseed=$((nseed+1))
  git -C $WT apply $dir/patch.diff 2>/dev/null || { echo "SEED $id does-not-apply"; continue; }
  out=$($bin -property all -repo $WT 2>&1)
  if echo "$out" | grep -q "^ALARM $prop "; then echo "SEED $id caught: $(echo "$out" | grep "^ALARM $prop " | head -2 | cut -c1-160 | tr '\n' ';')"; else miss=$((miss+1)); echo "SEED $id MISSED (other properties alarmed: $(echo "$out" | tail -1 | sed 's/.*alarmed=//'))"; fi
done
echo "SEEDS total=$nseed missed=$miss"
reset
