#!/bin/bash
# usage: seedrefresh.sh [ID...]  -- re-runs the current checker on every stored seeded change (in a scratch worktree of
# /repo, never /repo itself) and rewrites the detection fields of /verif/seeded/<ID>/meta.json:
#   detected (own property alarms), detected_by (own property's obligation keys), detected_by_other (other properties that alarm)
LACHK=${LACHK:-/verif/bin/lachk}
WT=/tmp/wt_reg
export GOFLAGS=-mod=mod GOPROXY=off GOSUMDB=off GOTOOLCHAIN=local GOWORK=off
head=$(git -C /repo rev-parse HEAD)
if [ ! -d $WT ]; then git -C /repo worktree add -q --detach $WT HEAD || exit 2; fi
reset() { git -C $WT checkout -q -- . ; git -C $WT clean -fdq; git -C $WT checkout -q --detach $head; }
ids="$@"
[ -z "$ids" ] && ids=$(ls /verif/seeded)
for id in $ids; do
  dir=/verif/seeded/$id
  reset
  if ! git -C $WT apply $dir/patch.diff 2>/dev/null; then echo "$id DOES-NOT-APPLY"; continue; fi
  $LACHK -property all -repo $WT > /tmp/seedrefresh_out.txt 2>&1
  python3 - "$id" <<'PY'
import json,sys,re
id=sys.argv[1]
p=f'/verif/seeded/{id}/meta.json'
m=json.load(open(p))
prop=m['property']
own=[];other=set()
for l in open('/tmp/seedrefresh_out.txt'):
    mm=re.match(r'^ALARM (C\d\d) (\w+) (.*?) :: ',l)
    if not mm: continue
    if mm.group(1)==prop: own.append(mm.group(3))
    else: other.add(mm.group(1))
old=m.get('detected_by') or []
hist=m.get('history') or []
if (not m.get('detected')) and own and not any('strengthened' in h for h in hist):
    hist.append('missed by the property\'s own check when first evaluated; caught after the rule was strengthened (see DESIGN.md Part II)')
m['detected']=bool(own)
m['detected_by']=sorted(set(own))
m['detected_by_other']=sorted(other)
if hist: m['history']=hist
json.dump(m,open(p,'w'),indent=1)
print(id,prop,'caught' if own else 'MISSED',len(own),'other:',','.join(sorted(other)))
PY
done
reset
