// lachk: static checker for the lachesis-base properties (see /verif/DESIGN.md).
package main

import (
	"flag"
	"fmt"
	"os"
	"path/filepath"
	"sort"
	"strings"
	"time"

	"lachk/core"
	"lachk/rules"
)

func main() {
	prop := flag.String("property", "", "property id (C01..C33)")
	tier := flag.String("tier", "quick", "quick|thorough")
	repo := flag.String("repo", "/repo", "repository root")
	verif := flag.String("verif", "", "verification directory (default: parent of the binary's directory)")
	list := flag.Bool("list", false, "list implemented properties")
	explain := flag.String("explain", "", "print a replay file")
	manifest := flag.Bool("manifest", false, "print MANIFEST.json")
	flag.Parse()
	rules.ApplyExtensions()
	if *explain != "" {
		b, err := os.ReadFile(*explain)
		if err != nil {
			fmt.Println(err)
			os.Exit(2)
		}
		fmt.Print(string(b))
		return
	}
	if *manifest {
		printManifest()
		return
	}
	if *list {
		var ids []string
		for id := range rules.Registry {
			ids = append(ids, id)
		}
		sort.Strings(ids)
		fmt.Println(strings.Join(ids, " "))
		return
	}
	if *verif == "" {
		exe, _ := os.Executable()
		*verif = filepath.Dir(filepath.Dir(exe))
	}
	if t := os.Getenv("VERIF_TIER"); t != "" && !flagSet("tier") {
		*tier = t
	}
	if *prop == "all" {
		// development aid (regression runs over seeded and refactored trees): one load, every property,
		// only non-discharged obligations are printed; no evidence is written
		os.Exit(runAll(*repo))
	}
	r, ok := rules.Registry[*prop]
	if !ok {
		fmt.Printf("internal error: no rules for property %q\n", *prop)
		os.Exit(2)
	}
	os.Exit(run(r, *prop, *tier, *repo, *verif))
}

func flagSet(name string) bool {
	set := false
	flag.Visit(func(f *flag.Flag) {
		if f.Name == name {
			set = true
		}
	})
	return set
}

func run(r rules.Property, prop, tier, repo, verif string) (code int) {
	start := time.Now()
	cmdline := fmt.Sprintf("./bin/lachk -property %s -tier %s", prop, tier)
	defer func() {
		if e := recover(); e != nil {
			fmt.Printf("internal error: checker panicked: %v\n", e)
			code = 2
		}
	}()
	abs, err := filepath.Abs(repo)
	if err != nil {
		fmt.Println("internal error:", err)
		return 2
	}
	p, err := core.Load(core.LoadOpts{Repo: abs, Patterns: []string{"./..."}})
	if err != nil {
		// a tree that does not load or type-check cannot be judged
		fmt.Println("internal error: cannot load /repo:", err)
		return 2
	}
	c := core.NewCtx(p, prop, tier)
	r.Run(c)
	if tier == "thorough" {
		rules.Thorough(c, r, abs)
	}
	return c.Finish(r.Meta, verif, start, cmdline)
}
