package main

import (
	"encoding/json"
	"fmt"
	"sort"
	"strings"

	"lachk/rules"
)

const baselineCmd = "cd /repo && GOFLAGS=-mod=mod GOPROXY=off GOSUMDB=off go test -vet=off -count=1 -timeout 25m ./..."

const setupCmd = "cd /verif/checker && GOFLAGS=-mod=mod GOPROXY=off GOSUMDB=off GOTOOLCHAIN=local GOWORK=off go build -o /verif/bin/lachk ."

func printManifest() {
	var ids []string
	for id := range rules.Registry {
		ids = append(ids, id)
	}
	sort.Strings(ids)
	var checks []map[string]interface{}
	for _, id := range ids {
		r := rules.Registry[id]
		checks = append(checks, map[string]interface{}{
			"property_id":         id,
			"quick_cmd":           fmt.Sprintf("./bin/lachk -property %s -tier quick", id),
			"thorough_cmd":        fmt.Sprintf("./bin/lachk -property %s -tier thorough", id),
			"evidence_file":       fmt.Sprintf("evidence/%s.json", id),
			"replay_cmd_template": "./bin/lachk -explain {path}",
			"engine":              "lachk",
			"level_claimed": map[string]interface{}{
				"category":   r.Meta.Level,
				"text":       r.Meta.Explanation,
				"design_ref": "DESIGN.md §4 " + id,
			},
			"level_note": "Assumes: " + strings.Join(r.Meta.Assumptions, "; ") + ". Trusted base: " + strings.Join(r.Meta.TrustedBase, "; ") + ".",
			"technique":  "static analysis: " + r.Meta.Templates,
		})
	}
	na := []map[string]string{}
	var naIDs []string
	for id := range rules.NotApplicable {
		naIDs = append(naIDs, id)
	}
	sort.Strings(naIDs)
	for _, id := range naIDs {
		if _, claimed := rules.Registry[id]; claimed {
			continue
		}
		na = append(na, map[string]string{"property_id": id, "reason": rules.NotApplicable[id]})
	}
	m := map[string]interface{}{
		"version":   1,
		"setup_cmd": setupCmd,
		"hooks": map[string]interface{}{
			"guard":            "verif",
			"enable":           "none needed: the checks are static analyses of /repo's working tree; no hook or instrumentation is compiled into the repository (build tag 'verif' reserved, unused)",
			"baseline_off_cmd": baselineCmd,
			"source_commits":   []string{},
			"add_only":         true,
		},
		"engines": []map[string]interface{}{{
			"name": "lachk", "path": "checker/", "serves_properties": ids,
			"kind_free_text": "repository-specific static analyser (go/packages + go/types + go/cfg; dataflow, dominance/guard, lockset, purity, linear-comparison normaliser, codec/constant relations)",
		}},
		"checks":         checks,
		"not_applicable": na,
		"notes":          "All checks are static analyses (no code of /repo is executed). known_findings.jsonl lists repaired ('fixed') and recorded ('finding') defects. See DESIGN.md.",
	}
	b, _ := json.MarshalIndent(m, "", " ")
	fmt.Println(string(b))
}
