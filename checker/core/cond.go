package core

import (
	"go/ast"
	"go/constant"
	"go/token"
	"go/types"

	"golang.org/x/tools/go/cfg"
)

// Fact is an atomic boolean expression known to have the given truth value on a CFG edge.
type Fact struct {
	Expr  ast.Expr
	Truth bool
}

// BranchCond returns the condition expression tested at the end of block b
// (nil if b is not a two-way conditional branch on an expression). For tagged
// switch cases the condition is synthesised as tag == value.
func (f *FuncInfo) BranchCond(b *cfg.Block) ast.Expr {
	if len(b.Succs) != 2 || len(b.Nodes) == 0 {
		return nil
	}
	last, ok := b.Nodes[len(b.Nodes)-1].(ast.Expr)
	if !ok {
		return nil
	}
	switch b.Succs[0].Kind {
	case cfg.KindSwitchCaseBody:
		cc, _ := b.Succs[0].Stmt.(*ast.CaseClause)
		if cc == nil {
			return nil
		}
		// make sure `last` is one of the case expressions (not a type switch)
		isCase := false
		for _, e := range cc.List {
			if e == last {
				isCase = true
			}
		}
		if !isCase {
			return nil
		}
		sw := f.swOfCase[cc]
		if sw == nil {
			return nil
		}
		if sw.Tag == nil {
			return last
		}
		return &ast.BinaryExpr{X: sw.Tag, OpPos: last.Pos(), Op: token.EQL, Y: last}
	case cfg.KindRangeBody, cfg.KindSelectCaseBody:
		return nil
	}
	// if / for conditions
	switch s := b.Succs[0].Stmt.(type) {
	case *ast.IfStmt:
		if s.Cond == last {
			return f.expandNamedConds(s, last) // `x := E; if x` reads as `if E` (namedcond.go)
		}
	case *ast.ForStmt:
		if s.Cond == last {
			return last
		}
	}
	return nil
}

// EdgeFacts returns the atomic facts implied by taking successor `succ` of block b.
func (f *FuncInfo) EdgeFacts(b *cfg.Block, succ int) []Fact {
	c := f.BranchCond(b)
	if c == nil {
		return nil
	}
	return Decompose(c, succ == 0)
}

// EdgeAlternatives returns the disjunctive form of what taking successor `succ` of block b implies:
// one of the returned conjunctions of atomic facts holds. (go/cfg does not split && and ||, so the
// true edge of `a || b` carries the two alternatives [a], [b].)
func (f *FuncInfo) EdgeAlternatives(b *cfg.Block, succ int) [][]Fact {
	c := f.BranchCond(b)
	if c == nil {
		return nil
	}
	return Disjuncts(c, succ == 0)
}

// EdgesImplying lists the conditional edges on which, whichever alternative holds, some fact accepted
// by match holds: the edge implies the disjunction of the accepted facts.
func (f *FuncInfo) EdgesImplying(match func(Fact) bool) func(*cfg.Block, int) bool {
	cache := map[*cfg.Block][2]bool{}
	return func(b *cfg.Block, s int) bool {
		if s > 1 {
			return false
		}
		v, ok := cache[b]
		if !ok {
			for i := 0; i < 2; i++ {
				alts := f.EdgeAlternatives(b, i)
				v[i] = len(alts) > 0
				for _, alt := range alts {
					some := false
					for _, ft := range alt {
						if match(ft) {
							some = true
							break
						}
					}
					if !some {
						v[i] = false
						break
					}
				}
			}
			cache[b] = v
		}
		return v[s]
	}
}

// Decompose splits a condition with a known truth value into atomic facts:
// (a && b)=true gives a=true,b=true; (a || b)=false gives a=false,b=false; !a flips.
func Decompose(e ast.Expr, truth bool) []Fact {
	e = ast.Unparen(e)
	switch x := e.(type) {
	case *ast.UnaryExpr:
		if x.Op == token.NOT {
			return Decompose(x.X, !truth)
		}
	case *ast.BinaryExpr:
		if x.Op == token.LAND && truth || x.Op == token.LOR && !truth {
			return append(Decompose(x.X, truth), Decompose(x.Y, truth)...)
		}
	}
	return []Fact{{e, truth}}
}

// Disjuncts: the alternatives of a condition with known truth: (a||b)=true -> [a=true],[b=true];
// (a&&b)=false -> [a=false],[b=false]. Each alternative is itself a conjunction of facts.
func Disjuncts(e ast.Expr, truth bool) [][]Fact {
	e = ast.Unparen(e)
	switch x := e.(type) {
	case *ast.UnaryExpr:
		if x.Op == token.NOT {
			return Disjuncts(x.X, !truth)
		}
	case *ast.BinaryExpr:
		if x.Op == token.LOR && truth || x.Op == token.LAND && !truth {
			return append(Disjuncts(x.X, truth), Disjuncts(x.Y, truth)...)
		}
	}
	return [][]Fact{Decompose(e, truth)}
}

// GuardEdges returns a predicate on edges: the edge implies some fact for which match returns true.
func (f *FuncInfo) GuardEdges(match func(Fact) bool) func(*cfg.Block, int) bool {
	// an edge implies a matching fact when every alternative of its disjunctive form contains one:
	// for plain conditions and conjunctions this is "some conjunct matches"; the true edge of
	// `a || b` implies the fact only if both a and b do
	// (matchers written against the undivided condition keep working: the conjunctive reading is tried too)
	alt, conj := f.EdgesImplying(match), f.guardEdgesConj(match)
	return func(b *cfg.Block, s int) bool { return conj(b, s) || alt(b, s) }
}

func (f *FuncInfo) guardEdgesConj(match func(Fact) bool) func(*cfg.Block, int) bool {
	cache := map[*cfg.Block][2]int8{}
	return func(b *cfg.Block, s int) bool {
		if s > 1 {
			return false
		}
		v, ok := cache[b]
		if !ok {
			for i := 0; i < 2; i++ {
				v[i] = -1
				for _, ft := range f.EdgeFacts(b, i) {
					if match(ft) {
						v[i] = 1
						break
					}
				}
			}
			cache[b] = v
		}
		return v[s] == 1
	}
}

// GuardedBy: every path from entry to `to` takes an edge implying a fact accepted by match.
// Returns ok and a witness path that avoids all such edges otherwise.
func (f *FuncInfo) GuardedBy(to Point, match func(Fact) bool) (bool, []Point) {
	reach, path := f.ReachableAvoiding(to, nil, f.GuardEdges(match))
	return !reach, path
}

// GuardedBetween: every path from `from` (exclusive) to `to` takes an edge implying a matching fact.
func (f *FuncInfo) GuardedBetween(from, to Point, match func(Fact) bool) (bool, []Point) {
	path, found := PathQuery{F: f, From: from, FromAfter: true, Target: PointSet(to), AvoidEdge: f.GuardEdges(match)}.Find()
	return !found, path
}

// ---------------------------------------------------------------------------
// Comparison normalisation

// Cmp is a comparison in canonical orientation: L op R with op in {==, !=, <, <=}.
type Cmp struct {
	L, R ast.Expr
	Op   token.Token
}

// NormCmp brings a fact "expr has truth" to a canonical comparison. Handles
// !, operand order (> becomes < with swapped sides) and negation by truth=false.
// A bare boolean expression b is returned as b == true / b == false with R nil.
func NormCmp(ft Fact) (Cmp, bool) {
	e := ast.Unparen(ft.Expr)
	truth := ft.Truth
	for {
		u, ok := e.(*ast.UnaryExpr)
		if !ok || u.Op != token.NOT {
			break
		}
		e = ast.Unparen(u.X)
		truth = !truth
	}
	be, ok := e.(*ast.BinaryExpr)
	if !ok {
		op := token.EQL
		if !truth {
			op = token.NEQ
		}
		return Cmp{L: e, R: nil, Op: op}, true
	}
	l, r, op := be.X, be.Y, be.Op
	if !truth {
		switch op {
		case token.EQL:
			op = token.NEQ
		case token.NEQ:
			op = token.EQL
		case token.LSS:
			op = token.GEQ
		case token.LEQ:
			op = token.GTR
		case token.GTR:
			op = token.LEQ
		case token.GEQ:
			op = token.LSS
		default:
			return Cmp{}, false
		}
	}
	switch op {
	case token.GTR:
		l, r, op = r, l, token.LSS
	case token.GEQ:
		l, r, op = r, l, token.LEQ
	case token.EQL, token.NEQ:
		// symmetric operators: a literal operand (nil, 0, "x") goes to the right, so that
		// `nil == p` and `p == nil` are the same comparison
		if literalLike(l) && !literalLike(r) {
			l, r = r, l
		}
	case token.LSS, token.LEQ:
	default:
		return Cmp{}, false
	}
	return Cmp{L: ast.Unparen(l), R: ast.Unparen(r), Op: op}, true
}

func literalLike(e ast.Expr) bool {
	switch x := ast.Unparen(e).(type) {
	case *ast.BasicLit:
		return true
	case *ast.Ident:
		return x.Name == "nil" || x.Name == "true" || x.Name == "false"
	case *ast.UnaryExpr:
		return (x.Op == token.SUB || x.Op == token.ADD) && literalLike(x.X)
	}
	return false
}

// ConstVal returns the constant value of e, if it is a typed or untyped constant expression.
func ConstVal(info *types.Info, e ast.Expr) (constant.Value, bool) {
	if e == nil {
		return nil, false
	}
	tv, ok := info.Types[e]
	if !ok || tv.Value == nil {
		return nil, false
	}
	return tv.Value, true
}

// IsConstInt says whether e is a constant with the given integer value.
func IsConstInt(info *types.Info, e ast.Expr, v int64) bool {
	c, ok := ConstVal(info, e)
	if !ok {
		return false
	}
	c = constant.ToInt(c)
	if c.Kind() != constant.Int {
		return false
	}
	return constant.Compare(c, token.EQL, constant.MakeInt64(v))
}

// IsNil says whether e is the predeclared nil.
func IsNil(info *types.Info, e ast.Expr) bool {
	if e == nil {
		return false
	}
	id, ok := ast.Unparen(e).(*ast.Ident)
	if !ok {
		return false
	}
	_, isNil := info.Uses[id].(*types.Nil)
	return isNil
}

// StripConv removes type conversions and parentheses around an expression: T(x) -> x.
func StripConv(info *types.Info, e ast.Expr) ast.Expr {
	for {
		e = ast.Unparen(e)
		call, ok := e.(*ast.CallExpr)
		if !ok || len(call.Args) != 1 {
			return e
		}
		if tv, ok := info.Types[call.Fun]; ok && tv.IsType() {
			e = call.Args[0]
			continue
		}
		return e
	}
}
