package core

import (
	"go/ast"
	"go/token"
	"go/types"
	"sort"

	"golang.org/x/tools/go/cfg"
)

// Lock levels.
const (
	LNone  int8 = 0
	LRead  int8 = 1
	LWrite int8 = 2
)

// LockSpec instantiates the T1 lockset rule for a family of types in some packages.
type LockSpec struct {
	Pkgs     []string          // packages whose functions are analysed (module-relative)
	Guarded  map[string]string // guarded field (canonical name) -> mutex field (canonical name)
	Alias    map[string]string // mutex field -> canonical mutex field it points to (e.g. iterator.lock -> reader.lock)
	Mutating func(callee string) bool
	// SyncCallees: callees that invoke a function-literal argument synchronously
	// (the literal then inherits the lock state of the call site).
	SyncCallees map[string]bool
	// AssumeHeld: functions documented as "called under lock" whose external callers are trusted:
	// name -> mutex -> level. Used sparingly; each entry needs a reason in the rule table.
	AssumeHeld map[string]map[string]int8
	// ReadFree: guarded fields whose plain reads need no lock (immutable pointer to an
	// internally synchronised object); only writes / mutating calls need the write lock.
	ReadFree map[string]bool
}

// LState is the lock state: level per canonical mutex field name.
type LState map[string]int8

func (s LState) clone() LState {
	o := LState{}
	for k, v := range s {
		o[k] = v
	}
	return o
}

func meet(a, b LState) LState {
	o := LState{}
	for k, v := range a {
		if w, ok := b[k]; ok {
			if w < v {
				v = w
			}
			if v > 0 {
				o[k] = v
			}
		}
	}
	return o
}

func equalState(a, b LState) bool {
	if len(a) != len(b) {
		return false
	}
	for k, v := range a {
		if b[k] != v {
			return false
		}
	}
	return true
}

// Access is one access to a guarded field.
type Access struct {
	F        *FuncInfo
	Field    string
	Mutex    string
	Write    bool
	Held     int8
	Pos      token.Pos
	How      string // "assign", "map-store", "delete", "call <callee>", "read"
	ReadFree bool
}

// OK says whether the access holds the required level.
func (a Access) OK() bool {
	if a.Write {
		return a.Held >= LWrite
	}
	return a.ReadFree || a.Held >= LRead
}

// ExitHeld is a return reached with a lock still held that the function acquired itself and did not defer-release.
type ExitHeld struct {
	F     *FuncInfo
	Mutex string
	Pos   token.Pos
}

// LockResult of the analysis.
type LockResult struct {
	Accesses  []Access
	ExitHeld  []ExitHeld
	Entry     map[*FuncInfo]LState
	Analysed  []*FuncInfo
	Acquires  int
	CallEdges int
	// Sections: per function, number of distinct acquire operations (lock regions) per mutex
	Sections map[*FuncInfo]map[string]int
	// CallIns: for each analysed callee, the lock state at each of its call sites
	CallIns map[*FuncInfo][]CallIn
}

// CallIn is the lock state at one call site of a helper.
type CallIn struct {
	Caller *FuncInfo
	State  LState
	Pos    token.Pos
}

type lockAnalysis struct {
	p     *Prog
	spec  LockSpec
	funcs []*FuncInfo
	inSet map[*FuncInfo]bool
	entry map[*FuncInfo]LState
	top   map[*FuncInfo]bool // entry still at ⊤ (no call site seen yet)
	// literal bound to a local variable
	litOfVar map[*types.Var]*FuncInfo
	res      *LockResult
	evCache  map[ast.Node][]lkEvent
	collect  bool
	callIn   map[*FuncInfo][]LState
}

// canonical mutex name of a lock receiver expression, or "".
func (a *lockAnalysis) mutexOf(f *FuncInfo, recv ast.Expr, call *ast.CallExpr) string {
	// explicit field: x.mu.Lock()
	if recv != nil {
		if sel, ok := ast.Unparen(recv).(*ast.SelectorExpr); ok {
			if s, ok := f.Info().Selections[sel]; ok {
				if v, ok := s.Obj().(*types.Var); ok && v.IsField() {
					return a.canonMutex(a.p.FieldName(v))
				}
			}
		}
		// &x.mu or local alias: not supported -> fallthrough to embedded case
	}
	// embedded mutex: p.Lock() where p's struct embeds sync.Mutex
	if sel, ok := ast.Unparen(call.Fun).(*ast.SelectorExpr); ok {
		if s, ok := f.Info().Selections[sel]; ok && len(s.Index()) > 1 {
			t := s.Recv()
			var fld *types.Var
			for _, ix := range s.Index()[:len(s.Index())-1] {
				if pt, ok := t.Underlying().(*types.Pointer); ok {
					t = pt.Elem()
				}
				st, ok := t.Underlying().(*types.Struct)
				if !ok {
					return ""
				}
				fld = st.Field(ix)
				t = fld.Type()
			}
			if fld != nil {
				return a.canonMutex(a.p.FieldName(fld))
			}
		}
	}
	return ""
}

func (a *lockAnalysis) canonMutex(name string) string {
	for i := 0; i < 4; i++ {
		if t, ok := a.spec.Alias[name]; ok {
			name = t
			continue
		}
		break
	}
	return name
}

func lockOp(name string) (level int8, acquire, ok bool) {
	switch name {
	case "sync.Mutex.Lock", "sync.RWMutex.Lock", "sync.Locker.Lock":
		return LWrite, true, true
	case "sync.RWMutex.RLock":
		return LRead, true, true
	case "sync.Mutex.Unlock", "sync.RWMutex.Unlock", "sync.Locker.Unlock":
		return LWrite, false, true
	case "sync.RWMutex.RUnlock":
		return LRead, false, true
	}
	return 0, false, false
}

// event kinds inside one CFG node, in source order
type lkEvent struct {
	pos     token.Pos
	kind    int // 0 lockop, 1 access, 2 call, 3 literal
	mutex   string
	level   int8
	acq     bool
	defer_  bool
	go_     bool // with defer_: the call is started with `go` (runs with no lock held)
	acc     Access
	callee  *FuncInfo
	lit     *FuncInfo
	litSync bool
}

func (a *lockAnalysis) eventsOf(f *FuncInfo, n ast.Node) []lkEvent {
	if evs, ok := a.evCache[n]; ok {
		return evs
	}
	evs := a.eventsOf1(f, n)
	a.evCache[n] = evs
	return evs
}

func (a *lockAnalysis) eventsOf1(f *FuncInfo, n ast.Node) []lkEvent {
	var evs []lkEvent
	info := f.Info()
	inDefer := false
	if _, ok := n.(*ast.DeferStmt); ok {
		inDefer = true
	}
	inGo := false
	if _, ok := n.(*ast.GoStmt); ok {
		inGo = true
	}
	// classify write contexts
	writeSel := map[ast.Expr]string{}
	markLHS := func(e ast.Expr, how string) {
		for {
			e = ast.Unparen(e)
			switch x := e.(type) {
			case *ast.StarExpr:
				e = x.X
				continue
			case *ast.IndexExpr:
				writeSel[ast.Unparen(x.X)] = "map/slice-store"
				e = x.X
				// a[i] = v writes the container held in the field, not necessarily the field; treat as write
				how = "map/slice-store"
				continue
			}
			break
		}
		if _, ok := e.(*ast.SelectorExpr); ok {
			if _, dup := writeSel[e]; !dup {
				writeSel[e] = how
			}
		}
	}
	var walk func(n ast.Node)
	walk = func(n ast.Node) {
		ast.Inspect(n, func(m ast.Node) bool {
			switch x := m.(type) {
			case *ast.FuncLit:
				li := a.p.LitInfo(x)
				if li != nil {
					evs = append(evs, lkEvent{pos: x.Pos(), kind: 3, lit: li})
				}
				return false
			case *ast.AssignStmt:
				for _, l := range x.Lhs {
					markLHS(l, "assign")
				}
			case *ast.IncDecStmt:
				markLHS(x.X, "assign")
			case *ast.UnaryExpr:
				if x.Op == token.AND {
					// &x.f : address taken; conservative: not an access by itself
				}
			case *ast.CallExpr:
				obj, _ := a.p.ResolveCallee(info, x)
				name := a.p.ObjName(obj)
				if lvl, acq, ok := lockOp(name); ok {
					var recv ast.Expr
					if sel, ok := ast.Unparen(x.Fun).(*ast.SelectorExpr); ok {
						recv = sel.X
					}
					mu := a.mutexOf(f, recv, x)
					if mu != "" {
						evs = append(evs, lkEvent{pos: x.End(), kind: 0, mutex: mu, level: lvl, acq: acq, defer_: inDefer})
					}
					return true
				}
				if b, ok := obj.(*types.Builtin); ok && b.Name() == "delete" && len(x.Args) > 0 {
					writeSel[ast.Unparen(x.Args[0])] = "delete"
				}
				// mutating method call on a guarded field value: x.f.M(...)
				if sel, ok := ast.Unparen(x.Fun).(*ast.SelectorExpr); ok && a.spec.Mutating != nil && name != "" && a.spec.Mutating(name) {
					writeSel[ast.Unparen(sel.X)] = "call " + name
				}
				if fn, ok := obj.(*types.Func); ok {
					if ci := a.p.FuncOf(fn); ci != nil && a.inSet[ci] {
						evs = append(evs, lkEvent{pos: x.End(), kind: 2, callee: ci, defer_: inDefer || inGo, go_: inGo})
					}
				} else if v, ok := obj.(*types.Var); ok {
					if li := a.litOfVar[v]; li != nil {
						evs = append(evs, lkEvent{pos: x.End(), kind: 2, callee: li, defer_: inDefer || inGo, go_: inGo})
					}
				}
				// literal arguments to synchronous callees
				for _, arg := range x.Args {
					if lit, ok := ast.Unparen(arg).(*ast.FuncLit); ok {
						if li := a.p.LitInfo(lit); li != nil && a.spec.SyncCallees[name] && !inDefer && !inGo {
							evs = append(evs, lkEvent{pos: lit.Pos() - 1, kind: 3, lit: li, litSync: true})
						}
					}
				}
				if lit, ok := ast.Unparen(x.Fun).(*ast.FuncLit); ok && !inDefer && !inGo {
					if li := a.p.LitInfo(lit); li != nil {
						evs = append(evs, lkEvent{pos: lit.Pos() - 1, kind: 3, lit: li, litSync: true})
					}
				}
			case *ast.SelectorExpr:
				if s, ok := info.Selections[x]; ok {
					if v, ok := s.Obj().(*types.Var); ok && v.IsField() {
						fname := a.p.FieldName(v)
						if mu, ok := a.spec.Guarded[fname]; ok {
							how, w := writeSel[ast.Expr(x)]
							if !w {
								how = "read"
							}
							evs = append(evs, lkEvent{pos: x.End(), kind: 1, acc: Access{F: f, Field: fname, Mutex: a.canonMutex(mu), Write: w, Pos: x.Pos(), How: how, ReadFree: a.spec.ReadFree[fname]}})
						}
					}
				}
			}
			return true
		})
	}
	walk(n)
	sort.SliceStable(evs, func(i, j int) bool { return evs[i].pos < evs[j].pos })
	return evs
}

// analyseFunc runs the forward dataflow for one function with the given entry state.
func (a *lockAnalysis) analyseFunc(f *FuncInfo, entry LState) {
	g := f.CFG()
	in := map[*cfg.Block]LState{}
	deferred := map[*cfg.Block]map[string]bool{}
	in[g.Blocks[0]] = entry.clone()
	deferred[g.Blocks[0]] = map[string]bool{}
	work := []*cfg.Block{g.Blocks[0]}
	inWork := map[*cfg.Block]bool{g.Blocks[0]: true}
	type outSt struct {
		st  LState
		def map[string]bool
	}
	transfer := func(b *cfg.Block, record bool) outSt {
		st := in[b].clone()
		def := map[string]bool{}
		for k := range deferred[b] {
			def[k] = true
		}
		for _, n := range b.Nodes {
			for _, ev := range a.eventsOf(f, n) {
				switch ev.kind {
				case 0:
					if ev.defer_ {
						if !ev.acq {
							def[ev.mutex] = true
						}
						continue
					}
					if ev.acq {
						st[ev.mutex] = ev.level
						if record {
							a.res.Acquires++
							if a.res.Sections[f] == nil {
								a.res.Sections[f] = map[string]int{}
							}
							a.res.Sections[f][ev.mutex]++
						}
					} else {
						delete(st, ev.mutex)
					}
				case 1:
					if record {
						acc := ev.acc
						acc.Held = st[acc.Mutex]
						a.res.Accesses = append(a.res.Accesses, acc)
					}
				case 2:
					// go calls run with no lock held. A deferred call runs at function exit, before the
					// deferred unlocks that were registered earlier (LIFO): it holds exactly the locks that
					// are held now and whose release is already deferred.
					cst := st.clone()
					if ev.defer_ {
						cst = LState{}
						if !ev.go_ {
							for mu, lvl := range st {
								if def[mu] {
									cst[mu] = lvl
								}
							}
						}
					}
					a.callIn[ev.callee] = append(a.callIn[ev.callee], cst.clone())
					if record {
						a.res.CallEdges++
						a.res.CallIns[ev.callee] = append(a.res.CallIns[ev.callee], CallIn{Caller: f, State: cst, Pos: ev.pos})
					}
				case 3:
					if ev.litSync {
						a.callIn[ev.lit] = append(a.callIn[ev.lit], st.clone())
					}
				}
			}
			if ret, ok := n.(*ast.ReturnStmt); ok && record {
				for mu, lvl := range st {
					if lvl > entry[mu] && !def[mu] {
						a.res.ExitHeld = append(a.res.ExitHeld, ExitHeld{F: f, Mutex: mu, Pos: ret.Pos()})
					}
				}
			}
		}
		return outSt{st, def}
	}
	for len(work) > 0 {
		b := work[0]
		work = work[1:]
		inWork[b] = false
		out := transfer(b, false)
		for _, s := range b.Succs {
			old, seen := in[s]
			var nw LState
			if !seen {
				nw = out.st.clone()
			} else {
				nw = meet(old, out.st)
			}
			nd := map[string]bool{}
			if !seen {
				for k := range out.def {
					nd[k] = true
				}
			} else {
				for k := range deferred[s] {
					if out.def[k] {
						nd[k] = true
					}
				}
			}
			if !seen || !equalState(old, nw) || len(nd) != len(deferred[s]) {
				in[s] = nw
				deferred[s] = nd
				if !inWork[s] {
					inWork[s] = true
					work = append(work, s)
				}
			}
		}
	}
	if a.collect {
		for _, b := range g.Blocks {
			if _, ok := in[b]; ok && b.Live {
				transfer(b, true)
			}
		}
	}
}

// RunLockset performs the interprocedural lockset analysis.
func RunLockset(p *Prog, spec LockSpec) *LockResult {
	a := &lockAnalysis{p: p, spec: spec, inSet: map[*FuncInfo]bool{}, entry: map[*FuncInfo]LState{}, top: map[*FuncInfo]bool{}, litOfVar: map[*types.Var]*FuncInfo{}, evCache: map[ast.Node][]lkEvent{}}
	a.res = &LockResult{Entry: a.entry, Sections: map[*FuncInfo]map[string]int{}, CallIns: map[*FuncInfo][]CallIn{}}
	pkgSet := map[string]bool{}
	for _, k := range spec.Pkgs {
		pkgSet[k] = true
	}
	for _, f := range p.Funcs() {
		if pkgSet[RelPkg(f.Pkg.PkgPath)] {
			a.funcs = append(a.funcs, f)
			a.inSet[f] = true
		}
	}
	// literals bound once to a local variable: v := func(){...}
	for _, f := range a.funcs {
		f.InspectOwn(func(n ast.Node) bool {
			as, ok := n.(*ast.AssignStmt)
			if !ok || len(as.Lhs) != len(as.Rhs) {
				return true
			}
			for i, r := range as.Rhs {
				lit, ok := ast.Unparen(r).(*ast.FuncLit)
				if !ok {
					continue
				}
				id, ok := as.Lhs[i].(*ast.Ident)
				if !ok {
					continue
				}
				if v, ok := f.Info().ObjectOf(id).(*types.Var); ok && as.Tok == token.DEFINE {
					a.litOfVar[v] = p.LitInfo(lit)
				}
			}
			return true
		})
	}
	// all mutexes mentioned
	allMu := map[string]bool{}
	for _, m := range spec.Guarded {
		allMu[a.canonMutex(m)] = true
	}
	topState := func() LState {
		s := LState{}
		for m := range allMu {
			s[m] = LWrite
		}
		return s
	}
	// initial entry: ⊤ for unexported functions and literals (refined from call sites), none for exported
	for _, f := range a.funcs {
		if ah, ok := spec.AssumeHeld[f.Name]; ok {
			s := LState{}
			for m, l := range ah {
				s[a.canonMutex(m)] = l
			}
			a.entry[f] = s
			continue
		}
		if f.Obj != nil && f.Obj.Exported() {
			a.entry[f] = LState{}
		} else if f.Obj != nil && isMethodOfInterfaceShape(f) {
			a.entry[f] = LState{}
		} else {
			a.entry[f] = topState()
			a.top[f] = true
		}
	}
	for iter := 0; iter < 20; iter++ {
		a.callIn = map[*FuncInfo][]LState{}
		for _, f := range a.funcs {
			a.analyseFunc(f, a.entry[f])
		}
		changed := false
		for _, f := range a.funcs {
			if _, fixed := spec.AssumeHeld[f.Name]; fixed {
				continue
			}
			if !a.top[f] {
				continue
			}
			ins := a.callIn[f]
			var nw LState
			if len(ins) == 0 {
				nw = LState{} // no known caller: nothing is held
			} else {
				nw = ins[0].clone()
				for _, s := range ins[1:] {
					nw = meet(nw, s)
				}
			}
			// only decrease
			nw = meet(nw, a.entry[f])
			if !equalState(nw, a.entry[f]) {
				a.entry[f] = nw
				changed = true
			}
		}
		if !changed {
			break
		}
	}
	a.collect = true
	a.callIn = map[*FuncInfo][]LState{}
	for _, f := range a.funcs {
		a.analyseFunc(f, a.entry[f])
	}
	a.res.Analysed = a.funcs
	return a.res
}

// unexported methods with well-known interface names (Len/Less/Swap etc.) are not special-cased;
// placeholder for future use.
func isMethodOfInterfaceShape(f *FuncInfo) bool { return false }
