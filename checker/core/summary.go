package core

import (
	"go/ast"
	"go/token"
	"go/types"
)

// SitesMust returns the points of f at which an effect certainly happens: call sites satisfying pred,
// plus calls of module functions (declared functions/methods of the loaded module, not through
// interfaces) every returning path of which passes such a point (recursively, bounded depth). A helper
// extracted from a block therefore counts as the effect it always performs ("a wrapper that always
// takes the lock is an acquire").
func (f *FuncInfo) SitesMust(pred func(*CallSite) bool, depth int) []Point {
	memo := map[*FuncInfo]int{} // 0 unknown, 1 always, 2 not always, 3 in progress
	var always func(g *FuncInfo, d int) bool
	var sites func(g *FuncInfo, d int) []Point
	sites = func(g *FuncInfo, d int) []Point {
		var out []Point
		for _, cs := range g.Calls() {
			if cs.InGo {
				continue
			}
			if pred(cs) {
				out = append(out, cs.Pt)
				continue
			}
			if d <= 0 {
				continue
			}
			if fn, ok := cs.Callee.(*types.Func); ok {
				if ci := g.P.FuncOf(fn); ci != nil && ci != g && always(ci, d-1) {
					out = append(out, cs.Pt)
				}
			}
		}
		return out
	}
	always = func(g *FuncInfo, d int) bool {
		switch memo[g] {
		case 1:
			return true
		case 2, 3:
			return false
		}
		memo[g] = 3
		pts := sites(g, d)
		ok := len(pts) > 0
		if ok {
			_, found := PathQuery{F: g, From: g.Entry(), Avoid: PointSet(pts...), TargetExit: true}.Find()
			ok = !found
		}
		if ok {
			memo[g] = 1
		} else {
			memo[g] = 2
		}
		return ok
	}
	return sites(f, depth)
}

// SitesMay returns the points of f at which an effect may happen: call sites satisfying pred plus calls
// of module functions that (transitively, bounded depth) contain such a site.
func (f *FuncInfo) SitesMay(pred func(*CallSite) bool, depth int) []Point {
	memo := map[*FuncInfo]int{}
	var may func(g *FuncInfo, d int) bool
	var sites func(g *FuncInfo, d int) []Point
	sites = func(g *FuncInfo, d int) []Point {
		var out []Point
		for _, cs := range g.Calls() {
			if pred(cs) {
				out = append(out, cs.Pt)
				continue
			}
			if d <= 0 {
				continue
			}
			if fn, ok := cs.Callee.(*types.Func); ok {
				if ci := g.P.FuncOf(fn); ci != nil && ci != g && may(ci, d-1) {
					out = append(out, cs.Pt)
				}
			}
		}
		return out
	}
	may = func(g *FuncInfo, d int) bool {
		switch memo[g] {
		case 1:
			return true
		case 2, 3:
			return false
		}
		memo[g] = 3
		ok := len(sites(g, d)) > 0
		if !ok {
			for _, l := range g.Lits() {
				if may(l, d) {
					ok = true
				}
			}
		}
		if ok {
			memo[g] = 1
		} else {
			memo[g] = 2
		}
		return ok
	}
	return sites(f, depth)
}

// SharedCapture is a deferred-use function literal, created inside a loop, that refers to a variable
// which is declared outside that loop but assigned inside it: all the literals created by the loop
// share the variable and see whatever value it holds when they finally run.
type SharedCapture struct {
	F    *FuncInfo
	Lit  *ast.FuncLit
	Var  *types.Var
	Pos  token.Pos
	Loop ast.Stmt
}

// SharedVarCaptures finds such captures in f's own body (for every Go version: a variable declared
// outside the loop is shared regardless of loop-variable semantics).
func SharedVarCaptures(f *FuncInfo) []SharedCapture {
	info := f.Info()
	var out []SharedCapture
	var loops []ast.Stmt
	f.InspectOwn(func(n ast.Node) bool {
		switch n.(type) {
		case *ast.ForStmt, *ast.RangeStmt:
			loops = append(loops, n.(ast.Stmt))
		}
		return true
	})
	for _, lp := range loops {
		var body *ast.BlockStmt
		switch s := lp.(type) {
		case *ast.ForStmt:
			body = s.Body
		case *ast.RangeStmt:
			body = s.Body
		}
		if body == nil {
			continue
		}
		// variables (with the first field of the path, "" = the whole variable) assigned inside the loop
		// body (own statements, not nested literals) but declared before the loop
		assigned := map[*types.Var]map[string]bool{}
		ast.Inspect(body, func(n ast.Node) bool {
			switch x := n.(type) {
			case *ast.FuncLit:
				return false
			case *ast.AssignStmt:
				for _, l := range x.Lhs {
					root := ast.Unparen(l)
					field := ""
					for {
						switch y := root.(type) {
						case *ast.SelectorExpr:
							field = y.Sel.Name
							root = ast.Unparen(y.X)
							continue
						case *ast.IndexExpr:
							field = ""
							root = ast.Unparen(y.X)
							continue
						}
						break
					}
					if id, ok := root.(*ast.Ident); ok {
						if v, ok := info.ObjectOf(id).(*types.Var); ok && !v.IsField() && v.Pos() < lp.Pos() && v.Pkg() != nil && v.Parent() != v.Pkg().Scope() {
							if _, isPtr := v.Type().Underlying().(*types.Pointer); isPtr && field != "" {
								continue // store through a pointer: the variable itself is not reassigned
							}
							if assigned[v] == nil {
								assigned[v] = map[string]bool{}
							}
							assigned[v][field] = true
						}
					}
				}
			}
			return true
		})
		if len(assigned) == 0 {
			continue
		}
		immediate := map[*ast.FuncLit]bool{}
		ast.Inspect(body, func(n ast.Node) bool {
			if call, ok := n.(*ast.CallExpr); ok {
				if lit, ok := ast.Unparen(call.Fun).(*ast.FuncLit); ok {
					immediate[lit] = true
				}
			}
			return true
		})
		ast.Inspect(body, func(n ast.Node) bool {
			switch x := n.(type) {
			case *ast.GoStmt:
				if lit, ok := ast.Unparen(x.Call.Fun).(*ast.FuncLit); ok {
					delete(immediate, lit)
				}
			case *ast.DeferStmt:
				if lit, ok := ast.Unparen(x.Call.Fun).(*ast.FuncLit); ok {
					delete(immediate, lit)
				}
			}
			return true
		})
		ast.Inspect(body, func(n ast.Node) bool {
			lit, ok := n.(*ast.FuncLit)
			if !ok || immediate[lit] {
				return true
			}
			// uses inside the literal: v.f (field f) or v (whole)
			fieldUse := map[*ast.Ident]string{}
			ast.Inspect(lit.Body, func(m ast.Node) bool {
				if sel, ok := m.(*ast.SelectorExpr); ok {
					if id, ok := ast.Unparen(sel.X).(*ast.Ident); ok {
						fieldUse[id] = sel.Sel.Name
					}
				}
				return true
			})
			ast.Inspect(lit.Body, func(m ast.Node) bool {
				if id, ok := m.(*ast.Ident); ok {
					if v, ok := info.Uses[id].(*types.Var); ok && assigned[v] != nil {
						fu, isField := fieldUse[id]
						hazard := assigned[v][""] || !isField || assigned[v][fu]
						if hazard {
							out = append(out, SharedCapture{F: f, Lit: lit, Var: v, Pos: id.Pos(), Loop: lp})
							delete(assigned, v)
						}
					}
				}
				return true
			})
			return true
		})
	}
	return out
}
