// Package core is the facts layer shared by all rules: loading and
// type-checking /repo, object naming/resolution, per-function CFGs, path
// queries, branch-condition facts, the linear normaliser and the lockset
// analysis. Nothing here executes code of the analysed repository.
package core

import (
	"fmt"
	"go/ast"
	"go/token"
	"go/types"
	"os"
	"sort"
	"strings"

	"golang.org/x/tools/go/packages"
)

const ModPath = "github.com/Fantom-foundation/lachesis-base"

// Prog is the loaded, type-checked program (source packages of the module).
type Prog struct {
	Fset     *token.FileSet
	Pkgs     map[string]*packages.Package // keyed by path relative to the module ("abft", "kvdb/flushable", "" for root)
	All      []*packages.Package
	Repo     string
	GOARCH   string
	funcs    map[types.Object]*FuncInfo
	lits     map[*ast.FuncLit]*FuncInfo
	allFuncs []*FuncInfo
	fieldNm  map[*types.Var]string
	fieldOf  map[string]*types.Var
	built    map[string]bool
	roots    []*packages.Package
}

// LoadOpts selects what to load.
type LoadOpts struct {
	Repo     string
	Patterns []string          // package patterns relative to the repo ("./abft/...", "./...")
	Deps     bool              // load syntax of dependencies as well (LoadAllSyntax)
	GOARCH   string            // "" = host
	Overlay  map[string][]byte // in-memory replacement of files (positive controls)
	Tags     string
}

// Env returns the environment used for every go invocation (offline, no workspace).
func Env(goarch string) []string {
	env := os.Environ()
	env = append(env, "GOFLAGS=-mod=mod", "GOPROXY=off", "GOSUMDB=off", "GOTOOLCHAIN=local", "GOWORK=off")
	if goarch != "" {
		env = append(env, "GOARCH="+goarch, "CGO_ENABLED=0")
	}
	return env
}

// Load loads and type-checks the requested packages of the repository. Any
// load or type error is returned (a tree that does not type-check is never
// reported as satisfying a property).
func Load(o LoadOpts) (*Prog, error) {
	mode := packages.NeedName | packages.NeedFiles | packages.NeedCompiledGoFiles | packages.NeedImports |
		packages.NeedTypes | packages.NeedTypesSizes | packages.NeedSyntax | packages.NeedTypesInfo | packages.NeedModule
	if o.Deps {
		mode |= packages.NeedDeps
	}
	fset := token.NewFileSet()
	cfg := &packages.Config{
		Mode:    mode,
		Dir:     o.Repo,
		Fset:    fset,
		Env:     Env(o.GOARCH),
		Tests:   false,
		Overlay: o.Overlay,
	}
	if o.Tags != "" {
		cfg.BuildFlags = []string{"-tags=" + o.Tags}
	}
	pats := o.Patterns
	if len(pats) == 0 {
		pats = []string{"./..."}
	}
	pkgs, err := packages.Load(cfg, pats...)
	if err != nil {
		return nil, fmt.Errorf("packages.Load: %w", err)
	}
	if len(pkgs) == 0 {
		return nil, fmt.Errorf("no packages matched %v in %s", pats, o.Repo)
	}
	p := &Prog{
		Fset: fset, Pkgs: map[string]*packages.Package{}, Repo: o.Repo, GOARCH: o.GOARCH,
		funcs: map[types.Object]*FuncInfo{}, lits: map[*ast.FuncLit]*FuncInfo{},
		fieldNm: map[*types.Var]string{}, fieldOf: map[string]*types.Var{}, built: map[string]bool{},
	}
	var errs []string
	seen := map[string]bool{}
	var visit func(pk *packages.Package)
	visit = func(pk *packages.Package) {
		if seen[pk.PkgPath] {
			return
		}
		seen[pk.PkgPath] = true
		if strings.HasPrefix(pk.PkgPath, ModPath) {
			for _, e := range pk.Errors {
				errs = append(errs, e.Error())
			}
			if pk.Types == nil || pk.TypesInfo == nil || len(pk.Syntax) == 0 {
				if len(pk.GoFiles) > 0 {
					errs = append(errs, "package "+pk.PkgPath+" has no type information")
				}
			} else {
				rel := strings.TrimPrefix(strings.TrimPrefix(pk.PkgPath, ModPath), "/")
				p.Pkgs[rel] = pk
				p.All = append(p.All, pk)
			}
		}
		for _, imp := range pk.Imports {
			if strings.HasPrefix(imp.PkgPath, ModPath) && len(imp.Syntax) > 0 {
				visit(imp)
			}
		}
	}
	p.roots = pkgs
	for _, pk := range pkgs {
		visit(pk)
	}
	sort.Slice(p.All, func(i, j int) bool { return p.All[i].PkgPath < p.All[j].PkgPath })
	if len(errs) > 0 {
		sort.Strings(errs)
		if len(errs) > 8 {
			errs = append(errs[:8], fmt.Sprintf("... and %d more", len(errs)-8))
		}
		return nil, fmt.Errorf("type/load errors:\n  %s", strings.Join(errs, "\n  "))
	}
	if len(p.All) == 0 {
		return nil, fmt.Errorf("no module packages with syntax loaded for %v", pats)
	}
	return p, nil
}

// Pkg returns the package with the given module-relative path, or nil.
func (p *Prog) Pkg(rel string) *packages.Package { return p.Pkgs[rel] }

// Pos renders a position relative to the repository root.
func (p *Prog) Pos(pos token.Pos) string {
	if !pos.IsValid() {
		return "-"
	}
	ps := p.Fset.Position(pos)
	f := strings.TrimPrefix(ps.Filename, p.Repo+"/")
	return fmt.Sprintf("%s:%d", f, ps.Line)
}

// RelPkg gives the module-relative path of a package path (or the full path for foreign packages).
func RelPkg(path string) string {
	if path == ModPath {
		return ""
	}
	if strings.HasPrefix(path, ModPath+"/") {
		return strings.TrimPrefix(path, ModPath+"/")
	}
	return path
}

// FuncName is the canonical name of a function or method object:
// "<relpkg>.<Func>" or "<relpkg>.<Type>.<Method>" (no pointer star; interface
// methods use the interface in which the method is declared).
func FuncName(fn *types.Func) string {
	if fn == nil {
		return "<nil>"
	}
	pkg := ""
	if fn.Pkg() != nil {
		pkg = RelPkg(fn.Pkg().Path())
	}
	sig, _ := fn.Type().(*types.Signature)
	if sig != nil && sig.Recv() != nil {
		t := sig.Recv().Type()
		if pt, ok := t.(*types.Pointer); ok {
			t = pt.Elem()
		}
		switch tt := t.(type) {
		case *types.Named:
			return pkg + "." + tt.Obj().Name() + "." + fn.Name()
		case *types.Interface:
			// method of an unnamed interface (or embedded): find by origin
			return pkg + ".<iface>." + fn.Name()
		default:
			return pkg + "." + t.String() + "." + fn.Name()
		}
	}
	return pkg + "." + fn.Name()
}

// buildFieldNames indexes the struct fields of every named type of a package:
// "<relpkg>.<Type>.<field>[.<nested>]".
func (p *Prog) buildFieldNames(pk *types.Package) {
	if pk == nil || p.built[pk.Path()] {
		return
	}
	p.built[pk.Path()] = true
	rel := RelPkg(pk.Path())
	scope := pk.Scope()
	for _, nm := range scope.Names() {
		tn, ok := scope.Lookup(nm).(*types.TypeName)
		if !ok {
			continue
		}
		st, ok := tn.Type().Underlying().(*types.Struct)
		if !ok {
			continue
		}
		p.indexStruct(rel+"."+tn.Name(), st, 0)
	}
}

func (p *Prog) indexStruct(prefix string, st *types.Struct, depth int) {
	if depth > 4 {
		return
	}
	for i := 0; i < st.NumFields(); i++ {
		f := st.Field(i)
		name := prefix + "." + f.Name()
		if _, dup := p.fieldNm[f]; !dup {
			p.fieldNm[f] = name
			p.fieldOf[name] = f
		}
		// anonymous struct-typed fields (e.g. Store.cache struct{...})
		t := f.Type()
		if pt, ok := t.(*types.Pointer); ok {
			t = pt.Elem()
		}
		if inner, ok := t.(*types.Struct); ok {
			p.indexStruct(name, inner, depth+1)
		}
	}
}

// FieldName is the canonical name of a struct field object ("" if unknown).
func (p *Prog) FieldName(v *types.Var) string {
	if v == nil || !v.IsField() {
		return ""
	}
	if n, ok := p.fieldNm[v]; ok {
		return n
	}
	p.buildFieldNames(v.Pkg())
	return p.fieldNm[v]
}

// Field resolves "<relpkg>.<Type>.<field>" to the field object (nil if it does not resolve).
func (p *Prog) Field(name string) *types.Var {
	if v, ok := p.fieldOf[name]; ok {
		return v
	}
	// find package: longest prefix that is a loaded package
	for rel, pk := range p.Pkgs {
		if strings.HasPrefix(name, rel+".") {
			p.buildFieldNames(pk.Types)
		}
	}
	return p.fieldOf[name]
}

// ObjName names any object: functions via FuncName, fields via FieldName,
// package-level objects as "<relpkg>.<Name>", locals as their name.
func (p *Prog) ObjName(o types.Object) string {
	switch o := o.(type) {
	case nil:
		return ""
	case *types.Func:
		return FuncName(o)
	case *types.Var:
		if o.IsField() {
			if n := p.FieldName(o); n != "" {
				return n
			}
			return "?." + o.Name()
		}
		if o.Pkg() != nil && o.Parent() == o.Pkg().Scope() {
			return RelPkg(o.Pkg().Path()) + "." + o.Name()
		}
		return o.Name()
	case *types.Builtin:
		return "builtin." + o.Name()
	default:
		if o.Pkg() != nil && o.Parent() == o.Pkg().Scope() {
			return RelPkg(o.Pkg().Path()) + "." + o.Name()
		}
		return o.Name()
	}
}

// LookupFunc resolves "<relpkg>.<Func>" or "<relpkg>.<Type>.<Method>" in the loaded module packages.
func (p *Prog) LookupFunc(name string) *types.Func {
	// choose the longest package path that prefixes name
	best := ""
	var bpk *packages.Package
	found := false
	for rel, pk := range p.Pkgs {
		if strings.HasPrefix(name, rel+".") && (len(rel) >= len(best) || !found) {
			rest := name[len(rel)+1:]
			if strings.Contains(rest, "/") {
				continue
			}
			if !found || len(rel) > len(best) {
				best, bpk, found = rel, pk, true
			}
		}
	}
	if !found {
		return nil
	}
	rest := name[len(best)+1:]
	parts := strings.Split(rest, ".")
	scope := bpk.Types.Scope()
	switch len(parts) {
	case 1:
		fn, _ := scope.Lookup(parts[0]).(*types.Func)
		return fn
	case 2:
		tn, _ := scope.Lookup(parts[0]).(*types.TypeName)
		if tn == nil {
			return nil
		}
		obj, _, _ := types.LookupFieldOrMethod(tn.Type(), true, bpk.Types, parts[1])
		fn, _ := obj.(*types.Func)
		return fn
	}
	return nil
}

// LookupType resolves "<relpkg>.<Type>".
func (p *Prog) LookupType(name string) *types.TypeName {
	i := strings.LastIndex(name, ".")
	if i < 0 {
		return nil
	}
	pk := p.Pkgs[name[:i]]
	if pk == nil {
		return nil
	}
	tn, _ := pk.Types.Scope().Lookup(name[i+1:]).(*types.TypeName)
	return tn
}

// LookupConst resolves a package-level constant "<relpkg>.<Name>".
func (p *Prog) LookupConst(name string) *types.Const {
	i := strings.LastIndex(name, ".")
	if i < 0 {
		return nil
	}
	pk := p.Pkgs[name[:i]]
	if pk == nil {
		return nil
	}
	c, _ := pk.Types.Scope().Lookup(name[i+1:]).(*types.Const)
	return c
}
