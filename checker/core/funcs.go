package core

import (
	"fmt"
	"go/ast"
	"go/token"
	"go/types"
	"sort"

	"golang.org/x/tools/go/cfg"
	"golang.org/x/tools/go/packages"
	"golang.org/x/tools/go/types/typeutil"
)

// FuncInfo is one source function: a declaration or a function literal.
type FuncInfo struct {
	P      *Prog
	Pkg    *packages.Package
	Obj    *types.Func // nil for literals
	Decl   *ast.FuncDecl
	Lit    *ast.FuncLit
	Parent *FuncInfo // enclosing function for literals
	Name   string    // canonical name; literals: parent$N
	Body   *ast.BlockStmt
	Type   *ast.FuncType

	cfg      *cfg.CFG
	nodeAt   map[ast.Node]Point
	calls    []*CallSite
	callsOK  bool
	lits     []*FuncInfo
	swOfCase map[*ast.CaseClause]*ast.SwitchStmt
}

// Info is the type information of the function's package.
func (f *FuncInfo) Info() *types.Info { return f.Pkg.TypesInfo }

// Pos of the function.
func (f *FuncInfo) Pos() token.Pos {
	if f.Decl != nil {
		return f.Decl.Pos()
	}
	return f.Lit.Pos()
}

func (f *FuncInfo) String() string { return f.Name }

// indexFuncs builds FuncInfo for every declaration and literal of the loaded module packages.
func (p *Prog) indexFuncs() {
	if p.allFuncs != nil {
		return
	}
	for _, pk := range p.All {
		for _, file := range pk.Syntax {
			for _, d := range file.Decls {
				fd, ok := d.(*ast.FuncDecl)
				if !ok || fd.Body == nil {
					continue
				}
				obj, _ := pk.TypesInfo.Defs[fd.Name].(*types.Func)
				if obj == nil {
					continue
				}
				fi := &FuncInfo{P: p, Pkg: pk, Obj: obj, Decl: fd, Name: FuncName(obj), Body: fd.Body, Type: fd.Type}
				p.funcs[obj] = fi
				p.allFuncs = append(p.allFuncs, fi)
				p.indexLits(fi)
			}
			// literals in package-level var initialisers
			for _, d := range file.Decls {
				gd, ok := d.(*ast.GenDecl)
				if !ok {
					continue
				}
				n := 0
				ast.Inspect(gd, func(nd ast.Node) bool {
					if lit, ok := nd.(*ast.FuncLit); ok {
						n++
						fi := &FuncInfo{P: p, Pkg: pk, Lit: lit, Name: fmt.Sprintf("%s.init$%d@%d", RelPkg(pk.PkgPath), n, p.Fset.Position(lit.Pos()).Line), Body: lit.Body, Type: lit.Type}
						p.lits[lit] = fi
						p.allFuncs = append(p.allFuncs, fi)
						p.indexLits(fi)
						return false
					}
					return true
				})
			}
		}
	}
}

func (p *Prog) indexLits(parent *FuncInfo) {
	n := 0
	ast.Inspect(parent.Body, func(nd ast.Node) bool {
		if lit, ok := nd.(*ast.FuncLit); ok {
			n++
			fi := &FuncInfo{P: p, Pkg: parent.Pkg, Lit: lit, Parent: parent, Name: fmt.Sprintf("%s$%d", parent.Name, n), Body: lit.Body, Type: lit.Type}
			p.lits[lit] = fi
			p.allFuncs = append(p.allFuncs, fi)
			parent.lits = append(parent.lits, fi)
			p.indexLits(fi)
			return false
		}
		return true
	})
}

// Funcs returns all source functions (declarations and literals), sorted by name.
func (p *Prog) Funcs() []*FuncInfo {
	p.indexFuncs()
	out := append([]*FuncInfo(nil), p.allFuncs...)
	sort.Slice(out, func(i, j int) bool { return out[i].Name < out[j].Name })
	return out
}

// Func resolves a canonical function name to its FuncInfo (nil if absent or without body).
func (p *Prog) Func(name string) *FuncInfo {
	p.indexFuncs()
	obj := p.LookupFunc(name)
	if obj == nil {
		return nil
	}
	return p.funcs[obj]
}

// FuncOf returns the FuncInfo of a function object (nil if not a source function of the module).
func (p *Prog) FuncOf(obj *types.Func) *FuncInfo {
	p.indexFuncs()
	if obj == nil {
		return nil
	}
	if fi := p.funcs[obj]; fi != nil {
		return fi
	}
	return p.funcs[obj.Origin()]
}

// LitInfo returns the FuncInfo of a literal.
func (p *Prog) LitInfo(l *ast.FuncLit) *FuncInfo { p.indexFuncs(); return p.lits[l] }

// Lits returns the literals directly nested in f, in source order.
func (f *FuncInfo) Lits() []*FuncInfo { return f.lits }

// FuncsInPkg returns the declared functions (not literals) of a package.
func (p *Prog) FuncsInPkg(rel string) []*FuncInfo {
	var out []*FuncInfo
	for _, f := range p.Funcs() {
		if RelPkg(f.Pkg.PkgPath) == rel && f.Obj != nil {
			out = append(out, f)
		}
	}
	return out
}

// MethodsOf returns the declared methods of the named type "<relpkg>.<Type>".
func (p *Prog) MethodsOf(typeName string) []*FuncInfo {
	var out []*FuncInfo
	for _, f := range p.Funcs() {
		if f.Obj == nil {
			continue
		}
		if recvTypeName(f.Obj) == typeName {
			out = append(out, f)
		}
	}
	return out
}

func recvTypeName(fn *types.Func) string {
	sig, _ := fn.Type().(*types.Signature)
	if sig == nil || sig.Recv() == nil {
		return ""
	}
	t := sig.Recv().Type()
	if pt, ok := t.(*types.Pointer); ok {
		t = pt.Elem()
	}
	if n, ok := t.(*types.Named); ok && n.Obj().Pkg() != nil {
		return RelPkg(n.Obj().Pkg().Path()) + "." + n.Obj().Name()
	}
	return ""
}

// RecvTypeName of this function ("" for plain functions/literals).
func (f *FuncInfo) RecvTypeName() string {
	if f.Obj == nil {
		return ""
	}
	return recvTypeName(f.Obj)
}

// Recv returns the receiver variable object (nil if none/unnamed).
func (f *FuncInfo) Recv() *types.Var {
	if f.Decl == nil || f.Decl.Recv == nil || len(f.Decl.Recv.List) == 0 || len(f.Decl.Recv.List[0].Names) == 0 {
		return nil
	}
	v, _ := f.Info().Defs[f.Decl.Recv.List[0].Names[0]].(*types.Var)
	return v
}

// Param returns the i-th parameter object (nil if unnamed / out of range).
func (f *FuncInfo) Param(i int) *types.Var {
	k := 0
	for _, fl := range f.Type.Params.List {
		if len(fl.Names) == 0 {
			if k == i {
				return nil
			}
			k++
			continue
		}
		for _, nm := range fl.Names {
			if k == i {
				v, _ := f.Info().Defs[nm].(*types.Var)
				return v
			}
			k++
		}
	}
	return nil
}

// ParamNamed returns the parameter with this name.
func (f *FuncInfo) ParamNamed(name string) *types.Var {
	for _, fl := range f.Type.Params.List {
		for _, nm := range fl.Names {
			if nm.Name == name {
				v, _ := f.Info().Defs[nm].(*types.Var)
				return v
			}
		}
	}
	return nil
}

// ---------------------------------------------------------------------------
// CFG

// Point is a position in a function's CFG: node I of block B. I == len(B.Nodes)
// denotes the end of the block (used for exits).
type Point struct {
	B *cfg.Block
	I int
}

func (pt Point) Valid() bool { return pt.B != nil }

// Node returns the AST node at the point (nil at block end).
func (pt Point) Node() ast.Node {
	if pt.B == nil || pt.I >= len(pt.B.Nodes) {
		return nil
	}
	return pt.B.Nodes[pt.I]
}

// noReturnCall says whether a call never returns (panic, os.Exit, log.Fatal*,
// runtime.Goexit). Application "crit" callbacks are NOT treated as no-return.
func (f *FuncInfo) noReturnCall(call *ast.CallExpr) bool {
	switch o := typeutil.Callee(f.Info(), call).(type) {
	case *types.Builtin:
		return o.Name() == "panic"
	case *types.Func:
		if o.Pkg() == nil {
			return false
		}
		switch o.Pkg().Path() + "." + o.Name() {
		case "os.Exit", "runtime.Goexit", "log.Fatal", "log.Fatalf", "log.Fatalln", "log.Panic", "log.Panicf", "log.Panicln":
			return true
		}
	}
	return false
}

// CFG returns the control-flow graph of the function body.
func (f *FuncInfo) CFG() *cfg.CFG {
	if f.cfg == nil {
		f.cfg = cfg.New(f.Body, func(c *ast.CallExpr) bool { return !f.noReturnCall(c) })
		f.nodeAt = map[ast.Node]Point{}
		for _, b := range f.cfg.Blocks {
			for i, n := range b.Nodes {
				f.nodeAt[n] = Point{b, i}
			}
		}
		f.swOfCase = map[*ast.CaseClause]*ast.SwitchStmt{}
		ast.Inspect(f.Body, func(n ast.Node) bool {
			switch s := n.(type) {
			case *ast.FuncLit:
				return false
			case *ast.SwitchStmt:
				for _, c := range s.Body.List {
					f.swOfCase[c.(*ast.CaseClause)] = s
				}
			}
			return true
		})
	}
	return f.cfg
}

// Entry point of the function.
func (f *FuncInfo) Entry() Point { return Point{f.CFG().Blocks[0], 0} }

// PointOf finds the CFG node that contains n (n must belong to this function's
// own body, not to a nested literal's body).
func (f *FuncInfo) PointOf(n ast.Node) (Point, bool) {
	g := f.CFG()
	if pt, ok := f.nodeAt[n]; ok {
		return pt, true
	}
	var best Point
	var bestLen token.Pos = -1
	for _, b := range g.Blocks {
		for i, m := range b.Nodes {
			if m.Pos() <= n.Pos() && n.End() <= m.End() {
				l := m.End() - m.Pos()
				if bestLen < 0 || l < bestLen {
					best, bestLen = Point{b, i}, l
				}
			}
		}
	}
	if bestLen < 0 {
		return Point{}, false
	}
	return best, true
}

// IsPanicExit says whether a live block without successors ends in a no-return call.
func (f *FuncInfo) IsPanicExit(b *cfg.Block) bool {
	if len(b.Succs) != 0 || !b.Live {
		return false
	}
	if len(b.Nodes) == 0 {
		return false
	}
	switch last := b.Nodes[len(b.Nodes)-1].(type) {
	case *ast.ReturnStmt:
		return false
	case *ast.ExprStmt:
		if call, ok := ast.Unparen(last.X).(*ast.CallExpr); ok && f.noReturnCall(call) {
			return true
		}
	case *ast.CallExpr:
		if f.noReturnCall(last) {
			return true
		}
	}
	// a body that falls off its end (no result values): an implicit return, not a panic
	return false
}

// IsImplicitReturn says whether a live block without successors ends the function by falling off the
// end of its body (functions without results, or after a final loop/switch).
func (f *FuncInfo) IsImplicitReturn(b *cfg.Block) bool {
	if len(b.Succs) != 0 || !b.Live {
		return false
	}
	if len(b.Nodes) > 0 {
		if _, ok := b.Nodes[len(b.Nodes)-1].(*ast.ReturnStmt); ok {
			return false
		}
	}
	return !f.IsPanicExit(b)
}

// ReturnPoints lists the points of all (live) return statements, including the synthetic final one.
func (f *FuncInfo) ReturnPoints() []Point {
	var out []Point
	for _, b := range f.CFG().Blocks {
		if !b.Live {
			continue
		}
		for i, n := range b.Nodes {
			if _, ok := n.(*ast.ReturnStmt); ok {
				out = append(out, Point{b, i})
			}
		}
	}
	return out
}

// ---------------------------------------------------------------------------
// Call sites

// CallSite is one call expression in a function's own body.
type CallSite struct {
	F       *FuncInfo
	Call    *ast.CallExpr
	Callee  types.Object // *types.Func, *types.Builtin, or *types.Var (func-valued field/variable); nil if unresolved (e.g. call of a call result, conversion)
	Name    string       // canonical callee name ("" if unresolved)
	Pt      Point
	InDefer bool // the call is the operand of a defer statement
	InGo    bool // the call is the operand of a go statement
	IsConv  bool // type conversion, not a call
}

func (cs *CallSite) Pos() token.Pos { return cs.Call.Pos() }

// Recv returns the receiver expression of a method call (x in x.M(...)), or nil.
func (cs *CallSite) Recv() ast.Expr {
	if sel, ok := ast.Unparen(cs.Call.Fun).(*ast.SelectorExpr); ok {
		if _, isPkg := cs.F.Info().Uses[identOf(sel.X)].(*types.PkgName); isPkg {
			return nil
		}
		return sel.X
	}
	return nil
}

func identOf(e ast.Expr) *ast.Ident {
	id, _ := ast.Unparen(e).(*ast.Ident)
	return id
}

// ResolveCallee resolves the callee object of a call in the context of info.
func (p *Prog) ResolveCallee(info *types.Info, call *ast.CallExpr) (types.Object, bool) {
	if tv, ok := info.Types[call.Fun]; ok && tv.IsType() {
		return nil, true
	}
	if o := typeutil.Callee(info, call); o != nil {
		return o, false
	}
	switch fun := ast.Unparen(call.Fun).(type) {
	case *ast.Ident:
		if v, ok := info.Uses[fun].(*types.Var); ok {
			return v, false
		}
	case *ast.SelectorExpr:
		if sel, ok := info.Selections[fun]; ok {
			if v, ok := sel.Obj().(*types.Var); ok {
				return v, false
			}
		}
		if v, ok := info.Uses[fun.Sel].(*types.Var); ok {
			return v, false
		}
	}
	return nil, false
}

// Calls lists the call sites in the function's own body (nested literals excluded), in source order.
func (f *FuncInfo) Calls() []*CallSite {
	if f.callsOK {
		return f.calls
	}
	f.callsOK = true
	f.CFG()
	deferOf := map[*ast.CallExpr]bool{}
	goOf := map[*ast.CallExpr]bool{}
	ast.Inspect(f.Body, func(n ast.Node) bool {
		switch s := n.(type) {
		case *ast.FuncLit:
			return false
		case *ast.DeferStmt:
			deferOf[s.Call] = true
		case *ast.GoStmt:
			goOf[s.Call] = true
		case *ast.CallExpr:
			obj, conv := f.P.ResolveCallee(f.Info(), s)
			cs := &CallSite{F: f, Call: s, Callee: obj, IsConv: conv, InDefer: deferOf[s], InGo: goOf[s]}
			if obj != nil {
				cs.Name = f.P.ObjName(obj)
			}
			if pt, ok := f.PointOf(s); ok {
				cs.Pt = pt
			}
			f.calls = append(f.calls, cs)
		}
		return true
	})
	return f.calls
}

// CallsTo lists the call sites whose callee has one of the canonical names.
func (f *FuncInfo) CallsTo(names ...string) []*CallSite {
	var out []*CallSite
	for _, cs := range f.Calls() {
		for _, n := range names {
			if cs.Name == n {
				out = append(out, cs)
				break
			}
		}
	}
	return out
}

// CallsMatching lists call sites satisfying pred.
func (f *FuncInfo) CallsMatching(pred func(*CallSite) bool) []*CallSite {
	var out []*CallSite
	for _, cs := range f.Calls() {
		if pred(cs) {
			out = append(out, cs)
		}
	}
	return out
}

// Points converts call sites to their CFG points.
func Points(cs []*CallSite) []Point {
	out := make([]Point, 0, len(cs))
	for _, c := range cs {
		out = append(out, c.Pt)
	}
	return out
}

// InspectOwn walks the function's own body without descending into nested literals.
func (f *FuncInfo) InspectOwn(fn func(ast.Node) bool) {
	ast.Inspect(f.Body, func(n ast.Node) bool {
		if _, ok := n.(*ast.FuncLit); ok {
			return false
		}
		return fn(n)
	})
}

// InspectAll walks the whole body including nested literals.
func (f *FuncInfo) InspectAll(fn func(ast.Node) bool) { ast.Inspect(f.Body, fn) }

// ObjOf resolves an identifier or selector expression to the object it denotes (variable, field, func, const).
func (f *FuncInfo) ObjOf(e ast.Expr) types.Object { return ObjOfExpr(f.Info(), e) }

// ObjOfExpr resolves e to an object using info.
func ObjOfExpr(info *types.Info, e ast.Expr) types.Object {
	switch x := ast.Unparen(e).(type) {
	case *ast.Ident:
		if o := info.Uses[x]; o != nil {
			return o
		}
		return info.Defs[x]
	case *ast.SelectorExpr:
		if sel, ok := info.Selections[x]; ok {
			return sel.Obj()
		}
		return info.Uses[x.Sel]
	case *ast.StarExpr:
		return ObjOfExpr(info, x.X)
	}
	return nil
}
