package core

import (
	"go/ast"
	"go/token"
	"go/types"
	"strconv"
	"strings"
)

// LoopCapture is a function literal inside a loop body that refers to the loop's iteration variable
// and is not invoked on the spot: with per-loop variable semantics (modules declaring go < 1.22) the
// literal sees the variable's value at the time it runs, not the value of its own iteration.
type LoopCapture struct {
	F    *FuncInfo
	Lit  *ast.FuncLit
	Var  *types.Var
	Pos  token.Pos
	Loop ast.Stmt
}

// PerLoopVarSemantics says whether the package's module declares a Go version below 1.22.
func PerLoopVarSemantics(f *FuncInfo) bool {
	if f.Pkg.Module == nil || f.Pkg.Module.GoVersion == "" {
		return true // no information: be conservative
	}
	parts := strings.Split(f.Pkg.Module.GoVersion, ".")
	if len(parts) < 2 {
		return true
	}
	maj, _ := strconv.Atoi(parts[0])
	min, _ := strconv.Atoi(parts[1])
	return maj < 1 || (maj == 1 && min < 22)
}

// LoopVarCaptures lists the captures of iteration variables by deferred-use literals in f's own body.
func LoopVarCaptures(f *FuncInfo) []LoopCapture {
	if !PerLoopVarSemantics(f) {
		return nil
	}
	info := f.Info()
	var out []LoopCapture
	var loops []ast.Stmt
	f.InspectOwn(func(n ast.Node) bool {
		switch n.(type) {
		case *ast.ForStmt, *ast.RangeStmt:
			loops = append(loops, n.(ast.Stmt))
		}
		return true
	})
	for _, lp := range loops {
		vars := map[*types.Var]bool{}
		var body *ast.BlockStmt
		switch s := lp.(type) {
		case *ast.RangeStmt:
			body = s.Body
			if s.Tok == token.DEFINE {
				for _, e := range []ast.Expr{s.Key, s.Value} {
					if id, ok := e.(*ast.Ident); ok && id.Name != "_" {
						if v, ok := info.Defs[id].(*types.Var); ok {
							vars[v] = true
						}
					}
				}
			}
		case *ast.ForStmt:
			body = s.Body
			if as, ok := s.Init.(*ast.AssignStmt); ok && as.Tok == token.DEFINE {
				for _, l := range as.Lhs {
					if id, ok := l.(*ast.Ident); ok {
						if v, ok := info.Defs[id].(*types.Var); ok {
							vars[v] = true
						}
					}
				}
			}
		}
		if len(vars) == 0 || body == nil {
			continue
		}
		// literals invoked on the spot are safe
		immediate := map[*ast.FuncLit]bool{}
		ast.Inspect(body, func(n ast.Node) bool {
			switch x := n.(type) {
			case *ast.GoStmt, *ast.DeferStmt:
				return true
			case *ast.CallExpr:
				if lit, ok := ast.Unparen(x.Fun).(*ast.FuncLit); ok {
					immediate[lit] = true
				}
			}
			return true
		})
		ast.Inspect(body, func(n ast.Node) bool {
			switch x := n.(type) {
			case *ast.GoStmt:
				if lit, ok := ast.Unparen(x.Call.Fun).(*ast.FuncLit); ok {
					delete(immediate, lit)
				}
			case *ast.DeferStmt:
				if lit, ok := ast.Unparen(x.Call.Fun).(*ast.FuncLit); ok {
					delete(immediate, lit)
				}
			}
			return true
		})
		ast.Inspect(body, func(n ast.Node) bool {
			lit, ok := n.(*ast.FuncLit)
			if !ok {
				return true
			}
			if immediate[lit] {
				return true
			}
			ast.Inspect(lit.Body, func(m ast.Node) bool {
				if id, ok := m.(*ast.Ident); ok {
					if v, ok := info.Uses[id].(*types.Var); ok && vars[v] {
						out = append(out, LoopCapture{F: f, Lit: lit, Var: v, Pos: id.Pos(), Loop: lp})
						delete(vars, v) // one report per variable and loop
					}
				}
				return true
			})
			return true
		})
	}
	return out
}
