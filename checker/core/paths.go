package core

import (
	"fmt"
	"go/ast"
	"strings"

	"golang.org/x/tools/go/cfg"
)

// PathQuery is a reachability question over the CFG of one function: is there
// a path from From to a point satisfying Target that avoids every point in
// Avoid and every edge in AvoidEdge? All "must" rules (dominance,
// post-dominance, guardedness) are the negation of such a question, so one
// search with a witness path serves them all.
type PathQuery struct {
	F          *FuncInfo
	From       Point
	FromAfter  bool // start just after From (exclusive)
	Target     func(Point) bool
	Avoid      func(Point) bool
	AvoidEdge  func(b *cfg.Block, succ int) bool
	TargetExit bool // additionally: reaching a return statement (non-panic exit) counts as target
	PanicExit  bool // with TargetExit: panic exits also count
	// TargetBlock: entering a block that satisfies it (other than the start block) counts as target;
	// needed for blocks without nodes (select-done, loop heads).
	TargetBlock func(*cfg.Block) bool
}

// Find runs the search. It returns a witness path (sequence of points; only
// block entries and the final point are recorded) when the target is reachable.
func (q PathQuery) Find() ([]Point, bool) {
	type st struct {
		b *cfg.Block
		i int
	}
	startB, startI := q.From.B, q.From.I
	if q.FromAfter {
		startI++
	}
	seenBlock := map[*cfg.Block]bool{}
	parent := map[*cfg.Block]*cfg.Block{}
	var found *Point
	// scan one block from index i; returns true if it runs off the end
	scan := func(b *cfg.Block, i int, first bool) bool {
		for ; i < len(b.Nodes); i++ {
			pt := Point{b, i}
			if q.Avoid != nil && q.Avoid(pt) {
				return false
			}
			if q.Target != nil && q.Target(pt) {
				found = &pt
				return false
			}
			if q.TargetExit {
				if _, ok := b.Nodes[i].(*ast.ReturnStmt); ok {
					found = &pt
					return false
				}
			}
		}
		if len(b.Succs) == 0 {
			if q.TargetExit && (q.PanicExit && q.F.IsPanicExit(b) || q.F.IsImplicitReturn(b)) {
				pt := Point{b, len(b.Nodes)}
				found = &pt
			}
			return false
		}
		return true
	}
	var work []*cfg.Block
	push := func(from, b *cfg.Block) {
		if !seenBlock[b] {
			seenBlock[b] = true
			parent[b] = from
			work = append(work, b)
		}
	}
	if scan(startB, startI, true) {
		for si, s := range startB.Succs {
			if q.AvoidEdge != nil && q.AvoidEdge(startB, si) {
				continue
			}
			push(startB, s)
		}
	}
	for found == nil && len(work) > 0 {
		b := work[0]
		work = work[1:]
		if q.TargetBlock != nil && q.TargetBlock(b) {
			pt := Point{b, 0}
			found = &pt
			break
		}
		// blocks without nodes (range-loop heads, select-done) have no point on which Target would be
		// evaluated: offer their virtual entry point so that "reaches block B" queries are not vacuous
		if len(b.Nodes) == 0 && q.Target != nil && q.Target(Point{b, 0}) {
			pt := Point{b, 0}
			found = &pt
			break
		}
		if scan(b, 0, false) {
			for si, s := range b.Succs {
				if q.AvoidEdge != nil && q.AvoidEdge(b, si) {
					continue
				}
				push(b, s)
			}
		}
	}
	if found == nil {
		return nil, false
	}
	// reconstruct
	var path []Point
	path = append(path, *found)
	cur := found.B
	for cur != startB {
		pb, ok := parent[cur]
		if !ok {
			break
		}
		path = append(path, Point{pb, len(pb.Nodes)})
		cur = pb
	}
	// reverse
	for i, j := 0, len(path)-1; i < j; i, j = i+1, j-1 {
		path[i], path[j] = path[j], path[i]
	}
	return path, true
}

// PointSet builds a membership predicate.
func PointSet(pts ...Point) func(Point) bool {
	m := map[Point]bool{}
	for _, p := range pts {
		m[p] = true
	}
	return func(p Point) bool { return m[p] }
}

// MustPassBefore: does every path from the function entry to `to` pass through one of `via`?
// Returns ok and, if not, a witness path avoiding `via`.
func (f *FuncInfo) MustPassBefore(via []Point, to Point) (bool, []Point) {
	viaSet := PointSet(via...)
	if viaSet(to) {
		return true, nil
	}
	path, found := PathQuery{F: f, From: f.Entry(), Target: PointSet(to), Avoid: viaSet}.Find()
	return !found, path
}

// MustPassAfter: does every path from just after `from` to a return exit pass
// through one of `via`? Panic exits owe nothing.
func (f *FuncInfo) MustPassAfter(from Point, via []Point) (bool, []Point) {
	// `from` evaluated inside a return statement (return f(x)): the function exits with this node, so
	// nothing can follow it (searching from the next index would find no exit and pass vacuously)
	if _, isRet := from.Node().(*ast.ReturnStmt); isRet {
		if PointSet(via...)(from) {
			return true, nil
		}
		return false, []Point{from}
	}
	path, found := PathQuery{F: f, From: from, FromAfter: true, Avoid: PointSet(via...), TargetExit: true}.Find()
	return !found, path
}

// MustPassBetween: every path from `from` (exclusive) to `to` passes through one of `via`.
func (f *FuncInfo) MustPassBetween(from Point, via []Point, to Point) (bool, []Point) {
	path, found := PathQuery{F: f, From: from, FromAfter: true, Target: PointSet(to), Avoid: PointSet(via...)}.Find()
	return !found, path
}

// CanReach: is there a path from `from` (exclusive) to `to`?
func (f *FuncInfo) CanReach(from, to Point) bool {
	_, found := PathQuery{F: f, From: from, FromAfter: true, Target: PointSet(to)}.Find()
	return found
}

// ReachableFromEntry: is `to` reachable from the entry avoiding the given edges/points?
func (f *FuncInfo) ReachableAvoiding(to Point, avoid func(Point) bool, avoidEdge func(*cfg.Block, int) bool) (bool, []Point) {
	if to == f.Entry() {
		return true, nil
	}
	path, found := PathQuery{F: f, From: f.Entry(), Target: PointSet(to), Avoid: avoid, AvoidEdge: avoidEdge}.Find()
	return found, path
}

// DescribePath renders a witness path as "L12 -> L15 -> L20".
func (f *FuncInfo) DescribePath(path []Point) string {
	var parts []string
	last := ""
	for _, pt := range path {
		var s string
		if n := pt.Node(); n != nil {
			s = fmt.Sprintf("L%d", f.P.Fset.Position(n.Pos()).Line)
		} else if len(pt.B.Nodes) > 0 {
			s = fmt.Sprintf("L%d", f.P.Fset.Position(pt.B.Nodes[len(pt.B.Nodes)-1].Pos()).Line)
		} else {
			continue
		}
		if s != last {
			parts = append(parts, s)
			last = s
		}
	}
	return strings.Join(parts, " -> ")
}

// LoopOf returns the blocks of the innermost for/range loop whose body contains pt (nil if none).
// A loop is identified by its head block (KindForLoop/KindRangeLoop); its member
// blocks are those from which the head is reachable without leaving through the done block.
func (f *FuncInfo) LoopOf(stmt ast.Stmt) (head, done *cfg.Block) {
	for _, b := range f.CFG().Blocks {
		if b.Stmt == stmt {
			switch b.Kind {
			case cfg.KindForLoop, cfg.KindRangeLoop:
				head = b
			case cfg.KindForDone, cfg.KindRangeDone:
				done = b
			}
		}
	}
	if head == nil {
		// "for { }" without condition/post has no loop-head block: the body block is the head
		for _, b := range f.CFG().Blocks {
			if b.Stmt == stmt && (b.Kind == cfg.KindForBody || b.Kind == cfg.KindRangeBody) {
				head = b
			}
		}
	}
	return
}
