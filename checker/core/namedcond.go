package core

import (
	"go/ast"
	"go/token"
	"go/types"
	"sync"
)

// Named conditions. A reviewer's favourite: `over := a > b || c > d; if !over { … }` instead of
// `if !(a > b || c > d) { … }`. Nothing executes between the statement that computes the boolean and the
// test of the branch, so the edges of the branch imply exactly what they would imply with the expression
// written in place. BranchCond therefore reads a boolean local through its definition when
//   - the definition (`x := E`, `var x = E`, or the Init of the same if statement) is the statement
//     immediately before the if statement in the same statement list (a labelled if statement is a
//     different list element and is never matched: a goto could reach it without the definition), and
//   - x is assigned nowhere else in the enclosing declaration and its address is never taken (so no closure
//     or alias can change it behind the analysis' back).
//
// The expansion only rebuilds the spine of the condition (!, &&, ||, parentheses); the operands are the
// original, typed syntax nodes of the definition.

var (
	namedCondMu    sync.Mutex
	namedCondCache = map[*ast.IfStmt]map[types.Object]ast.Expr{}
)

// namedConds returns, for an if statement of f, the boolean locals that stand for an expression at its test.
func (f *FuncInfo) namedConds(s *ast.IfStmt) map[types.Object]ast.Expr {
	namedCondMu.Lock()
	defer namedCondMu.Unlock()
	if m, ok := namedCondCache[s]; ok {
		return m
	}
	m := map[types.Object]ast.Expr{}
	namedCondCache[s] = m
	info := f.Info()
	add := func(def ast.Stmt) {
		switch d := def.(type) {
		case *ast.AssignStmt:
			if d.Tok != token.DEFINE || len(d.Lhs) != 1 || len(d.Rhs) != 1 {
				return
			}
			if id, ok := d.Lhs[0].(*ast.Ident); ok && id.Name != "_" {
				if obj := info.Defs[id]; obj != nil && isBoolVar(obj) {
					m[obj] = d.Rhs[0]
				}
			}
		case *ast.DeclStmt:
			gd, ok := d.Decl.(*ast.GenDecl)
			if !ok || gd.Tok != token.VAR || len(gd.Specs) != 1 {
				return
			}
			vs, ok := gd.Specs[0].(*ast.ValueSpec)
			if !ok || len(vs.Names) != 1 || len(vs.Values) != 1 || vs.Names[0].Name == "_" {
				return
			}
			if obj := info.Defs[vs.Names[0]]; obj != nil && isBoolVar(obj) {
				m[obj] = vs.Values[0]
			}
		}
	}
	if s.Init != nil {
		add(s.Init)
	} else if prev := f.stmtBefore(s); prev != nil {
		add(prev)
	}
	// single definition, never re-assigned, address never taken
	for obj := range m {
		if f.reassignedOrAliased(obj) {
			delete(m, obj)
		}
	}
	return m
}

func isBoolVar(obj types.Object) bool {
	v, ok := obj.(*types.Var)
	if !ok || v.IsField() {
		return false
	}
	b, ok := v.Type().Underlying().(*types.Basic)
	return ok && b.Kind() == types.Bool
}

// outermost returns the body of the outermost function enclosing f (closures of the same declaration can see f's locals).
func (f *FuncInfo) outermost() *ast.BlockStmt {
	g := f
	for g.Parent != nil {
		g = g.Parent
	}
	return g.Body
}

// stmtBefore returns the statement immediately preceding s in its statement list (nil if s is the first one,
// is labelled, or is not a direct element of a list, e.g. an else-if).
func (f *FuncInfo) stmtBefore(s ast.Stmt) ast.Stmt {
	var prev ast.Stmt
	find := func(list []ast.Stmt) bool {
		for i, st := range list {
			if st == s {
				if i > 0 {
					prev = list[i-1]
				}
				return true
			}
		}
		return false
	}
	done := false
	ast.Inspect(f.Body, func(n ast.Node) bool {
		if done || n == nil {
			return false
		}
		if !(n.Pos() <= s.Pos() && s.End() <= n.End()) {
			return false
		}
		switch x := n.(type) {
		case *ast.BlockStmt:
			done = find(x.List)
		case *ast.CaseClause:
			done = find(x.Body)
		case *ast.CommClause:
			done = find(x.Body)
		}
		return !done
	})
	return prev
}

// reassignedOrAliased: obj is the target of an assignment other than its definition, of ++/--, of a range
// clause, or has its address taken, anywhere in the enclosing declaration.
func (f *FuncInfo) reassignedOrAliased(obj types.Object) bool {
	info := f.Info()
	is := func(e ast.Expr) bool {
		id, ok := ast.Unparen(e).(*ast.Ident)
		return ok && info.Uses[id] == obj
	}
	found := false
	ast.Inspect(f.outermost(), func(n ast.Node) bool {
		if found || n == nil {
			return false
		}
		switch x := n.(type) {
		case *ast.AssignStmt:
			for _, l := range x.Lhs {
				if is(l) {
					found = true
				}
			}
		case *ast.IncDecStmt:
			found = found || is(x.X)
		case *ast.RangeStmt:
			if x.Tok == token.ASSIGN && (x.Key != nil && is(x.Key) || x.Value != nil && is(x.Value)) {
				found = true
			}
		case *ast.UnaryExpr:
			if x.Op == token.AND && is(x.X) {
				found = true
			}
		}
		return !found
	})
	return found
}

// expandNamedConds rewrites the spine of the condition of s, replacing named conditions by their definitions.
func (f *FuncInfo) expandNamedConds(s *ast.IfStmt, cond ast.Expr) ast.Expr {
	// cheap pre-test: the spine mentions an identifier at all
	if !spineHasIdent(cond) {
		return cond
	}
	m := f.namedConds(s)
	if len(m) == 0 {
		return cond
	}
	info := f.Info()
	var rw func(e ast.Expr) ast.Expr
	rw = func(e ast.Expr) ast.Expr {
		switch x := e.(type) {
		case *ast.ParenExpr:
			if in := rw(x.X); in != x.X {
				return &ast.ParenExpr{Lparen: x.Lparen, X: in, Rparen: x.Rparen}
			}
		case *ast.UnaryExpr:
			if x.Op == token.NOT {
				if in := rw(x.X); in != x.X {
					return &ast.UnaryExpr{OpPos: x.OpPos, Op: x.Op, X: in}
				}
			}
		case *ast.BinaryExpr:
			if x.Op == token.LAND || x.Op == token.LOR {
				l, r := rw(x.X), rw(x.Y)
				if l != x.X || r != x.Y {
					return &ast.BinaryExpr{X: l, OpPos: x.OpPos, Op: x.Op, Y: r}
				}
			}
		case *ast.Ident:
			if def, ok := m[info.Uses[x]]; ok {
				return &ast.ParenExpr{Lparen: def.Pos(), X: def, Rparen: def.End()}
			}
		}
		return e
	}
	return rw(cond)
}

func spineHasIdent(e ast.Expr) bool {
	switch x := e.(type) {
	case *ast.ParenExpr:
		return spineHasIdent(x.X)
	case *ast.UnaryExpr:
		return x.Op == token.NOT && spineHasIdent(x.X)
	case *ast.BinaryExpr:
		return (x.Op == token.LAND || x.Op == token.LOR) && (spineHasIdent(x.X) || spineHasIdent(x.Y))
	case *ast.Ident:
		return true
	}
	return false
}
