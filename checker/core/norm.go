package core

import (
	"fmt"
	"go/ast"
	"go/constant"
	"go/token"
	"go/types"
	"math/big"
	"sort"
	"strings"
)

// Lin is a linear integer form: sum(coef[k] * atom[k]) + C.
type Lin struct {
	Coef map[string]*big.Int
	Atom map[string]ast.Expr
	C    *big.Int
}

func newLin() *Lin {
	return &Lin{Coef: map[string]*big.Int{}, Atom: map[string]ast.Expr{}, C: new(big.Int)}
}

func (l *Lin) addTerm(k string, e ast.Expr, c *big.Int) {
	if cur, ok := l.Coef[k]; ok {
		cur.Add(cur, c)
		if cur.Sign() == 0 {
			delete(l.Coef, k)
			delete(l.Atom, k)
		}
		return
	}
	if c.Sign() == 0 {
		return
	}
	l.Coef[k] = new(big.Int).Set(c)
	l.Atom[k] = e
}

func (l *Lin) add(o *Lin, scale *big.Int) {
	for k, c := range o.Coef {
		l.addTerm(k, o.Atom[k], new(big.Int).Mul(c, scale))
	}
	l.C.Add(l.C, new(big.Int).Mul(o.C, scale))
}

func (l *Lin) isConst() bool { return len(l.Coef) == 0 }

// String renders the form with sorted keys.
func (l *Lin) String() string {
	keys := make([]string, 0, len(l.Coef))
	for k := range l.Coef {
		keys = append(keys, k)
	}
	sort.Strings(keys)
	var sb strings.Builder
	for _, k := range keys {
		fmt.Fprintf(&sb, "%+d*%s ", l.Coef[k], k)
	}
	fmt.Fprintf(&sb, "%+d", l.C)
	return sb.String()
}

// AtomNamer maps an atomic sub-expression to a role name; "" = use source text.
type AtomNamer func(e ast.Expr) string

// Linearize brings an integer expression to linear form. Conversions between
// integer types are looked through; constants are folded via the type checker.
func Linearize(info *types.Info, e ast.Expr, namer AtomNamer) *Lin {
	l := newLin()
	linInto(info, e, namer, l, big.NewInt(1))
	return l
}

func constBig(v constant.Value) (*big.Int, bool) {
	v = constant.ToInt(v)
	if v.Kind() != constant.Int {
		return nil, false
	}
	if i, ok := constant.Int64Val(v); ok {
		return big.NewInt(i), true
	}
	b, ok := new(big.Int).SetString(v.ExactString(), 10)
	return b, ok
}

func linInto(info *types.Info, e ast.Expr, namer AtomNamer, out *Lin, scale *big.Int) {
	e = ast.Unparen(e)
	if tv, ok := info.Types[e]; ok && tv.Value != nil {
		if b, ok := constBig(tv.Value); ok {
			out.C.Add(out.C, new(big.Int).Mul(b, scale))
			return
		}
	}
	switch x := e.(type) {
	case *ast.BinaryExpr:
		switch x.Op {
		case token.ADD:
			linInto(info, x.X, namer, out, scale)
			linInto(info, x.Y, namer, out, scale)
			return
		case token.SUB:
			linInto(info, x.X, namer, out, scale)
			linInto(info, x.Y, namer, out, new(big.Int).Neg(scale))
			return
		case token.MUL:
			lx := Linearize(info, x.X, namer)
			ly := Linearize(info, x.Y, namer)
			if lx.isConst() {
				out.add(ly, new(big.Int).Mul(scale, lx.C))
				return
			}
			if ly.isConst() {
				out.add(lx, new(big.Int).Mul(scale, ly.C))
				return
			}
		}
	case *ast.UnaryExpr:
		switch x.Op {
		case token.SUB:
			linInto(info, x.X, namer, out, new(big.Int).Neg(scale))
			return
		case token.ADD:
			linInto(info, x.X, namer, out, scale)
			return
		}
	case *ast.CallExpr:
		if tv, ok := info.Types[x.Fun]; ok && tv.IsType() && len(x.Args) == 1 {
			if isIntegerType(tv.Type) {
				linInto(info, x.Args[0], namer, out, scale)
				return
			}
		}
	}
	key := ""
	if namer != nil {
		key = namer(e)
	}
	if key == "" {
		key = "`" + types.ExprString(e) + "`"
	}
	out.addTerm(key, e, scale)
}

func isIntegerType(t types.Type) bool {
	b, ok := t.Underlying().(*types.Basic)
	return ok && b.Info()&types.IsInteger != 0
}

// LinCmp is a normalised integer comparison: Form ⋈ 0 with Op in {"<=", "==", "!="}.
type LinCmp struct {
	Form *Lin
	Op   string
}

func (c LinCmp) String() string { return c.Form.String() + " " + c.Op + " 0" }

// NormLinCmp normalises the fact to L-R ⋈ 0. Strict < over integers becomes
// L-R+1 <= 0; equalities get a canonical sign (first sorted term positive).
func NormLinCmp(info *types.Info, ft Fact, namer AtomNamer) (LinCmp, bool) {
	c, ok := NormCmp(ft)
	if !ok || c.R == nil {
		return LinCmp{}, false
	}
	// only integer comparisons
	if tv, ok := info.Types[c.L]; !ok || !isIntegerType(tv.Type) {
		if tv2, ok2 := info.Types[c.R]; !ok2 || !isIntegerType(tv2.Type) {
			return LinCmp{}, false
		}
	}
	f := Linearize(info, c.L, namer)
	f.add(Linearize(info, c.R, namer), big.NewInt(-1))
	switch c.Op {
	case token.LSS:
		f.C.Add(f.C, big.NewInt(1))
		return LinCmp{f, "<="}, true
	case token.LEQ:
		return LinCmp{f, "<="}, true
	case token.EQL, token.NEQ:
		keys := make([]string, 0, len(f.Coef))
		for k := range f.Coef {
			keys = append(keys, k)
		}
		sort.Strings(keys)
		if len(keys) > 0 && f.Coef[keys[0]].Sign() < 0 || len(keys) == 0 && f.C.Sign() < 0 {
			n := newLin()
			n.add(f, big.NewInt(-1))
			f = n
		}
		if c.Op == token.EQL {
			return LinCmp{f, "=="}, true
		}
		return LinCmp{f, "!="}, true
	}
	return LinCmp{}, false
}

// ParseLinCmp parses an expected comparison over role names, e.g.
// "lamport - highest - num - 1 <= 0" or "frame - idx != 0". Tokens: names,
// integers, + - and an operator among <= == != followed by 0.
func ParseLinCmp(s string) LinCmp {
	var op string
	for _, o := range []string{"<=", "==", "!="} {
		if i := strings.Index(s, o); i >= 0 {
			op = o
			s = strings.TrimSpace(s[:i])
			break
		}
	}
	if op == "" {
		panic("ParseLinCmp: no operator in " + s)
	}
	f := newLin()
	sign := int64(1)
	toks := strings.Fields(strings.NewReplacer("+", " + ", "-", " - ").Replace(s))
	for _, t := range toks {
		switch t {
		case "+":
			sign = 1
		case "-":
			sign = -1
		default:
			coef := big.NewInt(sign)
			name := t
			if i := strings.Index(t, "*"); i > 0 {
				k, ok := new(big.Int).SetString(t[:i], 10)
				if !ok {
					panic("ParseLinCmp: bad coefficient " + t)
				}
				coef.Mul(coef, k)
				name = t[i+1:]
			}
			if n, ok := new(big.Int).SetString(name, 10); ok {
				f.C.Add(f.C, new(big.Int).Mul(coef, n))
			} else {
				f.addTerm(name, nil, coef)
			}
			sign = 1
		}
	}
	if op != "<=" {
		keys := make([]string, 0, len(f.Coef))
		for k := range f.Coef {
			keys = append(keys, k)
		}
		sort.Strings(keys)
		if len(keys) > 0 && f.Coef[keys[0]].Sign() < 0 || len(keys) == 0 && f.C.Sign() < 0 {
			n := newLin()
			n.add(f, big.NewInt(-1))
			f = n
		}
	}
	return LinCmp{f, op}
}

// Equal compares two normalised comparisons.
func (c LinCmp) Equal(o LinCmp) bool {
	if c.Op != o.Op || c.Form.C.Cmp(o.Form.C) != 0 || len(c.Form.Coef) != len(o.Form.Coef) {
		return false
	}
	for k, v := range c.Form.Coef {
		w, ok := o.Form.Coef[k]
		if !ok || v.Cmp(w) != 0 {
			return false
		}
	}
	return true
}
