package core

import (
	"fmt"
	"go/ast"
	"go/types"

	"golang.org/x/tools/go/callgraph"
	"golang.org/x/tools/go/callgraph/cha"
	"golang.org/x/tools/go/callgraph/vta"
	"golang.org/x/tools/go/ssa"
	"golang.org/x/tools/go/ssa/ssautil"
)

// WholeProgram is the module with all dependencies loaded from source, in SSA form with a VTA call
// graph (thorough tier only: ≈ 10 s, ≈ 1 GB).
type WholeProgram struct {
	P     *Prog
	SSA   *ssa.Program
	Graph *callgraph.Graph
	NFunc int
}

// LoadWhole loads ./... with the sources of all dependencies, builds SSA and the VTA call graph
// (seeded with CHA).
func LoadWhole(repo string) (*WholeProgram, error) {
	p, err := Load(LoadOpts{Repo: repo, Patterns: []string{"./..."}, Deps: true})
	if err != nil {
		return nil, err
	}
	prog, _ := ssautil.AllPackages(p.roots, ssa.InstantiateGenerics)
	prog.Build()
	fns := ssautil.AllFunctions(prog)
	g := vta.CallGraph(fns, cha.CallGraph(prog))
	return &WholeProgram{P: p, SSA: prog, Graph: g, NFunc: len(fns)}, nil
}

// funcInfoOf maps an SSA function to the source function of the module (nil for others).
func (w *WholeProgram) funcInfoOf(fn *ssa.Function) *FuncInfo {
	if fn == nil {
		return nil
	}
	if obj, ok := fn.Object().(*types.Func); ok && obj != nil {
		if fi := w.P.FuncOf(obj); fi != nil {
			return fi
		}
	}
	if lit, ok := fn.Syntax().(*ast.FuncLit); ok {
		return w.P.LitInfo(lit)
	}
	return nil
}

// ssaFuncOf finds the SSA function of a source function.
func (w *WholeProgram) ssaFuncOf(f *FuncInfo) *ssa.Function {
	if f == nil || f.Obj == nil {
		return nil
	}
	return w.SSA.FuncValue(f.Obj)
}

// Reachable returns the module's source functions reachable from the named roots in the VTA call
// graph. The traversal passes through every function (dependencies included) except those rejected
// by `through`; only module functions are returned.
func (w *WholeProgram) Reachable(roots []string, through func(*ssa.Function) bool) ([]*FuncInfo, int, error) {
	seen := map[*ssa.Function]bool{}
	var work []*ssa.Function
	for _, r := range roots {
		fi := w.P.Func(r)
		if fi == nil {
			continue
		}
		sf := w.ssaFuncOf(fi)
		if sf == nil {
			return nil, 0, fmt.Errorf("no SSA function for %s", r)
		}
		if !seen[sf] {
			seen[sf] = true
			work = append(work, sf)
		}
	}
	var out []*FuncInfo
	outSeen := map[*FuncInfo]bool{}
	for len(work) > 0 {
		fn := work[0]
		work = work[1:]
		if fi := w.funcInfoOf(fn); fi != nil && !outSeen[fi] {
			outSeen[fi] = true
			out = append(out, fi)
		}
		node := w.Graph.Nodes[fn]
		if node == nil {
			continue
		}
		for _, e := range node.Out {
			callee := e.Callee.Func
			if callee == nil || seen[callee] {
				continue
			}
			if through != nil && !through(callee) {
				continue
			}
			seen[callee] = true
			work = append(work, callee)
		}
		// anonymous functions created here are reachable as values
		for _, anon := range fn.AnonFuncs {
			if !seen[anon] {
				seen[anon] = true
				work = append(work, anon)
			}
		}
	}
	return out, len(seen), nil
}
