package core

import (
	"bufio"
	"crypto/sha1"
	"encoding/json"
	"fmt"
	"go/token"
	"os"
	"path/filepath"
	"runtime/debug"
	"sort"
	"strconv"
	"strings"
	"time"
)

// Status of an obligation.
type Status string

const (
	Discharged Status = "discharged"
	Violated   Status = "violated"
	Undecided  Status = "undecided"
)

// Ob is one obligation: a rule instance applied to a named construct.
type Ob struct {
	Key    string `json:"key"`    // "<clause>|<construct>" — stable, never a line number
	Rule   string `json:"rule"`   // template(s), e.g. "T2 Dominates"
	Status Status `json:"status"` //
	Detail string `json:"detail"` // what was established / what fails
	Pos    string `json:"pos,omitempty"`
	Known  string `json:"known_finding,omitempty"`
}

// Ctx collects the obligations of one property run.
type Ctx struct {
	P      *Prog
	Prop   string
	Tier   string
	Obs    []*Ob
	Notes  []string
	clause string
	seen   map[string]bool
	Extra  map[string]interface{}

	controlFailures []string
}

func NewCtx(p *Prog, prop, tier string) *Ctx {
	return &Ctx{P: p, Prop: prop, Tier: tier, seen: map[string]bool{}, Extra: map[string]interface{}{}}
}

type anchorMissing struct{ what string }

func (c *Ctx) add(o *Ob) {
	// keys must be unique; disambiguate repeated constructs with an ordinal
	k := o.Key
	for i := 2; c.seen[k]; i++ {
		k = o.Key + "#" + strconv.Itoa(i)
	}
	o.Key = k
	c.seen[k] = true
	c.Obs = append(c.Obs, o)
}

func (c *Ctx) key(construct string) string {
	if construct == "" {
		return c.clause
	}
	return c.clause + "|" + construct
}

// Pass records a discharged obligation for construct under the current clause.
func (c *Ctx) Pass(construct, rule, detail string) {
	c.add(&Ob{Key: c.key(construct), Rule: rule, Status: Discharged, Detail: detail})
}

// Fail records a violated obligation.
func (c *Ctx) Fail(construct, rule string, pos token.Pos, detail string) {
	c.add(&Ob{Key: c.key(construct), Rule: rule, Status: Violated, Detail: detail, Pos: c.P.Pos(pos)})
}

// FailAt records a violated obligation whose position is already rendered (used when the finding
// comes from another load of the program, e.g. the whole-module pass).
func (c *Ctx) FailAt(construct, rule, where, detail string) {
	c.add(&Ob{Key: c.key(construct), Rule: rule, Status: Violated, Detail: detail, Pos: where})
}

// Undecided records an obligation that the rule could not classify (counts as failure).
func (c *Ctx) Undecided(construct, rule string, pos token.Pos, detail string) {
	c.add(&Ob{Key: c.key(construct), Rule: rule, Status: Undecided, Detail: detail, Pos: c.P.Pos(pos)})
}

// Check records pass or fail depending on ok.
func (c *Ctx) Check(ok bool, construct, rule string, pos token.Pos, passDetail, failDetail string) bool {
	if ok {
		c.Pass(construct, rule, passDetail)
	} else {
		c.Fail(construct, rule, pos, failDetail)
	}
	return ok
}

// ControlFailed records a positive control on which the rule stayed silent. This is a defect of the
// checker, not of the analysed code: it makes the run exit 2 (internal error) unless real violations
// were found as well.
func (c *Ctx) ControlFailed(name, detail string) {
	c.controlFailures = append(c.controlFailures, name+": "+detail)
}

// Merge appends the obligations of a sub-run (another architecture, an overlay) under a key prefix.
func (c *Ctx) Merge(prefix string, sub *Ctx) {
	for _, o := range sub.Obs {
		o.Key = prefix + o.Key
		c.add(o)
	}
	for _, n := range sub.Notes {
		c.Notes = append(c.Notes, prefix+" "+n)
	}
}

// Note adds an informational line to the evidence.
func (c *Ctx) Note(format string, a ...interface{}) {
	c.Notes = append(c.Notes, fmt.Sprintf(format, a...))
}

// Fn resolves a function anchor; a missing anchor aborts the current clause as undecided.
func (c *Ctx) Fn(name string) *FuncInfo {
	f := c.P.Func(name)
	if f == nil {
		panic(anchorMissing{"function " + name})
	}
	return f
}

// Fld resolves a field anchor.
func (c *Ctx) Fld(name string) string {
	if c.P.Field(name) == nil {
		panic(anchorMissing{"field " + name})
	}
	return name
}

// Need aborts the clause as undecided when cond is false.
func (c *Ctx) Need(cond bool, what string) {
	if !cond {
		panic(anchorMissing{what})
	}
}

// Clause runs one clause of a property. Unresolved anchors and panics inside
// the rule make the clause undecided (reported as a violation, never a pass).
func (c *Ctx) Clause(name string, fn func()) {
	prev := c.clause
	c.clause = name
	defer func() {
		if r := recover(); r != nil {
			if am, ok := r.(anchorMissing); ok {
				c.Undecided("anchor", "resolve", token.NoPos, "anchor does not resolve or has an unrecognised shape: "+am.what)
			} else {
				st := string(debug.Stack())
				if len(st) > 1500 {
					st = st[:1500]
				}
				c.Undecided("panic", "internal", token.NoPos, fmt.Sprintf("rule panicked: %v\n%s", r, st))
			}
		}
		c.clause = prev
	}()
	fn()
}

// ExpectAtLeast fails when a rule matched fewer instances than confirmed by hand.
func (c *Ctx) ExpectAtLeast(what string, got, min int) {
	if got < min {
		c.Fail("count:"+what, "instance-count", token.NoPos, fmt.Sprintf("rule matched %d instances of %s, at least %d were confirmed by hand: the rule would pass vacuously", got, what, min))
	} else {
		c.Pass("count:"+what, "instance-count", fmt.Sprintf("%d instances of %s (minimum %d)", got, what, min))
	}
}

// ---------------------------------------------------------------------------
// Known findings

type Known struct {
	Kind     string `json:"kind"` // "finding" | "fixed"
	Property string `json:"property"`
	Key      string `json:"key,omitempty"`
	Commit   string `json:"commit,omitempty"`
	What     string `json:"what"`
}

func LoadKnown(path string) ([]Known, error) {
	f, err := os.Open(path)
	if err != nil {
		if os.IsNotExist(err) {
			return nil, nil
		}
		return nil, err
	}
	defer f.Close()
	var out []Known
	sc := bufio.NewScanner(f)
	sc.Buffer(make([]byte, 1<<20), 1<<20)
	for sc.Scan() {
		line := strings.TrimSpace(sc.Text())
		if line == "" || strings.HasPrefix(line, "#") {
			continue
		}
		var k Known
		if err := json.Unmarshal([]byte(line), &k); err != nil {
			return nil, fmt.Errorf("known findings: %v in %q", err, line)
		}
		out = append(out, k)
	}
	return out, sc.Err()
}

// ---------------------------------------------------------------------------
// Finishing a run: output lines, evidence file, exit code

type PropMeta struct {
	ID          string
	Level       string // "other" | "proof"
	Explanation string
	Assumptions []string
	TrustedBase []string
	Templates   string
}

// Finish prints the report, writes evidence and replay files and returns the process exit code.
func (c *Ctx) Finish(meta PropMeta, verifDir string, start time.Time, cmdline string) int {
	known, err := LoadKnown(filepath.Join(verifDir, "known_findings.jsonl"))
	if err != nil {
		fmt.Println("internal error:", err)
		return 2
	}
	knownByKey := map[string]Known{}
	for _, k := range known {
		if k.Kind == "finding" && k.Property == c.Prop {
			knownByKey[k.Key] = k
		}
	}
	sort.SliceStable(c.Obs, func(i, j int) bool { return c.Obs[i].Key < c.Obs[j].Key })
	discharged, violations := 0, 0
	var viol []*Ob
	for _, o := range c.Obs {
		switch o.Status {
		case Discharged:
			discharged++
			fmt.Printf("ok        %s [%s] %s\n", o.Key, o.Rule, o.Detail)
		default:
			if k, ok := knownByKey[strings.TrimPrefix(o.Key, "386:")]; ok && o.Status == Violated {
				o.Known = k.What
				fmt.Printf("known     %s [%s] %s (%s)\n", o.Key, o.Rule, o.Detail, o.Pos)
				fmt.Printf("KNOWN-FINDING: property=%s %s\n", c.Prop, k.What)
				continue
			}
			violations++
			viol = append(viol, o)
			fmt.Printf("%-9s %s [%s] %s (%s)\n", strings.ToUpper(string(o.Status)), o.Key, o.Rule, o.Detail, o.Pos)
		}
	}
	for _, n := range c.Notes {
		fmt.Println("note      " + n)
	}
	replayDir := filepath.Join(verifDir, "evidence", "replay")
	if len(viol) > 0 {
		os.MkdirAll(replayDir, 0o755)
	}
	for _, o := range viol {
		h := sha1.Sum([]byte(o.Key))
		path := filepath.Join(replayDir, fmt.Sprintf("%s-%x.json", c.Prop, h[:5]))
		b, _ := json.MarshalIndent(map[string]interface{}{
			"property": c.Prop, "tier": c.Tier, "obligation": o,
			"how_to_replay": cmdline + "  (the check is a deterministic static analysis of /repo's working tree; re-running it reproduces the report)",
		}, "", " ")
		os.WriteFile(path, append(b, '\n'), 0o644)
		rel, _ := filepath.Rel(verifDir, path)
		fmt.Printf("VIOLATION property=%s replay=%s\n", c.Prop, rel)
	}

	// evidence
	c.P.indexFuncs()
	nCFG, nBlocks, nCalls := 0, 0, 0
	for _, f := range c.P.allFuncs {
		if f.cfg != nil {
			nCFG++
			nBlocks += len(f.cfg.Blocks)
		}
		if f.callsOK {
			nCalls += len(f.calls)
		}
	}
	seed := 0
	if s := os.Getenv("VERIF_SEED"); s != "" {
		if v, err := strconv.Atoi(s); err == nil {
			seed = v
		}
	}
	samples := make([]interface{}, 0, len(c.Obs))
	for _, o := range c.Obs {
		samples = append(samples, o)
	}
	cov := map[string]interface{}{
		"obligations":          len(c.Obs),
		"discharged":           discharged,
		"explanation":          meta.Explanation,
		"rule_templates":       meta.Templates,
		"samples":              samples,
		"packages_loaded":      len(c.P.All),
		"functions_with_cfg":   nCFG,
		"cfg_blocks":           nBlocks,
		"call_sites_resolved":  nCalls,
		"checker_cmd":          cmdline,
		"trusted_base":         meta.TrustedBase,
		"exhaustive":           true,
		"notes":                c.Notes,
		"goarch":               c.P.GOARCH,
		"known_findings_shown": len(c.Obs) - discharged - violations,
	}
	for k, v := range c.Extra {
		cov[k] = v
	}
	ev := map[string]interface{}{
		"property_id": c.Prop,
		"tier":        c.Tier,
		"seed":        seed,
		"level":       meta.Level,
		"coverage":    cov,
		"assumptions": meta.Assumptions,
		"wall_s":      time.Since(start).Seconds(),
		"violations":  violations,
	}
	os.MkdirAll(filepath.Join(verifDir, "evidence"), 0o755)
	b, _ := json.MarshalIndent(ev, "", " ")
	if err := os.WriteFile(filepath.Join(verifDir, "evidence", c.Prop+".json"), append(b, '\n'), 0o644); err != nil {
		fmt.Println("internal error: cannot write evidence:", err)
		return 2
	}
	fmt.Printf("summary   property=%s tier=%s obligations=%d discharged=%d violations=%d known=%d functions=%d callsites=%d wall=%.1fs\n",
		c.Prop, c.Tier, len(c.Obs), discharged, violations, len(c.Obs)-discharged-violations, nCFG, nCalls, time.Since(start).Seconds())
	if len(c.Obs) == 0 {
		fmt.Println("internal error: no obligations were generated")
		return 2
	}
	for _, cf := range c.controlFailures {
		fmt.Println("internal error: positive control failed: " + cf)
	}
	if violations > 0 {
		return 1
	}
	if len(c.controlFailures) > 0 {
		return 2
	}
	return 0
}
