package core

import "go/types"

// ReachableScoped is like ReachableFuncs with CHA-style interface resolution, but only functions
// accepted by scope are entered (and reported). Calls through function-valued fields/variables are
// resolved when the field is assigned a module function or method value somewhere in the scope
// (collected by FieldFuncBindings).
func ReachableScoped(p *Prog, roots []*FuncInfo, scope func(*FuncInfo) bool) []*FuncInfo {
	seen := map[*FuncInfo]bool{}
	var order []*FuncInfo
	var work []*FuncInfo
	push := func(f *FuncInfo) {
		if f != nil && !seen[f] && scope(f) {
			seen[f] = true
			work = append(work, f)
		}
	}
	for _, r := range roots {
		push(r)
	}
	byMethodName := map[string][]*FuncInfo{}
	for _, f := range p.Funcs() {
		if f.Obj != nil && f.RecvTypeName() != "" && scope(f) {
			byMethodName[f.Obj.Name()] = append(byMethodName[f.Obj.Name()], f)
		}
	}
	for len(work) > 0 {
		f := work[0]
		work = work[1:]
		order = append(order, f)
		var visit func(g *FuncInfo)
		visit = func(g *FuncInfo) {
			for _, cs := range g.Calls() {
				fn, ok := cs.Callee.(*types.Func)
				if !ok {
					continue
				}
				if ci := p.FuncOf(fn); ci != nil {
					push(ci)
					continue
				}
				sig, _ := fn.Type().(*types.Signature)
				if sig == nil || sig.Recv() == nil {
					continue
				}
				iface, isIface := sig.Recv().Type().Underlying().(*types.Interface)
				if !isIface {
					continue
				}
				for _, cand := range byMethodName[fn.Name()] {
					rt := cand.Obj.Type().(*types.Signature).Recv().Type()
					if types.Implements(rt, iface) || types.Implements(types.NewPointer(rt), iface) {
						push(cand)
					}
				}
			}
			for _, l := range g.Lits() {
				visit(l)
			}
		}
		visit(f)
	}
	return order
}
