package core

import (
	"go/ast"
	"go/token"
	"go/types"
)

// ExternalMutators are methods of library containers that modify their receiver.
var ExternalMutators = map[string]bool{
	"container/list.List.MoveToFront": true, "container/list.List.MoveToBack": true,
	"container/list.List.PushFront": true, "container/list.List.PushBack": true,
	"container/list.List.Remove": true, "container/list.List.Init": true,
	"container/list.List.InsertBefore": true, "container/list.List.InsertAfter": true,
	"container/list.List.MoveBefore": true, "container/list.List.MoveAfter": true,
	"container/list.List.PushBackList": true, "container/list.List.PushFrontList": true,
	"github.com/emirpasic/gods/trees/redblacktree.Tree.Put":    true,
	"github.com/emirpasic/gods/trees/redblacktree.Tree.Remove": true,
	"github.com/emirpasic/gods/trees/redblacktree.Tree.Clear":  true,
}

// PurityResult: for each analysed function, the reason it is mutating ("" = read-only).
type PurityResult map[*FuncInfo]string

// Purity (T12) classifies the functions of the given packages as read-only or
// mutating. A function is mutating if it stores through anything but a fresh
// local, updates/deletes a map entry, calls a library mutator, calls a
// function-valued field or variable (opaque callback), or calls a mutating
// function of the analysed set.
func Purity(p *Prog, pkgs ...string) PurityResult {
	set := map[string]bool{}
	for _, k := range pkgs {
		set[k] = true
	}
	var funcs []*FuncInfo
	for _, f := range p.Funcs() {
		if set[RelPkg(f.Pkg.PkgPath)] && f.Obj != nil {
			funcs = append(funcs, f)
		}
	}
	res := PurityResult{}
	callees := map[*FuncInfo][]*FuncInfo{}
	for _, f := range funcs {
		res[f] = directMutation(f)
		for _, cs := range f.Calls() {
			if fn, ok := cs.Callee.(*types.Func); ok {
				if ci := p.FuncOf(fn); ci != nil {
					callees[f] = append(callees[f], ci)
				}
			}
		}
	}
	for changed := true; changed; {
		changed = false
		for _, f := range funcs {
			if res[f] != "" {
				continue
			}
			for _, c := range callees[f] {
				if r, ok := res[c]; ok && r != "" {
					res[f] = "calls mutating " + c.Name
					changed = true
					break
				}
			}
		}
	}
	return res
}

func directMutation(f *FuncInfo) string {
	info := f.Info()
	fresh := freshLocals(f)
	reason := ""
	set := func(r string) {
		if reason == "" {
			reason = r
		}
	}
	checkLHS := func(e ast.Expr) {
		root := e
		depth := 0
		heap := false
		isRef := func(x ast.Expr, index bool) bool {
			t := info.TypeOf(x)
			if t == nil {
				return true
			}
			switch t.Underlying().(type) {
			case *types.Pointer, *types.Map, *types.Chan, *types.Interface:
				return true
			case *types.Slice:
				return index
			}
			return false
		}
		for {
			root = ast.Unparen(root)
			switch x := root.(type) {
			case *ast.SelectorExpr:
				if isRef(x.X, false) {
					heap = true
				}
				root = x.X
				depth++
				continue
			case *ast.IndexExpr:
				if isRef(x.X, true) {
					heap = true
				}
				root = x.X
				depth++
				continue
			case *ast.StarExpr:
				heap = true
				root = x.X
				depth++
				continue
			}
			break
		}
		id, ok := root.(*ast.Ident)
		if !ok {
			set("store through " + types.ExprString(e) + " at " + f.P.Pos(e.Pos()))
			return
		}
		if id.Name == "_" {
			return
		}
		v, _ := info.ObjectOf(id).(*types.Var)
		if v == nil {
			return
		}
		if depth == 0 {
			// plain local/named-result assignment
			if v.Parent() != nil && v.Pkg() != nil && v.Parent() == v.Pkg().Scope() {
				set("assigns package variable " + id.Name)
			}
			return
		}
		if fresh[v] {
			return
		}
		if !heap && !(v.Parent() != nil && v.Pkg() != nil && v.Parent() == v.Pkg().Scope()) {
			return // store into a local value (struct/array copy)
		}
		set("store through " + types.ExprString(e) + " at " + f.P.Pos(e.Pos()))
	}
	f.InspectOwn(func(n ast.Node) bool {
		switch x := n.(type) {
		case *ast.AssignStmt:
			for _, l := range x.Lhs {
				checkLHS(l)
			}
		case *ast.IncDecStmt:
			checkLHS(x.X)
		case *ast.SendStmt:
			set("channel send")
		case *ast.GoStmt:
			set("go statement")
		}
		return true
	})
	for _, cs := range f.Calls() {
		switch o := cs.Callee.(type) {
		case *types.Builtin:
			if o.Name() == "delete" {
				set("delete() at " + f.P.Pos(cs.Pos()))
			}
		case *types.Func:
			if ExternalMutators[cs.Name] {
				set("calls " + cs.Name + " at " + f.P.Pos(cs.Pos()))
			}
		case *types.Var:
			set("calls function value " + o.Name() + " at " + f.P.Pos(cs.Pos()))
		}
	}
	// literals inside count as part of the function
	for _, l := range f.Lits() {
		if r := directMutation(l); r != "" {
			set("literal: " + r)
		}
	}
	return reason
}

// freshLocals: local variables all of whose definitions are make/new/composite literal/append(fresh,...).
func freshLocals(f *FuncInfo) map[*types.Var]bool {
	info := f.Info()
	defs := map[*types.Var][]ast.Expr{}
	bad := map[*types.Var]bool{}
	f.InspectOwn(func(n ast.Node) bool {
		switch x := n.(type) {
		case *ast.AssignStmt:
			if len(x.Lhs) == len(x.Rhs) {
				for i, l := range x.Lhs {
					if id, ok := l.(*ast.Ident); ok {
						if v, ok := info.ObjectOf(id).(*types.Var); ok {
							defs[v] = append(defs[v], x.Rhs[i])
						}
					}
				}
			} else {
				for _, l := range x.Lhs {
					if id, ok := l.(*ast.Ident); ok {
						if v, ok := info.ObjectOf(id).(*types.Var); ok {
							bad[v] = true
						}
					}
				}
			}
		case *ast.ValueSpec:
			for i, id := range x.Names {
				if v, ok := info.ObjectOf(id).(*types.Var); ok {
					if i < len(x.Values) {
						defs[v] = append(defs[v], x.Values[i])
					} else if len(x.Values) == 0 {
						defs[v] = append(defs[v], nil) // zero value: fresh for value types
					} else {
						bad[v] = true
					}
				}
			}
		case *ast.RangeStmt:
			for _, e := range []ast.Expr{x.Key, x.Value} {
				if id, ok := e.(*ast.Ident); ok && x.Tok == token.DEFINE {
					if v, ok := info.ObjectOf(id).(*types.Var); ok {
						bad[v] = true
					}
				}
			}
		}
		return true
	})
	fresh := map[*types.Var]bool{}
	var isFresh func(e ast.Expr, v *types.Var) bool
	isFresh = func(e ast.Expr, v *types.Var) bool {
		if e == nil {
			// var x T: fresh unless pointer/map/slice typed nil (storing through nil would panic anyway)
			return true
		}
		switch x := ast.Unparen(e).(type) {
		case *ast.CompositeLit:
			return true
		case *ast.UnaryExpr:
			if x.Op == token.AND {
				_, ok := ast.Unparen(x.X).(*ast.CompositeLit)
				return ok
			}
		case *ast.CallExpr:
			if b, ok := ObjOfExpr(info, x.Fun).(*types.Builtin); ok {
				switch b.Name() {
				case "make", "new":
					return true
				case "append":
					if len(x.Args) > 0 {
						if id, ok := ast.Unparen(x.Args[0]).(*ast.Ident); ok {
							if w, ok := info.ObjectOf(id).(*types.Var); ok && (w == v || fresh[w]) {
								return true
							}
						}
					}
				}
			}
		case *ast.BasicLit:
			return true
		}
		return false
	}
	// iterate to a fixpoint (append chains)
	for iter := 0; iter < 3; iter++ {
		for v, ds := range defs {
			if bad[v] || v.Parent() == nil {
				continue
			}
			ok := true
			for _, d := range ds {
				if !isFresh(d, v) {
					ok = false
					break
				}
			}
			if ok {
				fresh[v] = true
			}
		}
	}
	// parameters and receivers are never fresh
	if f.Type != nil && f.Type.Params != nil {
		for _, fl := range f.Type.Params.List {
			for _, nm := range fl.Names {
				if v, ok := info.Defs[nm].(*types.Var); ok {
					delete(fresh, v)
				}
			}
		}
	}
	if rv := f.Recv(); rv != nil {
		delete(fresh, rv)
	}
	return fresh
}
