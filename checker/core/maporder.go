package core

import (
	"go/ast"
	"go/token"
	"go/types"
)

// MapRange is one `range` over a map with its order-sensitivity classification (T10).
type MapRange struct {
	F       *FuncInfo
	Stmt    *ast.RangeStmt
	Reasons []string // empty = order-insensitive
}

// Sensitive says whether the iteration order can influence the outcome.
func (m MapRange) Sensitive() bool { return len(m.Reasons) > 0 }

// MapRanges classifies every range-over-map statement of f (nested literals excluded).
// A range is order-insensitive iff its body only
//   - stores into maps / deletes map entries,
//   - accumulates into outer variables with a commutative operator (+=, |=, &=, ^=, *=, ++, --),
//   - assigns constants to outer variables (idempotent flags),
//   - appends to an outer slice that is sorted (sort.*) on every path between the loop and any
//     return (so the iteration order cannot escape),
//   - assigns iteration-local variables,
//   - leaves early only by returning a non-nil error (acceptance does not depend on order).
//
// Everything else (break/goto, last-writer-wins assignment to an outer variable, unsorted append,
// calling a function-valued field or variable, send, go) is order-sensitive.
// Plain calls are assumed not to leak the order (stated limitation of the rule).
func MapRanges(f *FuncInfo) []MapRange {
	var out []MapRange
	info := f.Info()
	f.InspectOwn(func(n ast.Node) bool {
		rs, ok := n.(*ast.RangeStmt)
		if !ok {
			return true
		}
		t := info.TypeOf(rs.X)
		if t == nil {
			return true
		}
		if _, isMap := t.Underlying().(*types.Map); !isMap {
			return true
		}
		out = append(out, classifyMapRange(f, rs))
		return true
	})
	return out
}

func classifyMapRange(f *FuncInfo, rs *ast.RangeStmt) MapRange {
	info := f.Info()
	mr := MapRange{F: f, Stmt: rs}
	add := func(pos token.Pos, why string) {
		mr.Reasons = append(mr.Reasons, why+" at "+f.P.Pos(pos))
	}
	inner := func(v *types.Var) bool {
		return v != nil && v.Pos() >= rs.Pos() && v.Pos() < rs.End()
	}
	rootVar := func(e ast.Expr) (*types.Var, bool) {
		through := false
		for {
			e = ast.Unparen(e)
			switch x := e.(type) {
			case *ast.SelectorExpr:
				e = x.X
				through = true
				continue
			case *ast.IndexExpr:
				e = x.X
				through = true
				continue
			case *ast.StarExpr:
				e = x.X
				through = true
				continue
			}
			break
		}
		id, ok := e.(*ast.Ident)
		if !ok {
			return nil, through
		}
		v, _ := info.ObjectOf(id).(*types.Var)
		return v, through
	}
	var appended []*types.Var
	ast.Inspect(rs.Body, func(n ast.Node) bool {
		switch x := n.(type) {
		case *ast.FuncLit:
			return false
		case *ast.BranchStmt:
			if x.Tok == token.BREAK || x.Tok == token.GOTO {
				// a break that targets an inner loop/switch is harmless: only flag when no inner breakable encloses it
				if !insideInnerBreakable(rs.Body, x) {
					add(x.Pos(), "early exit ("+x.Tok.String()+")")
				}
			}
		case *ast.ReturnStmt:
			// tolerated when it returns a non-nil error as last result
			okErr := false
			if len(x.Results) > 0 {
				last := x.Results[len(x.Results)-1]
				if tv, ok := info.Types[last]; ok && tv.Type != nil && types.Implements(tv.Type, errorIface()) || isErrorTyped(info, last) {
					if !IsNil(info, last) {
						okErr = true
					}
				}
			}
			if !okErr {
				add(x.Pos(), "early return of a non-error result")
			}
		case *ast.SendStmt:
			add(x.Pos(), "channel send")
		case *ast.GoStmt:
			add(x.Pos(), "go statement")
		case *ast.IncDecStmt:
			// commutative
		case *ast.AssignStmt:
			for i, l := range x.Lhs {
				// map store?
				if ix, ok := ast.Unparen(l).(*ast.IndexExpr); ok {
					if _, isMap := info.TypeOf(ix.X).Underlying().(*types.Map); isMap {
						continue
					}
				}
				v, through := rootVar(l)
				if v == nil {
					if id, ok := ast.Unparen(l).(*ast.Ident); ok && id.Name == "_" {
						continue
					}
					add(l.Pos(), "store through a non-variable expression")
					continue
				}
				if inner(v) {
					continue
				}
				switch x.Tok {
				case token.ADD_ASSIGN, token.OR_ASSIGN, token.AND_ASSIGN, token.XOR_ASSIGN, token.MUL_ASSIGN:
					if b, ok := info.TypeOf(l).Underlying().(*types.Basic); ok && b.Info()&types.IsString != 0 {
						add(l.Pos(), "string concatenation in iteration order")
					}
					continue
				case token.SUB_ASSIGN:
					continue
				}
				var rhs ast.Expr
				if len(x.Lhs) == len(x.Rhs) {
					rhs = x.Rhs[i]
				}
				if rhs != nil {
					if tv, ok := info.Types[rhs]; ok && tv.Value != nil {
						continue // constant: idempotent flag
					}
					if id, ok := ast.Unparen(rhs).(*ast.Ident); ok && (id.Name == "true" || id.Name == "false") {
						continue
					}
					if call, ok := ast.Unparen(rhs).(*ast.CallExpr); ok {
						// x = x.Add(x, v) on math/big values: commutative accumulation
						if fn, ok := ObjOfExpr(info, call.Fun).(*types.Func); ok && fn.Pkg() != nil && fn.Pkg().Path() == "math/big" && len(call.Args) == 2 {
							switch fn.Name() {
							case "Add", "Mul", "Or", "And", "Xor":
								if sel, ok := ast.Unparen(call.Fun).(*ast.SelectorExpr); ok {
									rv, _ := rootVar(sel.X)
									a0, _ := rootVar(call.Args[0])
									a1, _ := rootVar(call.Args[1])
									if rv == v && (a0 == v || a1 == v) && !through {
										continue
									}
								}
							}
						}
						if b, ok := ObjOfExpr(info, call.Fun).(*types.Builtin); ok && b.Name() == "append" && len(call.Args) > 0 {
							if av, _ := rootVar(call.Args[0]); av == v && !through {
								appended = append(appended, v)
								continue
							}
						}
					}
				}
				add(l.Pos(), "last-writer-wins assignment to "+v.Name()+" declared outside the loop")
			}
		case *ast.CallExpr:
			obj, _ := f.P.ResolveCallee(info, x)
			if v, ok := obj.(*types.Var); ok {
				add(x.Pos(), "call of function value "+v.Name()+" in iteration order")
			}
		}
		return true
	})
	// appended slices must be sorted on every path from the loop's exit to a return
	for _, v := range appended {
		_, done := f.LoopOf(rs)
		if done == nil {
			add(rs.Pos(), "cannot locate the loop exit")
			continue
		}
		var sorts []Point
		for _, cs := range f.Calls() {
			switch cs.Name {
			case "sort.Slice", "sort.SliceStable", "sort.Sort", "sort.Stable", "sort.Strings", "sort.Ints":
				if len(cs.Call.Args) > 0 {
					mentions := false
					ast.Inspect(cs.Call.Args[0], func(n ast.Node) bool {
						if id, ok := n.(*ast.Ident); ok && info.ObjectOf(id) == types.Object(v) {
							mentions = true
						}
						return !mentions
					})
					if mentions {
						sorts = append(sorts, cs.Pt)
					}
				}
			}
		}
		_, found := PathQuery{F: f, From: Point{done, 0}, Avoid: PointSet(sorts...), TargetExit: true}.Find()
		if found || len(sorts) == 0 {
			add(rs.Pos(), "appends to "+v.Name()+" in iteration order and the slice is not sorted before the function returns")
		}
	}
	return mr
}

func insideInnerBreakable(body *ast.BlockStmt, br *ast.BranchStmt) bool {
	if br.Label != nil || br.Tok != token.BREAK {
		return false
	}
	inside := false
	ast.Inspect(body, func(n ast.Node) bool {
		switch x := n.(type) {
		case *ast.ForStmt, *ast.RangeStmt, *ast.SwitchStmt, *ast.TypeSwitchStmt, *ast.SelectStmt:
			if x.Pos() <= br.Pos() && br.End() <= x.End() {
				inside = true
			}
		}
		return true
	})
	return inside
}

var errIface *types.Interface

func errorIface() *types.Interface {
	if errIface == nil {
		errIface = types.Universe.Lookup("error").Type().Underlying().(*types.Interface)
	}
	return errIface
}

func isErrorTyped(info *types.Info, e ast.Expr) bool {
	t := info.TypeOf(e)
	if t == nil {
		return false
	}
	return types.Implements(t, errorIface())
}

// NondetEffects lists the non-deterministic effects directly inside f (T11): calls into math/rand,
// time.Now/Since/Until, go statements, select statements. Map ranges are reported by MapRanges.
func NondetEffects(f *FuncInfo) []string {
	var out []string
	for _, cs := range f.Calls() {
		if fn, ok := cs.Callee.(*types.Func); ok && fn.Pkg() != nil {
			switch fn.Pkg().Path() {
			case "math/rand", "crypto/rand":
				out = append(out, "call of "+cs.Name+" at "+f.P.Pos(cs.Pos()))
			case "time":
				switch fn.Name() {
				case "Now", "Since", "Until", "After", "Tick", "NewTimer", "NewTicker", "AfterFunc", "Sleep":
					out = append(out, "call of "+cs.Name+" at "+f.P.Pos(cs.Pos()))
				}
			}
		}
	}
	f.InspectOwn(func(n ast.Node) bool {
		switch x := n.(type) {
		case *ast.GoStmt:
			out = append(out, "go statement at "+f.P.Pos(x.Pos()))
		case *ast.SelectStmt:
			out = append(out, "select statement at "+f.P.Pos(x.Pos()))
		}
		return true
	})
	return out
}

// StaticCallees returns the module functions statically called from f (including from its literals).
func StaticCallees(f *FuncInfo) []*FuncInfo {
	var out []*FuncInfo
	seen := map[*FuncInfo]bool{}
	var visit func(g *FuncInfo)
	visit = func(g *FuncInfo) {
		for _, cs := range g.Calls() {
			if fn, ok := cs.Callee.(*types.Func); ok {
				if ci := f.P.FuncOf(fn); ci != nil && !seen[ci] {
					seen[ci] = true
					out = append(out, ci)
				}
			}
		}
		for _, l := range g.Lits() {
			visit(l)
		}
	}
	visit(f)
	return out
}

// ReachableFuncs returns the functions reachable from the roots through static calls (and method-value
// references are not followed); interface calls are resolved with a CHA-style approximation over the
// methods of module types when resolveIface is set.
func ReachableFuncs(p *Prog, roots []*FuncInfo, resolveIface bool) []*FuncInfo {
	seen := map[*FuncInfo]bool{}
	var order []*FuncInfo
	var work []*FuncInfo
	for _, r := range roots {
		if r != nil && !seen[r] {
			seen[r] = true
			work = append(work, r)
		}
	}
	var byMethodName map[string][]*FuncInfo
	if resolveIface {
		byMethodName = map[string][]*FuncInfo{}
		for _, f := range p.Funcs() {
			if f.Obj != nil && f.RecvTypeName() != "" {
				byMethodName[f.Obj.Name()] = append(byMethodName[f.Obj.Name()], f)
			}
		}
	}
	for len(work) > 0 {
		f := work[0]
		work = work[1:]
		order = append(order, f)
		var visit func(g *FuncInfo)
		visit = func(g *FuncInfo) {
			for _, cs := range g.Calls() {
				fn, ok := cs.Callee.(*types.Func)
				if !ok {
					continue
				}
				if ci := p.FuncOf(fn); ci != nil {
					if !seen[ci] {
						seen[ci] = true
						work = append(work, ci)
					}
					continue
				}
				if resolveIface {
					sig, _ := fn.Type().(*types.Signature)
					if sig != nil && sig.Recv() != nil {
						if _, isIface := sig.Recv().Type().Underlying().(*types.Interface); isIface {
							for _, cand := range byMethodName[fn.Name()] {
								// receiver type must implement the interface
								rt := cand.Obj.Type().(*types.Signature).Recv().Type()
								if types.Implements(rt, sig.Recv().Type().Underlying().(*types.Interface)) || types.Implements(types.NewPointer(rt), sig.Recv().Type().Underlying().(*types.Interface)) {
									if !seen[cand] {
										seen[cand] = true
										work = append(work, cand)
									}
								}
							}
						}
					}
				}
			}
			for _, l := range g.Lits() {
				visit(l)
			}
		}
		visit(f)
	}
	return order
}
