package core

import (
	"go/ast"
	"go/token"
	"go/types"

	"golang.org/x/tools/go/cfg"
)

// Iteration is a loop over a collection (or over 0..n-1), independent of how it is written:
//
//	for i, v := range C            for i := range C            for _, v := range C
//	for i := 0; i < len(C); i++    for i := 0; i < n; i++  (n := len(C) or n := X.Len())
//	xs := C; for i := 0; i < len(xs); i++ { v := xs[i] ... }
//
// Rules that need "for every element" should be written against this view, not against RangeStmt.
type Iteration struct {
	F        *FuncInfo
	Stmt     ast.Stmt
	Body     *ast.BlockStmt
	Coll     ast.Expr   // the collection expression (single-definition locals looked through by the caller's resolver); nil for pure counted loops
	Bound    ast.Expr   // counted loops: the exclusive upper bound expression (len(C), n, X.Len())
	Index    *types.Var // index / key variable (nil if absent)
	Value    *types.Var // range value variable (nil if absent)
	Counted  bool       // written as a three-clause (or equivalent) counted loop starting at 0 and stepping by 1
	FromZero bool
	Head     *cfg.Block
	Done     *cfg.Block
	Complete bool // the loop is left only through its head (no break/goto); returns inside the body are allowed
}

// IsElem reports whether e denotes the element of the current iteration: the range value variable,
// C[i] for the iteration's collection and index, or a local defined as one of those.
func (it *Iteration) IsElem(e ast.Expr, resolve func(ast.Expr) ast.Expr) bool {
	e = ast.Unparen(e)
	if resolve != nil {
		e = resolve(e)
	}
	info := it.F.Info()
	if id, ok := e.(*ast.Ident); ok {
		if v, _ := info.ObjectOf(id).(*types.Var); v != nil && v == it.Value {
			return true
		}
		return false
	}
	if ix, ok := e.(*ast.IndexExpr); ok && it.Index != nil {
		idx := ast.Unparen(ix.Index)
		// strip conversions of the index
		for {
			call, isCall := idx.(*ast.CallExpr)
			if !isCall || len(call.Args) != 1 {
				break
			}
			if tv, ok := info.Types[call.Fun]; ok && tv.IsType() {
				idx = ast.Unparen(call.Args[0])
				continue
			}
			break
		}
		if id, ok := idx.(*ast.Ident); ok {
			if v, _ := info.ObjectOf(id).(*types.Var); v == it.Index {
				return it.Coll == nil || sameExpr(info, ix.X, it.Coll, resolve)
			}
		}
	}
	return false
}

func sameExpr(info *types.Info, a, b ast.Expr, resolve func(ast.Expr) ast.Expr) bool {
	a, b = ast.Unparen(a), ast.Unparen(b)
	if resolve != nil {
		a, b = resolve(a), resolve(b)
	}
	return types.ExprString(a) == types.ExprString(b)
}

// IterationOf recognises the loop statement as an iteration (ok=false for other loops, e.g. `for {}`
// with breaks or loops with arbitrary conditions).
func IterationOf(f *FuncInfo, loop ast.Stmt, resolve func(ast.Expr) ast.Expr) (*Iteration, bool) {
	info := f.Info()
	it := &Iteration{F: f, Stmt: loop}
	it.Head, it.Done = f.LoopOf(loop)
	if it.Head != nil && it.Done != nil {
		n := 0
		for _, b := range f.CFG().Blocks {
			if !b.Live {
				continue
			}
			for _, s := range b.Succs {
				if s == it.Done {
					n++
					if b != it.Head {
						n += 100
					}
				}
			}
		}
		it.Complete = n == 1
	}
	switch s := loop.(type) {
	case *ast.RangeStmt:
		it.Body = s.Body
		it.Coll = s.X
		if resolve != nil {
			it.Coll = resolve(s.X)
		}
		if id, ok := s.Key.(*ast.Ident); ok && id.Name != "_" {
			it.Index, _ = info.ObjectOf(id).(*types.Var)
		}
		if id, ok := s.Value.(*ast.Ident); ok && id.Name != "_" {
			it.Value, _ = info.ObjectOf(id).(*types.Var)
		}
		it.FromZero = true
		return it, true
	case *ast.ForStmt:
		it.Body = s.Body
		it.Counted = true
		// index variable: from the init clause, or the variable compared in the condition
		var iv *types.Var
		if as, ok := s.Init.(*ast.AssignStmt); ok && len(as.Lhs) == 1 && len(as.Rhs) == 1 {
			if id, ok := as.Lhs[0].(*ast.Ident); ok {
				iv, _ = info.ObjectOf(id).(*types.Var)
				init := ast.Unparen(as.Rhs[0])
				for {
					call, isCall := init.(*ast.CallExpr)
					if !isCall || len(call.Args) != 1 {
						break
					}
					if tv, ok := info.Types[call.Fun]; ok && tv.IsType() {
						init = ast.Unparen(call.Args[0])
						continue
					}
					break
				}
				it.FromZero = IsConstInt(info, init, 0)
			}
		}
		if iv == nil || s.Cond == nil {
			return nil, false
		}
		// condition i < B (normalised)
		cm, ok := NormCmp(Fact{Expr: s.Cond, Truth: true})
		if !ok || cm.R == nil || cm.Op != token.LSS {
			return nil, false
		}
		if id, ok := ast.Unparen(cm.L).(*ast.Ident); !ok || info.ObjectOf(id) != types.Object(iv) {
			return nil, false
		}
		it.Index = iv
		it.Bound = cm.R
		b := ast.Unparen(cm.R)
		if resolve != nil {
			b = resolve(b)
		}
		// strip conversions
		for {
			call, isCall := b.(*ast.CallExpr)
			if !isCall || len(call.Args) != 1 {
				break
			}
			if tv, ok := info.Types[call.Fun]; ok && tv.IsType() {
				b = ast.Unparen(call.Args[0])
				if resolve != nil {
					b = resolve(b)
				}
				continue
			}
			break
		}
		if call, ok := b.(*ast.CallExpr); ok {
			if bi, ok := ObjOfExpr(info, call.Fun).(*types.Builtin); ok && bi.Name() == "len" && len(call.Args) == 1 {
				it.Coll = call.Args[0]
				if resolve != nil {
					it.Coll = resolve(call.Args[0])
				}
			}
		}
		// step: i++ in the post clause, or as the last effect of every path through the body
		stepOK := false
		if inc, ok := s.Post.(*ast.IncDecStmt); ok && inc.Tok == token.INC {
			if id, ok := ast.Unparen(inc.X).(*ast.Ident); ok && info.ObjectOf(id) == types.Object(iv) {
				stepOK = true
			}
		}
		if !stepOK {
			return nil, false
		}
		return it, true
	}
	return nil, false
}

// EveryIterationPasses: does every path from the entry of the loop body to the next iteration (or to
// the loop's exit through its head) pass one of the points? Paths that leave the function (return,
// panic) owe nothing unless countReturns is set.
func (it *Iteration) EveryIterationPasses(via []Point, countReturns bool) (bool, []Point) {
	if it.Head == nil || len(it.Head.Succs) == 0 {
		return false, nil
	}
	body := it.Head.Succs[0]
	// ForStmt with a post clause: the back-edge goes through the post block to the head
	q := PathQuery{F: it.F, From: Point{body, 0}, Avoid: PointSet(via...), TargetBlock: func(b *cfg.Block) bool { return b == it.Head }, TargetExit: countReturns}
	path, found := q.Find()
	return !found, path
}
