package rules

import (
	"go/ast"
	"go/constant"
	"go/token"
	"go/types"

	"lachk/core"
)

// Results of helper calls held in locals. A refactoring may replace a sentinel value or an in-place
// mutate-or-not by a helper with an explicit boolean result (`v, ok := h(args)`): the local `ok` then
// stands for "which return of h was taken", and `v` for the value that return gives. The facts are
// read from the helper's returns (result expression and the branch edges leading to the return), not
// from the shape of the caller.

// c30CallDef: v is a local variable of f with exactly one definition, and that definition takes result
// idx of a call (`…, v, … := h(…)`, `v := h(…)`, or one such plain assignment after `var v T`). Locals
// that are also stored into component-wise, or assigned in a nested literal, have none.
func c30CallDef(f *core.FuncInfo, v *types.Var) (call *ast.CallExpr, idx int, pt core.Point, ok bool) {
	if f == nil || v == nil || v.IsField() || f.Body == nil || !(f.Body.Pos() <= v.Pos() && v.Pos() < f.Body.End()) {
		return nil, 0, core.Point{}, false
	}
	n := 0
	for _, a := range assignments(f) {
		if varOfRaw(f, a.LHS) != v {
			if root, path := c30RawPath(f, a.LHS); root == v && len(path) > 0 {
				return nil, 0, core.Point{}, false
			}
			continue
		}
		as, isAssign := a.Stmt.(*ast.AssignStmt)
		if !isAssign {
			if vs, isSpec := a.Stmt.(*ast.ValueSpec); isSpec && len(vs.Values) == 0 {
				continue
			}
			return nil, 0, core.Point{}, false
		}
		if len(as.Rhs) != 1 || (as.Tok != token.DEFINE && as.Tok != token.ASSIGN) {
			return nil, 0, core.Point{}, false
		}
		cl, isCall := ast.Unparen(as.Rhs[0]).(*ast.CallExpr)
		if !isCall {
			return nil, 0, core.Point{}, false
		}
		n++
		call, pt = cl, a.Pt
		for i, l := range as.Lhs {
			if l == a.LHS {
				idx = i
			}
		}
	}
	for _, l := range allLits(f) {
		for _, a := range assignments(l) {
			if varOfRaw(l, a.LHS) == v {
				return nil, 0, core.Point{}, false
			}
		}
	}
	if n != 1 {
		return nil, 0, core.Point{}, false
	}
	return call, idx, pt, true
}

// c30ResultCase is what one return of a function gives for one of its results.
type c30ResultCase struct {
	Pt   core.Point
	Expr ast.Expr // the result expression (the named result's identifier for a bare return)
	Ret  *ast.ReturnStmt
}

// c30NumResults counts the results of g.
func c30NumResults(g *core.FuncInfo) int {
	n := 0
	if g.Type == nil || g.Type.Results == nil {
		return 0
	}
	for _, fl := range g.Type.Results.List {
		if len(fl.Names) == 0 {
			n++
		} else {
			n += len(fl.Names)
		}
	}
	return n
}

// c30ResultCases lists, for every return of g, the expression of result idx (ok false when a return
// forwards the results of another call, so that the expression is not available).
func c30ResultCases(g *core.FuncInfo, idx int) ([]c30ResultCase, bool) {
	nres := c30NumResults(g)
	if idx < 0 || idx >= nres {
		return nil, false
	}
	var named []*ast.Ident
	for _, fl := range g.Type.Results.List {
		named = append(named, fl.Names...)
	}
	var out []c30ResultCase
	for _, rp := range g.ReturnPoints() {
		r, _ := rp.Node().(*ast.ReturnStmt)
		switch {
		case r != nil && len(r.Results) == nres:
			out = append(out, c30ResultCase{rp, r.Results[idx], r})
		case r != nil && len(r.Results) == 0 && len(named) == nres:
			out = append(out, c30ResultCase{rp, named[idx], r})
		default:
			return nil, false
		}
	}
	return out, len(out) > 0
}

// c30ConstBool: e is the constant true or false.
func c30ConstBool(f *core.FuncInfo, e ast.Expr) (val, isConst bool) {
	v, ok := core.ConstVal(f.Info(), e)
	if !ok || v == nil || v.Kind() != constant.Bool {
		return false, false
	}
	return constant.BoolVal(v), true
}

// c30CallOfBool resolves a boolean expression to the call whose result it is: the call itself, or a
// local defined once from (one of the results of) a call.
func c30CallOfBool(f *core.FuncInfo, e ast.Expr) (call *ast.CallExpr, idx int, ok bool) {
	e = ast.Unparen(e)
	if cl, isCall := e.(*ast.CallExpr); isCall {
		return cl, 0, true
	}
	if v := varOfRaw(f, e); v != nil {
		if cl, i, _, ok := c30CallDef(f, v); ok {
			return cl, i, true
		}
		if d, isCall := ast.Unparen(singleDefExpr(f, v)).(*ast.CallExpr); isCall {
			return d, 0, true
		}
	}
	return nil, 0, false
}

// c30SiblingExcludes: the value that return `rc` of g gives to result idx of the call defining v cannot
// reach the point `to` of f, because every path from the call to `to` takes an edge on which another
// result of the same call (a boolean held in a local) has the truth value that this return does not
// give. So in `v, ok := h(); if ok { use(v) }` the returns of h with ok == false do not define the v
// that is used.
func c30SiblingExcludes(f *core.FuncInfo, call *ast.CallExpr, defPt core.Point, g *core.FuncInfo, ret *ast.ReturnStmt, to core.Point) bool {
	if ret == nil || len(ret.Results) != c30NumResults(g) {
		return false
	}
	edges := f.GuardEdges(func(ft core.Fact) bool {
		cm, ok := core.NormCmp(ft)
		if !ok || cm.R != nil {
			return false
		}
		v := varOfRaw(f, cm.L)
		if v == nil {
			return false
		}
		cl, j, _, ok := c30CallDef(f, v)
		if !ok || cl != call {
			return false
		}
		val, isConst := c30ConstBool(g, ret.Results[j])
		return isConst && val != (cm.Op == token.EQL)
	})
	_, found := core.PathQuery{F: f, From: defPt, FromAfter: true, Target: core.PointSet(to), AvoidEdge: edges}.Find()
	return !found
}

// c30StaleAcross: the locals of f that hold a copy of semaphore state (the capacity or the held amount,
// a component of them, or something computed from such a copy) defined once at a point which a caller
// going from `wait` back to `wait` does not pass on every path: while the caller sleeps in cond.Wait the
// mutex is released and the state can change (Terminate zeroes the capacity), so after the wake-up the
// copy no longer stands for the field. Copies made anew on every iteration are not stale.
func c30StaleAcross(f *core.FuncInfo, wait core.Point) func(g *core.FuncInfo, v *types.Var) bool {
	cache := map[*types.Var]bool{}
	var stale func(v *types.Var, depth int) bool
	stale = func(v *types.Var, depth int) bool {
		if val, ok := cache[v]; ok {
			return val
		}
		d := singleDef(f, v)
		if d == nil || depth <= 0 {
			return false
		}
		copies := mentionsField(f, d, semT+".maxProcessing") || mentionsField(f, d, semT+".processing")
		if !copies {
			ast.Inspect(d, func(n ast.Node) bool {
				if _, isLit := n.(*ast.FuncLit); isLit {
					return false
				}
				if id, ok := n.(*ast.Ident); ok {
					if v2, _ := f.Info().Uses[id].(*types.Var); v2 != nil && v2 != v && !v2.IsField() && stale(v2, depth-1) {
						copies = true
					}
				}
				return !copies
			})
		}
		res := false
		if copies {
			for _, a := range assignsToVar(f, v) {
				if a.RHS == d {
					again, _ := f.MustPassBetween(wait, []core.Point{a.Pt}, wait)
					res = !again
				}
			}
		}
		cache[v] = res
		return res
	}
	return func(g *core.FuncInfo, v *types.Var) bool {
		if g != f || v == nil {
			return false
		}
		return stale(v, 3)
	}
}
