package rules

import (
	"fmt"
	"go/ast"
	"go/token"
	"go/types"
	"sort"
	"strings"

	"golang.org/x/tools/go/cfg"

	"lachk/core"
)

const (
	c24Pkg      = "kvdb/table"
	c24Prefixed = "kvdb/table.prefixed"
	c24NoPrefix = "kvdb/table.noPrefix"
	c24IncPfx   = "kvdb/table.incPrefix"
	c24Sep      = "kvdb/table.separator"
)

// c24wrapper: one prefixing wrapper type. dir "down": keys come from the caller and go to the wrapped
// store with the prefix added; "up": keys come from the wrapped object and are handed on with the prefix removed.
type c24wrapper struct {
	dir    string
	prefix string   // canonical name of the prefix field
	under  []string // canonical names of the fields holding the wrapped object
}

// frozen from the property statement: which objects of kvdb/table sit between a caller and an underlying store
var c24Wrappers = map[string]c24wrapper{
	c24Pkg + ".Table":          {"down", c24Pkg + ".IteratedReader.prefix", []string{c24Pkg + ".Table.underlying", c24Pkg + ".IteratedReader.underlying"}},
	c24Pkg + ".IteratedReader": {"down", c24Pkg + ".IteratedReader.prefix", []string{c24Pkg + ".IteratedReader.underlying"}},
	c24Pkg + ".batch":          {"down", c24Pkg + ".batch.prefix", []string{c24Pkg + ".batch.batch"}},
	c24Pkg + ".snapshot":       {"down", c24Pkg + ".IteratedReader.prefix", []string{c24Pkg + ".snapshot.snap", c24Pkg + ".IteratedReader.underlying"}},
	c24Pkg + ".replayer":       {"up", c24Pkg + ".replayer.prefix", []string{c24Pkg + ".replayer.writer"}},
	c24Pkg + ".iterator":       {"up", c24Pkg + ".iterator.prefix", []string{c24Pkg + ".iterator.it"}},
}

// role of each []byte argument of the key-value interface methods (by method name, position)
var c24Roles = map[string][]string{
	"Put":         {"key", "value"},
	"Delete":      {"key"},
	"Has":         {"key"},
	"Get":         {"key"},
	"NewIterator": {"key", "start"},
	"Compact":     {"key", "limit"},
}

func init() {
	register("C24", "other", "T9 KeyFlow (taint of key parameters / keys from below), T14 CodecPair (prefixed/noPrefix), T4 GuardedBy with reaching definitions (Compact limit), T6 WhoMayWrite (prefix/underlying fields), provenance of wrapper construction",
		"Decides the key flow that table isolation depends on. (1) prefixed(key, prefix) returns a fresh concatenation prefix|separator|key and noPrefix cuts exactly len(prefix)+len(separator) bytes (returning shorter keys unchanged only under the matching length guard). (2) In every method of Table, IteratedReader, batch (keys going down) each key argument of a call on the wrapped store is prefixed(<the method's own key parameter>, receiver.prefix); in replayer and iterator (keys coming up) keys are handed on only as noPrefix(<key from below>, receiver.prefix); values and the iterator start are passed unchanged; a key parameter is used nowhere else (except nil tests). (3) NewIterator prefixes the iterator prefix and passes start unchanged (the underlying contract appends start to the prefix). (4) Compact passes prefixed(start) and, as the end, incPrefix(receiver.prefix) on exactly the limit == nil paths and prefixed(limit, receiver.prefix) otherwise (reaching definitions x nil-feasible paths; a nil end on limit == nil paths is tolerated with a note because it still covers the table). (5) Every wrapper object built inside the package (batch, replayer, iterator, snapshot, nested IteratedReader) carries the receiver's prefix and wraps the object obtained from the receiver's underlying store; New stores its prefix parameter and the same db in both underlying fields; NewTable is New(receiver, prefix); nothing assigns the prefix/underlying fields afterwards. (6) incPrefix can answer nil ('no upper bound') for a non-empty prefix, and wherever it (or a same-package function it calls) decides something by shifting a machine word by a count computed from the prefix length, the count stays below the operand width for every length the guards admit (Go yields 0 for larger counts, so the carry out of an all-0xff prefix of that length would go unseen). Not decided: the rest of the arithmetic of incPrefix (that it is the least key above every key with the prefix), disjointness of sibling prefixes (MigrateTables discards uniqKeys.Check's error), behaviour of the underlying store (C23), history equivalence.",
		[]string{"underlying NewIterator(prefix, start) iterates keys with the prefix starting at prefix|start (kvdb.Iteratee contract)", "underlying Compact treats a nil limit as 'to the end' (ethdb.Compacter contract)"},
		runC24)
}

// ---------------------------------------------------------------------------
// helpers (c24 prefix)

// c24recvField: is e a selection of the named field directly on the receiver variable of f?
func c24recvField(f *core.FuncInfo, e ast.Expr, field string) bool {
	if f.Recv() == nil {
		return false
	}
	root, path := fieldPath(f, e)
	return len(path) >= 1 && path[len(path)-1] == field && varOf(f, root) == f.Recv()
}

func c24isUnder(f *core.FuncInfo, w c24wrapper, e ast.Expr) bool {
	for _, u := range w.under {
		if c24recvField(f, e, u) {
			return true
		}
	}
	return false
}

// c24wrapCall: is e <fn>(inner, recv.prefix)? returns inner.
func c24wrapCall(f *core.FuncInfo, w c24wrapper, e ast.Expr, fn string) (inner ast.Expr, ok bool) {
	call := isCallTo(f, e, fn)
	if call == nil || len(call.Args) != 2 || !c24recvField(f, call.Args[1], w.prefix) {
		return nil, false
	}
	return ast.Unparen(call.Args[0]), true
}

func c24methodName(canonical string) string {
	if i := strings.LastIndex(canonical, "."); i >= 0 {
		return canonical[i+1:]
	}
	return canonical
}

func c24paramIndex(f *core.FuncInfo, v *types.Var) int {
	if v == nil || f.Type == nil || f.Type.Params == nil {
		return -1
	}
	n := 0
	for _, fl := range f.Type.Params.List {
		if len(fl.Names) == 0 {
			n++
		}
		n += len(fl.Names)
	}
	for i := 0; i < n; i++ {
		if f.Param(i) == v {
			return i
		}
	}
	return -1
}

func c24isBytes(t types.Type) bool { return t != nil && c32isByteSlice(t) }

// ---------------------------------------------------------------------------

func runC24(c *core.Ctx) {
	p := c.P

	c.Clause("C24.codec", func() {
		pre := c.Fn(c24Prefixed)
		no := c.Fn(c24NoPrefix)
		keyP, pfxP := pre.Param(0), pre.Param(1)
		c.Need(keyP != nil && pfxP != nil && c24isBytes(keyP.Type()) && c24isBytes(pfxP.Type()), "prefixed(key, prefix []byte)")
		pieces, why := c33concat(pre)
		if why != "" {
			c.Undecided("prefixed|concatenation", "T14 CodecPair", pre.Pos(), "prefixed is not a recognised concatenation onto a fresh slice: "+why)
			return
		}
		// pieces: prefix, [separator], key
		var names []string
		for _, pc := range pieces {
			o := pre.ObjOf(pc)
			switch {
			case o == types.Object(pfxP):
				names = append(names, "prefix")
			case o == types.Object(keyP):
				names = append(names, "key")
			case o != nil && p.ObjName(o) == c24Sep:
				names = append(names, "separator")
			default:
				names = append(names, "?"+exprStr(pc))
			}
		}
		got := strings.Join(names, "|")
		c.Check(got == "prefix|separator|key" || got == "prefix|key", "prefixed|result is prefix|separator|key on a fresh slice", "T14 CodecPair", pre.Pos(), "concatenates "+got+" onto an empty slice",
			"prefixed builds "+got+": the stored key does not start with the table prefix followed by the caller's key, so tables read or overwrite each other's records")
		// noPrefix
		nk, np := no.Param(0), no.Param(1)
		c.Need(nk != nil && np != nil, "noPrefix(key, prefix []byte)")
		namer := func(e ast.Expr) string {
			ln := isCallTo(no, e, "builtin.len")
			if ln == nil || len(ln.Args) != 1 {
				return ""
			}
			o := no.ObjOf(ln.Args[0])
			switch {
			case o == types.Object(nk):
				return "k"
			case o == types.Object(np):
				return "p"
			case o != nil && p.ObjName(o) == c24Sep:
				return "s"
			}
			return ""
		}
		cut := "p"
		if strings.Contains(got, "separator") {
			cut = "p + s"
		}
		wantGuard := core.ParseLinCmp("k - " + strings.ReplaceAll(cut, "+", "-") + " + 1 <= 0")
		okAll := len(no.ReturnPoints()) > 0
		nCut := 0
		for _, rp := range no.ReturnPoints() {
			r := rp.Node().(*ast.ReturnStmt)
			if len(r.Results) != 1 {
				okAll = false
				continue
			}
			e := ast.Unparen(r.Results[0])
			if se, ok := e.(*ast.SliceExpr); ok && varOf(no, se.X) == nk && se.High == nil && !se.Slice3 && se.Low != nil {
				// (a local holding the cut length stands for its definition)
				lin := core.Linearize(no.Info(), c24subst(no, se.Low, 0), namer)
				form := lin.String()
				wantForm := core.ParseLinCmp(cut + " == 0").Form.String()
				if form != wantForm {
					okAll = false
					c.Fail("noPrefix|cuts len(prefix)+len(separator)", "T14 CodecPair", r.Pos(), "noPrefix cuts "+exprStr(se.Low)+" bytes (normal form "+form+") but prefixed put "+cut+" bytes in front: iterator/replay keys come back with a piece of the prefix or without their first bytes")
				} else {
					nCut++
				}
				continue
			}
			if varOf(no, e) == nk {
				// short keys returned unchanged: only under len(key) < cut
				ok, wit := no.GuardedBy(rp, func(ft core.Fact) bool {
					lc, ok := c24linOrder(no, ft, namer)
					return ok && lc.Equal(wantGuard)
				})
				if !ok {
					okAll = false
					c.Fail("noPrefix|unchanged only when shorter than the prefix", "T14 CodecPair", r.Pos(), "noPrefix can return a key unchanged although it is long enough to carry the prefix: path "+no.DescribePath(wit))
				}
				continue
			}
			okAll = false
			c.Undecided("noPrefix|return shape", "T14 CodecPair", r.Pos(), "noPrefix returns "+exprStr(e)+": neither key[cut:] nor the unchanged short key")
		}
		c.Check(okAll && nCut >= 1, "noPrefix|inverse of prefixed", "T14 CodecPair", no.Pos(), "noPrefix(prefixed(k, p), p) = k: the cut equals the bytes prefixed puts in front ("+cut+")", "noPrefix is not the inverse of prefixed")
	})

	nKeyDown, nKeyUp, nLimit := 0, 0, 0 // one floor per role: keys going down, keys coming up, the compaction end

	c.Clause("C24.flow", func() {
		var typeNames []string
		for tn := range c24Wrappers {
			typeNames = append(typeNames, tn)
		}
		sort.Strings(typeNames)
		for _, tn := range typeNames {
			w := c24Wrappers[tn]
			wrapFn, other := c24Prefixed, c24NoPrefix
			if w.dir == "up" {
				wrapFn, other = c24NoPrefix, c24Prefixed
			}
			for _, f := range p.MethodsOf(tn) {
				who := short(f.Name)
				recv := f.Recv()
				if recv == nil {
					continue
				}
				roles := c24Roles[f.Obj.Name()]
				frames := c24helperFrames(f, w)
				// --- every call on the wrapped object
				for _, cs := range f.Calls() {
					if cs.Recv() == nil || !c24isUnder(f, w, cs.Recv()) {
						continue
					}
					m := c24methodName(cs.Name)
					croles, known := c24Roles[m]
					for i, a := range cs.Call.Args {
						if !c24isBytes(f.Info().TypeOf(a)) {
							continue
						}
						if !known || i >= len(croles) {
							c.Undecided(fmt.Sprintf("%s|%s arg %d", who, m, i), "T9 KeyFlow", a.Pos(), "a []byte argument is passed to "+short(cs.Name)+" whose key/value role is not in the rule table")
							continue
						}
						role := croles[i]
						key := fmt.Sprintf("%s|%s %s", who, m, role)
						if role == "key" || role == "limit" {
							// the value is computed by a plain helper from the receiver's prefix and the method's own
							// parameters: decided on the helper's returns, with its parameters bound (inlined view)
							if fr, idx := c24viewOf(f, frames, a); fr != nil {
								exprs, pts, okR := c24results(fr.G, idx)
								if !okR {
									c.Undecided(key, "T9 KeyFlow", a.Pos(), "the helper "+short(fr.G.Name)+" does not spell out its results on every return")
									continue
								}
								hname := short(fr.G.Name)
								if role == "limit" {
									nLimit++
									var lim *types.Var
									for pv, pi := range fr.keys {
										if pi == 1 {
											lim = pv
										}
									}
									if f.Obj.Name() != "Compact" || lim == nil {
										c.Undecided(key, "T9 KeyFlow", a.Pos(), "the compaction end is computed by "+hname+" without the method's limit parameter")
										continue
									}
									for k, e := range exprs {
										c24compactEndIn(c, who, fr, "<prefix>", pts[k], e, lim)
									}
									continue
								}
								if w.dir == "up" {
									nKeyUp++
								} else {
									nKeyDown++
								}
								for _, e := range exprs {
									inner, ok := fr.wrapCall(e, wrapFn)
									if !ok {
										c.Fail(key, "T9 KeyFlow", e.Pos(), fmt.Sprintf("the key passed to %s is computed by %s as %s, not %s(<key>, %s.prefix): the operation leaves the table's key space", short(cs.Name), hname, exprStr(e), short(wrapFn), recv.Name()))
										continue
									}
									pi := fr.keyParam(inner)
									okSrc := pi >= 0
									if okSrc && f.Obj.Name() == m {
										okSrc = pi == i
									} else if okSrc {
										okSrc = pi < len(roles) && roles[pi] == "key"
									}
									c.Check(okSrc, key, "T9 KeyFlow", e.Pos(), fmt.Sprintf("%s(%s, <prefix>) in %s, with the method's own key parameter and the receiver's prefix handed to it", short(wrapFn), exprStr(inner), hname),
										fmt.Sprintf("%s is applied to %s in %s, which is not this method's key parameter for that position", short(wrapFn), exprStr(inner), hname))
								}
								continue
							}
						}
						if role == "key" {
							// k := prefixed(key, t.prefix); underlying.Put(k, v)
							if lv := varOf(f, a); lv != nil && c24paramIndex(f, lv) < 0 {
								if d := c33singleDef(f, lv); d != nil && d.RHS != nil {
									a = d.RHS
								}
							}
						}
						switch role {
						case "key":
							if w.dir == "up" {
								nKeyUp++
							} else {
								nKeyDown++
							}
							inner, ok := c24wrapCall(f, w, a, wrapFn)
							if !ok {
								if _, wrong := c24wrapCall(f, w, a, other); wrong {
									c.Fail(key, "T9 KeyFlow", a.Pos(), fmt.Sprintf("%s applies %s where keys travel %s: the key reaches the wrapped object with the prefix %s", who, short(other), w.dir, map[string]string{"down": "removed instead of added", "up": "added instead of removed"}[w.dir]))
								} else {
									c.Fail(key, "T9 KeyFlow", a.Pos(), fmt.Sprintf("the key passed to %s is %s, not %s(<key>, %s.prefix): the operation leaves the table's key space", short(cs.Name), exprStr(a), short(wrapFn), recv.Name()))
								}
								continue
							}
							// the wrapped value is this method's own key parameter in the same role
							pi := c24paramIndex(f, varOf(f, inner))
							okSrc := pi >= 0 && len(assignsToVar(f, varOf(f, inner))) == 0
							if okSrc && f.Obj.Name() == m {
								okSrc = pi == i
							} else if okSrc {
								okSrc = pi < len(roles) && roles[pi] == "key"
							}
							c.Check(okSrc, key, "T9 KeyFlow", a.Pos(), fmt.Sprintf("%s(%s, %s.prefix) with the method's own key parameter", short(wrapFn), exprStr(inner), recv.Name()),
								fmt.Sprintf("%s is applied to %s, which is not this method's key parameter for that position", short(wrapFn), exprStr(inner)))
						case "value", "start":
							pi := c24paramIndex(f, varOf(f, a))
							okSrc := pi == i && f.Obj.Name() == m && len(assignsToVar(f, varOf(f, a))) == 0
							fail := "the value written differs from the caller's value"
							if role == "start" {
								fail = "the iterator start is altered: the underlying store appends start to the (already prefixed) iterator prefix, so any change makes the iteration begin at a different key"
							}
							c.Check(okSrc, key, "T9 KeyFlow (pass-through)", a.Pos(), role+" is the method's parameter, unchanged", who+" passes "+exprStr(a)+" as "+role+": "+fail)
						case "limit":
							nLimit++
							c24checkCompactEnd(c, f, w, cs, a)
						}
					}
				}
				// --- keys coming up from the wrapped object (iterator.Key)
				if w.dir == "up" {
					for _, cs := range f.Calls() {
						if cs.Recv() == nil || !c24isUnder(f, w, cs.Recv()) || c24methodName(cs.Name) != "Key" || len(cs.Call.Args) != 0 {
							continue
						}
						nKeyUp++
						key := who + "|Key from below"
						// the call must be the first argument of noPrefix(·, recv.prefix), and that is what is returned
						ok := false
						for _, rp := range f.ReturnPoints() {
							r := rp.Node().(*ast.ReturnStmt)
							if len(r.Results) == 1 {
								if inner, isW := c24wrapCall(f, w, r.Results[0], c24NoPrefix); isW && inner == ast.Expr(cs.Call) {
									ok = true
								}
							}
						}
						nRet := len(f.ReturnPoints())
						c.Check(ok && nRet == 1, key, "T9 KeyFlow", cs.Pos(), "returns noPrefix(<underlying>.Key(), "+recv.Name()+".prefix)", who+" hands the underlying iterator's key to the caller without removing this table's prefix (or not on every return): callers see keys of the underlying key space")
					}
				}
				// --- taint: a key parameter is used only inside wrapFn(·, recv.prefix) or in a nil test
				for i, role := range roles {
					if role != "key" && role != "limit" {
						continue
					}
					pv := f.Param(i)
					if pv == nil || !c24isBytes(pv.Type()) {
						continue
					}
					// handed to a helper that has a frame: the use is judged inside the helper, on its parameter
					viaHelper := map[*ast.Ident]bool{}
					stray := token.NoPos
					for call, fr := range frames {
						for j, a := range call.Args {
							id, isID := ast.Unparen(a).(*ast.Ident)
							if !isID || f.Info().Uses[id] != types.Object(pv) {
								continue
							}
							viaHelper[id] = true
							if hp := fr.G.Param(j); hp != nil {
								if s := c24strayUse(fr, hp, wrapFn, nil); s != token.NoPos && stray == token.NoPos {
									stray = s
								}
							}
						}
					}
					if s := c24strayUse(c24methodFrame(f, w), pv, wrapFn, viaHelper); s != token.NoPos {
						stray = s
					}
					c.Check(stray == token.NoPos, fmt.Sprintf("%s|key parameter %d used only through %s", who, i, short(wrapFn)), "T9 KeyFlow (taint)", stray,
						"every use of the key parameter is the first argument of "+short(wrapFn)+"(·, "+recv.Name()+".prefix) or a nil test", "the raw key parameter "+pv.Name()+" is used outside "+short(wrapFn)+"(·, "+recv.Name()+".prefix): a key can cross the table boundary with the wrong prefix state")
				}
			}
		}
		// vacuity only, one instance per role (every site found is judged above)
		c.ExpectAtLeast("calls on the wrapped store that carry a key down", nKeyDown, 1)
		c.ExpectAtLeast("keys handed up from the wrapped object", nKeyUp, 1)
		c.ExpectAtLeast("compaction ends handed to the wrapped store", nLimit, 1)
	})

	c.Clause("C24.wrap", func() {
		n := map[string]int{} // literals per wrapper type
		for _, f := range p.FuncsInPkg(c24Pkg) {
			var w c24wrapper
			isMethod := false
			if rt := f.RecvTypeName(); rt != "" {
				w, isMethod = c24Wrappers[rt]
			}
			// variables defined from a call on the receiver's wrapped store: v, err := recv.underlying.M()
			fromUnder := func(e ast.Expr) (method string, ok bool) {
				e = ast.Unparen(e)
				if v := varOf(f, e); v != nil {
					defs := assignsToVar(f, v)
					if len(defs) != 1 || defs[0].RHS == nil {
						return "", false
					}
					e = ast.Unparen(defs[0].RHS)
				}
				call, isCall := e.(*ast.CallExpr)
				if !isCall || !isMethod {
					return "", false
				}
				sel, isSel := ast.Unparen(call.Fun).(*ast.SelectorExpr)
				if !isSel || !c24isUnder(f, w, sel.X) {
					return "", false
				}
				return c24methodName(calleeName(f, call)), true
			}
			f.InspectOwn(func(nd ast.Node) bool {
				cl, ok := nd.(*ast.CompositeLit)
				if !ok || len(cl.Elts) == 0 {
					return true
				}
				nt, _ := f.Info().TypeOf(cl).(*types.Named)
				if nt == nil || nt.Obj().Pkg() == nil {
					return true
				}
				tname := p.ObjName(nt.Obj())
				if _, isW := c24Wrappers[tname]; !isW {
					return true
				}
				vals := map[string]ast.Expr{}
				c33litFields(f, cl, vals)
				who := short(f.Name) + "|" + short(tname) + " literal"
				wt := c24Wrappers[tname]
				n[tname]++
				// prefix
				pv := vals[wt.prefix]
				okP := false
				switch {
				case pv == nil:
				case isMethod && c24recvField(f, pv, w.prefix):
					okP = true
				case f.Name == c24Pkg+".New":
					pi := c24paramIndex(f, varOf(f, pv))
					okP = pi >= 0 && c24isBytes(f.Param(pi).Type()) && len(assignsToVar(f, f.Param(pi))) == 0
				}
				c.Check(okP, who+" carries the right prefix", "T9 KeyFlow (construction)", cl.Pos(), "prefix = "+exprStr(pv), fmt.Sprintf("the %s built in %s gets prefix %s, not the receiver's prefix (or New's prefix parameter): its keys are translated with a different prefix than the table's", short(tname), short(f.Name), exprStr(pv)))
				// wrapped objects
				var srcs []string
				okU := true
				var first types.Object
				for _, uf := range wt.under {
					uv, has := vals[uf]
					if !has {
						if tname == c24Pkg+".Table" || tname == c24Pkg+".snapshot" || len(wt.under) == 1 {
							okU = false
							srcs = append(srcs, short(uf)+" unset")
						}
						continue
					}
					switch {
					case f.Name == c24Pkg+".New":
						o := f.ObjOf(uv)
						pi := c24paramIndex(f, varOf(f, uv))
						if pi < 0 || (first != nil && o != first) {
							okU = false
						}
						first = o
						srcs = append(srcs, short(uf)+"="+exprStr(uv))
					case tname == c24Pkg+".replayer":
						pi := c24paramIndex(f, varOf(f, uv))
						if pi < 0 {
							okU = false
						}
						srcs = append(srcs, short(uf)+"="+exprStr(uv))
					default:
						m, ok := fromUnder(uv)
						want := map[string]string{c24Pkg + ".batch": "NewBatch", c24Pkg + ".iterator": "NewIterator", c24Pkg + ".snapshot": "GetSnapshot", c24Pkg + ".IteratedReader": "GetSnapshot"}[tname]
						if !ok || m != want {
							okU = false
						}
						o := f.ObjOf(uv)
						if first != nil && o != first {
							okU = false
						}
						if o != nil {
							first = o
						}
						srcs = append(srcs, short(uf)+"="+exprStr(uv)+" ("+m+")")
					}
				}
				c.Check(okU, who+" wraps the receiver's underlying object", "T9 KeyFlow (construction)", cl.Pos(), strings.Join(srcs, ", "), fmt.Sprintf("the %s built in %s does not wrap the object obtained from the receiver's own underlying store (or wraps two different ones): %s", short(tname), short(f.Name), strings.Join(srcs, ", ")))
				return true
			})
		}
		// vacuity only: every wrapper type of the table is built somewhere in the package (each literal is judged above)
		var wnames []string
		for tn := range c24Wrappers {
			wnames = append(wnames, tn)
		}
		sort.Strings(wnames)
		for _, tn := range wnames {
			c.ExpectAtLeast(short(tn)+" literals", n[tn], 1)
		}
		// NewTable nests through New(t, prefix)
		nt := c.Fn(c24Pkg + ".Table.NewTable")
		okNT := len(nt.ReturnPoints()) > 0
		for _, rp := range nt.ReturnPoints() {
			r := rp.Node().(*ast.ReturnStmt)
			call := (*ast.CallExpr)(nil)
			if len(r.Results) == 1 {
				call = isCallTo(nt, r.Results[0], c24Pkg+".New")
			}
			if call == nil || len(call.Args) != 2 || varOf(nt, call.Args[0]) != nt.Recv() || c24paramIndex(nt, varOf(nt, call.Args[1])) != 0 {
				okNT = false
			}
		}
		c.Check(okNT, "Table.NewTable|nests through New(receiver, prefix)", "T9 KeyFlow (construction)", nt.Pos(), "the sub-table's underlying store is the table itself: both prefixes are applied, inner first", "NewTable does not build New(t, prefix): the sub-table bypasses the outer table's prefix and writes into foreign key space")
		// nobody assigns prefix / underlying fields after construction
		fields := map[string]bool{}
		for _, w := range c24Wrappers {
			fields[w.prefix] = true
			for _, u := range w.under {
				fields[u] = true
			}
		}
		nAsg := 0
		for _, f := range p.Funcs() {
			if core.RelPkg(f.Pkg.PkgPath) != c24Pkg {
				continue
			}
			for _, a := range assignments(f) {
				if fields[fieldNameOf(f, a.LHS)] {
					nAsg++
					c.Fail(short(f.Name)+"|assigns "+short(fieldNameOf(f, a.LHS)), "T6 WhoMayWrite", a.Stmt.Pos(), short(f.Name)+" reassigns a prefix/underlying field of a table wrapper after construction: earlier keys were translated with another prefix or store")
				}
			}
		}
		if nAsg == 0 {
			c.Pass("prefix/underlying fields are set only by construction", "T6 WhoMayWrite", "no assignment to any prefix or underlying field in kvdb/table")
		}
	})

	c24Inc(c)
	c24Alias(c)
}

// c24checkCompactEnd decides the second argument of the underlying Compact: incPrefix(recv.prefix) exactly on the
// limit == nil paths, prefixed(limit, recv.prefix) otherwise.
func c24checkCompactEnd(c *core.Ctx, f *core.FuncInfo, w c24wrapper, cs *core.CallSite, arg ast.Expr) {
	who := short(f.Name)
	key := who + "|Compact end"
	rule := "T9 KeyFlow + T4 GuardedBy (reaching definitions)"
	if f.Obj.Name() != "Compact" {
		c.Undecided(key, rule, arg.Pos(), "underlying Compact called outside a Compact method")
		return
	}
	limit := f.Param(1)
	if limit == nil || len(assignsToVar(f, limit)) != 0 {
		c.Undecided(key, rule, f.Pos(), "the limit parameter is unnamed or reassigned")
		return
	}
	c24compactEndIn(c, who, c24methodFrame(f, w), f.Recv().Name()+".prefix", cs.Pt, arg, limit)
}

// c24compactEndIn decides one use (the underlying call, or a return of the helper that computes the
// end) of the compaction end in the frame fr: usePt is where the value is consumed, limit the variable
// of the frame that holds the method's limit parameter.
func c24compactEndIn(c *core.Ctx, who string, fr *c24frame, pfxName string, usePt core.Point, arg ast.Expr, limit *types.Var) {
	f := fr.G
	key := who + "|Compact end"
	rule := "T9 KeyFlow + T4 GuardedBy (reaching definitions)"
	cs := struct{ Pt core.Point }{usePt}
	classify := func(e ast.Expr) string {
		if inner, ok := fr.wrapCall(e, c24Prefixed); ok && varOf(f, inner) == limit {
			return "PREF"
		}
		if call := isCallTo(f, e, c24IncPfx); call != nil && len(call.Args) == 1 && fr.isPrefix(call.Args[0]) {
			return "INC"
		}
		return ""
	}
	type def struct {
		kind   string
		pt     core.Point
		direct bool
		pos    token.Pos
	}
	var defs []def
	arg = ast.Unparen(arg)
	if v := varOf(f, arg); v != nil && c24paramIndex(f, v) < 0 {
		for _, a := range assignsToVar(f, v) {
			if a.RHS == nil && c33isValueSpec(a.Stmt) {
				defs = append(defs, def{"ZERO", a.Pt, false, a.Stmt.Pos()})
				continue
			}
			k := classify(a.RHS)
			if a.RHS == nil || k == "" {
				c.Fail(key, rule, a.Stmt.Pos(), "the compaction end is set to "+exprStr(a.RHS)+", neither prefixed(limit, "+pfxName+") nor incPrefix("+pfxName+"): the compacted range is not the table's")
				return
			}
			defs = append(defs, def{k, a.Pt, false, a.Stmt.Pos()})
		}
	} else {
		k := classify(arg)
		if k == "" {
			c.Fail(key, rule, arg.Pos(), "the compaction end is "+exprStr(arg)+", neither prefixed(limit, "+pfxName+") nor incPrefix("+pfxName+"): the compacted range is not the table's")
			return
		}
		defs = append(defs, def{k, cs.Pt, true, arg.Pos()})
	}
	nilEdges := f.GuardEdges(varNilFact(f, limit, true))     // edges implying limit == nil
	nonNilEdges := f.GuardEdges(varNilFact(f, limit, false)) // edges implying limit != nil
	var pts = map[string][]core.Point{}
	for _, d := range defs {
		if !d.direct {
			pts[d.kind] = append(pts[d.kind], d.pt)
		}
	}
	feasibleTo := func(to core.Point, avoid func(*cfg.Block, int) bool) bool {
		ok, _ := f.ReachableAvoiding(to, nil, avoid)
		return ok
	}
	reaches := func(d def, avoidKind string, avoid func(*cfg.Block, int) bool) bool {
		if d.direct {
			return true
		}
		_, found := core.PathQuery{F: f, From: d.pt, FromAfter: true, Target: core.PointSet(cs.Pt), Avoid: core.PointSet(pts[avoidKind]...), AvoidEdge: avoid}.Find()
		return found
	}
	ok := true
	for _, d := range defs {
		switch d.kind {
		case "PREF":
			// a nil limit must not reach the call with prefixed(nil, prefix) = prefix as the end
			if feasibleTo(d.pt, nonNilEdges) && reaches(d, "INC", nonNilEdges) {
				ok = false
				c.Fail(key, rule, d.pos, "with limit == nil the end passed to the underlying Compact is prefixed(nil, prefix) = the prefix itself: the range [prefix|start, prefix) is empty, so 'compact the whole table' compacts nothing of it")
			}
		case "ZERO":
			both := core.PointSet(append(append([]core.Point(nil), pts["PREF"]...), pts["INC"]...)...)
			if _, found := (core.PathQuery{F: f, From: d.pt, FromAfter: true, Target: core.PointSet(cs.Pt), Avoid: both, AvoidEdge: nilEdges}).Find(); found && feasibleTo(d.pt, nilEdges) {
				ok = false
				c.Fail(key, rule, d.pos, "with a non-nil limit the end can reach the underlying Compact as a nil slice: the caller's limit is ignored and the compaction runs to the end of the whole underlying store")
			} else if _, found := (core.PathQuery{F: f, From: d.pt, FromAfter: true, Target: core.PointSet(cs.Pt), Avoid: both}).Find(); found {
				c.Note("C24: %s passes a nil end to the underlying Compact when limit == nil: the range covers the table (and everything after it)", who)
			}
		case "INC":
			if feasibleTo(d.pt, nilEdges) && reaches(d, "PREF", nilEdges) {
				ok = false
				c.Fail(key, rule, d.pos, "with a non-nil limit the end passed to the underlying Compact is incPrefix(prefix): the caller's limit is ignored and the compaction covers the rest of the table")
			}
		}
	}
	if ok {
		c.Pass(key, rule, fmt.Sprintf("%d definition(s) of the end: incPrefix(%s) reaches the use exactly on limit == nil paths, prefixed(limit, %s) on the others", len(defs), pfxName, pfxName))
	}
}
