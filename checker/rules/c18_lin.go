package rules

import (
	"go/ast"
	"go/types"
	"math/big"
	"sort"

	"lachk/core"
)

// Linear integer facts up to locals: `t := a + b; if x < t` states the same as `if x < a + b` as long
// as a and b were not written between the definition of t and the test. core.NormLinCmp treats t as an
// opaque atom; the helpers below substitute such locals by the linear form of their defining expression
// when that value is still current at the point of use. (Candidate for promotion to core.)

// c18FieldsRead lists the canonical names of the fields read by e.
func c18FieldsRead(f *core.FuncInfo, e ast.Expr) map[string]bool {
	out := map[string]bool{}
	ast.Inspect(e, func(n ast.Node) bool {
		if _, ok := n.(*ast.FuncLit); ok {
			return false
		}
		if sel, ok := n.(*ast.SelectorExpr); ok {
			if s, ok := f.Info().Selections[sel]; ok {
				if v, ok := s.Obj().(*types.Var); ok && v.IsField() {
					out[f.P.FieldName(v)] = true
				}
			}
		}
		return true
	})
	return out
}

// c18WritesField: g's own body (or, transitively up to depth, a module function it calls directly, or
// one of its literals) assigns one of the fields.
func c18WritesField(g *core.FuncInfo, fields map[string]bool, depth int, seen map[*core.FuncInfo]bool) bool {
	if seen[g] {
		return false
	}
	seen[g] = true
	for _, a := range assignments(g) {
		if c18AssignsField(g, a, fields) {
			return true
		}
	}
	for _, l := range g.Lits() {
		if c18WritesField(l, fields, depth, seen) {
			return true
		}
	}
	if depth > 0 {
		for _, cs := range g.Calls() {
			if fn, ok := cs.Callee.(*types.Func); ok {
				if h := g.P.FuncOf(fn); h != nil && h.Body != nil && c18WritesField(h, fields, depth-1, seen) {
					return true
				}
			}
		}
	}
	return false
}

// c18AssignsField: the assignment's target is (an element of / a path below) one of the fields.
func c18AssignsField(g *core.FuncInfo, a assignment, fields map[string]bool) bool {
	lhs := ast.Unparen(a.LHS)
	for {
		switch x := lhs.(type) {
		case *ast.IndexExpr:
			lhs = ast.Unparen(x.X)
			continue
		case *ast.StarExpr:
			lhs = ast.Unparen(x.X)
			continue
		}
		break
	}
	for {
		sel, ok := lhs.(*ast.SelectorExpr)
		if !ok {
			return false
		}
		if s, ok := g.Info().Selections[sel]; ok {
			if v, ok := s.Obj().(*types.Var); ok && v.IsField() && fields[g.P.FieldName(v)] {
				return true
			}
		}
		lhs = ast.Unparen(sel.X)
	}
}

// c18CurrentDef returns the defining expression of the single-definition local `id` when the value it
// holds still equals that expression at `at`: no assignment to a field the definition reads (in f
// itself, or in a module function called from f) lies on a path from the definition to `at`. Calls of
// interface methods and func values are the application's callbacks and are assumed not to touch the
// analysed type's private state.
func c18CurrentDef(f *core.FuncInfo, id *ast.Ident, at core.Point) (ast.Expr, bool) {
	return c18CurrentDefX(f, id, at, nil)
}

// c18CurrentDefX is c18CurrentDef for a definition whose value depends, beyond the fields it reads
// itself, on the given fields (a call of a function that reads them).
func c18CurrentDefX(f *core.FuncInfo, id *ast.Ident, at core.Point, extra map[string]bool) (ast.Expr, bool) {
	if lhsIdents(f)[id] {
		return nil, false
	}
	v, _ := f.Info().ObjectOf(id).(*types.Var)
	d := singleDef(f, v)
	if d == nil {
		return nil, false
	}
	var defPt core.Point
	found := false
	for _, a := range assignsToVar(f, v) {
		if a.RHS == d {
			defPt, found = a.Pt, true
		}
	}
	if !found || !defPt.Valid() {
		return nil, false // defined in an enclosing function: no common CFG
	}
	fields := c18FieldsRead(f, d)
	for k := range extra {
		fields[k] = true
	}
	if len(fields) == 0 {
		return d, true
	}
	for _, l := range f.Lits() {
		if c18WritesField(l, fields, 2, map[*core.FuncInfo]bool{}) {
			return nil, false // a literal writes it at an unknown time
		}
	}
	var writes []core.Point
	for _, a := range assignments(f) {
		if c18AssignsField(f, a, fields) {
			writes = append(writes, a.Pt)
		}
	}
	for _, cs := range f.Calls() {
		if fn, ok := cs.Callee.(*types.Func); ok {
			if h := f.P.FuncOf(fn); h != nil && h != f && h.Body != nil && c18WritesField(h, fields, 2, map[*core.FuncInfo]bool{}) {
				writes = append(writes, cs.Pt)
			}
		}
	}
	avoidDef := core.PointSet(defPt)
	for _, w := range writes {
		if w == at || w == defPt {
			continue // operands are read before the statement's own store
		}
		_, in := core.PathQuery{F: f, From: defPt, FromAfter: true, Target: core.PointSet(w), Avoid: avoidDef}.Find()
		if !in {
			continue
		}
		if _, out := (core.PathQuery{F: f, From: w, FromAfter: true, Target: core.PointSet(at), Avoid: avoidDef}).Find(); out {
			return nil, false
		}
	}
	return d, true
}

func c18AddScaled(dst, src *core.Lin, scale *big.Int) {
	for k, c := range src.Coef {
		t := new(big.Int).Mul(c, scale)
		if cur, ok := dst.Coef[k]; ok {
			cur.Add(cur, t)
			if cur.Sign() == 0 {
				delete(dst.Coef, k)
				delete(dst.Atom, k)
			}
		} else if t.Sign() != 0 {
			dst.Coef[k] = t
			dst.Atom[k] = src.Atom[k]
		}
	}
	dst.C.Add(dst.C, new(big.Int).Mul(src.C, scale))
}

// c18ExpandLocals substitutes, in place, the atoms of l that are integer locals whose definition is
// current at `at` by the linear form of that definition (repeatedly, bounded).
func c18ExpandLocals(f *core.FuncInfo, l *core.Lin, namer core.AtomNamer, at core.Point) *core.Lin {
	for round := 0; round < 4; round++ {
		changed := false
		keys := make([]string, 0, len(l.Atom))
		for k := range l.Atom {
			keys = append(keys, k)
		}
		sort.Strings(keys)
		for _, k := range keys {
			e := l.Atom[k]
			if e == nil {
				continue
			}
			if namer != nil && namer(e) != "" {
				continue // already a role
			}
			id, ok := ast.Unparen(e).(*ast.Ident)
			if !ok {
				continue
			}
			def, ok := c18CurrentDef(f, id, at)
			if !ok {
				continue
			}
			if tv, ok := f.Info().Types[def]; !ok || tv.Type == nil {
				continue
			} else if b, isB := tv.Type.Underlying().(*types.Basic); !isB || b.Info()&types.IsInteger == 0 {
				continue
			}
			coef := new(big.Int).Set(l.Coef[k])
			delete(l.Coef, k)
			delete(l.Atom, k)
			c18AddScaled(l, core.Linearize(f.Info(), def, namer), coef)
			changed = true
		}
		if !changed {
			break
		}
	}
	return l
}

// c18LinAt linearises e as evaluated at `at`, looking through current locals.
func c18LinAt(f *core.FuncInfo, e ast.Expr, namer core.AtomNamer, at core.Point) *core.Lin {
	return c18ExpandLocals(f, core.Linearize(f.Info(), e, namer), namer, at)
}

// c18NormLinCmp is core.NormLinCmp with locals expanded at the point where the condition is evaluated.
func c18NormLinCmp(f *core.FuncInfo, ft core.Fact, namer core.AtomNamer) (core.LinCmp, bool) {
	lc, ok := core.NormLinCmp(f.Info(), ft, namer)
	if !ok {
		return lc, false
	}
	at, okPt := f.PointOf(ft.Expr)
	if !okPt {
		return lc, true
	}
	c18ExpandLocals(f, lc.Form, namer, at)
	if lc.Op != "<=" {
		// canonical sign: first term (sorted) positive
		keys := make([]string, 0, len(lc.Form.Coef))
		for k := range lc.Form.Coef {
			keys = append(keys, k)
		}
		sort.Strings(keys)
		if len(keys) > 0 && lc.Form.Coef[keys[0]].Sign() < 0 || len(keys) == 0 && lc.Form.C.Sign() < 0 {
			for _, c := range lc.Form.Coef {
				c.Neg(c)
			}
			lc.Form.C.Neg(lc.Form.C)
		}
	}
	return lc, true
}

// c18LinIs: the form equals sum(want[name]*name) with no constant and no other terms.
func c18LinIs(l *core.Lin, want map[string]int64) bool {
	if l == nil || l.C.Sign() != 0 || len(l.Coef) != len(want) {
		return false
	}
	for k, v := range want {
		if !coefIs(l, k, v) {
			return false
		}
	}
	return true
}
