package rules

import (
	"fmt"
	"go/ast"
	"go/constant"
	"go/token"
	"go/types"
	"sort"
	"strings"

	"golang.org/x/tools/go/cfg"

	"lachk/core"
)

// C23 — storage backends and wrappers share one key-value semantics.
//
// Conventions of the kvdb API that the clauses below are written from (not from the code):
//   - an absent key is (nil, nil) from Get and (false, nil) from Has; a present key with an empty
//     value is a non-nil empty slice from Get and true from Has;
//   - NewIterator(prefix, start) ranges over [prefix||start, successor(prefix)) in byte order;
//   - Batch.Replay(w) applies the queued Put/Delete operations to w in order, stops at the first
//     error of w and reports it.

const (
	c23Ldb  = "kvdb/leveldb"
	c23Pbl  = "kvdb/pebble"
	c23LibL = "github.com/syndtr/goleveldb/leveldb."
	c23LibP = "github.com/cockroachdb/pebble."
	c23Copy = "github.com/ethereum/go-ethereum/common.CopyBytes"
)

// not-found sentinels of the two libraries (leveldb re-exports errors.ErrNotFound).
var c23NotFound = map[string][]string{
	c23Ldb: {c23LibL + "ErrNotFound", "github.com/syndtr/goleveldb/leveldb/errors.ErrNotFound"},
	c23Pbl: {c23LibP + "ErrNotFound"},
}

// c23RangeFields: per backend, the library's range type fields (lower, upper) and the prefix helper.
var c23RangeFields = map[string][3]string{
	c23Ldb: {"github.com/syndtr/goleveldb/leveldb/util.Range.Start", "github.com/syndtr/goleveldb/leveldb/util.Range.Limit", "github.com/syndtr/goleveldb/leveldb/util.BytesPrefix"},
	c23Pbl: {c23LibP + "IterOptions.LowerBound", c23LibP + "IterOptions.UpperBound", c23Pbl + ".bytesPrefix"},
}

// c23WrapperPkgs: the packages whose wrapper types are inspected by T20. In kvdb/flushable only
// closeDropWrapped is taken (Flushable, LazyFlushable, Snapshot and the pool are C22/C25/C28's subjects).
var c23WrapperPkgs = []string{
	"kvdb/table", "kvdb/synced", "kvdb/readonlystore", "kvdb/skipkeys", "kvdb/nokeyiserr", "kvdb/batched",
	"kvdb/flaggedproducer", "kvdb/cachedproducer", "kvdb/memorydb", "kvdb/leveldb", "kvdb/pebble", "kvdb/flushable",
}

// c23WrapperRoles: the packages that must contribute at least one inspected wrapper type (vacuity guard of T20:
// one per role — prefixing, locking, read-only view, key filter, absent-is-error, write batching, dirty flag,
// callback store, pool handle, batch replayer). memorydb and pebble declare no wrapper methods of their own.
var c23WrapperRoles = []string{
	"kvdb/table", "kvdb/synced", "kvdb/readonlystore", "kvdb/skipkeys", "kvdb/nokeyiserr", "kvdb/batched",
	"kvdb/flaggedproducer", "kvdb/cachedproducer", "kvdb/flushable", "kvdb/leveldb",
}

var c23FlushableTypes = map[string]bool{"closeDropWrapped": true}

// c23CalleeExceptions (T20): (wrapper method, callee on the wrapped value) pairs whose names differ, one line of reason each.
var c23CalleeExceptions = map[string]string{
	"skipkeys.iterator.Next->Key":                 "the filter loop reads the current key to decide whether the entry is hidden; it advances only through the wrapped Next",
	"batched.Store.Flush->Write":                  "Flush is the wrapper's own operation: write the pending batch ...",
	"batched.Store.Flush->Reset":                  "... and reuse it; Reset is reached only after Write succeeded (checked below)",
	"batched.Store.MayFlush->ValueSize":           "size test that triggers Flush; reads the batch only",
	"flaggedproducer.flaggedStore.modified->Put":  "writes the dirty mark under the flush-ID key before the first mutation (C25.flag decides its order)",
	"flushable.closeDropWrapped.RealClose->Close": "the pool's documented bypass to the real close of the wrapped LazyFlushable",
	"flushable.closeDropWrapped.RealDrop->Drop":   "the pool's documented bypass to the real drop of the wrapped LazyFlushable",
}

// c23Intercepts (T20 completeness): key-value interface methods that a wrapper declares WITHOUT delegating
// to the same-named method, or that may return without delegating; one line of reason each.
var c23Intercepts = map[string]string{
	"table.Table.Close":                  "a table shares its store with other tables and must not close it: returns ErrUnsupportedOp",
	"table.Table.Drop":                   "a table shares its store with other tables and must not drop it: no-op",
	"readonlystore.Store.Put":            "read-only view: the mutator is rejected (C23.readonly decides that it returns an error)",
	"readonlystore.Store.Delete":         "read-only view: the mutator is rejected",
	"readonlystore.Batch.Put":            "read-only view: the batch mutator is rejected, so the batch stays empty",
	"readonlystore.Batch.Delete":         "read-only view: the batch mutator is rejected, so the batch stays empty",
	"skipkeys.Store.Has":                 "filter wrapper: keys under skipPrefix are reported absent without consulting the store (intended change of content)",
	"skipkeys.Store.Get":                 "filter wrapper: keys under skipPrefix are reported absent without consulting the store (intended change of content)",
	"flaggedproducer.flaggedStore.Close": "the producer owns the store's lifetime: Close of the handed-out store is a no-op (C25)",
	"flaggedproducer.flaggedStore.Drop":  "drop goes through the producer's DropFn callback (C25.flag.drop)",
	"cachedproducer.StoreWithFn.Close":   "close goes through the reference-counting CloseFn callback (C27)",
	"cachedproducer.StoreWithFn.Drop":    "drop goes through the DropFn callback (C27)",
	"flushable.closeDropWrapped.Close":   "close goes through the pool's callback; RealClose is the bypass",
	"flushable.closeDropWrapped.Drop":    "drop is queued by the pool's callback; RealDrop is the bypass",
}

// c23SyncedExceptions (T1 on kvdb/synced): unlocked delegations accepted, one line of reason each.
var c23SyncedExceptions = []lockException{
	{"syncedBatch.Put", "syncedBatch.underlying", "fills the batch's private buffer; a batch is single-goroutine by contract and touches the shared store only in Write/Replay (both locked)"},
	{"syncedBatch.Delete", "syncedBatch.underlying", "fills the batch's private buffer (as Put)"},
	{"syncedBatch.Reset", "syncedBatch.underlying", "clears the batch's private buffer"},
	{"syncedBatch.ValueSize", "syncedBatch.underlying", "reads the batch's private size counter"},
	{"readonlyIterator.Error", "readonlyIterator.parentIt", "reads the iterator's own state produced by the last (locked) Next"},
	{"readonlyIterator.Key", "readonlyIterator.parentIt", "reads the iterator's own state produced by the last (locked) Next"},
	{"readonlyIterator.Value", "readonlyIterator.parentIt", "reads the iterator's own state produced by the last (locked) Next"},
	{"readonlyIterator.Release", "readonlyIterator.parentIt", "releases the iterator's own resources; does not read or write store content"},
}

func init() {
	register("C23", "other", "T16c SiblingAgreement (not-found mapping, range helpers, replay), T17 Typestate (pebble iterator), T20 WrapperDelegation + override completeness, T1 LockSet (synced), alias/provenance (use-after-release, copies)",
		"Decides the structural facts the shared key-value semantics depend on. "+
			"(a) All eight Get/Has of the LevelDB and Pebble stores and snapshots look the caller's key up once, lead from the edge err == <library>.ErrNotFound only to the absent result (nil|false, nil), and never return a nil error for another library error. "+
			"(b) Pebble Get (store and snapshot) returns a slice that is a private copy of the library buffer made before closer.Close() on every path, and the copy of an empty value is non-nil (empty is present, not absent); no reader of the three backends decides presence by len(value). "+
			"(c) Pebble iterator: First() is called exactly on the not-started edge and sets the flag, Next() only on the started edge, the flag is never reset, constructors start with it false; the library Close() is reached at most once (flag or nil guard) and only from Release. "+
			"(d) Both bytesPrefixRange helpers are called as (prefix, start) by the four NewIterator methods and their result is the library range; the lower bound is the prefix helper's lower bound with start appended, the upper bound is left to the prefix helper (LevelDB: library util.BytesPrefix; Pebble: local copy whose limit is allocated only for a byte < 0xff scanning from the end, incremented, nil otherwise); Pebble returns the unbounded nil range only for prefix == nil && start == nil; the lower bound must be built in private memory. "+
			"(e) Pebble Replay puts on kind Set and deletes on kind Delete with the decoded key/value, continues only on err == nil and returns that error; the LevelDB replayer forwards Put and Delete only while no failure is recorded, records the writer's error, and batch.Replay must return the recorded failure. "+
			"(f) memorydb is the flushable overlay over the always-empty devnulldb (all devnulldb methods return zero results); the overlay stores a copy on Put and returns a copy on Get. "+
			"(g) T20 over every wrapper type of kvdb (table, synced, readonlystore, skipkeys, nokeyiserr, batched, flaggedStore, StoreWithFn, closeDropWrapped, the two replayers): each call on the wrapped key-value value (directly, through a single-definition local, or inside an unexported helper method all of whose callers are that one operation) targets the same-named method unless the pair is in the frozen exception table; a key-value method that has a same-named delegate (own call, or a module helper that always makes it) passes it on every feasible path to a non-error exit (return or end of body; edges implying err != nil and edges contradicted by a constant local boolean flag are not followed), and one that has none is in the frozen intercept table; unused table entries are noted, not reported; readonlystore rejects every Writer method on the store and on its batches; every synced method holds the shared mutex (write mode for mutators) while delegating; a parameterless numeric observer of the wrapped value (ValueSize) is admitted in any method of a wrapper type to which the exception table grants it; batched.Flush never exits without batch.Write(). "+
			"(h) Flushable as a map over a disk backend: once flush() has emptied the overlay every exit passes batch.Write() (no size test: ValueSize counts value bytes, empty values and deletes weigh 0); GetSnapshot's copying loop puts every overlay entry, tombstones included, into the snapshot's own tree. "+
			"(i) Representation of present/absent in the memory overlay and its batch (C23.flushable.presence): every value stored into an overlay tree is the untyped nil tombstone, an entry handed through unchanged from a tree read, or a []byte that is certainly non-nil (a possibly-nil []byte becomes a typed nil in the tree's interface element: Has says present, Get returns nil); every batch entry's value is the nil literal (delete) or non-nil whenever the caller's value is non-nil, also when empty (append to a nil slice is nil for an empty value: the put is replayed as a delete); nil-ness is followed through copies, helpers, guards, single-value assertions behind != nil and the callers of unexported functions. "+
			"Facts spelled in small helpers are decided through them: boolean predicate helpers on branch edges (not-found tests), straight-line byte-slice builders (range lower bound, make+copy included), a helper that receives the replay writer (bound parameters, error handed up), a shared body that every exit of a reader hands up (Get of store and snapshot merged into one function), a private helper of a wrapper operation inheriting that operation's exception-table grants. Instance floors only guard against vacuity (one per role). "+
			"NOT decided: equivalence of the backends and wrapper stacks on operation histories, byte-order/successor arithmetic of the libraries, iterator value semantics (lifetime and nil-ness of Key()/Value() slices), lifecycle after Close/Release (double Release of table iterators and pebble snapshots), key translation of tables (C24), overlay semantics of Flushable (C22).",
		[]string{
			"goleveldb and pebble API contracts: ErrNotFound means absent; a pebble value is valid until closer.Close(); First must precede Next; util.BytesPrefix(p) returns {Start: p (aliased), Limit: successor(p) or nil}",
			"go-ethereum common.CopyBytes returns a fresh slice, nil only for nil input",
			"keys and values are non-nil (the property's quantifier)",
		},
		runC23)
}

func runC23(c *core.Ctx) {
	c23NotFoundClause(c)
	c23PebbleValueClause(c)
	c23EmptyClause(c)
	c23PebbleIteratorClause(c)
	c23RangeClause(c)
	c23ReplayClause(c)
	c23MemoryClause(c)
	c23WrapperClause(c)
	c23ReadonlyClause(c)
	c23SyncedClause(c)
	c23OverlayClauses(c)
	c23PresenceClause(c)
}

// ---------------------------------------------------------------------------
// small helpers (c23 prefix)

// c23Iface returns the interface type kvdb.<name>.
func c23Iface(c *core.Ctx, name string) *types.Interface {
	pk := c.P.Pkg("kvdb")
	c.Need(pk != nil, "package kvdb")
	tn, _ := pk.Types.Scope().Lookup(name).(*types.TypeName)
	c.Need(tn != nil, "type kvdb."+name)
	it, _ := tn.Type().Underlying().(*types.Interface)
	c.Need(it != nil, "kvdb."+name+" is an interface")
	return it
}

// c23Implements: does t or *t implement iface?
func c23Implements(t types.Type, iface *types.Interface) bool {
	if types.Implements(t, iface) {
		return true
	}
	if _, isPtr := t.(*types.Pointer); !isPtr && !types.IsInterface(t) {
		return types.Implements(types.NewPointer(t), iface)
	}
	return false
}

// c23TypesImplementing lists "<relpkg>.<Type>" of the named non-interface types of pkg implementing iface, sorted.
func c23TypesImplementing(c *core.Ctx, pkg string, iface *types.Interface) []string {
	pk := c.P.Pkg(pkg)
	c.Need(pk != nil, "package "+pkg)
	var out []string
	sc := pk.Types.Scope()
	for _, nm := range sc.Names() {
		tn, ok := sc.Lookup(nm).(*types.TypeName)
		if !ok || tn.IsAlias() || types.IsInterface(tn.Type()) {
			continue
		}
		if c23Implements(tn.Type(), iface) {
			out = append(out, pkg+"."+nm)
		}
	}
	sort.Strings(out)
	return out
}

func c23BoolConst(f *core.FuncInfo, e ast.Expr) (bool, bool) {
	v, ok := core.ConstVal(f.Info(), e)
	if !ok || v.Kind() != constant.Bool {
		return false, false
	}
	return constant.BoolVal(v), true
}

// c23ErrIsFact matches "errVar == <one of the named package-level objects>".
func c23ErrIsFact(f *core.FuncInfo, errVar *types.Var, names []string) func(core.Fact) bool {
	return func(ft core.Fact) bool {
		cm, ok := core.NormCmp(ft)
		if !ok || cm.R == nil || cm.Op != token.EQL || errVar == nil {
			return false
		}
		l, r := cm.L, cm.R
		if varOf(f, l) != errVar {
			l, r = r, l
		}
		if varOf(f, l) != errVar {
			return false
		}
		nm := f.P.ObjName(f.ObjOf(r))
		for _, n := range names {
			if nm == n {
				return true
			}
		}
		return false
	}
}

// c23BoolFieldFact matches "field has the boolean value want" (bare flag, !flag, flag == const).
func c23BoolFieldFact(f *core.FuncInfo, field string, want bool) func(core.Fact) bool {
	return func(ft core.Fact) bool {
		cm, ok := core.NormCmp(ft)
		if !ok || (cm.Op != token.EQL && cm.Op != token.NEQ) {
			return false
		}
		if cm.R == nil {
			return fieldNameOf(f, cm.L) == field && (cm.Op == token.EQL) == want
		}
		l, r := cm.L, cm.R
		if fieldNameOf(f, l) != field {
			l, r = r, l
		}
		if fieldNameOf(f, l) != field {
			return false
		}
		b, ok := c23BoolConst(f, r)
		if !ok {
			return false
		}
		return (cm.Op == token.EQL) == (b == want)
	}
}

// c23AssignOfCall returns the assignment/definition statement whose sole RHS is the call.
func c23AssignOfCall(f *core.FuncInfo, call *ast.CallExpr) *ast.AssignStmt {
	var out *ast.AssignStmt
	f.InspectOwn(func(n ast.Node) bool {
		if as, ok := n.(*ast.AssignStmt); ok && len(as.Rhs) == 1 && ast.Unparen(as.Rhs[0]) == ast.Expr(call) {
			out = as
		}
		return true
	})
	return out
}

// c23ErrNonNilFact matches "e != nil" for an error-typed variable or field e: an edge implying it leads into
// error handling (a failed, or already failed, operation), whatever the spelling (e != nil taken, e == nil /
// nil == e not taken, early return or else-branch).
func c23ErrNonNilFact(f *core.FuncInfo) func(core.Fact) bool {
	errT := types.Universe.Lookup("error").Type()
	return func(ft core.Fact) bool {
		cm, k := core.NormCmp(ft)
		if !k || cm.R == nil || cm.Op != token.NEQ {
			return false
		}
		l, r := cm.L, cm.R
		if core.IsNil(f.Info(), l) {
			l, r = r, l
		}
		if !core.IsNil(f.Info(), r) {
			return false
		}
		if varOf(f, l) == nil && fieldNameOf(f, l) == "" {
			return false
		}
		t := f.Info().TypeOf(l)
		return t != nil && types.Identical(t, errT)
	}
}

// c23Flags: the local boolean variables of f whose value can be followed along a path: declared in f's own
// body, only written by plain assignments/definitions of f itself, never address-taken, never mentioned in a
// nested function literal (so nothing but the statements on the path can change them).
type c23Flags struct {
	f    *core.FuncInfo
	vars []*types.Var
	idx  map[*types.Var]int
}

const (
	c23Unknown int8 = iota
	c23True
	c23False
)

func c23FlagsOf(f *core.FuncInfo) *c23Flags {
	fl := &c23Flags{f: f, idx: map[*types.Var]int{}}
	cand := map[*types.Var]bool{}
	isLocalBool := func(v *types.Var) bool {
		if v == nil || v.IsField() || !(f.Body.Pos() <= v.Pos() && v.Pos() < f.Body.End()) {
			return false
		}
		b, ok := v.Type().Underlying().(*types.Basic)
		return ok && b.Kind() == types.Bool
	}
	f.InspectOwn(func(n ast.Node) bool {
		switch x := n.(type) {
		case *ast.AssignStmt:
			for _, l := range x.Lhs {
				if v := varOfRaw(f, l); isLocalBool(v) {
					cand[v] = true
				}
			}
		case *ast.ValueSpec:
			for _, id := range x.Names {
				if v, _ := f.Info().ObjectOf(id).(*types.Var); isLocalBool(v) {
					cand[v] = true
				}
			}
		}
		return true
	})
	if len(cand) == 0 {
		return fl
	}
	drop := func(e ast.Expr) {
		if v := varOfRaw(f, e); v != nil {
			delete(cand, v)
		}
	}
	var inLit int
	var visit func(n ast.Node) bool
	visit = func(n ast.Node) bool {
		switch x := n.(type) {
		case *ast.FuncLit:
			inLit++
			ast.Inspect(x.Body, visit)
			inLit--
			return false
		case *ast.Ident:
			if inLit > 0 {
				if v, _ := f.Info().ObjectOf(x).(*types.Var); v != nil {
					delete(cand, v)
				}
			}
		case *ast.UnaryExpr:
			if x.Op == token.AND {
				drop(x.X)
			}
		case *ast.RangeStmt:
			if x.Key != nil {
				drop(x.Key)
			}
			if x.Value != nil {
				drop(x.Value)
			}
		case *ast.AssignStmt:
			if x.Tok != token.ASSIGN && x.Tok != token.DEFINE {
				for _, l := range x.Lhs {
					drop(l)
				}
			}
		}
		return true
	}
	ast.Inspect(f.Body, visit)
	for v := range cand {
		fl.vars = append(fl.vars, v)
	}
	sort.Slice(fl.vars, func(i, j int) bool { return fl.vars[i].Pos() < fl.vars[j].Pos() })
	for i, v := range fl.vars {
		fl.idx[v] = i
	}
	return fl
}

// eval: three-valued value of a boolean expression under env (flags with a known constant value, constants,
// !, &&, ||, ==, != over those); everything else is unknown.
func (fl *c23Flags) eval(e ast.Expr, env []int8) int8 {
	e = ast.Unparen(e)
	if e == nil {
		return c23Unknown
	}
	if b, ok := c23BoolConst(fl.f, e); ok {
		if b {
			return c23True
		}
		return c23False
	}
	neg := func(v int8) int8 {
		switch v {
		case c23True:
			return c23False
		case c23False:
			return c23True
		}
		return c23Unknown
	}
	switch x := e.(type) {
	case *ast.Ident:
		if v, _ := fl.f.Info().ObjectOf(x).(*types.Var); v != nil {
			if i, ok := fl.idx[v]; ok {
				return env[i]
			}
		}
	case *ast.UnaryExpr:
		if x.Op == token.NOT {
			return neg(fl.eval(x.X, env))
		}
	case *ast.BinaryExpr:
		a, b := fl.eval(x.X, env), fl.eval(x.Y, env)
		switch x.Op {
		case token.LAND:
			if a == c23False || b == c23False {
				return c23False
			}
			if a == c23True && b == c23True {
				return c23True
			}
		case token.LOR:
			if a == c23True || b == c23True {
				return c23True
			}
			if a == c23False && b == c23False {
				return c23False
			}
		case token.EQL, token.NEQ:
			if a != c23Unknown && b != c23Unknown {
				if (a == b) == (x.Op == token.EQL) {
					return c23True
				}
				return c23False
			}
		}
	}
	return c23Unknown
}

// step applies the effect of one CFG node on the flags.
func (fl *c23Flags) step(n ast.Node, env []int8) []int8 {
	if len(fl.vars) == 0 {
		return env
	}
	set := func(out []int8, v *types.Var, val int8) []int8 {
		i, ok := fl.idx[v]
		if !ok || out[i] == val {
			return out
		}
		if &out[0] == &env[0] {
			out = append([]int8(nil), env...)
		}
		out[i] = val
		return out
	}
	out := env
	switch x := n.(type) {
	case *ast.AssignStmt:
		vals := make([]int8, len(x.Lhs))
		if len(x.Lhs) == len(x.Rhs) {
			for i := range x.Rhs {
				vals[i] = fl.eval(x.Rhs[i], env) // right-hand sides see the old values
			}
		}
		for i, l := range x.Lhs {
			if v := varOfRaw(fl.f, l); v != nil {
				out = set(out, v, vals[i])
			}
		}
	case *ast.ValueSpec:
		for i, id := range x.Names {
			v, _ := fl.f.Info().ObjectOf(id).(*types.Var)
			if v == nil {
				continue
			}
			val := c23Unknown
			switch {
			case len(x.Values) == 0:
				val = c23False // zero value
			case len(x.Values) == len(x.Names):
				val = fl.eval(x.Values[i], env)
			}
			out = set(out, v, val)
		}
	}
	return out
}

// c23SkipsDelegate: is there a feasible path from entry to a non-error exit (return statement or falling off
// the end of the body; panics owe nothing) that passes none of the via points? Returns the position of that exit.
//
// A path is followed only along edges that (a) do not imply "e != nil" for an error value e (those lead into
// error handling: the operation failed or had failed before, nothing is owed), and (b) are not contradicted by
// the constant value a local boolean flag is known to hold at the branch (`first := true; for first || c {…}`
// enters its body at least once; `done := false; …; if done {return}` cannot leave there). Both are decided on
// CFG edges and normalised conditions, so if/else, early-return, switch and for-loop spellings agree.
func c23SkipsDelegate(f *core.FuncInfo, via []core.Point) (bool, token.Pos) {
	viaSet := core.PointSet(via...)
	errEdge := f.GuardEdges(c23ErrNonNilFact(f))
	fl := c23FlagsOf(f)
	type state struct {
		b   *cfg.Block
		env []int8
	}
	key := func(s state) string { return fmt.Sprintf("%d|%v", s.b.Index, s.env) }
	seen := map[string]bool{}
	work := []state{{f.CFG().Blocks[0], make([]int8, len(fl.vars))}}
	for len(work) > 0 {
		s := work[0]
		work = work[1:]
		if k := key(s); seen[k] {
			continue
		} else {
			seen[k] = true
		}
		b, env := s.b, s.env
		cut := false
		for i, n := range b.Nodes {
			pt := core.Point{B: b, I: i}
			if viaSet(pt) {
				cut = true
				break
			}
			if r, ok := n.(*ast.ReturnStmt); ok {
				return true, r.Pos()
			}
			env = fl.step(n, env)
		}
		if cut {
			continue
		}
		if len(b.Succs) == 0 {
			if b.Live && !c23EndsInPanic(f, b) {
				return true, f.Body.Rbrace
			}
			continue
		}
		decided := c23Unknown
		if len(b.Succs) == 2 {
			if c := f.BranchCond(b); c != nil {
				decided = fl.eval(c, env)
			}
		}
		for si, succ := range b.Succs {
			if errEdge(b, si) {
				continue
			}
			if (decided == c23True && si == 1) || (decided == c23False && si == 0) {
				continue
			}
			work = append(work, state{succ, env})
		}
	}
	return false, token.NoPos
}

// c23EndsInPanic: the block's last node is a call that never returns.
func c23EndsInPanic(f *core.FuncInfo, b *cfg.Block) bool {
	if len(b.Nodes) == 0 {
		return false
	}
	es, ok := b.Nodes[len(b.Nodes)-1].(*ast.ExprStmt)
	if !ok {
		return false
	}
	call, ok := ast.Unparen(es.X).(*ast.CallExpr)
	if !ok {
		return false
	}
	switch calleeName(f, call) {
	case "builtin.panic", "os.Exit", "runtime.Goexit", "log.Fatal", "log.Fatalf", "log.Fatalln", "log.Panic", "log.Panicf", "log.Panicln":
		return true
	}
	return false
}

func c23MethodOf(name string) string {
	if i := strings.LastIndex(name, "."); i >= 0 {
		return name[i+1:]
	}
	return name
}

// c23Short: "kvdb/table.Table.Put" -> "table.Table.Put"
func c23Short(name string) string {
	if i := strings.LastIndex(name, "/"); i >= 0 {
		return name[i+1:]
	}
	return name
}

// ---------------------------------------------------------------------------
// (a) T16c: not-found agreement

func c23ReaderFuncs(c *core.Ctx, pkg string) (has, get []*core.FuncInfo) {
	reader := c23Iface(c, "Reader")
	for _, tn := range c23TypesImplementing(c, pkg, reader) {
		h, g := declaresMethod(c.P, tn, "Has"), declaresMethod(c.P, tn, "Get")
		if h != nil {
			has = append(has, h)
		}
		if g != nil {
			get = append(get, g)
		}
	}
	return
}

// c23Lookup finds the single library lookup call (callee in the library package, method Get/Has) of a reader function.
func c23Lookup(f *core.FuncInfo, lib string) *core.CallSite {
	cs := f.CallsMatching(func(x *core.CallSite) bool {
		return (methodNamed(x.Name, "Get") || methodNamed(x.Name, "Has")) && c23OnLibrary(x, lib)
	})
	if len(cs) != 1 {
		return nil
	}
	return cs[0]
}

func c23NotFoundClause(c *core.Ctx) {
	c.Clause("C23.notfound", func() {
		n := 0
		for _, be := range []struct{ pkg, lib string }{{c23Ldb, c23LibL}, {c23Pbl, c23LibP}} {
			has, get := c23ReaderFuncs(c, be.pkg)
			for _, decl := range append(append([]*core.FuncInfo(nil), has...), get...) {
				who := c23Short(decl.Name)
				isHas := decl.Obj.Name() == "Has"
				// the reader's body may be shared with its sibling in a helper that every exit hands up (c23Carrier)
				f, keyVar := c23Carrier(decl, func(g *core.FuncInfo) bool { return c23Lookup(g, be.lib) != nil }, 2)
				lk := c23Lookup(f, be.lib)
				if lk == nil {
					c.Undecided(who, "T16c", f.Pos(), "expected exactly one library lookup (Get/Has) in this reader")
					continue
				}
				ev := errVarOfCall(f, lk.Call)
				if ev == nil {
					c.Undecided(who, "T16c", lk.Pos(), "the library lookup's error is not bound to a variable")
					continue
				}
				// the caller's key, unchanged
				okKey := len(lk.Call.Args) >= 1 && keyVar != nil && varOf(f, lk.Call.Args[0]) == keyVar
				c.Check(okKey, who+"|looks up the caller's key", "provenance", lk.Pos(), "the library is asked for the key parameter itself", "the library is asked for something else than the caller's key")
				// the tests may be spelled in the reader or in a boolean predicate helper it branches on (c23Lift)
				names := c23NotFound[be.pkg]
				isNF := c23Lift(f, ev, func(g *core.FuncInfo, v *types.Var) func(core.Fact) bool { return c23ErrIsFact(g, v, names) }, 2)
				errIsNil := c23Lift(f, ev, func(g *core.FuncInfo, v *types.Var) func(core.Fact) bool { return varNilFact(g, v, true) }, 2)
				absent := func(r *ast.ReturnStmt) bool {
					if len(r.Results) != 2 || !core.IsNil(f.Info(), r.Results[1]) {
						return false
					}
					if isHas {
						b, ok := c23BoolConst(f, r.Results[0])
						return ok && !b
					}
					return core.IsNil(f.Info(), r.Results[0])
				}
				edges := edgesWithFact(f, isNF)
				if len(edges) == 0 {
					c.Fail(who+"|ErrNotFound -> absent", "T16c SiblingAgreement", f.Pos(), "the library's ErrNotFound is not tested: an absent key surfaces as an error instead of the absent result (nil|false, nil) that the sibling backends return")
					continue
				}
				okEdge := true
				var wit []core.Point
				for _, e := range edges {
					if ok, w := edgeLeadsOnlyTo(f, e.B, e.Succ, absent); !ok {
						okEdge, wit = false, w
					}
				}
				n++
				c.Check(okEdge, who+"|ErrNotFound -> absent", "T16c SiblingAgreement", f.Pos(), "every return reachable on the edge err == ErrNotFound is the absent result with a nil error",
					"after err == ErrNotFound a return other than the absent result (nil|false, nil) is reachable: an absent key is reported differently from the sibling backends; path "+f.DescribePath(wit))
				// other errors are not swallowed: a literal nil error needs the not-found edge or err == nil
				okErr := true
				var bad token.Pos
				for _, rp := range f.ReturnPoints() {
					r := rp.Node().(*ast.ReturnStmt)
					if len(r.Results) != 2 {
						okErr, bad = false, r.Pos()
						continue
					}
					if !core.IsNil(f.Info(), r.Results[1]) {
						continue
					}
					a, _ := f.GuardedBy(rp, isNF)
					b, _ := f.GuardedBy(rp, errIsNil)
					if !a && !b {
						okErr, bad = false, r.Pos()
					}
				}
				c.Check(okErr, who+"|other errors are returned", "T16c SiblingAgreement", bad, "a nil error is returned only on the not-found edge or after err == nil", "a nil error can be returned although the library reported an error other than ErrNotFound (I/O error read as absent/present)")
				// Has built on a library Get: the found result is true, after err == nil
				if isHas && methodNamed(lk.Name, "Get") {
					tr := returnsWith(f, 0, func(e ast.Expr) bool { b, ok := c23BoolConst(f, e); return ok && b })
					okT := len(tr) >= 1
					for _, rp := range tr {
						if g, _ := f.GuardedBy(rp, errIsNil); !g {
							okT = false
						}
					}
					c.Check(okT, who+"|found -> true", "T16c SiblingAgreement", f.Pos(), "true is returned, and only after the lookup succeeded (whatever the value's length)", "a found key is not reported as present (no 'true' return after a successful lookup)")
				}
			}
		}
		c.ExpectAtLeast("Get/Has not-found mappings (leveldb+pebble stores and snapshots)", n, 8)
	})
}

// ---------------------------------------------------------------------------
// (b) pebble: value copied before closer.Close(); empty value stays non-nil

// c23FreshBase classifies the base of append(base, src...): 1 = fresh non-nil ([]byte{} / make), 0 = fresh nil, -1 = unknown.
func c23FreshBase(f *core.FuncInfo, e ast.Expr) int {
	e = ast.Unparen(e)
	if core.IsNil(f.Info(), e) {
		return 0
	}
	switch x := e.(type) {
	case *ast.CompositeLit:
		if len(x.Elts) == 0 {
			return 1
		}
	case *ast.CallExpr:
		if tv, ok := f.Info().Types[x.Fun]; ok && tv.IsType() && len(x.Args) == 1 && core.IsNil(f.Info(), x.Args[0]) {
			return 0 // []byte(nil)
		}
		if calleeName(f, x) == "builtin.make" {
			return 1
		}
	}
	return -1
}

// c23CopyExpr: is e a copying expression of variable src? nonNil: 1 yes, 0 no (nil for empty), -1 unknown.
func c23CopyExpr(f *core.FuncInfo, e ast.Expr, src *types.Var) (isCopy bool, nonNil int) {
	call, ok := ast.Unparen(e).(*ast.CallExpr)
	if !ok {
		return false, -1
	}
	switch calleeName(f, call) {
	case "builtin.append":
		if len(call.Args) == 2 && call.Ellipsis.IsValid() && varOf(f, call.Args[1]) == src {
			b := c23FreshBase(f, call.Args[0])
			if b < 0 {
				return false, -1
			}
			return true, b
		}
	case c23Copy, "bytes.Clone":
		if len(call.Args) == 1 && varOf(f, call.Args[0]) == src {
			return true, -1 // nil iff the source is nil: depends on the library's representation of an empty value
		}
	}
	return false, -1
}

func c23PebbleValueClause(c *core.Ctx) {
	c.Clause("C23.pebble.value", func() {
		_, gets := c23ReaderFuncs(c, c23Pbl)
		n := 0
		for _, decl := range gets {
			who := c23Short(decl.Name)
			// the body may be shared by the store's and the snapshot's Get (c23Carrier)
			f, _ := c23Carrier(decl, func(g *core.FuncInfo) bool { return c23Lookup(g, c23LibP) != nil }, 2)
			lk := c23Lookup(f, c23LibP)
			c.Need(lk != nil, who+": one pebble lookup")
			as := c23AssignOfCall(f, lk.Call)
			c.Need(as != nil && len(as.Lhs) == 3, who+": value, closer, err := <pebble>.Get(key)")
			val, closer := varOf(f, as.Lhs[0]), varOf(f, as.Lhs[1])
			c.Need(val != nil && closer != nil, who+": value and closer are bound")
			closes := f.CallsMatching(func(x *core.CallSite) bool {
				return x.Name == "io.Closer.Close" && varOf(f, x.Recv()) == closer
			})
			c.Need(len(closes) >= 1, who+": closer.Close() is called")
			n++
			okAll, nonNil := true, 1
			var bad token.Pos
			detail := ""
			for _, rp := range f.ReturnPoints() {
				r := rp.Node().(*ast.ReturnStmt)
				if len(r.Results) != 2 || core.IsNil(f.Info(), r.Results[0]) {
					continue
				}
				res := r.Results[0]
				if mentionsObj(f, res, val) {
					okAll, bad, detail = false, r.Pos(), "the returned slice is pebble's own buffer, valid only until closer.Close(): the caller reads released memory"
					continue
				}
				cv := varOf(f, res)
				if cv == nil {
					// a copy expression returned directly is fine only if no Close can precede it
					if isCp, nn := c23CopyExpr(f, res, val); isCp {
						for _, cl := range closes {
							if f.CanReach(cl.Pt, rp) {
								okAll, bad, detail = false, r.Pos(), "the value is copied after closer.Close()"
							}
						}
						if nn < nonNil {
							nonNil = nn
						}
						continue
					}
					okAll, bad, detail = false, r.Pos(), "the returned expression is not recognised as a copy of the looked-up value"
					continue
				}
				// every definition of cv is a copy of val; the copies precede every Close that can reach this return
				var copyPts []core.Point
				for _, a := range assignsToVar(f, cv) {
					isCp, nn := c23CopyExpr(f, a.RHS, val)
					if !isCp && a.RHS != nil && isCallTo(f, a.RHS, "builtin.make") != nil {
						// make + copy(cv, val)
						for _, cp := range f.CallsTo("builtin.copy") {
							if len(cp.Call.Args) == 2 && varOf(f, cp.Call.Args[0]) == cv && varOf(f, cp.Call.Args[1]) == val {
								copyPts = append(copyPts, cp.Pt)
								isCp, nn = true, 1
							}
						}
						if isCp {
							continue
						}
					}
					if !isCp {
						okAll, bad, detail = false, a.Stmt.Pos(), "the returned variable is assigned something that is not a copy of the looked-up value"
						continue
					}
					if nn < nonNil {
						nonNil = nn
					}
					copyPts = append(copyPts, a.Pt)
				}
				for _, cl := range closes {
					if !f.CanReach(cl.Pt, rp) {
						continue
					}
					if ok, wit := f.MustPassBefore(copyPts, cl.Pt); !ok {
						okAll, bad, detail = false, cl.Pos(), "closer.Close() can run before the value is copied (path "+f.DescribePath(wit)+"): the copy reads a released buffer"
					}
				}
			}
			c.Check(okAll, who+"|value copied before closer.Close()", "alias (use-after-release)", bad, "every returned value is a private copy made before closer.Close() on every path", detail)
			switch nonNil {
			case 1:
				c.Pass(who+"|empty value is returned non-nil", "alias (empty vs absent)", "the copy is appended to / copied into a non-nil slice: a present key with an empty value is not returned as nil (= absent)")
			case 0:
				c.Fail(who+"|empty value is returned non-nil", "alias (empty vs absent)", f.Pos(), "the copy is appended to a nil slice: a present key with an empty value is returned as (nil, nil), which this API defines as absent (memorydb and leveldb return a non-nil empty slice)")
			default:
				c.Undecided(who+"|empty value is returned non-nil", "alias (empty vs absent)", f.Pos(), "the copy idiom returns nil for a nil source; whether pebble hands out nil for an empty value is not known to the rule")
			}
		}
		c.ExpectAtLeast("pebble Get sites with a closer", n, 2)
	})
}

// (b') no reader decides presence or the result by the value's length
func c23EmptyClause(c *core.Ctx) {
	c.Clause("C23.empty", func() {
		var fs []*core.FuncInfo
		for _, pkg := range []string{c23Ldb, c23Pbl} {
			h, g := c23ReaderFuncs(c, pkg)
			fs = append(append(fs, h...), g...)
		}
		fs = append(fs, c.Fn(flRead+".Has"), c.Fn(flRead+".Get"))
		nReaders := len(fs)
		// a reader whose body lives in a shared helper (c23Carrier) is inspected there as well
		seen := map[*core.FuncInfo]bool{}
		for _, f := range fs {
			seen[f] = true
		}
		for _, f := range fs[:nReaders] {
			lib := c23LibL
			if core.RelPkg(f.Pkg.PkgPath) == c23Pbl {
				lib = c23LibP
			}
			if g, _ := c23Carrier(f, func(x *core.FuncInfo) bool { return c23Lookup(x, lib) != nil }, 2); !seen[g] {
				seen[g] = true
				fs = append(fs, g)
			}
		}
		for _, f := range fs {
			ok := true
			var bad token.Pos
			// len() is accepted only as an argument of make (sizing a copy)
			inMake := map[*ast.CallExpr]bool{}
			f.InspectOwn(func(n ast.Node) bool {
				if call, k := n.(*ast.CallExpr); k && calleeName(f, call) == "builtin.make" {
					for _, a := range call.Args {
						ast.Inspect(a, func(m ast.Node) bool {
							if ic, k := m.(*ast.CallExpr); k {
								inMake[ic] = true
							}
							return true
						})
					}
				}
				return true
			})
			for _, cs := range f.CallsTo("builtin.len") {
				if !inMake[cs.Call] {
					ok, bad = false, cs.Pos()
				}
			}
			c.Check(ok, c23Short(f.Name), "T16c (empty value is present)", bad, "presence and result do not depend on len(value)", "the reader inspects a length: a key stored with an empty value can be reported as absent (\"Empty values are distinct from absent keys\")")
		}
		c.ExpectAtLeast("reader functions of the three backends", nReaders, 10)
	})
}

// ---------------------------------------------------------------------------
// (c) T17: pebble iterator typestate

func c23PebbleIteratorClause(c *core.Ctx) {
	c.Clause("C23.pebble.iterator", func() {
		p := c.P
		itT := c23Pbl + ".iterator"
		started, closed := c.Fld(itT+".isStarted"), c.Fld(itT+".isClosed")
		libFirst, libNext, libClose := c23LibP+"Iterator.First", c23LibP+"Iterator.Next", c23LibP+"Iterator.Close"
		nx := c.Fn(itT + ".Next")
		firsts, nexts := nx.CallsTo(libFirst), nx.CallsTo(libNext)
		c.Need(len(firsts) >= 1 && len(nexts) >= 1, "iterator.Next calls both the library's First and Next")
		var setStarted []core.Point
		for _, a := range assignsToField(nx, started) {
			if b, ok := c23BoolConst(nx, a.RHS); ok && b && a.Tok == token.ASSIGN {
				setStarted = append(setStarted, a.Pt)
			}
		}
		for _, cs := range firsts {
			ok, wit := nx.GuardedBy(cs.Pt, c23BoolFieldFact(nx, started, false))
			c.Check(ok, "Next|First only when not started", "T17 Typestate", cs.Pos(), "the library's First() is reached only on the !isStarted edge", "First() can be called on a started iterator: the iteration jumps back to the first key; path "+nx.DescribePath(wit))
			ok2, _ := pairedWith(nx, cs.Pt, setStarted)
			c.Check(ok2, "Next|First sets the started flag", "T17 Typestate", cs.Pos(), "isStarted = true on every path through First()", "First() does not set isStarted: every Next() calls First() again and the iterator never advances")
		}
		for _, cs := range nexts {
			ok, wit := nx.GuardedBy(cs.Pt, c23BoolFieldFact(nx, started, true))
			c.Check(ok, "Next|library Next only when started", "T17 Typestate", cs.Pos(), "the library's Next() is reached only on the isStarted edge", "the library's Next() can be the first positioning call (pebble requires First()): the first key is skipped or the position is undefined; path "+nx.DescribePath(wit))
		}
		// who may write the flags / call the positioning and closing methods
		rel := c.Fn(itT + ".Release")
		for _, f := range p.FuncsInPkg(c23Pbl) {
			for _, a := range assignsToField(f, started) {
				b, ok := c23BoolConst(f, a.RHS)
				c.Check(f == nx && ok && b, "isStarted written only by Next (to true)|"+c23Short(f.Name), "T6 WhoMayWrite", a.Stmt.Pos(), "isStarted = true in Next", "isStarted is reset or written outside Next: First() is repeated and the iteration restarts")
			}
			for _, a := range assignsToField(f, closed) {
				b, ok := c23BoolConst(f, a.RHS)
				c.Check(f == rel && ok && b, "isClosed written only by Release (to true)|"+c23Short(f.Name), "T6 WhoMayWrite", a.Stmt.Pos(), "isClosed = true in Release", "isClosed is reset or written outside Release: the library iterator can be closed twice")
			}
			if f != nx {
				for _, cs := range f.CallsTo(libFirst, libNext, c23LibP+"Iterator.SeekGE", c23LibP+"Iterator.SeekLT", c23LibP+"Iterator.Last", c23LibP+"Iterator.Prev") {
					c.Fail("positioning outside Next|"+c23Short(f.Name), "T6 WhoMayCall", cs.Pos(), "the library iterator is repositioned outside iterator.Next: the First/Next protocol is bypassed")
				}
			}
			if f != rel {
				for _, cs := range f.CallsTo(libClose) {
					c.Fail("library Close outside Release|"+c23Short(f.Name), "T6 WhoMayCall", cs.Pos(), "the library iterator is closed outside Release: Release would close it a second time")
				}
			}
		}
		// constructors start with both flags false
		nLit := 0
		itNamed := p.LookupType(itT)
		c.Need(itNamed != nil, "type "+itT)
		for _, f := range p.FuncsInPkg(c23Pbl) {
			f.InspectOwn(func(n ast.Node) bool {
				cl, ok := n.(*ast.CompositeLit)
				if !ok {
					return true
				}
				t := f.Info().TypeOf(cl)
				if t == nil || !types.Identical(t, itNamed.Type()) {
					return true
				}
				nLit++
				st := itNamed.Type().Underlying().(*types.Struct)
				okInit := true
				for i, el := range cl.Elts {
					var fld *types.Var
					val := el
					if kv, isKV := el.(*ast.KeyValueExpr); isKV {
						fld, _ = f.Info().ObjectOf(kv.Key.(*ast.Ident)).(*types.Var)
						val = kv.Value
					} else if i < st.NumFields() {
						fld = st.Field(i)
					}
					if fld == nil {
						continue
					}
					if nm := p.FieldName(fld); nm == started || nm == closed {
						if b, k := c23BoolConst(f, val); !k || b {
							okInit = false
						}
					}
				}
				c.Check(okInit, "iterator is created not started and not closed|"+c23Short(f.Name), "T17 Typestate", cl.Pos(), "isStarted and isClosed are false (or omitted) in the literal", "a new iterator is created as started/closed: its first Next() skips First(), or Release never closes it")
				return true
			})
		}
		c.ExpectAtLeast("pebble iterator constructions", nLit, 1)
		// Release: library Close at most once
		cls := rel.CallsTo(libClose)
		c.Need(len(cls) >= 1, "Release closes the library iterator")
		var setClosed []core.Point
		for _, a := range assignsToField(rel, closed) {
			if b, ok := c23BoolConst(rel, a.RHS); ok && b {
				setClosed = append(setClosed, a.Pt)
			}
		}
		embedded := itT + ".Iterator"
		for _, a := range assignsToField(rel, embedded) {
			if core.IsNil(rel.Info(), a.RHS) {
				setClosed = append(setClosed, a.Pt)
			}
		}
		for _, cs := range cls {
			g1, _ := rel.GuardedBy(cs.Pt, c23BoolFieldFact(rel, closed, false))
			g2, _ := rel.GuardedBy(cs.Pt, fieldNilFact(rel, embedded, false))
			ok2, _ := pairedWith(rel, cs.Pt, setClosed)
			c.Check((g1 || g2) && ok2, "Release|library Close at most once", "T17 Typestate", cs.Pos(), "Close() is reached only on the not-closed edge and every path through it marks the iterator closed",
				"the library's Close() can run twice (pebble panics / corrupts on a double close): Release is not idempotent although kvdb.Iterator allows repeated Release")
		}
	})
}

// ---------------------------------------------------------------------------
// (d) sibling range helpers

func c23RangeClause(c *core.Ctx) {
	c.Clause("C23.range", func() {
		p := c.P
		nCallers, nIteratees := 0, 0
		for _, pkg := range []string{c23Ldb, c23Pbl} {
			be := c23Short(pkg)
			lower, upper, prefixHelper := c23RangeFields[pkg][0], c23RangeFields[pkg][1], c23RangeFields[pkg][2]
			h := c.Fn(pkg + ".bytesPrefixRange")
			pPrefix, pStart := h.Param(0), h.Param(1)
			c.Need(pPrefix != nil && pStart != nil, be+".bytesPrefixRange(prefix, start)")
			// pebble has no library prefix helper: the module's own successor computation is located by what it
			// does (c23FindSuccessor); it is "the prefix helper" whether it returns the range or only the bound
			var succ *c23Succ
			if pkg == c23Pbl {
				var why string
				succ, why = c23FindSuccessor(p, pkg, lower, upper)
				c.Need(succ != nil, why)
				prefixHelper = succ.g.Name
			}
			// callers: the NewIterator methods pass (prefix, start) in the same roles and hand the range to the library
			for _, f := range p.FuncsInPkg(pkg) {
				for _, cs := range f.CallsTo(pkg + ".bytesPrefixRange") {
					nCallers++
					who := c23Short(f.Name)
					// NewIterator's own parameters, or the parameters of an unexported function every call of which
					// passes them in these roles (the construction shared by store and snapshot: c23IterRole)
					okRoles := len(cs.Call.Args) == 2 &&
						c23IterRole(f, varOf(f, cs.Call.Args[0]), 2) == 1 && c23IterRole(f, varOf(f, cs.Call.Args[1]), 2) == 2
					c.Check(okRoles, who+"|passes (prefix, start) in order", "T16b SiblingAgreement", cs.Pos(), "bytesPrefixRange(prefix, start) with NewIterator's own parameters in this order", "prefix and start are swapped or replaced: the iteration range differs from the sibling backend")
					okLib := false
					for _, lc := range f.CallsMatching(func(x *core.CallSite) bool {
						return (methodNamed(x.Name, "NewIterator") || methodNamed(x.Name, "NewIter")) && (c23OnLibrary(x, c23LibL) || c23OnLibrary(x, c23LibP))
					}) {
						for _, a := range lc.Call.Args {
							if ast.Unparen(a) == ast.Expr(cs.Call) || ast.Unparen(resolveLocal(f, a)) == ast.Expr(cs.Call) {
								okLib = true
							}
						}
					}
					c.Check(okLib, who+"|range goes to the library iterator", "provenance", cs.Pos(), "the helper's result is the library iterator's range argument", "the computed range is not what the library iterator is opened with")
				}
			}
			// every NewIterator of the backend (store and snapshot) derives its range from the helper, directly or
			// through a function it calls (an obligation on every such method, not a number of call sites)
			for _, tn := range c23TypesImplementing(c, pkg, c23Iface(c, "Iteratee")) {
				f := declaresMethod(p, tn, "NewIterator")
				if f == nil {
					continue
				}
				nIteratees++
				uses := f.SitesMay(func(x *core.CallSite) bool { return x.Name == pkg+".bytesPrefixRange" }, 2)
				c.Check(len(uses) > 0, c23Short(f.Name)+"|range comes from bytesPrefixRange", "T16b SiblingAgreement", f.Pos(), "NewIterator obtains its range from the backend's bytesPrefixRange", "this NewIterator does not compute its range with bytesPrefixRange: prefix/start are translated differently from its siblings")
			}
			// Two ways to decide the helper's body. (1) The range is the prefix helper's result with start appended
			// to its lower-bound field (field assignments, decided flow-insensitively below). (2) Any other
			// assembly — a composite literal, multi-definition locals, the successor computed apart from the
			// range — is decided by the data-flow c23RangeFlow. The obligations of (1) are collected first and
			// reported unless (1) does not hold and (2) decides that every exit hands out the right range.
			type c23Chk struct {
				ok                           bool
				key, rule, passText, failTxt string
				pos                          token.Pos
			}
			var chks []c23Chk
			legacyOK := true
			check := func(ok bool, key, rule string, pos token.Pos, passText, failTxt string) {
				chks = append(chks, c23Chk{ok, key, rule, passText, failTxt, pos})
				if !ok {
					legacyOK = false
				}
			}
			// the prefix helper is applied to the prefix parameter
			ph := h.CallsTo(prefixHelper)
			okPH := len(ph) >= 1
			for _, x := range ph {
				if len(x.Call.Args) != 1 || varOf(h, x.Call.Args[0]) != pPrefix {
					okPH = false
				}
			}
			check(okPH, be+".bytesPrefixRange|bounds come from the prefix helper", "T16b SiblingAgreement", h.Pos(), short(prefixHelper)+"(prefix) supplies lower bound = prefix and upper bound = successor(prefix)", "the bounds are not derived from "+short(prefixHelper)+"(prefix)")
			// lower bound: the value assigned to it is <something> followed by start (append/copy idioms evaluated
			// symbolically, through straight-line helpers of the module: c23EvalBytes)
			var appends []assignment
			vals := map[ast.Node]c23Bytes{}
			for _, a := range assignsToField(h, lower) {
				val := c23EvalBytes(h, a.RHS, nil, 2)
				if n := len(val.Parts); val.OK && n >= 1 && val.Parts[n-1].V == pStart {
					appends = append(appends, a)
					vals[a.Stmt] = val
				}
			}
			check(len(appends) >= 1, be+".bytesPrefixRange|lower bound = prefix || start", "T16b SiblingAgreement", h.Pos(), "the lower bound is assigned <lower bound> followed by start", "start is not appended to the lower bound: iteration does not begin at prefix||start")
			for _, a := range appends {
				val := vals[a.Stmt]
				// what precedes start is exactly the prefix's lower bound (the field set from the prefix, or the prefix)
				okBase := len(val.Parts) == 2 && (val.Parts[0].Field == lower || (val.Parts[0].V != nil && val.Parts[0].V == pPrefix))
				// built in memory the helper allocated itself (copy first, append to a fresh or capacity-capped base)
				private := okBase && val.Fresh
				check(okBase, be+".bytesPrefixRange|start is appended to the prefix bound", "T16b SiblingAgreement", a.Stmt.Pos(), "what precedes start is the lower bound set from the prefix", "start is appended to something else than the prefix's lower bound")
				// every non-nil return is reached through the append, and through the prefix helper or the prefix == nil edge
				for _, rp := range h.ReturnPoints() {
					r := rp.Node().(*ast.ReturnStmt)
					if len(r.Results) != 1 || core.IsNil(h.Info(), r.Results[0]) {
						continue
					}
					ok1, w1 := h.MustPassBefore(pointsOfAssign(appends), rp)
					_, skip := core.PathQuery{F: h, From: h.Entry(), Target: core.PointSet(rp), Avoid: core.PointSet(core.Points(ph)...), AvoidEdge: h.GuardEdges(varNilFact(h, pPrefix, true))}.Find()
					check(ok1 && !skip, be+".bytesPrefixRange|every range has both steps", "T2 Dominates", r.Pos(), "each returned range passed the prefix helper (or prefix == nil) and the start append", "a range can be returned without the prefix bounds or without start appended: "+h.DescribePath(w1))
				}
				// aliasing: the append must not write into the caller's prefix slice
				if !private && c23HelperCopies(c, prefixHelper, lower) {
					private = true
				}
				if !private {
					// the only safe non-private case: the base was freshly allocated on every path (pebble's prefix == nil branch);
					// the prefix helper aliases its argument (library contract / local literal LowerBound: prefix)
					check(false, be+".bytesPrefixRange|lower bound is built in private memory", "alias", a.Stmt.Pos(), "",
						"the prefix helper returns the caller's prefix slice itself as lower bound and append(lowerBound, start...) writes start into that slice's spare capacity: NewIterator(buf[:2], []byte(\"X\")) with buf = \"ab-zz\" turns the caller's buffer into \"abXzz\" (memorydb copies the prefix first and leaves it unchanged); with a shared prefix slice two concurrent NewIterator calls race on the bound")
				} else {
					check(true, be+".bytesPrefixRange|lower bound is built in private memory", "alias", token.NoPos, "start is appended to a private copy of the prefix bound", "")
				}
			}
			// the upper bound is left to the prefix helper
			check(len(assignsToField(h, upper)) == 0, be+".bytesPrefixRange|upper bound = prefix successor", "T16b SiblingAgreement", h.Pos(), "the upper bound is only what the prefix helper computed", "the upper bound is overwritten after the prefix helper: iteration no longer ends at the prefix's successor")
			flowOK := false
			if !legacyOK {
				libHelper := ""
				if succ == nil {
					libHelper = prefixHelper
				}
				decided, ok, why, _ := c23RangeFlow(h, lower, upper, libHelper, succ)
				flowOK = decided && ok
				if !decided {
					c.Note("C23.range: %s.bytesPrefixRange is not assembled by field assignments and the data-flow view gave up (%s)", be, why)
				}
			}
			if flowOK {
				for _, k := range []string{"bounds come from the prefix helper", "lower bound = prefix || start", "start is appended to the prefix bound", "every range has both steps", "lower bound is built in private memory", "upper bound = prefix successor"} {
					c.Pass(be+".bytesPrefixRange|"+k, "data-flow (symbolic provenance of the bounds)", "at every exit the lower bound is prefix followed by start in memory the helper allocated, and the upper bound is the prefix's successor (absent only on prefix == nil)")
				}
			} else {
				for _, k := range chks {
					if k.ok {
						c.Pass(k.key, k.rule, k.passText)
					} else {
						c.Fail(k.key, k.rule, k.pos, k.failTxt)
					}
				}
			}
			// nil (unbounded) only for prefix == nil && start == nil
			for _, rp := range h.ReturnPoints() {
				r := rp.Node().(*ast.ReturnStmt)
				if len(r.Results) == 1 && core.IsNil(h.Info(), r.Results[0]) {
					a, _ := h.GuardedBy(rp, varNilFact(h, pPrefix, true))
					b, _ := h.GuardedBy(rp, varNilFact(h, pStart, true))
					c.Check(a && b, be+".bytesPrefixRange|unbounded only for nil prefix and nil start", "T4 GuardedBy", r.Pos(), "the nil (unbounded) range is returned only on prefix == nil && start == nil", "an unbounded range can be returned although a prefix or start was given: the iterator yields keys outside the requested range")
				}
			}
		}
		c.ExpectAtLeast("call sites of bytesPrefixRange", nCallers, 1)
		c.ExpectAtLeast("NewIterator methods of the two disk backends (store and snapshot roles)", nIteratees, 4)

		// pebble's local copy of the prefix successor, located by what it does (c23FindSuccessor): it may return
		// the library range (lower bound = the prefix itself, upper bound = the successor) or only the bound
		sc, whySucc := c23FindSuccessor(p, c23Pbl, c23RangeFields[c23Pbl][0], c23RangeFields[c23Pbl][1])
		c.Need(sc != nil, whySucc)
		bp, pp, lim, loop := sc.g, sc.pp, sc.lim, sc.loop
		if sc.lit != nil {
			c.Check(sc.low != nil && varOf(bp, sc.low) == pp, "pebble.bytesPrefix|lower bound is the prefix", "provenance", sc.lit.Pos(), "LowerBound: prefix", "the lower bound is not the prefix")
		} else {
			c.Pass("pebble.bytesPrefix|lower bound is the prefix", "provenance", "the successor function returns the upper bound only; the lower bound is decided in bytesPrefixRange")
		}
		// scan from the last byte downwards
		var idx *types.Var
		okScan := false
		if as, ok := loop.Init.(*ast.AssignStmt); ok && len(as.Lhs) == 1 && len(as.Rhs) == 1 {
			idx = varOf(bp, as.Lhs[0])
			lin := core.Linearize(bp.Info(), as.Rhs[0], func(e ast.Expr) string {
				if call := isCallTo(bp, e, "builtin.len"); call != nil && varOf(bp, call.Args[0]) == pp {
					return "n"
				}
				return ""
			})
			okScan = idx != nil && lin.String() == "+1*n -1"
		}
		if inc, ok := loop.Post.(*ast.IncDecStmt); !ok || inc.Tok != token.DEC || varOf(bp, inc.X) != idx {
			okScan = false
		}
		c.Check(okScan, "pebble.bytesPrefix|scans from the last byte down", "loop shape", loop.Pos(), "for i := len(prefix)-1; ...; i--", "the successor is not computed from the last byte downwards: e.g. prefix \"ab\" would end the range at \"b\" instead of \"ac\"")
		// limit is allocated only for a byte < 0xff, and that byte is incremented
		isByteAt := func(e ast.Expr) bool {
			ix, ok := ast.Unparen(e).(*ast.IndexExpr)
			return ok && varOf(bp, ix.X) == pp && varOf(bp, ix.Index) == idx
		}
		var cVar *types.Var
		for _, a := range assignments(bp) {
			if a.RHS != nil && isByteAt(a.RHS) {
				cVar = varOf(bp, a.LHS)
			}
		}
		lt255 := func(ft core.Fact) bool {
			cm, ok := core.NormCmp(ft)
			if !ok || cm.R == nil {
				return false
			}
			isC := func(e ast.Expr) bool { return isByteAt(e) || (cVar != nil && varOf(bp, e) == cVar) }
			switch cm.Op {
			case token.LSS:
				return isC(cm.L) && core.IsConstInt(bp.Info(), cm.R, 0xff)
			case token.LEQ:
				return isC(cm.L) && core.IsConstInt(bp.Info(), cm.R, 0xfe)
			case token.NEQ:
				return (isC(cm.L) && core.IsConstInt(bp.Info(), cm.R, 0xff)) || (isC(cm.R) && core.IsConstInt(bp.Info(), cm.L, 0xff))
			}
			return false
		}
		las := assignsToVar(bp, lim)
		nAlloc := 0
		for _, a := range las {
			if a.RHS == nil {
				continue // var limit []byte
			}
			nAlloc++
			g, wit := bp.GuardedBy(a.Pt, lt255)
			c.Check(g && isCallTo(bp, a.RHS, "builtin.make") != nil, "pebble.bytesPrefix|limit allocated only for a byte < 0xff", "T4 GuardedBy", a.Stmt.Pos(), "limit stays nil (unbounded) unless some byte is < 0xff", "an upper bound is produced for an all-0xff prefix or without the < 0xff test: "+bp.DescribePath(wit))
			// copy of the prefix and increment of byte i on every path through the allocation
			var cps, incs []core.Point
			for _, cp := range bp.CallsTo("builtin.copy") {
				if len(cp.Call.Args) == 2 && varOf(bp, cp.Call.Args[0]) == lim && varOf(bp, cp.Call.Args[1]) == pp {
					cps = append(cps, cp.Pt)
				}
			}
			for _, b := range assignments(bp) {
				ix, ok := ast.Unparen(b.LHS).(*ast.IndexExpr)
				if !ok || varOf(bp, ix.X) != lim || varOf(bp, ix.Index) != idx || b.RHS == nil {
					continue
				}
				be, ok := ast.Unparen(b.RHS).(*ast.BinaryExpr)
				if ok && be.Op == token.ADD && ((isByteAt(be.X) || varOf(bp, be.X) == cVar) && core.IsConstInt(bp.Info(), be.Y, 1) || (isByteAt(be.Y) || varOf(bp, be.Y) == cVar) && core.IsConstInt(bp.Info(), be.X, 1)) {
					incs = append(incs, b.Pt)
				}
			}
			o1, _ := followsLocally(bp, a.Pt, cps)
			o2, _ := followsLocally(bp, a.Pt, incs)
			c.Check(o1 && o2, "pebble.bytesPrefix|limit = prefix[:i+1] with byte i incremented", "T7 Pairing", a.Stmt.Pos(), "the allocation is followed by copy(limit, prefix) and limit[i] = c + 1", "the upper bound is not the prefix truncated after byte i with that byte incremented")
			// the scan stops at the first such byte
			loopHeadAgain := false
			if head, _ := bp.LoopOf(loop); head != nil {
				_, loopHeadAgain = core.PathQuery{F: bp, From: a.Pt, FromAfter: true, Target: func(pt core.Point) bool { return pt.B == head }}.Find()
			}
			c.Check(!loopHeadAgain, "pebble.bytesPrefix|scan stops at the first byte < 0xff", "T2 (loop)", a.Stmt.Pos(), "after computing the limit the loop is left", "the scan continues after a limit was found: an earlier byte overrides the successor")
		}
		c.ExpectAtLeast("limit allocations in pebble.bytesPrefix", nAlloc, 1)
	})
}

// c23HelperCopies: the prefix helper is a function of the module whose returned literal sets the lower bound to a
// private copy of its parameter (then appending to that bound cannot touch the caller's slice). The library
// helper util.BytesPrefix returns its argument itself (trusted API contract) and is never "copying".
func c23HelperCopies(c *core.Ctx, helper, lower string) bool {
	h := c.P.Func(helper)
	if h == nil || h.Param(0) == nil {
		return false
	}
	found, all := false, true
	h.InspectOwn(func(n ast.Node) bool {
		kv, ok := n.(*ast.KeyValueExpr)
		if !ok {
			return true
		}
		id, ok := kv.Key.(*ast.Ident)
		if !ok {
			return true
		}
		if v, ok := h.Info().ObjectOf(id).(*types.Var); ok && c.P.FieldName(v) == lower {
			found = true
			if isCp, _ := c23CopyExpr(h, kv.Value, h.Param(0)); !isCp {
				all = false
			}
		}
		return true
	})
	return found && all
}

// ---------------------------------------------------------------------------
// (e) batch replay

func c23ReplayClause(c *core.Ctx) {
	c.Clause("C23.replay.pebble", func() {
		f := c.Fn(c23Pbl + ".batch.Replay")
		w := f.Param(0)
		nextCalls := f.CallsTo(c23LibP + "BatchReader.Next")
		c.Need(len(nextCalls) == 1, "Replay decodes with one BatchReader.Next call")
		nas := c23AssignOfCall(f, nextCalls[0].Call)
		c.Need(nas != nil && len(nas.Lhs) == 4, "kind, key, value, ok := iter.Next()")
		kind, key, val := varOf(f, nas.Lhs[0]), varOf(f, nas.Lhs[1]), varOf(f, nas.Lhs[2])
		// the reader comes from the batch field
		rd := f.CallsTo(c23LibP + "Batch.Reader")
		okRd := len(rd) == 1 && fieldNameOf(f, rd[0].Recv()) == c23Pbl+".batch.b"
		c.Check(okRd, "reads the batch's own operations", "provenance", f.Pos(), "iterates b.b.Reader()", "Replay does not iterate the batch's own operation log")
		// kind == <constant> for one of the variables kvs of g (the decoded kind, or the helper parameter bound to it)
		kindIs := func(g *core.FuncInfo, kvs []*types.Var, name string) func(core.Fact) bool {
			isKind := func(e ast.Expr) bool {
				v := varOf(g, e)
				if v == nil {
					return false
				}
				for _, k := range kvs {
					if k != nil && (v == k || canonVar(g, v) == k) {
						return true
					}
				}
				return false
			}
			return func(ft core.Fact) bool {
				cm, ok := core.NormCmp(ft)
				if !ok || cm.R == nil || cm.Op != token.EQL {
					return false
				}
				l, r := cm.L, cm.R
				if !isKind(l) {
					l, r = r, l
				}
				return isKind(l) && g.P.ObjName(g.ObjOf(r)) == name
			}
		}
		type op struct {
			callee, kindConst, what string
			args                    []*types.Var
		}
		// one writer operation as Replay sees it: the point in Replay (the call on w, or the call of the helper
		// that makes it and hands its error up) and the variable of Replay that receives its error
		type done struct {
			at *core.CallSite
			ev *types.Var
		}
		var ops []done
		for _, o := range []op{
			{kvPut, c23LibP + "InternalKeyKindSet", "Set -> Put(key, value)", []*types.Var{key, val}},
			{kvDelete, c23LibP + "InternalKeyKindDelete", "Delete -> Delete(key)", []*types.Var{key}},
		} {
			// the writer calls, in Replay or in a helper Replay hands the writer to (inlined view)
			fws := c23Forwards(f, w, func(x *core.CallSite) bool { return x.Name == o.callee }, 1)
			if len(fws) == 0 {
				c.Fail("kind "+o.what, "T16b SiblingAgreement", f.Pos(), "Replay never forwards this kind of operation to the writer: the replayed content differs from the batch")
				continue
			}
			for _, fw := range fws {
				x, host := fw.Site, fw.Host
				g, wit := host.GuardedBy(x.Pt, kindIs(host, fw.FromTop(kind), o.kindConst))
				where := host
				if !g && host != f {
					// the helper is entered only for this kind
					g, wit = f.GuardedBy(fw.Top.Pt, kindIs(f, []*types.Var{kind}, o.kindConst))
					where = f
				}
				okArgs := len(x.Call.Args) == len(o.args)
				for i := range o.args {
					if okArgs && (o.args[i] == nil || fw.ToTop(x.Call.Args[i]) != o.args[i]) {
						okArgs = false
					}
				}
				c.Check(g && okArgs, "kind "+o.what, "T4 GuardedBy + provenance", x.Pos(), "forwarded only for this kind, with the decoded key/value", "the writer call is not tied to the operation kind or does not pass the decoded key/value: "+where.DescribePath(wit))
				// the decoded bytes reach the writer with their nil-ness ("empty values are distinct from absent
				// keys"): every definition of a forwarded variable other than the decode itself is a copy that is
				// non-nil whenever its source is (CopyBytes, bytes.Clone, append to a non-nil base); append to a nil
				// slice yields nil for an empty value
				for i := range o.args {
					tv := o.args[i]
					if !okArgs || tv == nil {
						continue
					}
					for _, d := range c23DefsOf(f, tv) {
						if d.multi && d.rhs != nil && ast.Unparen(d.rhs) == ast.Expr(nextCalls[0].Call) {
							continue // kind, key, value, ok := reader.Next()
						}
						keyName := "kind " + o.what + "|" + tv.Name() + " keeps the decoded nil-ness"
						pos := x.Pos()
						if d.rhs != nil {
							pos = d.rhs.Pos()
						}
						isCp, nn := false, -1
						if d.rhs != nil && !d.multi {
							for _, src := range []*types.Var{key, val} {
								if src == nil || isCp {
									continue
								}
								isCp, nn = c23CopyExpr(f, d.rhs, src)
							}
						}
						switch {
						case !isCp:
							c.Undecided(keyName, "alias (empty vs absent)", pos, "the decoded "+tv.Name()+" is overwritten before it is forwarded by something that is not recognised as a copy of the decoded bytes")
						case nn == 0:
							c.Fail(keyName, "alias (empty vs absent)", pos, "the decoded "+tv.Name()+" is replaced by a copy appended to a nil slice ("+exprStr(d.rhs)+"), which is nil when the decoded slice is empty: a batch holding Put(k, []byte{}) replays w.Put(k, nil) — the memory store rejects it (\"key or value is nil\") and the replay stops, the memory batch records a delete — while the LevelDB and memory batches replay the put of an empty value")
						default:
							c.Pass(keyName, "alias (empty vs absent)", "the copy forwarded instead of the decoded slice is non-nil whenever that slice is")
						}
					}
				}
				// the writer's error reaches a variable of Replay
				up := host == f || c23ReturnsErrorOf(host, x)
				var ev *types.Var
				if up {
					ev = errVarOfCall(f, fw.Top.Call)
				}
				if ev == nil {
					c.Fail("stops on the first error|"+c23MethodOf(o.callee), "T4 GuardedBy", x.Pos(), "the writer's error is discarded: replay continues after a failed operation and reports success")
					continue
				}
				ops = append(ops, done{fw.Top, ev})
				// the next operation is decoded only after err == nil
				ok, wit2 := f.GuardedBetween(fw.Top.Pt, nextCalls[0].Pt, varNilFact(f, ev, true))
				c.Check(ok, "stops on the first error|"+c23MethodOf(o.callee), "T4 GuardedBy", x.Pos(), "the next operation is decoded only on the err == nil edge", "replay continues after the writer failed: later operations are applied on top of a missing one; path "+f.DescribePath(wit2))
			}
		}
		// the error is what Replay returns: an exit reachable after an operation returns that operation's error
		// variable, or lies behind an edge on which it is nil
		okRet := len(ops) > 0
		var bad token.Pos
		for _, rp := range f.ReturnPoints() {
			r := rp.Node().(*ast.ReturnStmt)
			if len(r.Results) > 1 {
				okRet, bad = false, r.Pos()
				continue
			}
			var returned *types.Var
			if len(r.Results) == 1 {
				returned = varOf(f, r.Results[0])
			} else if res := f.Obj.Type().(*types.Signature).Results(); res.Len() == 1 {
				returned = res.At(0)
			}
			for _, x := range ops {
				if returned == x.ev || !f.CanReach(x.at.Pt, rp) {
					continue
				}
				if g, _ := f.GuardedBetween(x.at.Pt, rp, varNilFact(f, x.ev, true)); !g {
					okRet, bad = false, r.Pos()
				}
			}
		}
		c.Check(okRet, "the writer's error is returned", "T3", bad, "every exit after a failed operation returns that error", "Replay can report success although the writer failed")
		c.ExpectAtLeast("pebble replay writer calls", len(ops), 2)
	})

	c.Clause("C23.replay.leveldb", func() {
		rpT := c23Ldb + ".replayer"
		failure := c.Fld(rpT + ".failure")
		writer := c.Fld(rpT + ".writer")
		n := 0
		for _, m := range []struct{ name, callee string }{{"Put", kvPut}, {"Delete", kvDelete}} {
			f := declaresMethod(c.P, rpT, m.name)
			if f == nil {
				c.Fail("replayer implements "+m.name, "T20 override completeness", token.NoPos, "the replayer has no "+m.name+": this kind of operation is dropped on replay")
				continue
			}
			cs := f.CallsMatching(func(x *core.CallSite) bool { return x.Name == m.callee && fieldNameOf(f, x.Recv()) == writer })
			if len(cs) != 1 {
				c.Fail("replayer."+m.name+" forwards to the writer", "T20 WrapperDelegation", f.Pos(), "the replayer does not forward "+m.name+" to the target writer exactly once")
				continue
			}
			n++
			x := cs[0]
			okArgs := true
			for i, a := range x.Call.Args {
				if f.Param(i) == nil || varOf(f, a) != f.Param(i) {
					okArgs = false
				}
			}
			g, _ := f.GuardedBy(x.Pt, fieldNilFact(f, failure, true))
			rec := false
			for _, a := range assignsToField(f, failure) {
				if a.RHS != nil && ast.Unparen(resolveLocal(f, a.RHS)) == ast.Expr(x.Call) {
					rec = true
				}
			}
			c.Check(okArgs, "replayer."+m.name+"|same key/value", "provenance", x.Pos(), "the decoded arguments are forwarded unchanged", "the replayer forwards different arguments")
			c.Check(g, "replayer."+m.name+"|stops after the first failure", "T4 GuardedBy", x.Pos(), "the writer is called only while failure == nil", "operations keep being applied after one failed")
			c.Check(rec, "replayer."+m.name+"|records the writer's error", "T7 Pairing", x.Pos(), "failure = writer."+m.name+"(...)", "the writer's error is discarded")
		}
		c.ExpectAtLeast("leveldb replayer forwarding methods", n, 2)
		// batch.Replay hands the library a replayer bound to w and returns the recorded failure
		f := c.Fn(c23Ldb + ".batch.Replay")
		lib := f.CallsTo(c23LibL + "Batch.Replay")
		c.Need(len(lib) == 1, "batch.Replay calls the library's Replay once")
		var lit *ast.CompositeLit
		f.InspectOwn(func(nd ast.Node) bool {
			if cl, ok := nd.(*ast.CompositeLit); ok {
				if t := f.Info().TypeOf(cl); t != nil && c.P.LookupType(rpT) != nil && types.Identical(t, c.P.LookupType(rpT).Type()) {
					lit = cl
				}
			}
			return true
		})
		okW := false
		if lit != nil {
			for i, el := range lit.Elts {
				if kv, ok := el.(*ast.KeyValueExpr); ok {
					if v, ok := f.Info().ObjectOf(kv.Key.(*ast.Ident)).(*types.Var); ok && c.P.FieldName(v) == writer && varOf(f, kv.Value) == f.Param(0) {
						okW = true
					}
				} else if i == 0 && varOf(f, el) == f.Param(0) {
					okW = true
				}
			}
		}
		c.Check(okW, "batch.Replay|replayer is bound to the target writer", "provenance", f.Pos(), "&replayer{writer: w}", "the replayer does not write into the given writer")
		libErr := errVarOfCall(f, lib[0].Call)
		okRet := true
		var bad token.Pos
		nFail := 0
		for _, rp := range f.ReturnPoints() {
			r := rp.Node().(*ast.ReturnStmt)
			if len(r.Results) != 1 {
				okRet, bad = false, r.Pos()
				continue
			}
			e := ast.Unparen(r.Results[0])
			switch {
			case fieldNameOf(f, e) == failure:
				nFail++
			case libErr != nil && varOf(f, e) == libErr:
				if g, _ := f.GuardedBy(rp, varNilFact(f, libErr, false)); !g {
					okRet, bad = false, r.Pos()
				}
			default:
				okRet, bad = false, r.Pos()
			}
		}
		if nFail == 0 {
			okRet = false
			if !bad.IsValid() {
				bad = f.Pos()
			}
		}
		c.Check(okRet, "batch.Replay|returns the replayer's recorded failure", "T16b SiblingAgreement", bad,
			"when the library's decode succeeds, Replay returns replayer.failure (as pebble and the memory batch return the writer's error)",
			"the error recorded in replayer.failure is never returned: a LevelDB batch replayed into a writer that fails (e.g. b.Put(a,1); b.Replay(readonlystore.Wrap(x)), or a closed store) skips the remaining operations and reports nil, while the Pebble and memory batches return the writer's error for the same sequence")
	})
}

// ---------------------------------------------------------------------------
// (f) memorydb = overlay over the always-empty store

func c23ZeroResult(f *core.FuncInfo, e ast.Expr) bool {
	e = ast.Unparen(e)
	if core.IsNil(f.Info(), e) {
		return true
	}
	if v, ok := core.ConstVal(f.Info(), e); ok {
		switch v.Kind() {
		case constant.Bool:
			return !constant.BoolVal(v)
		case constant.Int, constant.Float:
			return constant.Sign(v) == 0
		case constant.String:
			return constant.StringVal(v) == ""
		}
		return false
	}
	// a fresh object of the same package holding no data: &T{} / &T{New()} / New()
	if u, ok := e.(*ast.UnaryExpr); ok && u.Op == token.AND {
		if cl, ok := ast.Unparen(u.X).(*ast.CompositeLit); ok {
			for _, el := range cl.Elts {
				if !c23ZeroResult(f, el) {
					return false
				}
			}
			return true
		}
	}
	if call, ok := e.(*ast.CallExpr); ok && calleeName(f, call) == "kvdb/devnulldb.New" {
		return true
	}
	return false
}

func c23MemoryClause(c *core.Ctx) {
	c.Clause("C23.memory", func() {
		p := c.P
		// constructors
		n := 0
		for _, name := range []string{"kvdb/memorydb.New", "kvdb/memorydb.NewWithDrop"} {
			f := c.Fn(name)
			ok := false
			f.InspectOwn(func(nd ast.Node) bool {
				cl, k := nd.(*ast.CompositeLit)
				if !k {
					return true
				}
				t := f.Info().TypeOf(cl)
				dbT := p.LookupType("kvdb/memorydb.Database")
				if t == nil || dbT == nil || !types.Identical(t, dbT.Type()) || len(cl.Elts) != 1 {
					return true
				}
				v := cl.Elts[0]
				if kv, k := v.(*ast.KeyValueExpr); k {
					v = kv.Value
				}
				if call := isCallTo(f, v, "kvdb/flushable.Wrap", "kvdb/flushable.WrapWithDrop"); call != nil && len(call.Args) >= 1 && isCallTo(f, call.Args[0], "kvdb/devnulldb.New") != nil {
					ok = true
				}
				return true
			})
			n++
			c.Check(ok, c23Short(name)+"|overlay over the empty store", "provenance", f.Pos(), "Database{flushable.Wrap*(devnulldb.New(), ...)}: all content lives in the overlay", "the memory database is not the flushable overlay over a fresh devnulldb")
		}
		c.Check(len(p.MethodsOf("kvdb/memorydb.Database")) == 0, "memorydb.Database adds no methods", "T20", token.NoPos, "every Store method is promoted unchanged from the overlay", "memorydb.Database overrides Store methods: inspect them")
		// the always-empty store returns zero results everywhere
		for _, tn := range []string{"kvdb/devnulldb.Database", "kvdb/devnulldb.batch", "kvdb/devnulldb.iterator"} {
			// vacuity guard: each of the three roles (store, batch, iterator) has methods to inspect
			c.ExpectAtLeast("methods of "+c23Short(tn), len(p.MethodsOf(tn)), 1)
			for _, f := range p.MethodsOf(tn) {
				ok := true
				var bad token.Pos
				for _, rp := range f.ReturnPoints() {
					for _, e := range rp.Node().(*ast.ReturnStmt).Results {
						if !c23ZeroResult(f, e) {
							ok, bad = false, e.Pos()
						}
					}
				}
				c.Check(ok, c23Short(f.Name)+"|always empty", "constant results", bad, "returns only zero values / fresh empty objects: absent for every key, no iteration, no error", "the always-empty store returns a non-zero result: the memory database would see content below its overlay")
			}
		}
		// overlay: Put stores a copy (non-nil for an empty value), Get returns a copy
		lput := c.Fn(flT + ".put")
		// what put hands to the tree — directly, or through a function of the module that stores into a tree —
		// is a copy of the value parameter in memory the overlay allocated itself (any copy idiom: CopyBytes,
		// bytes.Clone, append to a fresh base, a straight helper), and the caller's slice itself goes nowhere else
		valP := lput.Param(1)
		isTreePut := func(x *core.CallSite) bool { return x.Name == rbtP+"Tree.Put" }
		nCopies, leak := 0, false
		for _, cs := range lput.Calls() {
			if cs.IsConv || strings.HasPrefix(cs.Name, "builtin.") || cs.Name == c23Copy || cs.Name == "bytes.Clone" {
				continue // sizing and copying read the caller's slice, they do not keep it
			}
			stores := isTreePut(cs)
			if fn, ok := cs.Callee.(*types.Func); ok && !stores {
				if g := p.FuncOf(fn); g != nil && g != lput && len(g.SitesMay(isTreePut, 1)) > 0 {
					stores = true
				}
			}
			for _, a := range cs.Call.Args {
				if valP == nil || !mentionsObj(lput, resolveLocal(lput, a), valP) {
					continue
				}
				val := c23EvalBytes(lput, a, nil, 2)
				if val.OK && val.Fresh && len(val.Parts) == 1 && val.Parts[0].V == valP {
					if stores {
						nCopies++
					}
					continue
				}
				if t := lput.Info().TypeOf(a); t != nil {
					if _, isSlice := t.Underlying().(*types.Slice); isSlice {
						leak = true
					}
				}
			}
		}
		okPut := valP != nil && nCopies >= 1 && !leak
		c.Check(okPut, "overlay stores a private copy of the value", "alias", lput.Pos(), "modified.Put(·, CopyBytes(value)): later changes of the caller's slice do not change the map, and an empty value is stored as a non-nil empty slice (present)", "the overlay keeps the caller's slice: the stored value changes when the caller reuses its buffer")
		get := c.Fn(flRead + ".Get")
		okGet := false
		for _, rp := range get.ReturnPoints() {
			r := rp.Node().(*ast.ReturnStmt)
			if len(r.Results) != 2 {
				continue
			}
			// any copy idiom of the overlay entry (the entry's bytes in freshly allocated memory)
			if val := c23EvalBytes(get, r.Results[0], nil, 2); val.OK && val.Fresh && len(val.Parts) == 1 {
				okGet = true
			}
		}
		c.Check(okGet, "overlay returns a copy of the value", "alias", get.Pos(), "Get returns CopyBytes(entry)", "Get hands out the overlay's own slice: the caller can change the stored value")
	})
}

// ---------------------------------------------------------------------------
// (g) T20 wrapper delegation

type c23Wrapper struct {
	name    string // "<relpkg>.<Type>"
	wrapped map[*types.Var]bool
}

// c23Wrappers discovers the struct types of the wrapper packages that hold a key-value value:
// a field of an interface type implementing kvdb.Reader/Writer/Iterator, or an embedded type implementing one.
func c23Wrappers(c *core.Ctx) []c23Wrapper {
	ifaces := []*types.Interface{c23Iface(c, "Reader"), c23Iface(c, "Writer"), c23Iface(c, "Iterator")}
	isKV := func(t types.Type) bool {
		for _, i := range ifaces {
			if c23Implements(t, i) {
				return true
			}
		}
		return false
	}
	var out []c23Wrapper
	for _, pkg := range c23WrapperPkgs {
		pk := c.P.Pkg(pkg)
		c.Need(pk != nil, "package "+pkg)
		sc := pk.Types.Scope()
		for _, nm := range sc.Names() {
			tn, ok := sc.Lookup(nm).(*types.TypeName)
			if !ok || tn.IsAlias() {
				continue
			}
			if pkg == "kvdb/flushable" && !c23FlushableTypes[nm] {
				continue
			}
			st, ok := tn.Type().Underlying().(*types.Struct)
			if !ok {
				continue
			}
			w := c23Wrapper{name: pkg + "." + nm, wrapped: map[*types.Var]bool{}}
			for i := 0; i < st.NumFields(); i++ {
				fl := st.Field(i)
				if (types.IsInterface(fl.Type()) || fl.Embedded()) && isKV(fl.Type()) {
					w.wrapped[fl] = true
				}
			}
			if len(w.wrapped) > 0 {
				out = append(out, w)
			}
		}
	}
	return out
}

// c23WrappedTarget: if the call is a method call on a wrapped field of the receiver (explicitly x.f.M() or
// promoted through an embedded wrapped field), return that field.
func c23WrappedTarget(f *core.FuncInfo, cs *core.CallSite, wrapped map[*types.Var]bool) *types.Var {
	sel, ok := ast.Unparen(cs.Call.Fun).(*ast.SelectorExpr)
	if !ok {
		return nil
	}
	s, ok := f.Info().Selections[sel]
	if !ok || s.Kind() != types.MethodVal {
		return nil
	}
	// explicit: the receiver expression is a selection of a wrapped field (possibly held in a single-definition local)
	if inner, ok := ast.Unparen(resolveLocal(f, sel.X)).(*ast.SelectorExpr); ok {
		if s2, ok := f.Info().Selections[inner]; ok {
			if v, ok := s2.Obj().(*types.Var); ok && wrapped[v] {
				return v
			}
		}
	}
	// promoted through an embedded wrapped field
	if len(s.Index()) > 1 {
		t := s.Recv()
		for _, ix := range s.Index()[:len(s.Index())-1] {
			if pt, ok := t.Underlying().(*types.Pointer); ok {
				t = pt.Elem()
			}
			st, ok := t.Underlying().(*types.Struct)
			if !ok {
				return nil
			}
			fl := st.Field(ix)
			if wrapped[fl] {
				return fl
			}
			t = fl.Type()
		}
	}
	return nil
}

// c23KVMethodNames: the method names of the key-value interfaces (from the interface types, not a frozen list).
func c23KVMethodNames(c *core.Ctx) map[string]bool {
	out := map[string]bool{}
	for _, n := range []string{"Store", "Batch", "Iterator", "Snapshot"} {
		it := c23Iface(c, n)
		for i := 0; i < it.NumMethods(); i++ {
			out[it.Method(i).Name()] = true
		}
	}
	return out
}

// c23HelperOf: is f (a method of the wrapper type, not itself a key-value operation) a private helper of the
// wrapper's operation op? It is when it is unexported and every call of it in its package is made by the
// wrapper's own method op, or by another such helper of op. A wrapped call of op inside it then belongs to op
// ("the delegation lives in a helper"), not to a different operation.
func c23HelperOf(p *core.Prog, f *core.FuncInfo, wrapper, op string) bool {
	var rec func(h *core.FuncInfo, depth int) bool
	rec = func(h *core.FuncInfo, depth int) bool {
		if h.Obj == nil || h.Obj.Exported() || depth > 3 {
			return false
		}
		nCalls, nUses := 0, 0
		for _, g := range p.FuncsInPkg(core.RelPkg(h.Pkg.PkgPath)) {
			all := append([]*core.FuncInfo{g}, allLits(g)...)
			for _, x := range all {
				for _, cs := range x.Calls() {
					if cs.Callee != types.Object(h.Obj) {
						continue
					}
					nCalls++
					if g.RecvTypeName() != wrapper {
						return false
					}
					if g.Obj.Name() != op && (g == h || !rec(g, depth+1)) {
						return false
					}
				}
			}
			// a method value taken without being called (s.helper passed around) escapes the analysis
			g.InspectAll(func(nd ast.Node) bool {
				if id, ok := nd.(*ast.Ident); ok && g.Info().Uses[id] == types.Object(h.Obj) {
					nUses++
				}
				return true
			})
		}
		return nCalls >= 1 && nUses == nCalls
	}
	return rec(f, 0)
}

func c23WrapperClause(c *core.Ctx) {
	c.Clause("C23.wrapper", func() {
		p := c.P
		kvMethods := c23KVMethodNames(c)
		ws := c23Wrappers(c)
		nMethods := 0
		typesOfPkg := map[string]int{}
		usedExc := map[string]bool{}
		for _, w := range ws {
			ms := p.MethodsOf(w.name)
			if len(ms) == 0 {
				continue
			}
			if i := strings.LastIndex(w.name, "."); i >= 0 {
				typesOfPkg[w.name[:i]]++
			}
			w := w
			for _, f := range ms {
				nMethods++
				m := f.Obj.Name()
				who := c23Short(f.Name)
				var callees []string
				bad := false
				for _, cs := range f.Calls() {
					if c23WrappedTarget(f, cs, w.wrapped) == nil {
						continue
					}
					cm := c23MethodOf(cs.Name)
					callees = append(callees, cm)
					if cm == m {
						continue
					}
					key := who + "->" + cm
					if _, ok := c23CalleeExceptions[key]; ok {
						usedExc[key] = true
						continue
					}
					// a private helper that carries (part of) one operation: every caller is the wrapper's cm
					if !kvMethods[m] && c23HelperOf(p, f, w.name, cm) {
						continue
					}
					// a private helper of another operation op of this wrapper (every caller is op) makes the call
					// on op's behalf: what the table grants to op ("op->cm") it grants to the part of op that was
					// moved into the helper (a loop condition turned into a predicate method)
					if !kvMethods[m] {
						granted := false
						for _, opf := range ms {
							op := opf.Obj.Name()
							k := c23Short(w.name) + "." + op + "->" + cm
							if _, ok := c23CalleeExceptions[k]; ok && opf != f && c23HelperOf(p, f, w.name, op) {
								usedExc[k] = true
								granted = true
							}
						}
						if granted {
							continue
						}
					}
					// a numeric observer of the wrapped value (ValueSize) carries no key or value and changes
					// nothing: which method of the wrapper consults it is bookkeeping, not a translation of an
					// operation. It is admitted for the wrapper type as a whole once the table grants it to one
					// of the type's methods (the size test may move between Put/Delete/MayFlush and a predicate helper).
					if c23NumericObserver(cs) {
						if k := c23TypeException(c23Short(w.name), cm); k != "" {
							usedExc[k] = true
							continue
						}
					}
					bad = true
					c.Fail(who+"|calls "+cm+" on the wrapped value", "T20 WrapperDelegation", cs.Pos(), fmt.Sprintf("%s calls %s on the wrapped key-value value: the operation is translated into a different one (not in the exception table)", who, cm))
				}
				if bad {
					usedExc[who] = true // the method is already reported; do not also call its table entry stale
					continue
				}
				// the same-named delegations: calls of m on the wrapped value, made here or in a helper of the
				// module every returning path of which makes one (callee summary, depth 2)
				same := f.SitesMust(func(cs *core.CallSite) bool {
					return c23MethodOf(cs.Name) == m && c23WrappedTarget(cs.F, cs, w.wrapped) != nil
				}, 2)
				// … or carried by a function over the wrapped value, or by a literal handed to a function that
				// always calls it (c23DelegView)
				same = append(same, (&c23DelegView{p: p, wrapped: w.wrapped, m: m}).points(f, nil, nil, 3)...)
				switch {
				case len(same) > 0:
					// every non-error exit is reached through the same-named delegate
					skips, at := c23SkipsDelegate(f, same)
					if skips {
						if why, ok := c23Intercepts[who]; ok {
							usedExc[who] = true
							c.Pass(who, "T20 WrapperDelegation (intercept)", "may answer without delegating: "+why)
						} else {
							c.Fail(who, "T20 WrapperDelegation", at, who+" can finish with a non-error result without calling "+m+" on the wrapped value (exit at "+p.Pos(at)+"): the operation is silently dropped or answered by the wrapper itself")
						}
					} else {
						c.Pass(who, "T20 WrapperDelegation", fmt.Sprintf("calls %v on the wrapped value; every non-error exit passes the wrapped %s", callees, m))
					}
				case kvMethods[m]:
					if why, ok := c23Intercepts[who]; ok {
						usedExc[who] = true
						c.Pass(who, "T20 WrapperDelegation (intercept)", "does not delegate: "+why)
					} else {
						c.Fail(who, "T20 WrapperDelegation", f.Pos(), who+" implements a key-value operation without calling "+m+" on the wrapped value and is not in the intercept table: the operation never reaches the store")
					}
				default:
					c.Pass(who, "T20 WrapperDelegation", fmt.Sprintf("wrapper's own operation; calls on the wrapped value: %v (all in the exception table)", callees))
				}
			}
		}
		// Table entries are permissions, not obligations: an entry that no longer matches anything means the
		// wrapper now delegates more directly than the table allows (every method is still judged above, and a
		// renamed or new method without an entry fails there). An unused entry is therefore noted for the
		// table's maintainer and is not a finding about the code.
		var stale []string
		for k := range c23CalleeExceptions {
			if !usedExc[k] {
				stale = append(stale, "exception "+k)
			}
		}
		for k := range c23Intercepts {
			if !usedExc[k] {
				stale = append(stale, "intercept "+k)
			}
		}
		sort.Strings(stale)
		for _, k := range stale {
			c.Note("C23.wrapper: table entry unused on this tree (the wrapper delegates without needing it): %s", k)
		}
		// batched.Flush: Reset only after a successful Write
		fl := c.Fn("kvdb/batched.Store.Flush")
		wr, rs := fl.CallsTo("kvdb.Batch.Write"), fl.CallsTo("kvdb.Batch.Reset")
		okFl := len(wr) == 1 && len(rs) >= 1
		for _, r := range rs {
			if okFl && !afterSuccess(fl, wr[0], r.Pt) {
				okFl = false
			}
		}
		c.Check(okFl, "batched.Store.Flush|reset only after a successful write", "T2+T4", fl.Pos(), "batch.Reset() is reached only after batch.Write() returned nil", "the pending batch can be reset without having been written: queued puts/deletes are lost")
		// Flush writes whatever is pending: no exit without batch.Write() (in particular not on a size test —
		// ValueSize counts value bytes only, a batch of deletes or empty values has size 0 and still has content)
		okWr := len(wr) >= 1
		var noWr token.Pos
		for _, rp := range fl.ReturnPoints() {
			if ok, _ := fl.MustPassBefore(core.Points(wr), rp); !ok {
				okWr, noWr = false, posOf(rp)
			}
		}
		c.Check(okWr, "batched.Store.Flush|always writes the pending batch", "T2 Dominates", noWr, "every exit of Flush is dominated by batch.Write()", "Flush can return without writing the pending batch: queued operations (e.g. deletes and empty values, which have value size 0) stay unwritten while the caller believes them flushed")
		// vacuity guards: every wrapper role (package) contributed at least one inspected wrapper type. How many
		// types and methods a package has is not an obligation (helpers come and go); what a method owes is
		// decided per method above, and a reader override that loses its sibling is decided below.
		for _, pkg := range c23WrapperRoles {
			c.ExpectAtLeast("wrapper types with declared methods in "+pkg, typesOfPkg[pkg], 1)
		}
		c.ExpectAtLeast("wrapper methods inspected", nMethods, 1)
	})
}

// readonlystore: every Writer method is rejected on the store and on its batches
func c23ReadonlyClause(c *core.Ctx) {
	c.Clause("C23.readonly", func() {
		p := c.P
		wr := c23Iface(c, "Writer")
		ws := c23Wrappers(c)
		wrappedOf := map[string]map[*types.Var]bool{}
		for _, w := range ws {
			wrappedOf[w.name] = w.wrapped
		}
		n := 0
		for _, tn := range []string{"kvdb/readonlystore.Store", "kvdb/readonlystore.Batch"} {
			c.Need(wrappedOf[tn] != nil, tn+" wraps a key-value value")
			for i := 0; i < wr.NumMethods(); i++ {
				m := wr.Method(i).Name()
				who := c23Short(tn) + "." + m
				f := declaresMethod(p, tn, m)
				if f == nil {
					c.Fail(who+" is rejected", "T20 override completeness", token.NoPos, who+" is not overridden: the mutator is promoted from the wrapped value and writes through the read-only view")
					continue
				}
				n++
				ok := true
				for _, cs := range f.Calls() {
					if c23WrappedTarget(f, cs, wrappedOf[tn]) != nil {
						ok = false
					}
				}
				for _, rp := range f.ReturnPoints() {
					r := rp.Node().(*ast.ReturnStmt)
					if len(r.Results) != 1 || core.IsNil(f.Info(), r.Results[0]) {
						ok = false
						continue
					}
					// a package-level error value or a constructor call, never a variable that may be nil
					if _, isVar := f.ObjOf(r.Results[0]).(*types.Var); isVar {
						v := f.ObjOf(r.Results[0]).(*types.Var)
						if v.Pkg() == nil || v.Parent() != v.Pkg().Scope() {
							ok = false
						}
					}
				}
				c.Check(ok, who+" is rejected", "T20 override completeness", f.Pos(), "never touches the wrapped value and always returns an error", who+" can succeed or reaches the wrapped value: the read-only view is writable")
			}
		}
		c.ExpectAtLeast("rejected mutators of the read-only view", n, 4)
		// NewBatch hands out the rejecting batch only
		nb := c.Fn("kvdb/readonlystore.Store.NewBatch")
		bt := p.LookupType("kvdb/readonlystore.Batch")
		c.Need(bt != nil, "type readonlystore.Batch")
		okNB := len(nb.ReturnPoints()) > 0
		for _, rp := range nb.ReturnPoints() {
			r := rp.Node().(*ast.ReturnStmt)
			t := nb.Info().TypeOf(r.Results[0])
			if t == nil || !types.Identical(t, types.NewPointer(bt.Type())) {
				okNB = false
			}
		}
		c.Check(okNB, "readonlystore.Store.NewBatch returns the rejecting batch", "T20 override completeness", nb.Pos(), "every batch of the read-only view is a *readonlystore.Batch", "NewBatch can hand out the wrapped store's own batch: batch writes go through the read-only view")
	})
}

// synced: every delegation holds the shared mutex
func c23SyncedClause(c *core.Ctx) {
	c.Clause("C23.synced", func() {
		const sp = "kvdb/synced."
		mu := sp + "iteratedReader.mu"
		spec := core.LockSpec{
			Pkgs: []string{"kvdb/synced"},
			Guarded: map[string]string{
				sp + "store.underlying":          mu,
				sp + "iteratedReader.underlying": mu,
				sp + "readonlySnapshot.snap":     mu,
				sp + "syncedBatch.underlying":    sp + "syncedBatch.mu",
				sp + "readonlyIterator.parentIt": sp + "readonlyIterator.mu",
			},
			Alias: map[string]string{
				// the batch and the iterator carry the pointer to the mutex of the store they were made from
				sp + "syncedBatch.mu":      mu,
				sp + "readonlyIterator.mu": mu,
			},
			// calls that change the store's content or lifetime need the write lock
			Mutating: func(callee string) bool {
				switch callee {
				case kvPut, kvDelete, kvCompact, "io.Closer.Close", "kvdb.Droper.Drop", "kvdb.Batcher.NewBatch", "kvdb.Batch.Write", "kvdb.Batch.Replay", "kvdb.Batch.Reset", "kvdb.Snapshot.Release":
					return true
				}
				return false
			},
		}
		for f := range spec.Guarded {
			c.Fld(f)
		}
		c.Fld(mu)
		res := core.RunLockset(c.P, spec)
		reportLockset(c, res, c23SyncedExceptions, nil)
		// vacuity guard: each wrapped field (one per role: store, reader, snapshot, batch, iterator) is seen
		// delegating at least once; the number of methods per type is not an obligation
		perField := map[string]int{}
		for _, a := range res.Accesses {
			perField[a.Field]++
		}
		var guarded []string
		for f := range spec.Guarded {
			guarded = append(guarded, f)
		}
		sort.Strings(guarded)
		for _, f := range guarded {
			c.ExpectAtLeast("delegations through "+short(f), perField[f], 1)
		}
	})
}
