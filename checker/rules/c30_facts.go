package rules

import (
	"go/ast"
	"go/constant"
	"go/token"
	"go/types"

	"lachk/core"
)

// c30Access is a storage location named independently of the function it is mentioned in: a root
// variable of the function under analysis (nil when the location is reached through a field of some
// object whose identity is not tracked, e.g. the receiver) followed by canonical field names.
type c30Access struct {
	Root *types.Var
	Path []string
}

// c30Scope is a function together with the meaning of its parameters/receiver in the function the
// analysis started from. The start function has an empty binding; a helper called as h(a, b.c) binds
// h's parameters to the accesses a and b.c of the caller.
type c30Scope struct {
	F    *core.FuncInfo
	Bind map[*types.Var]c30Access
	// Stale (optional): locals of F that must not be looked through, because the location their single
	// definition copies can have changed since (a copy of the capacity taken before a wait loop): such a
	// local is a location of its own, with no role. Inherited by the scopes of called closures/functions
	// only through the binding of their parameters (an argument that is a stale local stays one).
	Stale func(f *core.FuncInfo, v *types.Var) bool
}

// access resolves an expression (identifier or field selection chain, single-definition locals looked
// through) to a location in terms of the start function.
func (sc *c30Scope) access(e ast.Expr) (c30Access, bool) {
	if e == nil {
		return c30Access{}, false
	}
	if sc.Stale != nil {
		// a chain that starts at a stale local denotes that local, not what it was copied from
		if v0, p0 := c30RawPath(sc.F, e); v0 != nil && sc.Stale(sc.F, v0) {
			if _, bound := sc.Bind[v0]; !bound {
				return c30Access{Root: v0, Path: p0}, true
			}
		}
	}
	root, path := fieldPath(sc.F, e)
	v := varOf(sc.F, resolveLocal(sc.F, root))
	if v == nil {
		// a local defined once by an expression that is not itself a location (e := &event{…}, t := f()):
		// the local is the root
		v = varOfRaw(sc.F, root)
	}
	if v == nil {
		return c30Access{Path: path}, len(path) > 0
	}
	if b, ok := sc.Bind[v]; ok {
		return c30Access{Root: b.Root, Path: append(append([]string(nil), b.Path...), path...)}, true
	}
	return c30Access{Root: v, Path: path}, true
}

// enter builds the scope of a declared module function called at `call` in sc (nil if the callee is
// not a source function of the module, e.g. an interface method or a function value).
func (sc *c30Scope) enter(call *ast.CallExpr) *c30Scope {
	g, closure := c30CalleeInfo(sc.F, call)
	if g == nil || g == sc.F {
		return nil
	}
	sub := &c30Scope{F: g, Bind: map[*types.Var]c30Access{}}
	if closure {
		sub.Stale = sc.Stale
		// a function literal sees the variables of its enclosing function: they keep their meaning
		for v, acc := range sc.Bind {
			sub.Bind[v] = acc
		}
	}
	for i, a := range call.Args {
		if pv := g.Param(i); pv != nil {
			if acc, ok := sc.access(a); ok {
				sub.Bind[pv] = acc
			}
		}
	}
	if rv := g.Recv(); rv != nil {
		if sel, ok := ast.Unparen(call.Fun).(*ast.SelectorExpr); ok {
			if acc, ok := sc.access(sel.X); ok {
				sub.Bind[rv] = acc
			}
		}
	}
	return sub
}

// c30Implies decides whether the atomic fact ft, known to hold on a CFG edge of sc.F, establishes the
// integer comparison `want` over the roles given by name. The fact establishes it when
//   - it is that comparison up to arithmetic rewriting, operand order and negation, or
//   - it is the result (true or false) of a call of a declared boolean function every return of which
//     that can produce this result establishes the comparison, through the returned condition or
//     through the branch edges that lead to the return (recursively, bounded depth).
//
// So `if a > max || b > max { refuse }`, `if exceeds(a, b) { refuse }` and `if !fits(a, b) { refuse }`
// are the same guard.
func c30Implies(sc *c30Scope, ft core.Fact, want core.LinCmp, name func(c30Access) string, depth int) bool {
	return c30ImpliesN(sc, ft, want, c30AccessNamer(name), depth)
}

// c30AccessNamer names an atom by the role of the storage location it denotes.
func c30AccessNamer(name func(c30Access) string) c30Namer {
	return func(s *c30Scope, e ast.Expr) string {
		if acc, ok := s.access(e); ok {
			return name(acc)
		}
		return ""
	}
}

// c30Namer names an atom (field load, parameter, call) of a comparison written in the function of
// scope sc by its role ("" = no role).
type c30Namer func(sc *c30Scope, e ast.Expr) string

// c30ImpliesN is c30Implies with a namer that sees the expression itself (so that calls such as
// c.Len() can have a role too).
func c30ImpliesN(sc *c30Scope, ft core.Fact, want core.LinCmp, atom c30Namer, depth int) bool {
	return c30ImpliesAny(sc, ft, []core.LinCmp{want}, atom, depth)
}

// c30ImpliesAny: the fact establishes one of the comparisons `wants` (which one may depend on how the
// fact came to hold: the true result of `a.X > b.X || a.Y > b.Y` establishes "X exceeds or Y exceeds").
// The boolean may be the call of a declared function, or a local defined once from one of the results
// of such a call (`v, ok := h(…)`): the returns of the function that can give this truth value must
// each establish one of the comparisons.
func c30ImpliesAny(sc *c30Scope, ft core.Fact, wants []core.LinCmp, atom c30Namer, depth int) bool {
	namer := func(e ast.Expr) string { return atom(sc, e) }
	if lc, ok := core.NormLinCmp(sc.F.Info(), ft, namer); ok {
		for _, want := range wants {
			if lc.Equal(want) {
				// rewriting a comparison arithmetically (a > m - h  <=>  h + a > m) is valid only while no operand
				// wraps around: a difference of unsigned amounts does as soon as the subtrahend is the larger one
				// (capacity - held after Terminate has zeroed the capacity), so a test written with one does not
				// establish the comparison
				return c30UnsignedSub(sc.F, ft.Expr) == nil
			}
		}
	}
	if depth <= 0 {
		return false
	}
	cm, ok := core.NormCmp(ft)
	if !ok {
		return false
	}
	// helper() as a bare condition, or helper() == true / helper() != false
	truth := cm.Op == token.EQL
	callExpr := cm.L
	if cm.R != nil {
		l, r := cm.L, cm.R
		if _, isConst := core.ConstVal(sc.F.Info(), l); isConst {
			l, r = r, l
		}
		v, isConst := core.ConstVal(sc.F.Info(), r)
		if !isConst || v.Kind() != constant.Bool || (cm.Op != token.EQL && cm.Op != token.NEQ) {
			return false
		}
		if !constant.BoolVal(v) {
			truth = !truth
		}
		callExpr = l
	}
	call, idx, ok := c30CallOfBool(sc.F, callExpr)
	if !ok {
		return false
	}
	sub := sc.enter(call)
	if sub == nil {
		return false
	}
	g := sub.F
	cases, ok := c30ResultCases(g, idx)
	if !ok {
		return false
	}
	for _, rc := range cases {
		if val, isConst := c30ConstBool(g, rc.Expr); isConst && val != truth {
			continue // this return cannot produce the result in question
		}
		// whichever alternative made the result expression take this truth value, it establishes one of
		// the comparisons
		alts := core.Disjuncts(rc.Expr, truth)
		established := len(alts) > 0
		for _, alt := range alts {
			some := false
			for _, sf := range alt {
				if c30ImpliesAny(sub, sf, wants, atom, depth-1) {
					some = true
					break
				}
			}
			if !some {
				established = false
				break
			}
		}
		if !established {
			established, _ = g.GuardedBy(rc.Pt, func(x core.Fact) bool { return c30ImpliesAny(sub, x, wants, atom, depth-1) })
		}
		if !established {
			return false
		}
	}
	return true
}

// c30UnsignedSub finds a subtraction of non-constant unsigned integers in e (nil if there is none).
func c30UnsignedSub(f *core.FuncInfo, e ast.Expr) *ast.BinaryExpr {
	var found *ast.BinaryExpr
	ast.Inspect(e, func(n ast.Node) bool {
		if found != nil {
			return false
		}
		if _, ok := n.(*ast.FuncLit); ok {
			return false
		}
		be, ok := n.(*ast.BinaryExpr)
		if !ok || be.Op != token.SUB {
			return true
		}
		tv, ok := f.Info().Types[be]
		if !ok || tv.Value != nil {
			return true
		}
		if b, ok := tv.Type.Underlying().(*types.Basic); ok && b.Info()&types.IsUnsigned != 0 {
			found = be
		}
		return true
	})
	return found
}

// c30WrapHint names the unsigned subtraction in a branch condition of f, if any (for failure messages).
func c30WrapHint(f *core.FuncInfo) string {
	for _, b := range f.CFG().Blocks {
		if cond := f.BranchCond(b); cond != nil {
			if be := c30UnsignedSub(f, cond); be != nil {
				return " (the test at " + f.P.Pos(be.Pos()) + " computes `" + exprStr(be) + "` in unsigned arithmetic: it wraps around when the subtrahend is larger, e.g. capacity - held after Terminate zeroed the capacity while an amount is held, and the request is then granted)"
			}
		}
	}
	return ""
}

// c30Guarded: every path of f from its entry to `to` takes an edge that establishes `want`.
func c30Guarded(f *core.FuncInfo, to core.Point, want string, name func(c30Access) string) (bool, []core.Point) {
	sc := &c30Scope{F: f}
	w := core.ParseLinCmp(want)
	return f.GuardedBy(to, func(ft core.Fact) bool { return c30Implies(sc, ft, w, name, 2) })
}

// c30MayCall: does the expression contain a call of one of the named functions, directly or inside a
// declared module function it calls (bounded depth)?
func c30MayCall(f *core.FuncInfo, e ast.Expr, depth int, names ...string) bool {
	if mentionsCall(f, e, names...) {
		return true
	}
	if depth <= 0 {
		return false
	}
	found := false
	ast.Inspect(e, func(n ast.Node) bool {
		if found {
			return false
		}
		if _, ok := n.(*ast.FuncLit); ok {
			return false
		}
		call, ok := n.(*ast.CallExpr)
		if !ok {
			return true
		}
		g, _ := c30CalleeInfo(f, call)
		if g == nil || g == f {
			return true
		}
		pts := g.SitesMay(func(cs *core.CallSite) bool {
			for _, nm := range names {
				if cs.Name == nm {
					return true
				}
			}
			return false
		}, depth-1)
		if len(pts) > 0 {
			found = true
		}
		return true
	})
	return found
}

// c30CalleeInfo resolves the source function a call runs: a declared function or method of the module,
// or a function literal (called in place, or bound once to a local variable: `check := func() bool {…}`).
// closure says that the callee is a literal, which shares the variables of its enclosing function.
func c30CalleeInfo(f *core.FuncInfo, call *ast.CallExpr) (g *core.FuncInfo, closure bool) {
	if lit, ok := ast.Unparen(call.Fun).(*ast.FuncLit); ok {
		return f.P.LitInfo(lit), true
	}
	obj, _ := f.P.ResolveCallee(f.Info(), call)
	switch o := obj.(type) {
	case *types.Func:
		return f.P.FuncOf(o), false
	case *types.Var:
		if o.IsField() {
			return nil, false
		}
		if lit, ok := ast.Unparen(singleDefExpr(f, o)).(*ast.FuncLit); ok {
			return f.P.LitInfo(lit), true
		}
	}
	return nil, false
}

func singleDefExpr(f *core.FuncInfo, v *types.Var) ast.Expr {
	if d := singleDef(f, v); d != nil {
		return d
	}
	return &ast.BadExpr{}
}

// c30FuncValue resolves a function-valued expression (literal, single-definition local holding a
// literal, declared function, method value) to its source function.
func c30FuncValue(f *core.FuncInfo, e ast.Expr) *core.FuncInfo {
	e = ast.Unparen(e)
	if lit, ok := e.(*ast.FuncLit); ok {
		return f.P.LitInfo(lit)
	}
	switch x := e.(type) {
	case *ast.Ident:
		switch o := f.Info().ObjectOf(x).(type) {
		case *types.Func:
			return f.P.FuncOf(o)
		case *types.Var:
			if lit, ok := ast.Unparen(singleDefExpr(f, o)).(*ast.FuncLit); ok {
				return f.P.LitInfo(lit)
			}
		}
	case *ast.SelectorExpr:
		if s, ok := f.Info().Selections[x]; ok {
			if fn, ok := s.Obj().(*types.Func); ok {
				return f.P.FuncOf(fn)
			}
		} else if fn, ok := f.Info().Uses[x.Sel].(*types.Func); ok {
			return f.P.FuncOf(fn)
		}
	}
	return nil
}

// c30DependsOn: does the value of expression e (written in f) depend on something pred accepts,
// either in e itself or in the body of a module function / closure that e calls (bounded depth)?
func c30DependsOn(f *core.FuncInfo, e ast.Node, depth int, pred func(g *core.FuncInfo, n ast.Node) bool) bool {
	if pred(f, e) {
		return true
	}
	if depth <= 0 {
		return false
	}
	found := false
	ast.Inspect(e, func(n ast.Node) bool {
		if found {
			return false
		}
		if _, ok := n.(*ast.FuncLit); ok {
			return false
		}
		if call, ok := n.(*ast.CallExpr); ok {
			if g, _ := c30CalleeInfo(f, call); g != nil && g != f && c30DependsOn(g, g.Body, depth-1, pred) {
				found = true
			}
		}
		return true
	})
	return found
}

// c30Change is a point of a function at which a guarded field (or a component of it) is assigned,
// either by an assignment of the function itself or inside a declared module function called there.
type c30Change struct {
	Pt  core.Point
	Pos token.Pos
}

func c30StateChanges(f *core.FuncInfo, field string, depth int) []c30Change {
	var out []c30Change
	for _, a := range assignments(f) {
		if _, path := fieldPath(f, a.LHS); len(path) > 0 && path[0] == field {
			out = append(out, c30Change{a.Pt, a.Stmt.Pos()})
		}
	}
	if depth <= 0 {
		return out
	}
	for _, cs := range f.Calls() {
		fn, ok := cs.Callee.(*types.Func)
		if !ok || cs.InGo {
			continue
		}
		if g := f.P.FuncOf(fn); g != nil && g != f && len(c30StateChanges(g, field, depth-1)) > 0 {
			out = append(out, c30Change{cs.Pt, cs.Pos()})
		}
	}
	return out
}
