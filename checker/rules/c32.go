package rules

import (
	"fmt"
	"go/ast"
	"go/constant"
	"go/token"
	"go/types"
	"sort"
	"strconv"
	"strings"

	"lachk/core"
)

const (
	c32IdxPkg = "inter/idx"
	c32DagPkg = "inter/dag"
	c32IDFld  = "inter/dag.BaseEvent.id"
	c32BinPkg = "encoding/binary."
)

func init() {
	register("C32", "proof", "T14 CodecPair (byte order derived from index/shift pairs or from the encoding/binary method), T15 ConstRelation (widths via types.Sizes, slice bounds via go/constant), T6 WhoMayWrite (event ID)",
		"Obligations (all must discharge): (1) for N in {16,32,64} and both packages, UintNToBytes fills a fresh local [N/8]byte (or make([]byte,N/8)) with exactly the package's byte order - decided either from the encoding/binary method it calls (receiver type bigEndian/littleEndian, PutUintN, full buffer, the parameter unchanged) or from the (index, shift) pairs of a manual fill - uses the buffer for nothing else and returns all of it; BytesToUintN reads the same order and width from the unchanged parameter; (2) every integer type of inter/idx that has Bytes() is a fixed-width unsigned type T whose Bytes() is bigendian.UintNToBytes of the receiver with N = 8*Sizeof(T) and no narrowing conversion, and every func([]byte) T of the package is T(bigendian.BytesToUintN(b)) with the same N; (3) every function that writes BaseEvent.id copies <same event>.epoch.Bytes() to [0:w1], <same event>.lamport.Bytes() to [w1:w1+w2] and a fixed-size array parameter to the rest, the three ranges tile the ID exactly, each copy is on every path to return, and nothing else writes the field; MutableBaseEvent.Build and SetID each perform such a complete write on every path to return - in their own body or by calling a pointer-receiver helper that always does - into the event they hand out (Build: the returned event; SetID: the receiver) with their own rID parameter as the tail; hash.Event.Epoch/Lamport decode exactly those ranges with the decoder of the field's own type. Lemma (trusted, encoding/binary contract + elementary): fixed-width big-endian is a bijection carrying < to byte-wise order, fixed-width little-endian is a bijection, concatenation at fixed offsets compares lexicographically. Obligations + lemma entail the statement. Not covered: hash.FakeEvent (test helper writing a fake epoch).",
		[]string{"encoding/binary: bigEndian/littleEndian PutUintN/UintN implement the documented byte orders", "types.Sizes of the host GOARCH (the idx types are fixed-width, so the result is the same on every architecture)"},
		runC32)
}

// ---------------------------------------------------------------------------
// small helpers (c32 prefix)

func c32sizeof(f *core.FuncInfo, t types.Type) int64 {
	if f.Pkg.TypesSizes == nil || t == nil {
		return -1
	}
	return f.Pkg.TypesSizes.Sizeof(t)
}

// c32uintBits: width of a fixed-width unsigned integer type (0 if t is anything else, incl. uint/uintptr).
func c32uintBits(t types.Type) int {
	if t == nil {
		return 0
	}
	b, ok := t.Underlying().(*types.Basic)
	if !ok {
		return 0
	}
	switch b.Kind() {
	case types.Uint8:
		return 8
	case types.Uint16:
		return 16
	case types.Uint32:
		return 32
	case types.Uint64:
		return 64
	}
	return 0
}

func c32isByteSlice(t types.Type) bool {
	s, ok := t.Underlying().(*types.Slice)
	return ok && c32uintBits(s.Elem()) == 8
}

// c32peel removes conversions around e and returns the operand together with the conversion target types (outermost first).
func c32peel(info *types.Info, e ast.Expr) (ast.Expr, []types.Type) {
	var ts []types.Type
	for {
		e = ast.Unparen(e)
		call, ok := e.(*ast.CallExpr)
		if !ok || len(call.Args) != 1 {
			return e, ts
		}
		tv, ok := info.Types[call.Fun]
		if !ok || !tv.IsType() {
			return e, ts
		}
		ts = append(ts, tv.Type)
		e = call.Args[0]
	}
}

// c32noNarrow: every conversion type is a fixed-width unsigned integer of at least minBits.
func c32noNarrow(ts []types.Type, minBits int) bool {
	for _, t := range ts {
		if b := c32uintBits(t); b == 0 || b < minBits {
			return false
		}
	}
	return true
}

func c32constInt(info *types.Info, e ast.Expr) (int64, bool) {
	v, ok := core.ConstVal(info, e)
	if !ok {
		return 0, false
	}
	v = constant.ToInt(v)
	if v.Kind() != constant.Int {
		return 0, false
	}
	return constant.Int64Val(v)
}

// c32bounds evaluates the constant bounds of s[lo:hi]; length is the static length of the sliced
// array (-1 if unknown: then a missing high bound makes the result undecided).
func c32bounds(info *types.Info, se *ast.SliceExpr, length int64) (lo, hi int64, ok bool) {
	if se.Slice3 || se.Max != nil {
		return 0, 0, false
	}
	if se.Low != nil {
		if lo, ok = c32constInt(info, se.Low); !ok {
			return 0, 0, false
		}
	}
	if se.High != nil {
		if hi, ok = c32constInt(info, se.High); !ok {
			return 0, 0, false
		}
	} else {
		if length < 0 {
			return 0, 0, false
		}
		hi = length
	}
	return lo, hi, true
}

func c32arrayLen(t types.Type) int64 {
	if t == nil {
		return -1
	}
	if p, ok := t.Underlying().(*types.Pointer); ok {
		t = p.Elem()
	}
	if a, ok := t.Underlying().(*types.Array); ok {
		return a.Len()
	}
	return -1
}

// c32binMethod classifies a callee of encoding/binary: order "big"/"little", op "Put"/"Get", width.
func c32binMethod(name string) (order, op string, bits int, ok bool) {
	if !strings.HasPrefix(name, c32BinPkg) {
		return
	}
	rest := name[len(c32BinPkg):]
	i := strings.Index(rest, ".")
	if i < 0 {
		return
	}
	switch rest[:i] {
	case "bigEndian":
		order = "big"
	case "littleEndian":
		order = "little"
	default:
		return
	}
	m := rest[i+1:]
	switch {
	case strings.HasPrefix(m, "PutUint"):
		op, m = "Put", m[len("PutUint"):]
	case strings.HasPrefix(m, "Uint"):
		op, m = "Get", m[len("Uint"):]
	default:
		return
	}
	n, err := strconv.Atoi(m)
	if err != nil {
		return
	}
	return order, op, n, true
}

// c32orderOf derives the byte order from (index -> shift) pairs over k bytes:
// "big" iff shift(i) = 8*(k-1-i) for all i, "little" iff shift(i) = 8*i; the description names the first offending pair.
func c32orderOf(pairs map[int64]int64, k int64) (order string, why string) {
	for i := int64(0); i < k; i++ {
		if _, ok := pairs[i]; !ok {
			return "", fmt.Sprintf("byte %d is never written/read", i)
		}
	}
	if int64(len(pairs)) != k {
		return "", fmt.Sprintf("%d distinct byte indices for a %d-byte value", len(pairs), k)
	}
	big, little := true, true
	for i := int64(0); i < k; i++ {
		if pairs[i] != 8*(k-1-i) {
			big = false
		}
		if pairs[i] != 8*i {
			little = false
		}
	}
	switch {
	case big && little:
		return "both", ""
	case big:
		return "big", ""
	case little:
		return "little", ""
	}
	var idx []int64
	for i := range pairs {
		idx = append(idx, i)
	}
	sort.Slice(idx, func(a, b int) bool { return idx[a] < idx[b] })
	var sb []string
	for _, i := range idx {
		sb = append(sb, fmt.Sprintf("[%d]<->bits %d..%d", i, pairs[i], pairs[i]+7))
	}
	return "", "index/shift pairs " + strings.Join(sb, ", ") + " are neither big- nor little-endian"
}

// c32fullOf: is e the whole of variable v (v itself when it is a slice, or v[:] / v[0:] / v[0:len] with constant bounds)?
func c32fullOf(f *core.FuncInfo, e ast.Expr, v *types.Var, length int64) bool {
	e = ast.Unparen(e)
	if se, ok := e.(*ast.SliceExpr); ok {
		if varOf(f, se.X) != v {
			return false
		}
		lo, hi, ok := c32bounds(f.Info(), se, length)
		return ok && lo == 0 && hi == length
	}
	if varOf(f, e) == v {
		_, isSlice := v.Type().Underlying().(*types.Slice)
		return isSlice
	}
	return false
}

// c32stripMask removes "& 0xff" from a byte-extraction expression.
func c32stripMask(info *types.Info, e ast.Expr) ast.Expr {
	e = ast.Unparen(e)
	if be, ok := e.(*ast.BinaryExpr); ok && be.Op == token.AND {
		if v, ok := c32constInt(info, be.Y); ok && v == 0xff {
			return ast.Unparen(be.X)
		}
		if v, ok := c32constInt(info, be.X); ok && v == 0xff {
			return ast.Unparen(be.Y)
		}
	}
	return e
}

func c32cap(s string) string {
	if s == "" {
		return s
	}
	return strings.ToUpper(s[:1]) + s[1:]
}

func c32within(n ast.Node, pos token.Pos) bool { return n != nil && n.Pos() <= pos && pos < n.End() }

// ---------------------------------------------------------------------------

func runC32(c *core.Ctx) {
	p := c.P

	c.Clause("C32.codec", func() {
		n := 0
		for _, pk := range []struct{ path, order string }{{"common/bigendian", "big"}, {"common/littleendian", "little"}} {
			for _, bits := range []int{16, 32, 64} {
				enc := c.Fn(fmt.Sprintf("%s.Uint%dToBytes", pk.path, bits))
				dec := c.Fn(fmt.Sprintf("%s.BytesToUint%d", pk.path, bits))
				c32checkEncoder(c, enc, pk.order, bits)
				c32checkDecoder(c, dec, pk.order, bits)
				n += 2
			}
		}
		c.ExpectAtLeast("codec functions", n, 12)
	})

	// widths of the Bytes() of each idx type, for the ID layout
	idxWidth := map[string]int64{}

	c.Clause("C32.idx", func() {
		pk := p.Pkg(c32IdxPkg)
		c.Need(pk != nil, "package "+c32IdxPkg)
		scope := pk.Types.Scope()
		nTypes := 0
		for _, nm := range scope.Names() {
			tn, ok := scope.Lookup(nm).(*types.TypeName)
			if !ok || tn.IsAlias() {
				continue
			}
			bt, ok := tn.Type().Underlying().(*types.Basic)
			if !ok || bt.Info()&types.IsInteger == 0 {
				continue
			}
			enc := declaresMethod(p, c32IdxPkg+"."+nm, "Bytes")
			if enc == nil {
				continue
			}
			nTypes++
			T := tn.Type()
			bits := c32uintBits(T)
			if !c.Check(bits != 0, nm+"|fixed-width unsigned", "T14 CodecPair", tn.Pos(), fmt.Sprintf("%s is an unsigned %d-bit integer: the conversion to uint%d is the identity on values", nm, bits, bits),
				nm+" is signed or platform-sized: converting it to an unsigned fixed-width integer does not preserve the value order on all inputs/architectures") {
				continue
			}
			c.Check(c32sizeof(enc, T)*8 == int64(bits), nm+"|Sizeof", "T15 ConstRelation", tn.Pos(), fmt.Sprintf("types.Sizes: Sizeof(%s) = %d bytes", nm, bits/8), "types.Sizes disagrees with the kind of the underlying type")
			// encoder
			okEnc := true
			rets := enc.ReturnPoints()
			for _, rp := range rets {
				r := rp.Node().(*ast.ReturnStmt)
				why := ""
				if len(r.Results) != 1 {
					why = "Bytes() does not return a single expression"
				} else {
					why = c32idxEncExpr(enc, r.Results[0], bits)
				}
				if why != "" {
					okEnc = false
					c.Fail(nm+".Bytes|bigendian encoding of the full width", "T14 CodecPair", r.Pos(), why)
				}
			}
			if okEnc && len(rets) > 0 {
				c.Pass(nm+".Bytes|bigendian encoding of the full width", "T14 CodecPair", fmt.Sprintf("returns bigendian.Uint%dToBytes(uint%d(receiver)) with %d = 8*Sizeof(%s), no narrowing conversion", bits, bits, bits, nm))
				idxWidth[nm] = int64(bits / 8)
			}
			// decoders: every func([]byte) T of the package
			nDec := 0
			for _, d := range p.FuncsInPkg(c32IdxPkg) {
				sig := d.Obj.Type().(*types.Signature)
				if sig.Recv() != nil || sig.Params().Len() != 1 || sig.Results().Len() != 1 {
					continue
				}
				if !c32isByteSlice(sig.Params().At(0).Type()) || !types.Identical(sig.Results().At(0).Type(), T) {
					continue
				}
				nDec++
				okDec := true
				for _, rp := range d.ReturnPoints() {
					r := rp.Node().(*ast.ReturnStmt)
					why := ""
					if len(r.Results) != 1 {
						why = "decoder does not return a single expression"
					} else {
						why = c32idxDecExpr(d, r.Results[0], bits)
					}
					if why != "" {
						okDec = false
						c.Fail(short(d.Name)+"|inverse of "+nm+".Bytes", "T14 CodecPair", r.Pos(), why)
					}
				}
				if okDec {
					c.Pass(short(d.Name)+"|inverse of "+nm+".Bytes", "T14 CodecPair", fmt.Sprintf("returns %s(bigendian.BytesToUint%d(b)) on the unchanged parameter: same order and width as %s.Bytes", nm, bits, nm))
				}
			}
			c.Check(nDec >= 1, nm+"|has a decoder", "T14 CodecPair", tn.Pos(), fmt.Sprintf("%d decoder(s) func([]byte) %s", nDec, nm), "no func([]byte) "+nm+" in inter/idx: the encoding of "+nm+" cannot be checked against a decoder")
		}
		c.ExpectAtLeast("index types with Bytes()", nTypes, 8)
	})

	c.Clause("C32.id", func() {
		idFld := p.Field(c.Fld(c32IDFld))
		idLen := c32arrayLen(idFld.Type())
		c.Need(idLen > 0, "BaseEvent.id is an array")
		type layout struct{ epoch, lamport, tail [2]int64 }
		var layouts []layout
		var layoutOf []string
		nSites := 0
		// functions decided to write the complete layout on every path: whose id they write (root
		// variable: receiver or local) and which parameter supplies the tail
		writers := map[*core.FuncInfo]c32idWriter{}
		for _, f := range p.Funcs() {
			if core.RelPkg(f.Pkg.PkgPath) != c32DagPkg {
				continue
			}
			// writes to the id field in this function
			type cp struct {
				call   *core.CallSite
				dst    *ast.SliceExpr
				root   types.Object
				lo, hi int64
			}
			var copies []cp
			other := token.NoPos
			f.InspectOwn(func(n ast.Node) bool {
				switch x := n.(type) {
				case *ast.AssignStmt:
					for _, l := range x.Lhs {
						if c32touchesField(f, l, c32IDFld) {
							other = l.Pos()
						}
					}
				case *ast.IncDecStmt:
					if c32touchesField(f, x.X, c32IDFld) {
						other = x.Pos()
					}
				case *ast.UnaryExpr:
					if x.Op == token.AND && c32touchesField(f, x.X, c32IDFld) {
						other = x.Pos()
					}
				}
				return true
			})
			for _, cs := range f.Calls() {
				if cs.Name == "builtin.copy" && len(cs.Call.Args) == 2 {
					se, ok := ast.Unparen(cs.Call.Args[0]).(*ast.SliceExpr)
					if ok && fieldNameOf(f, se.X) == c32IDFld {
						root, _ := fieldPath(f, se.X)
						lo, hi, okb := c32bounds(f.Info(), se, idLen)
						if !okb {
							c.Undecided(short(f.Name)+"|ID copy bounds", "T14 CodecPair", cs.Pos(), "copy into the event ID with non-constant bounds: the layout cannot be decided")
							continue
						}
						copies = append(copies, cp{cs, se, f.ObjOf(root), lo, hi})
					}
					continue
				}
				// the id (or a slice of it) handed to any other call as an argument may be written there
				for _, a := range cs.Call.Args {
					if se, ok := ast.Unparen(a).(*ast.SliceExpr); ok && fieldNameOf(f, se.X) == c32IDFld {
						other = a.Pos()
					}
				}
			}
			if len(copies) == 0 && other == token.NoPos {
				continue
			}
			who := short(f.Name)
			if other != token.NoPos {
				c.Fail(who+"|writes the event ID outside the layout", "T6 WhoMayWrite", other, who+" stores to BaseEvent.id (assignment, address or slice escaping to a call) other than by the three layout copies: an ID can then carry an epoch/Lamport time different from the event's")
			}
			var lay layout
			seen := map[string]int{}
			okAll := true
			allDom := true
			var tailVar *types.Var
			roots := map[*types.Var]bool{}
			for _, k := range copies {
				nSites++
				role, why := c32classifyIDSrc(f, k.call.Call.Args[1], k.root, k.lo, k.hi, idLen, idxWidth)
				if why != "" {
					okAll = false
					c.Fail(fmt.Sprintf("%s|copy to id[%d:%d]", who, k.lo, k.hi), "T14 CodecPair", k.call.Pos(), why)
					continue
				}
				seen[role]++
				switch role {
				case "epoch":
					lay.epoch = [2]int64{k.lo, k.hi}
				case "lamport":
					lay.lamport = [2]int64{k.lo, k.hi}
				case "tail":
					lay.tail = [2]int64{k.lo, k.hi}
					if se, ok := ast.Unparen(k.call.Call.Args[1]).(*ast.SliceExpr); ok {
						tailVar = varOf(f, se.X)
					}
				}
				roots[c32rawRoot(f, k.dst.X)] = true
				// on every path to return
				dom := true
				for _, rp := range f.ReturnPoints() {
					if ok, _ := f.MustPassBefore([]core.Point{k.call.Pt}, rp); !ok {
						dom = false
					}
				}
				allDom = allDom && dom
				c.Check(dom, fmt.Sprintf("%s|%s copied to id[%d:%d]", who, role, k.lo, k.hi), "T14 CodecPair + T2 Dominates", k.call.Pos(),
					fmt.Sprintf("%s bytes are copied to id[%d:%d] on every path to return", role, k.lo, k.hi), "the "+role+" part of the ID is not written on every path: the ID can keep stale bytes")
			}
			if !okAll || len(copies) == 0 {
				continue
			}
			tiles := seen["epoch"] == 1 && seen["lamport"] == 1 && seen["tail"] == 1 &&
				lay.epoch[0] == 0 && lay.lamport[0] == lay.epoch[1] && lay.tail[0] == lay.lamport[1] && lay.tail[1] == idLen
			c.Check(tiles, who+"|ID layout epoch|lamport|tail tiles the ID", "T14 CodecPair", f.Pos(),
				fmt.Sprintf("epoch [%d:%d], lamport [%d:%d], tail [%d:%d] of a %d-byte ID, each written once", lay.epoch[0], lay.epoch[1], lay.lamport[0], lay.lamport[1], lay.tail[0], lay.tail[1], idLen),
				fmt.Sprintf("the ID is not exactly epoch, then lamport, then tail (epoch x%d [%d:%d], lamport x%d [%d:%d], tail x%d [%d:%d] of %d bytes): byte-wise ID order is not (epoch, lamport) order or parts overlap", seen["epoch"], lay.epoch[0], lay.epoch[1], seen["lamport"], lay.lamport[0], lay.lamport[1], seen["tail"], lay.tail[0], lay.tail[1], idLen))
			if tiles {
				layouts = append(layouts, lay)
				layoutOf = append(layoutOf, who)
				if allDom && len(roots) == 1 && tailVar != nil {
					for rv := range roots {
						if rv != nil {
							writers[f] = c32idWriter{root: rv, tail: tailVar}
						}
					}
				}
			}
		}
		// one complete writer has three copies; that the public builders reach one is decided below
		c.ExpectAtLeast("copies into the event ID", nSites, 3)
		c.Need(len(layouts) >= 1, "at least one ID writer with a decided layout")
		// the two operations that give an event its ID (property statement: Build / SetID) write the
		// complete layout on every path, themselves or through a helper that does, into the event they
		// hand out, with their own rID parameter as the tail
		for _, en := range []string{c32DagPkg + ".MutableBaseEvent.Build", c32DagPkg + ".MutableBaseEvent.SetID"} {
			f := c.Fn(en)
			w, why := c32resolveIDWriter(f, writers, 3)
			if why == "" {
				switch f.Obj.Name() {
				case "SetID":
					if w.root != f.Recv() {
						why = "the ID is written into " + w.root.Name() + ", not into the receiver event"
					}
				case "Build":
					for _, rp := range f.ReturnPoints() {
						r := rp.Node().(*ast.ReturnStmt)
						okR := false
						if len(r.Results) == 1 {
							okR = c32rawRoot(f, resolveLocal(f, r.Results[0])) == w.root
						}
						if !okR {
							why = "the event returned at line " + strconv.Itoa(p.Fset.Position(r.Pos()).Line) + " is not the one whose ID was written (" + w.root.Name() + ")"
						}
					}
				}
			}
			if why == "" && c24paramIndex(f, w.tail) < 0 {
				why = "the ID tail does not come from the operation's rID parameter"
			}
			c.Check(why == "", short(en)+"|writes the whole ID layout on every path", "T2 Dominates (callee summaries)", f.Pos(),
				"epoch|lamport|tail are written into the event's ID on every path to return (directly or through a helper that always writes them)",
				short(en)+" can hand out an event whose ID was not (completely) rebuilt from its epoch, Lamport time and rID: "+why)
		}
		for i := 1; i < len(layouts); i++ {
			c.Check(layouts[i] == layouts[0], layoutOf[i]+"|same layout as "+layoutOf[0], "T16 SiblingAgreement", token.NoPos, "both ID writers use the same layout", "two ID writers disagree on the layout")
		}
		lay := layouts[0]
		// readers
		for _, rd := range []struct {
			method, field string
			rng           [2]int64
		}{{"hash.Event.Epoch", "inter/dag.BaseEvent.epoch", lay.epoch}, {"hash.Event.Lamport", "inter/dag.BaseEvent.lamport", lay.lamport}} {
			f := c.Fn(rd.method)
			fld := p.Field(c.Fld(rd.field))
			recv := f.Recv()
			c.Need(recv != nil, rd.method+" has a named receiver")
			ok := len(f.ReturnPoints()) > 0
			why := ""
			for _, rp := range f.ReturnPoints() {
				r := rp.Node().(*ast.ReturnStmt)
				if len(r.Results) != 1 {
					ok, why = false, "does not return a single expression"
					break
				}
				call, isCall := ast.Unparen(r.Results[0]).(*ast.CallExpr)
				if !isCall || len(call.Args) != 1 {
					ok, why = false, "does not return decoder(id[lo:hi])"
					break
				}
				obj, _ := p.ResolveCallee(f.Info(), call)
				fn, _ := obj.(*types.Func)
				if fn == nil {
					c.Undecided(short(rd.method)+"|decoder resolves statically", "T14 CodecPair", call.Pos(), "the decoder is called through a function value: which decoder runs is not decided")
					return
				}
				if fn.Pkg() == nil || core.RelPkg(fn.Pkg().Path()) != c32IdxPkg {
					ok, why = false, "the decoder is not a function of inter/idx"
					break
				}
				sig := fn.Type().(*types.Signature)
				if sig.Recv() != nil || sig.Params().Len() != 1 || !c32isByteSlice(sig.Params().At(0).Type()) || sig.Results().Len() != 1 || !types.Identical(sig.Results().At(0).Type(), fld.Type()) {
					ok, why = false, fmt.Sprintf("the decoder %s does not produce the type of %s (%s): it is not the inverse of the Bytes() that wrote the range", fn.Name(), short(rd.field), fld.Type())
					break
				}
				se, isSl := ast.Unparen(call.Args[0]).(*ast.SliceExpr)
				if !isSl || varOf(f, se.X) != recv {
					ok, why = false, "the decoded bytes are not a slice of the receiver ID"
					break
				}
				lo, hi, okb := c32bounds(f.Info(), se, c32arrayLen(recv.Type()))
				if !okb {
					ok, why = false, "non-constant slice bounds"
					break
				}
				if lo != rd.rng[0] || hi != rd.rng[1] {
					ok, why = false, fmt.Sprintf("reads id[%d:%d] but the writers put %s at id[%d:%d]", lo, hi, short(rd.field), rd.rng[0], rd.rng[1])
					break
				}
			}
			c.Check(ok, short(rd.method)+"|reads the range the writers fill", "T14 CodecPair", f.Pos(),
				fmt.Sprintf("decodes id[%d:%d] with the decoder of %s", rd.rng[0], rd.rng[1], fld.Type()), short(rd.method)+" "+why+": the ID does not report the "+short(rd.field)+" it was built with")
		}
	})
}

// c32touchesField: is e (an assignment target / address operand) the named field or an element/slice of it?
func c32touchesField(f *core.FuncInfo, e ast.Expr, field string) bool {
	for {
		e = ast.Unparen(e)
		switch x := e.(type) {
		case *ast.IndexExpr:
			e = x.X
			continue
		case *ast.SliceExpr:
			e = x.X
			continue
		case *ast.StarExpr:
			e = x.X
			continue
		}
		break
	}
	return fieldNameOf(f, e) == field
}

// c32classifyIDSrc decides which part of the ID a copy source is. root is the object owning the id field written.
func c32classifyIDSrc(f *core.FuncInfo, src ast.Expr, root types.Object, lo, hi, idLen int64, idxWidth map[string]int64) (role, why string) {
	src = ast.Unparen(src)
	if call, ok := src.(*ast.CallExpr); ok {
		sel, ok := ast.Unparen(call.Fun).(*ast.SelectorExpr)
		if !ok || len(call.Args) != 0 {
			return "", "the bytes copied into the ID are not <event>.<field>.Bytes()"
		}
		fld := fieldNameOf(f, sel.X)
		switch fld {
		case "inter/dag.BaseEvent.epoch":
			role = "epoch"
		case "inter/dag.BaseEvent.lamport":
			role = "lamport"
		default:
			return "", fmt.Sprintf("id[%d:%d] is filled from %s, which is neither the event's epoch nor its lamport field", lo, hi, exprStr(sel.X))
		}
		r, _ := fieldPath(f, sel.X)
		if f.ObjOf(r) == nil || f.ObjOf(r) != root {
			return "", "the " + role + " copied into the ID belongs to a different event value than the ID"
		}
		ft := f.Info().TypeOf(sel.X)
		named, _ := ft.(*types.Named)
		if named == nil || named.Obj().Pkg() == nil || core.RelPkg(named.Obj().Pkg().Path()) != c32IdxPkg {
			return "", "the " + role + " field is not an inter/idx type"
		}
		want := "inter/idx." + named.Obj().Name() + ".Bytes"
		if calleeName(f, call) != want {
			return "", fmt.Sprintf("id[%d:%d] is filled by %s, not by the big-endian %s", lo, hi, calleeName(f, call), want)
		}
		w, known := idxWidth[named.Obj().Name()]
		if !known {
			return "", "the encoding of " + named.Obj().Name() + " was not decided (see C32.idx)"
		}
		if hi-lo != w {
			return "", fmt.Sprintf("id[%d:%d] has %d bytes but %s.Bytes() has %d: the %s is truncated or the range keeps stale bytes", lo, hi, hi-lo, named.Obj().Name(), w, role)
		}
		return role, ""
	}
	// tail: the whole of a fixed-size array parameter
	var v *types.Var
	if se, ok := src.(*ast.SliceExpr); ok {
		v = varOf(f, se.X)
		if v == nil || !c32fullOf(f, se, v, c32arrayLen(v.Type())) {
			return "", fmt.Sprintf("id[%d:%d] is filled from %s, not from the whole of an array parameter", lo, hi, exprStr(src))
		}
	} else {
		return "", fmt.Sprintf("id[%d:%d] is filled from %s: unrecognised source", lo, hi, exprStr(src))
	}
	isParam := false
	for i := 0; ; i++ {
		pv := f.Param(i)
		if pv == nil {
			break
		}
		if pv == v {
			isParam = true
		}
	}
	if !isParam {
		return "", "the ID tail does not come from a parameter"
	}
	if n := c32arrayLen(v.Type()); n != hi-lo {
		return "", fmt.Sprintf("the tail parameter has %d bytes but id[%d:%d] has %d: bytes are dropped or stale", n, lo, hi, hi-lo)
	}
	return "tail", ""
}

// c32peelLocals is c32peel that also looks through local variables with exactly one definition (v := uint64(b)).
func c32peelLocals(f *core.FuncInfo, e ast.Expr) (ast.Expr, []types.Type) {
	var all []types.Type
	for depth := 0; depth < 4; depth++ {
		inner, ts := c32peel(f.Info(), e)
		all = append(all, ts...)
		v := varOf(f, inner)
		if v == nil || v == f.Recv() || v.Parent() == f.Pkg.Types.Scope() {
			return inner, all
		}
		isParam := false
		for i := 0; f.Param(i) != nil; i++ {
			if f.Param(i) == v {
				isParam = true
			}
		}
		defs := assignsToVar(f, v)
		if isParam || len(defs) != 1 || defs[0].RHS == nil {
			return inner, all
		}
		if as, ok := defs[0].Stmt.(*ast.AssignStmt); ok && len(as.Lhs) != len(as.Rhs) {
			return inner, all
		}
		e = defs[0].RHS
	}
	return e, all
}

// c32idxEncExpr checks "bigendian.UintNToBytes(uintN(recv))"; returns "" or what is wrong.
func c32idxEncExpr(f *core.FuncInfo, e ast.Expr, bits int) string {
	call, ok := ast.Unparen(e).(*ast.CallExpr)
	if !ok || len(call.Args) != 1 {
		return "Bytes() does not return a codec call on the receiver"
	}
	name := calleeName(f, call)
	want := fmt.Sprintf("common/bigendian.Uint%dToBytes", bits)
	if name != want {
		return fmt.Sprintf("Bytes() encodes with %s, expected %s: the encoding is not the %d-byte big-endian form (byte order = value order, width = Sizeof)", name, want, bits/8)
	}
	inner, convs := c32peelLocals(f, call.Args[0])
	if !c32noNarrow(convs, bits) {
		return "the receiver passes through a narrowing or signed conversion before encoding: distinct values get the same bytes"
	}
	if varOf(f, inner) == nil || varOf(f, inner) != f.Recv() {
		return "the encoded value is " + exprStr(inner) + ", not the receiver"
	}
	return ""
}

// c32idxDecExpr checks "T(bigendian.BytesToUintN(b))".
func c32idxDecExpr(f *core.FuncInfo, e ast.Expr, bits int) string {
	inner, convs := c32peelLocals(f, e)
	if !c32noNarrow(convs, bits) {
		return "the decoded value passes through a narrowing or signed conversion"
	}
	call, ok := inner.(*ast.CallExpr)
	if !ok || len(call.Args) != 1 {
		return "the decoder does not return a conversion of a codec call"
	}
	name := calleeName(f, call)
	want := fmt.Sprintf("common/bigendian.BytesToUint%d", bits)
	if name != want {
		return fmt.Sprintf("decodes with %s, expected %s (the inverse of Bytes()): decode(encode(v)) != v for some v", name, want)
	}
	if v := varOf(f, call.Args[0]); v == nil || v != f.Param(0) {
		return "the decoded bytes are " + exprStr(call.Args[0]) + ", not the unchanged parameter"
	}
	return ""
}

// ---------------------------------------------------------------------------
// encoder / decoder of common/{big,little}endian

func c32checkEncoder(c *core.Ctx, f *core.FuncInfo, order string, bits int) {
	who := f.Pkg.Types.Name() + "." + f.Obj.Name()
	k := int64(bits / 8)
	key := who + "|fills a fresh buffer in " + order + "-endian order and returns all of it"
	rule := "T14 CodecPair"
	sig := f.Obj.Type().(*types.Signature)
	if sig.Params().Len() != 1 || c32uintBits(sig.Params().At(0).Type()) != bits || sig.Results().Len() != 1 || !c32isByteSlice(sig.Results().At(0).Type()) {
		c.Fail(key, rule, f.Pos(), fmt.Sprintf("signature is not func(uint%d) []byte", bits))
		return
	}
	param := f.Param(0)
	if param == nil {
		c.Fail(key, rule, f.Pos(), "the value parameter is unnamed: nothing is encoded")
		return
	}
	// the buffer: the variable every return returns in full
	var buf *types.Var
	rets := f.ReturnPoints()
	for _, rp := range rets {
		r := rp.Node().(*ast.ReturnStmt)
		if len(r.Results) != 1 {
			c.Undecided(key, rule, r.Pos(), "return without an explicit result")
			return
		}
		e := ast.Unparen(r.Results[0])
		var v *types.Var
		if se, ok := e.(*ast.SliceExpr); ok {
			v = varOf(f, se.X)
		} else {
			v = varOf(f, e)
		}
		if v == nil || (buf != nil && v != buf) {
			c.Undecided(key, rule, r.Pos(), "the returned bytes are not (a slice of) one local buffer variable: "+exprStr(e))
			return
		}
		buf = v
	}
	if buf == nil {
		c.Undecided(key, rule, f.Pos(), "no return statement found")
		return
	}
	if buf.Parent() == nil || buf.Parent() == f.Pkg.Types.Scope() || buf == param {
		c.Fail(key, rule, f.Pos(), "the returned buffer is not a local variable: callers share (and overwrite) one buffer")
		return
	}
	// its definition: exactly one, zero-valued, of k bytes
	length := c32arrayLen(buf.Type())
	defs := assignsToVar(f, buf)
	if len(defs) != 1 {
		c.Undecided(key, rule, f.Pos(), fmt.Sprintf("the buffer has %d definitions, expected one declaration", len(defs)))
		return
	}
	def := defs[0]
	fresh := false
	switch {
	case length >= 0 && def.RHS == nil:
		_, isSpec := def.Stmt.(*ast.ValueSpec)
		fresh = isSpec
	case length >= 0:
		if cl, ok := ast.Unparen(def.RHS).(*ast.CompositeLit); ok && len(cl.Elts) == 0 {
			fresh = true
		}
	default:
		if mk := isCallTo(f, def.RHS, "builtin.make"); mk != nil && len(mk.Args) >= 2 && c32isByteSlice(buf.Type()) {
			if n, ok := c32constInt(f.Info(), mk.Args[1]); ok {
				length, fresh = n, true
			}
		}
	}
	if !fresh {
		c.Undecided(key, rule, def.Stmt.Pos(), "the buffer is not declared as a zero [k]byte / make([]byte, k)")
		return
	}
	if length != k {
		c.Fail(key, rule, def.Stmt.Pos(), fmt.Sprintf("the buffer has %d bytes, a uint%d needs %d: the encoding is truncated or padded and no longer fixed-width %d", length, bits, k, k))
		return
	}
	for _, rp := range rets {
		r := rp.Node().(*ast.ReturnStmt)
		if !c32fullOf(f, r.Results[0], buf, length) {
			c.Fail(key, rule, r.Pos(), "returns "+exprStr(r.Results[0])+", not the whole buffer: bytes of the value are dropped")
			return
		}
	}
	// fills
	var allowed []ast.Node
	allowed = append(allowed, def.Stmt)
	for _, rp := range rets {
		allowed = append(allowed, rp.Node())
	}
	var puts []*core.CallSite
	pairs := map[int64]int64{}
	var storePts []core.Point
	bad := ""
	badPos := token.NoPos
	for _, cs := range f.Calls() {
		o, op, w, ok := c32binMethod(cs.Name)
		if !ok || op != "Put" || len(cs.Call.Args) != 2 || !mentionsObj(f, cs.Call.Args[0], buf) {
			continue
		}
		allowed = append(allowed, cs.Call)
		puts = append(puts, cs)
		inner, convs := c32peel(f.Info(), cs.Call.Args[1])
		switch {
		case !c32fullOf(f, cs.Call.Args[0], buf, length):
			bad, badPos = "the byte-order call writes to "+exprStr(cs.Call.Args[0])+", not to the start of the whole buffer", cs.Pos()
		case varOf(f, inner) != param || !c32noNarrow(convs, bits):
			bad, badPos = "the encoded value is "+exprStr(cs.Call.Args[1])+", not the unchanged parameter", cs.Pos()
		case w != bits:
			bad, badPos = fmt.Sprintf("PutUint%d writes %d bytes of a %d-byte value", w, w/8, k), cs.Pos()
		case o != order:
			bad, badPos = fmt.Sprintf("writes %s-endian in the %s-endian package: bytes come out reversed", o, order), cs.Pos()
		}
	}
	for _, a := range assignments(f) {
		ix, ok := ast.Unparen(a.LHS).(*ast.IndexExpr)
		if !ok || varOf(f, ix.X) != buf {
			continue
		}
		allowed = append(allowed, a.Stmt)
		i, okI := c32constInt(f.Info(), ix.Index)
		if !okI || a.Tok != token.ASSIGN || a.RHS == nil {
			c.Undecided(key, rule, a.Stmt.Pos(), "buffer store with a non-constant index or compound operator")
			return
		}
		inner, convs := c32peel(f.Info(), a.RHS)
		if len(convs) == 0 || c32uintBits(convs[len(convs)-1]) == 0 {
			c.Undecided(key, rule, a.Stmt.Pos(), "buffer store is not byte(value >> shift)")
			return
		}
		inner = c32stripMask(f.Info(), inner)
		inner, _ = c32peel(f.Info(), inner)
		shift := int64(0)
		if be, ok := inner.(*ast.BinaryExpr); ok && be.Op == token.SHR {
			s, okS := c32constInt(f.Info(), be.Y)
			if !okS {
				c.Undecided(key, rule, a.Stmt.Pos(), "non-constant shift")
				return
			}
			shift = s
			var cv []types.Type
			inner, cv = c32peel(f.Info(), be.X)
			if !c32noNarrow(cv, bits) {
				bad, badPos = "the value is narrowed before the shift", a.Stmt.Pos()
			}
		}
		if varOf(f, inner) != param {
			c.Undecided(key, rule, a.Stmt.Pos(), "buffer store of "+exprStr(a.RHS)+": not a byte of the parameter")
			return
		}
		if _, dup := pairs[i]; dup {
			bad, badPos = fmt.Sprintf("byte %d is stored twice", i), a.Stmt.Pos()
		}
		pairs[i] = shift
		storePts = append(storePts, a.Pt)
	}
	// any other use of the buffer?
	stray := token.NoPos
	f.InspectOwn(func(n ast.Node) bool {
		id, ok := n.(*ast.Ident)
		if !ok || f.Info().ObjectOf(id) != buf {
			return true
		}
		for _, a := range allowed {
			if c32within(a, id.Pos()) {
				return true
			}
		}
		stray = id.Pos()
		return true
	})
	if stray != token.NoPos {
		c.Undecided(key, rule, stray, "the buffer is used in a way the rule does not classify (besides declaration, fill and return)")
		return
	}
	if bad != "" {
		c.Fail(key, rule, badPos, bad)
		return
	}
	switch {
	case len(puts) == 1 && len(pairs) == 0:
		for _, rp := range rets {
			if ok, wit := f.MustPassBefore([]core.Point{puts[0].Pt}, rp); !ok {
				c.Fail(key, rule, posOf(rp), "a path returns the buffer without filling it: "+f.DescribePath(wit))
				return
			}
		}
		c.Pass(key, rule, fmt.Sprintf("var [%d]byte, binary.%sEndian.PutUint%d(buf[:], n) on every path, returns buf[:]", k, c32cap(order), bits))
	case len(puts) == 0 && len(pairs) > 0:
		got, why := c32orderOf(pairs, k)
		if got == "" {
			c.Fail(key, rule, f.Pos(), why+": the encoding is not a byte order of the value")
			return
		}
		if got != order && got != "both" {
			c.Fail(key, rule, f.Pos(), fmt.Sprintf("the index/shift pairs are %s-endian in the %s-endian package", got, order))
			return
		}
		for _, rp := range rets {
			for _, sp := range storePts {
				if ok, wit := f.MustPassBefore([]core.Point{sp}, rp); !ok {
					c.Fail(key, rule, posOf(rp), "a path returns the buffer with a byte not stored: "+f.DescribePath(wit))
					return
				}
			}
		}
		c.Pass(key, rule, fmt.Sprintf("manual fill: %d (index, shift) pairs form the %s-endian order, all stored on every path, returns the whole buffer", len(pairs), order))
	default:
		c.Undecided(key, rule, f.Pos(), fmt.Sprintf("%d byte-order calls and %d byte stores: neither the library form nor the manual form", len(puts), len(pairs)))
	}
}

func c32checkDecoder(c *core.Ctx, f *core.FuncInfo, order string, bits int) {
	who := f.Pkg.Types.Name() + "." + f.Obj.Name()
	k := int64(bits / 8)
	key := who + "|reads " + order + "-endian, " + strconv.Itoa(bits/8) + " bytes, from the unchanged parameter"
	rule := "T14 CodecPair"
	sig := f.Obj.Type().(*types.Signature)
	if sig.Params().Len() != 1 || !c32isByteSlice(sig.Params().At(0).Type()) || sig.Results().Len() != 1 || c32uintBits(sig.Results().At(0).Type()) != bits {
		c.Fail(key, rule, f.Pos(), fmt.Sprintf("signature is not func([]byte) uint%d", bits))
		return
	}
	param := f.Param(0)
	rets := f.ReturnPoints()
	if param == nil || len(rets) == 0 {
		c.Undecided(key, rule, f.Pos(), "unnamed parameter or no return")
		return
	}
	if len(assignsToVar(f, param)) != 0 {
		c.Undecided(key, rule, f.Pos(), "the parameter is reassigned before it is decoded")
		return
	}
	// isParamBytes: e is b, b[:k], b[0:k] or b[0:]
	isParamBytes := func(e ast.Expr) bool {
		e = ast.Unparen(e)
		if varOf(f, e) == param {
			return true
		}
		if se, ok := e.(*ast.SliceExpr); ok && varOf(f, se.X) == param {
			lo, hi, ok := c32bounds(f.Info(), se, k)
			return ok && lo == 0 && hi == k
		}
		return false
	}
	form := ""
	for _, rp := range rets {
		r := rp.Node().(*ast.ReturnStmt)
		if len(r.Results) != 1 {
			c.Undecided(key, rule, r.Pos(), "return without an explicit result")
			return
		}
		inner, convs := c32peel(f.Info(), r.Results[0])
		if !c32noNarrow(convs, bits) {
			c.Fail(key, rule, r.Pos(), "the decoded value passes through a narrowing or signed conversion")
			return
		}
		if call, ok := inner.(*ast.CallExpr); ok {
			o, op, w, okM := c32binMethod(calleeName(f, call))
			if !okM || op != "Get" || len(call.Args) != 1 {
				c.Undecided(key, rule, r.Pos(), "returns the result of "+calleeName(f, call)+": not an encoding/binary UintN reader")
				return
			}
			switch {
			case !isParamBytes(call.Args[0]):
				c.Fail(key, rule, r.Pos(), "decodes "+exprStr(call.Args[0])+", not the start of the unchanged parameter")
				return
			case w != bits:
				c.Fail(key, rule, r.Pos(), fmt.Sprintf("Uint%d reads %d bytes, the encoder wrote %d: high or low bytes are lost", w, w/8, k))
				return
			case o != order:
				c.Fail(key, rule, r.Pos(), fmt.Sprintf("reads %s-endian what the encoder wrote %s-endian: decode(encode(v)) is v byte-reversed", o, order))
				return
			}
			form = fmt.Sprintf("binary.%sEndian.Uint%d(b)", c32cap(order), bits)
			continue
		}
		// manual form: OR / ADD of uintN(b[i]) << s
		var terms []ast.Expr
		var flat func(e ast.Expr)
		flat = func(e ast.Expr) {
			e = ast.Unparen(e)
			if be, ok := e.(*ast.BinaryExpr); ok && (be.Op == token.OR || be.Op == token.ADD) {
				flat(be.X)
				flat(be.Y)
				return
			}
			terms = append(terms, e)
		}
		flat(inner)
		pairs := map[int64]int64{}
		for _, t := range terms {
			shift := int64(0)
			t, outer := c32peel(f.Info(), t)
			x := t
			if be, ok := t.(*ast.BinaryExpr); ok && be.Op == token.SHL {
				s, okS := c32constInt(f.Info(), be.Y)
				if !okS {
					c.Undecided(key, rule, t.Pos(), "non-constant shift")
					return
				}
				shift, x = s, be.X
			}
			// the shifted operand must be wide enough to hold the shifted byte
			if w := c32uintBits(f.Info().TypeOf(x)); w == 0 || int64(w) < shift+8 {
				c.Fail(key, rule, t.Pos(), fmt.Sprintf("a byte is shifted by %d in a %d-bit operand: its bits are lost", shift, w))
				return
			}
			for _, ot := range outer {
				if w := c32uintBits(ot); w == 0 || int64(w) < shift+8 {
					c.Fail(key, rule, t.Pos(), fmt.Sprintf("a byte shifted by %d is converted to a %d-bit (or signed) type: its bits are lost", shift, w))
					return
				}
			}
			base, _ := c32peel(f.Info(), x)
			ix, ok := base.(*ast.IndexExpr)
			if !ok || varOf(f, ix.X) != param {
				c.Undecided(key, rule, t.Pos(), "term "+exprStr(t)+" is not uintN(b[i]) << s")
				return
			}
			i, okI := c32constInt(f.Info(), ix.Index)
			if !okI {
				c.Undecided(key, rule, t.Pos(), "non-constant index")
				return
			}
			if _, dup := pairs[i]; dup {
				c.Fail(key, rule, t.Pos(), fmt.Sprintf("byte %d is read twice", i))
				return
			}
			pairs[i] = shift
		}
		got, why := c32orderOf(pairs, k)
		if got == "" {
			c.Fail(key, rule, r.Pos(), why+": the decoder is not the inverse of the encoder")
			return
		}
		if got != order && got != "both" {
			c.Fail(key, rule, r.Pos(), fmt.Sprintf("the index/shift pairs read %s-endian what the encoder wrote %s-endian", got, order))
			return
		}
		form = fmt.Sprintf("manual: %d (index, shift) pairs in %s-endian order", len(pairs), order)
	}
	c.Pass(key, rule, "every return is "+form)
}
