package rules

// Positive controls for the remaining properties (see controls.go for the conventions).
func init() {
	Controls["C10"] = []Control{
		{"tie counts as no", "abft/election/election_math.go", `vote\.yes = yesVotes\.Sum\(\) >= noVotes\.Sum\(\)`, "vote.yes = yesVotes.Sum() > noVotes.Sum()", "C10.majority"},
		{"decided needs both quorums", "abft/election/election_math.go", `yesVotes\.HasQuorum\(\) \|\| noVotes\.HasQuorum\(\)`, "yesVotes.HasQuorum() && noVotes.HasQuorum()", "C10.decided"},
	}
	Controls["C11"] = []Control{
		{"quorum rounded the wrong way", "inter/pos/validators.go", `return vv\.TotalWeight\(\)\*2/3 \+ 1`, "return (vv.TotalWeight()*2 + 1) / 3", "C11.quorum"},
		{"weight counted twice", "inter/pos/stake.go", `\tif s\.already\[validatorIdx\] \{\n\t\treturn false\n\t\}\n`, "", "C11.counter"},
	}
	Controls["C12"] = []Control{
		{"ties broken by descending id", "inter/pos/sort.go", `return vv\[i\]\.ID < vv\[j\]\.ID`, "return vv[i].ID > vv[j].ID", "C12.comparator"},
	}
	Controls["C13"] = []Control{
		{"frame limit dropped", "eventcheck/basiccheck/basic_check.go", `e\.Frame\(\) >= math\.MaxInt32-1 \|\|\s*`, "", "C13.limits"},
		{"lamport off by one", "eventcheck/parentscheck/parents_check.go", `e\.Lamport\(\) != maxLamport\+1`, "e.Lamport() != maxLamport+2", "lamport"},
	}
	Controls["C15"] = []Control{
		{"release dropped from the wrapper", "gossip/dagprocessor/processor.go", `\t\tf\.eventsSemaphore\.Release\(dag\.Metric\{1, uint64\(e\.Size\(\)\)\}\)\n`, "", "C15.wrap"},
		{"future-event bound without +1", "gossip/dagprocessor/processor.go", `maxLamportDiff := 1 \+ idx\.Lamport\(f\.cfg\.EventsBufferLimit\.Num\)`, "maxLamportDiff := idx.Lamport(f.cfg.EventsBufferLimit.Num)", "C15.future"},
	}
	Controls["C19"] = []Control{
		{"stops while options remain", "emitter/ancestor/search.go", `len\(optionsSet\) > 0; i\+\+`, "i < len(optionsSet); i++", "C19.result"},
	}
	Controls["C20"] = []Control{
		{"store without dirty mark", "emitter/ancestor/quorum_indexer.go", `\th\.dirty = true\n`, "", "C20.dirty"},
	}
	Controls["C23"] = []Control{
		{"prefix successor keeps the trailing bytes", "kvdb/pebble/pebble.go", `limit = make\(\[\]byte, i\+1\)`, "limit = make([]byte, len(prefix))", "C23.range.successor"},
		{"table Delete writes", "kvdb/table/table.go", `return t\.underlying\.Delete\(prefixed\(key, t\.prefix\)\)`, "return t.underlying.Put(prefixed(key, t.prefix), nil)", "C23.wrapper"},
	}
	Controls["C24"] = []Control{
		{"raw key on delete", "kvdb/table/table.go", `return t\.underlying\.Delete\(prefixed\(key, t\.prefix\)\)`, "return t.underlying.Delete(key)", "C24"},
	}
	Controls["C31"] = []Control{
		{"monotonicity not strict", "utils/piecefunc/piecefunc.go", `i >= 1 && dot\.X <= prevX`, "i >= 1 && dot.X < prevX", "C31.newfunc"},
	}
	Controls["C32"] = []Control{
		{"epoch and lamport swapped in the id", "inter/dag/event.go", `(copy\(e\.id\[0:4\], e\.epoch\.Bytes\(\)\)\n\tcopy\(e\.id\[4:8\], e\.lamport\.Bytes\(\)\))`, "copy(e.id[0:4], e.lamport.Bytes())\n\tcopy(e.id[4:8], e.epoch.Bytes())", "C32.id"},
		{"little-endian in the big-endian codec", "common/bigendian/bytes.go", `binary\.BigEndian\.PutUint32`, "binary.LittleEndian.PutUint32", "C32.codec"},
	}
	Controls["C33"] = []Control{
		{"reader parses a wider validator field than the writer stores", "abft/store_roots.go", `validatorIDSize = 4`, "validatorIDSize = 8", "C33"},
		{"root cached for an uncached frame", "abft/store_roots.go", `\tif c, ok := s\.cache\.FrameRoots\.Get\(frame\); ok \{\n\t\trr := c\.\(\[\]election\.RootAndSlot\)`, "\tif c, ok := s.cache.FrameRoots.Get(frame); ok || c == nil {\n\t\trr, _ := c.([]election.RootAndSlot)", "C33"},
	}
}
