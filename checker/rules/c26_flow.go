package rules

import (
	"go/ast"
	"go/constant"
	"go/token"
	"go/types"

	"golang.org/x/tools/go/cfg"

	"lachk/core"
)

// Generic pieces used by the C26 clauses (candidates for core): three-valued evaluation of branch
// conditions under a partial valuation of semantic atoms, and path queries restricted to the edges
// that are feasible under such a valuation. With these a decision-table row is stated as
// "in the scenario S only rejecting exits are reachable", which does not depend on how the tests are
// nested, ordered, combined with && / ||, or written as if / else-if / switch.

type c26Tri int8

const (
	c26Unknown c26Tri = iota
	c26True
	c26False
)

func (t c26Tri) not() c26Tri {
	switch t {
	case c26True:
		return c26False
	case c26False:
		return c26True
	}
	return c26Unknown
}

// c26Scenario gives truth values to named semantic atoms ("sameReq", "conflict", …); atoms that are
// not mentioned are unknown.
type c26Scenario map[string]c26Tri

// c26Eval evaluates the boolean expression e where atom classifies the atomic sub-expressions it
// knows. Constants are folded, single-definition boolean locals stand for their definition.
func c26Eval(f *core.FuncInfo, e ast.Expr, atom func(ast.Expr) c26Tri) c26Tri {
	return c26EvalDepth(f, e, atom, 0)
}

func c26EvalDepth(f *core.FuncInfo, e ast.Expr, atom func(ast.Expr) c26Tri, depth int) c26Tri {
	e = ast.Unparen(e)
	if v, ok := core.ConstVal(f.Info(), e); ok && v.Kind() == constant.Bool {
		if constant.BoolVal(v) {
			return c26True
		}
		return c26False
	}
	switch x := e.(type) {
	case *ast.UnaryExpr:
		if x.Op == token.NOT {
			return c26EvalDepth(f, x.X, atom, depth).not()
		}
	case *ast.BinaryExpr:
		switch x.Op {
		case token.LAND:
			l, r := c26EvalDepth(f, x.X, atom, depth), c26EvalDepth(f, x.Y, atom, depth)
			switch {
			case l == c26False || r == c26False:
				return c26False
			case l == c26True && r == c26True:
				return c26True
			}
			return c26Unknown
		case token.LOR:
			l, r := c26EvalDepth(f, x.X, atom, depth), c26EvalDepth(f, x.Y, atom, depth)
			switch {
			case l == c26True || r == c26True:
				return c26True
			case l == c26False && r == c26False:
				return c26False
			}
			return c26Unknown
		}
	}
	if t := atom(e); t != c26Unknown {
		return t
	}
	if id, ok := e.(*ast.Ident); ok && depth < 4 {
		if r := resolveLocal(f, id); r != ast.Expr(id) {
			return c26EvalDepth(f, r, atom, depth+1)
		}
	}
	return c26Unknown
}

// c26Infeasible returns the edge predicate "this branch edge cannot be taken in the scenario":
// the true edge of a condition that evaluates to false, the false edge of one that evaluates to true.
func c26Infeasible(f *core.FuncInfo, atom func(ast.Expr) c26Tri) func(*cfg.Block, int) bool {
	cache := map[*cfg.Block]c26Tri{}
	return func(b *cfg.Block, s int) bool {
		if s > 1 {
			return false
		}
		t, ok := cache[b]
		if !ok {
			if cond := f.BranchCond(b); cond != nil {
				t = c26Eval(f, cond, atom)
			}
			cache[b] = t
		}
		switch t {
		case c26True:
			return s == 1
		case c26False:
			return s == 0
		}
		return false
	}
}

// c26IterationReaches: in the scenario, is there a feasible path from the entry of the loop body to
//   - a return statement accepted by ret, or
//   - (when leaving is set) the end of the iteration: the next element or the loop exit?
//
// Without leaving, the search stops at the end of the iteration.
func c26IterationReaches(it *core.Iteration, atom func(ast.Expr) c26Tri, leaving bool, ret func(*ast.ReturnStmt) bool) ([]core.Point, bool) {
	f := it.F
	if it.Head == nil || len(it.Head.Succs) == 0 {
		return nil, true
	}
	infeasible := c26Infeasible(f, atom)
	ends := func(b *cfg.Block) bool { return b == it.Head || (it.Done != nil && b == it.Done) }
	q := core.PathQuery{F: f, From: blockEntry(it.Head.Succs[0]),
		Target: func(pt core.Point) bool {
			r, ok := pt.Node().(*ast.ReturnStmt)
			return ok && ret != nil && ret(r)
		},
		AvoidEdge: func(b *cfg.Block, s int) bool {
			return infeasible(b, s) || (!leaving && ends(b.Succs[s]))
		}}
	if leaving {
		q.TargetBlock = ends
	}
	return q.Find()
}

// c26Loops lists the for/range statements of f's own body, outermost first.
func c26Loops(f *core.FuncInfo) []ast.Stmt {
	var out []ast.Stmt
	f.InspectOwn(func(n ast.Node) bool {
		switch n.(type) {
		case *ast.ForStmt, *ast.RangeStmt:
			out = append(out, n.(ast.Stmt))
		}
		return true
	})
	return out
}

// c26FullIteration: the loop visits every element of its collection: recognised as an iteration, left
// only through its head, and (counted form) running from 0 to len(collection).
func c26FullIteration(it *core.Iteration) bool {
	return it != nil && it.Complete && it.FromZero && (!it.Counted || it.Coll != nil)
}

// c26CommaOkLookups finds the comma-ok reads `v, ok := <field>[k]` of the map field in f: the points
// of the reads and the (single) ok variable.
func c26CommaOkLookups(f *core.FuncInfo, field string) (okVar *types.Var, pts []core.Point, consistent bool) {
	consistent = true
	note := func(okExpr ast.Expr, rhs ast.Expr, n ast.Node) {
		ix, k := ast.Unparen(rhs).(*ast.IndexExpr)
		if !k || fieldNameOf(f, ix.X) != field {
			return
		}
		v := varOf(f, okExpr)
		if v == nil || (okVar != nil && v != okVar) {
			consistent = false
			return
		}
		okVar = v
		if pt, ok := f.PointOf(n); ok {
			pts = append(pts, pt)
		}
	}
	f.InspectOwn(func(n ast.Node) bool {
		switch s := n.(type) {
		case *ast.AssignStmt:
			if len(s.Lhs) == 2 && len(s.Rhs) == 1 {
				note(s.Lhs[1], s.Rhs[0], s)
			}
		case *ast.ValueSpec:
			if len(s.Names) == 2 && len(s.Values) == 1 {
				note(s.Names[1], s.Values[0], s)
			}
		}
		return true
	})
	return
}

// c26Lookups generalises c26CommaOkLookups to a lookup made by a helper: the lookups of f are its own
// comma-ok reads of the map field or, when it has none, its calls of module functions that make such a
// read, hold none of the sites in `other`, and report the outcome of the read as a boolean result
// (in each outcome every return yields that outcome at the result position). The found variable is
// then the variable of f receiving that result.
func c26Lookups(f *core.FuncInfo, field string, other func(*core.CallSite) bool) (okVar *types.Var, pts []core.Point, consistent bool) {
	if v, p, cons := c26CommaOkLookups(f, field); v != nil || !cons {
		return v, p, cons
	}
	consistent = true
	for _, cs := range f.Calls() {
		fn, isFn := cs.Callee.(*types.Func)
		if !isFn || cs.InDefer || cs.InGo {
			continue
		}
		h := f.P.FuncOf(fn)
		if h == nil || h == f || h.Body == nil {
			continue
		}
		hv, hpts, hcons := c26CommaOkLookups(h, field)
		if hv == nil || !hcons || len(hpts) == 0 || len(assignsToVar(h, hv)) != len(hpts) || len(h.SitesMay(other, 2)) > 0 {
			continue
		}
		k := c26ReportingResult(h, hv)
		if k < 0 {
			continue
		}
		v := c26ResultReceiver(f, cs.Call, k)
		if v == nil || (okVar != nil && v != okVar) {
			consistent = false
			continue
		}
		okVar = v
		pts = append(pts, cs.Pt)
	}
	return
}

// c26ReportingResult: the position of a boolean result of h that equals the variable v on every return
// (evaluated under both values of v along the edges feasible for that value); -1 if there is none.
func c26ReportingResult(h *core.FuncInfo, v *types.Var) int {
	if h.Type.Results == nil {
		return -1
	}
	n := 0
	for _, fl := range h.Type.Results.List {
		if len(fl.Names) == 0 {
			n++
		} else {
			n += len(fl.Names)
		}
	}
	for k := 0; k < n; k++ {
		ok := true
		for _, t := range []c26Tri{c26True, c26False} {
			t := t
			atom := func(e ast.Expr) c26Tri {
				if varOf(h, e) == v {
					return t
				}
				return c26Unknown
			}
			infeasible := c26Infeasible(h, atom)
			for _, rp := range h.ReturnPoints() {
				if _, reach := (core.PathQuery{F: h, From: h.Entry(), Target: core.PointSet(rp), AvoidEdge: infeasible}).Find(); !reach {
					continue
				}
				r := rp.Node().(*ast.ReturnStmt)
				if k >= len(r.Results) || c26Eval(h, r.Results[k], atom) != t {
					ok = false
				}
			}
		}
		if ok {
			return k
		}
	}
	return -1
}

// c26ResultReceiver: the variable of g that receives result k of the call (the call being the sole
// right-hand side of an assignment or definition).
func c26ResultReceiver(g *core.FuncInfo, call *ast.CallExpr, k int) *types.Var {
	var v *types.Var
	g.InspectOwn(func(n ast.Node) bool {
		switch s := n.(type) {
		case *ast.AssignStmt:
			if len(s.Rhs) == 1 && ast.Unparen(s.Rhs[0]) == ast.Expr(call) && k < len(s.Lhs) {
				v = varOf(g, s.Lhs[k])
			}
		case *ast.ValueSpec:
			if len(s.Values) == 1 && ast.Unparen(s.Values[0]) == ast.Expr(call) && k < len(s.Names) {
				v, _ = g.Info().ObjectOf(s.Names[k]).(*types.Var)
			}
		}
		return true
	})
	return v
}

// c26IsTrue / c26IsFalse: boolean constants by value, not by spelling.
func c26IsTrue(f *core.FuncInfo, e ast.Expr) bool {
	v, ok := core.ConstVal(f.Info(), e)
	return ok && v.Kind() == constant.Bool && constant.BoolVal(v)
}
