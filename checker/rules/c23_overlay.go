package rules

import (
	"go/ast"
	"go/types"
	"strings"

	"lachk/core"
)

// C23, flushable wrapper as an ordered byte-string map (the two facts of the overlay that decide whether the
// wrapper over a disk backend agrees with the wrapper over memory; the overlay algebra itself is C22):
//
//	C23.flushable.flush     once flush() has emptied the overlay, every exit passes batch.Write(): the entries
//	                        taken out of the overlay are handed to the parent whatever the batch's ValueSize is
//	                        (ValueSize counts value bytes: a chunk of empty values or deletes has size 0).
//	C23.flushable.snapshot  GetSnapshot copies every overlay entry into the snapshot's own tree: no path through
//	                        the copying loop's body reaches the next entry without the Put (a tombstone is an
//	                        entry: without it the snapshot shows the parent's stale value of a deleted key).
func c23OverlayClauses(c *core.Ctx) {
	c.Clause("C23.flushable.flush", func() {
		f := c.Fn(flT + ".flush")
		modF := flRead + ".modified"
		// the overlay is emptied here: modified.Clear(), directly or in a helper (dropNotFlushed)
		isClear := func(cs *core.CallSite) bool {
			if cs.Name != rbtP+"Tree.Clear" || cs.InDefer {
				return false
			}
			return cs.Recv() != nil && fieldNameOf(cs.F, cs.Recv()) == modF
		}
		isWrite := func(cs *core.CallSite) bool { return cs.Name == "kvdb.Batch.Write" && !cs.InDefer && !cs.InGo }
		clears := f.SitesMay(isClear, 2)
		writes := f.SitesMust(isWrite, 2)
		for _, pt := range clears {
			ok, wit := f.MustPassAfter(pt, writes)
			c.Check(ok, "flush|what left the overlay is written to the parent", "T3 PostDominates", posOf(pt),
				"every path from the point where the overlay is emptied to an exit passes batch.Write()",
				"flush() can return after emptying the overlay without batch.Write() (path "+f.DescribePath(wit)+"): the entries staged since the last intermediate write are dropped from the wrapper and never reach the parent. No size test can justify it: ValueSize() counts value bytes only, so Put(k, []byte{}); Flush() over LevelDB/Pebble loses k (Has=false) while the memory-backed stack keeps it")
		}
		c.ExpectAtLeast("points of flush() that empty the overlay", len(clears), 1)
	})

	c.Clause("C23.flushable.snapshot", func() {
		f := c.Fn(flT + ".GetSnapshot")
		modF := flRead + ".modified"
		// a Put into a tree other than the live overlay: the snapshot's frozen copy
		isCopyPut := func(cs *core.CallSite) bool {
			if cs.Name != rbtP+"Tree.Put" || cs.InDefer || cs.InGo || cs.Recv() == nil {
				return false
			}
			return fieldNameOf(cs.F, cs.Recv()) != modF
		}
		type copyLoop struct {
			g    *core.FuncInfo
			loop ast.Stmt
			pts  []core.Point
		}
		var loops []copyLoop
		var collect func(g *core.FuncInfo, depth int)
		collect = func(g *core.FuncInfo, depth int) {
			byLoop := map[ast.Stmt][]core.Point{}
			var order []ast.Stmt
			for _, pt := range g.SitesMust(isCopyPut, 2) {
				if lp := enclosingLoop(g, posOf(pt)); lp != nil {
					if _, seen := byLoop[lp]; !seen {
						order = append(order, lp)
					}
					byLoop[lp] = append(byLoop[lp], pt)
				}
			}
			for _, lp := range order {
				loops = append(loops, copyLoop{g, lp, byLoop[lp]})
			}
			if len(order) > 0 || depth <= 0 {
				return
			}
			// the copying loop may live in a helper (copyTree(dst, src))
			for _, cs := range g.Calls() {
				if fn, ok := cs.Callee.(*types.Func); ok {
					if ci := g.P.FuncOf(fn); ci != nil && ci != g {
						collect(ci, depth-1)
					}
				}
			}
		}
		collect(f, 1)
		if len(loops) == 0 {
			c.Undecided("GetSnapshot|every overlay entry is copied", "T2 (loop)", f.Pos(), "no loop that puts the overlay's entries into the snapshot's own tree was found in GetSnapshot or a helper it calls")
			return
		}
		for _, cl := range loops {
			g := cl.g
			head, _ := g.LoopOf(cl.loop)
			if head == nil || len(head.Succs) == 0 {
				c.Undecided("GetSnapshot|every overlay entry is copied", "T2 (loop)", cl.loop.Pos(), "cannot locate the head of the copying loop")
				continue
			}
			body := head.Succs[0]
			wit, skip := core.PathQuery{F: g, From: core.Point{B: body, I: 0}, Avoid: core.PointSet(cl.pts...),
				Target: func(pt core.Point) bool { return pt.B == head }}.Find()
			c.Check(!skip, "GetSnapshot|every overlay entry is copied", "T2 (loop)", cl.loop.Pos(),
				"no path through the copying loop's body reaches the next entry without the Put into the snapshot's tree (tombstones included)",
				"an overlay entry can be left out of the snapshot's frozen copy (path "+g.DescribePath(wit)+"): if tombstones are skipped, Put(k,v); Flush(); Delete(k); GetSnapshot() shows k with the parent's stale value in Has/Get/iteration, unlike a snapshot of a plain store after the same history")
			// the copied pair is the entry itself
			for _, cs := range g.Calls() {
				if !isCopyPut(cs) || len(cs.Call.Args) != 2 || enclosingLoop(g, cs.Pos()) != cl.loop {
					continue
				}
				okK := mentionsCall(g, resolveLocal(g, cs.Call.Args[0]), rbtP+"Iterator.Key") || c23RangeVarOf(g, cl.loop, cs.Call.Args[0])
				v := resolveLocal(g, cs.Call.Args[1])
				okV := mentionsCall(g, v, rbtP+"Iterator.Value") || core.IsNil(g.Info(), v) || c23RangeVarOf(g, cl.loop, cs.Call.Args[1])
				// (informative: an unrecognised spelling of the pair is noted, not reported — the necessary
				// condition decided here is that no entry is skipped)
				if okK && okV {
					c.Pass("GetSnapshot|the copy holds the entry's own key and value", "provenance", "Put(entry key, entry value) (or an explicit nil tombstone)")
				} else {
					c.Note("C23.flushable.snapshot: the pair put into the snapshot's tree at %s is not recognised as the overlay iterator's Key()/Value(); not decided", c.P.Pos(cs.Pos()))
				}
			}
		}
	})

	// C23.flushable.snapshot.own — the tree a snapshot reads is the snapshot's own: wherever GetSnapshot (or a
	// function it calls) builds the snapshot's reader, every definition of the value placed in its overlay-tree
	// field is a tree allocated for it (a constructor of the tree library, possibly through a helper or a
	// parameter), never the wrapper's live overlay tree. A snapshot that holds the live tree shows every later
	// Put/Delete of the store: it is not a frozen ordered map, whatever was pending when it was taken (the
	// live tree may be empty at that moment — right after Flush — and still receives the later writes).
	c.Clause("C23.flushable.snapshot.own", func() {
		f := c.Fn(flT + ".GetSnapshot")
		modF := c.Fld(flRead + ".modified")
		rdT := c.P.LookupType(flRead)
		c.Need(rdT != nil, "type "+flRead)
		hosts := []*core.FuncInfo{f}
		for _, cs := range f.Calls() {
			if fn, ok := cs.Callee.(*types.Func); ok {
				if g := c.P.FuncOf(fn); g != nil && g != f && core.RelPkg(g.Pkg.PkgPath) == "kvdb/flushable" {
					hosts = append(hosts, g)
				}
			}
		}
		n := 0
		seen := map[*ast.CompositeLit]bool{}
		for _, g := range hosts {
			g := g
			g.InspectOwn(func(nd ast.Node) bool {
				cl, ok := nd.(*ast.CompositeLit)
				if !ok || seen[cl] {
					return true
				}
				t := g.Info().TypeOf(cl)
				if t == nil || !types.Identical(t, rdT.Type()) {
					return true
				}
				seen[cl] = true
				st, _ := rdT.Type().Underlying().(*types.Struct)
				var val ast.Expr
				for i, el := range cl.Elts {
					if kv, isKV := el.(*ast.KeyValueExpr); isKV {
						if id, isID := kv.Key.(*ast.Ident); isID {
							if fv, isV := g.Info().ObjectOf(id).(*types.Var); isV && c.P.FieldName(fv) == modF {
								val = kv.Value
							}
						}
					} else if st != nil && i < st.NumFields() && c.P.FieldName(st.Field(i)) == modF {
						val = el
					}
				}
				if val == nil {
					return true // no overlay tree given: a nil tree cannot alias the live one (C22 decides the readers)
				}
				n++
				v, why := c23TreeOrigin(c, g, val, modF, 2, map[*types.Var]bool{})
				switch v {
				case c23True:
					c.Pass("GetSnapshot|the snapshot reads a tree of its own", "alias (frozen copy)", "every definition of the snapshot's overlay tree is a freshly constructed tree")
				case c23False:
					c.Fail("GetSnapshot|the snapshot reads a tree of its own", "alias (frozen copy)", val.Pos(),
						"the snapshot can be handed the wrapper's live overlay tree ("+why+"): puts, deletes and batch writes made after GetSnapshot() appear in (and disappear from) the snapshot's Get/Has/iteration — e.g. Flush(); s := GetSnapshot(); Put(k, v); s.Has(k) is true, while a snapshot of a plain store stays frozen")
				default:
					c.Undecided("GetSnapshot|the snapshot reads a tree of its own", "alias (frozen copy)", val.Pos(), "cannot decide that the tree given to the snapshot is allocated for it ("+why+")")
				}
				return true
			})
		}
		if n == 0 {
			c.Undecided("GetSnapshot|the snapshot reads a tree of its own", "alias (frozen copy)", f.Pos(), "no construction of the snapshot's reader with an overlay tree was found in GetSnapshot or a function of the package it calls")
		}
	})
}

// c23TreeOrigin: is the tree expression e of g certainly a tree constructed for this use (c23True), possibly the
// live overlay tree held in field modF (c23False), or undecided? Definitions of locals are all considered (a tree
// that is the live one on some path only is still the live one there); parameters of unexported functions are
// judged at every call of the package; module functions returning a tree by their results.
func c23TreeOrigin(c *core.Ctx, g *core.FuncInfo, e ast.Expr, modF string, depth int, busy map[*types.Var]bool) (int8, string) {
	e = ast.Unparen(e)
	if sel, ok := e.(*ast.SelectorExpr); ok {
		if s, ok := g.Info().Selections[sel]; ok {
			if fv, ok := s.Obj().(*types.Var); ok && fv.IsField() {
				if c.P.FieldName(fv) == modF {
					return c23False, exprStr(e) + " is the live overlay tree"
				}
				return c23Unknown, "field " + exprStr(e)
			}
		}
	}
	if call, ok := e.(*ast.CallExpr); ok {
		name := calleeName(g, call)
		if strings.HasPrefix(name, rbtP+"New") {
			return c23True, ""
		}
		if depth <= 0 {
			return c23Unknown, "call " + exprStr(e) + " not followed"
		}
		obj, _ := c.P.ResolveCallee(g.Info(), call)
		fn, _ := obj.(*types.Func)
		h := c.P.FuncOf(fn)
		if h == nil || h == g {
			return c23Unknown, "result of " + exprStr(e)
		}
		rps := h.ReturnPoints()
		if len(rps) == 0 {
			return c23Unknown, "result of " + exprStr(e)
		}
		res := c23True
		why := ""
		for _, rp := range rps {
			r := rp.Node().(*ast.ReturnStmt)
			if len(r.Results) != 1 {
				return c23Unknown, "result of " + exprStr(e)
			}
			v, w := c23TreeOrigin(c, h, r.Results[0], modF, depth-1, map[*types.Var]bool{})
			if v != c23True {
				res, why = c23And(res, v), "in "+short(h.Name)+": "+w
				if v == c23False {
					return res, why
				}
			}
		}
		return res, why
	}
	v := varOfRaw(g, e)
	if v == nil {
		return c23Unknown, exprStr(e)
	}
	if busy[v] {
		return c23True, ""
	}
	busy[v] = true
	defer delete(busy, v)
	if i := c23ParamIndex(g, v); i >= 0 {
		if depth <= 0 || g.Obj == nil || g.Obj.Exported() || c23Reassigned(g, v) {
			return c23Unknown, "parameter " + v.Name() + " of " + short(g.Name)
		}
		res, why, nCalls := c23True, "", 0
		for _, top := range c.P.FuncsInPkg(core.RelPkg(g.Pkg.PkgPath)) {
			for _, h := range append([]*core.FuncInfo{top}, allLits(top)...) {
				for _, cs := range h.Calls() {
					if cs.Callee != types.Object(g.Obj) || i >= len(cs.Call.Args) {
						continue
					}
					nCalls++
					r, w := c23TreeOrigin(c, h, cs.Call.Args[i], modF, depth-1, map[*types.Var]bool{})
					if r != c23True {
						res, why = c23And(res, r), "argument of "+short(g.Name)+" in "+short(top.Name)+": "+w
					}
				}
			}
		}
		if nCalls == 0 {
			return c23Unknown, short(g.Name) + " has no call in its package"
		}
		return res, why
	}
	// a local of g or of an enclosing function
	host := g
	for host.Parent != nil {
		host = host.Parent // the outermost enclosing function: its literals are searched as well
	}
	if !(host.Body.Pos() <= v.Pos() && v.Pos() < host.Body.End()) {
		return c23Unknown, v.Name() + " is not a local"
	}
	var defs []c23Def
	var hostsOfDef []*core.FuncInfo
	for _, x := range append([]*core.FuncInfo{host}, allLits(host)...) {
		for _, d := range c23DefsOf(x, v) {
			defs = append(defs, d)
			hostsOfDef = append(hostsOfDef, x)
		}
	}
	if len(defs) == 0 {
		return c23Unknown, "no definition of " + v.Name()
	}
	res, why := c23True, ""
	for k, d := range defs {
		var r int8
		var w string
		switch {
		case d.zero:
			r = c23True // the nil tree is not the live one
		case d.rhs == nil || d.multi:
			r, w = c23Unknown, v.Name()+" is defined by a multi-value statement"
		default:
			r, w = c23TreeOrigin(c, hostsOfDef[k], d.rhs, modF, depth, busy)
		}
		if r != c23True {
			res, why = c23And(res, r), w
			if r == c23False {
				return res, why
			}
		}
	}
	return res, why
}

// c23RangeVarOf: e is (a single-definition alias of) the key or value variable of the range loop.
func c23RangeVarOf(g *core.FuncInfo, loop ast.Stmt, e ast.Expr) bool {
	rs, ok := loop.(*ast.RangeStmt)
	if !ok {
		return false
	}
	v := varOf(g, resolveLocal(g, e))
	if v == nil {
		return false
	}
	for _, x := range []ast.Expr{rs.Key, rs.Value} {
		if x != nil && varOf(g, x) == v {
			return true
		}
	}
	return false
}
