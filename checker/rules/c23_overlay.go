package rules

import (
	"go/ast"
	"go/types"

	"lachk/core"
)

// C23, flushable wrapper as an ordered byte-string map (the two facts of the overlay that decide whether the
// wrapper over a disk backend agrees with the wrapper over memory; the overlay algebra itself is C22):
//
//	C23.flushable.flush     once flush() has emptied the overlay, every exit passes batch.Write(): the entries
//	                        taken out of the overlay are handed to the parent whatever the batch's ValueSize is
//	                        (ValueSize counts value bytes: a chunk of empty values or deletes has size 0).
//	C23.flushable.snapshot  GetSnapshot copies every overlay entry into the snapshot's own tree: no path through
//	                        the copying loop's body reaches the next entry without the Put (a tombstone is an
//	                        entry: without it the snapshot shows the parent's stale value of a deleted key).
func c23OverlayClauses(c *core.Ctx) {
	c.Clause("C23.flushable.flush", func() {
		f := c.Fn(flT + ".flush")
		modF := flRead + ".modified"
		// the overlay is emptied here: modified.Clear(), directly or in a helper (dropNotFlushed)
		isClear := func(cs *core.CallSite) bool {
			if cs.Name != rbtP+"Tree.Clear" || cs.InDefer {
				return false
			}
			return cs.Recv() != nil && fieldNameOf(cs.F, cs.Recv()) == modF
		}
		isWrite := func(cs *core.CallSite) bool { return cs.Name == "kvdb.Batch.Write" && !cs.InDefer && !cs.InGo }
		clears := f.SitesMay(isClear, 2)
		writes := f.SitesMust(isWrite, 2)
		for _, pt := range clears {
			ok, wit := f.MustPassAfter(pt, writes)
			c.Check(ok, "flush|what left the overlay is written to the parent", "T3 PostDominates", posOf(pt),
				"every path from the point where the overlay is emptied to an exit passes batch.Write()",
				"flush() can return after emptying the overlay without batch.Write() (path "+f.DescribePath(wit)+"): the entries staged since the last intermediate write are dropped from the wrapper and never reach the parent. No size test can justify it: ValueSize() counts value bytes only, so Put(k, []byte{}); Flush() over LevelDB/Pebble loses k (Has=false) while the memory-backed stack keeps it")
		}
		c.ExpectAtLeast("points of flush() that empty the overlay", len(clears), 1)
	})

	c.Clause("C23.flushable.snapshot", func() {
		f := c.Fn(flT + ".GetSnapshot")
		modF := flRead + ".modified"
		// a Put into a tree other than the live overlay: the snapshot's frozen copy
		isCopyPut := func(cs *core.CallSite) bool {
			if cs.Name != rbtP+"Tree.Put" || cs.InDefer || cs.InGo || cs.Recv() == nil {
				return false
			}
			return fieldNameOf(cs.F, cs.Recv()) != modF
		}
		type copyLoop struct {
			g    *core.FuncInfo
			loop ast.Stmt
			pts  []core.Point
		}
		var loops []copyLoop
		var collect func(g *core.FuncInfo, depth int)
		collect = func(g *core.FuncInfo, depth int) {
			byLoop := map[ast.Stmt][]core.Point{}
			var order []ast.Stmt
			for _, pt := range g.SitesMust(isCopyPut, 2) {
				if lp := enclosingLoop(g, posOf(pt)); lp != nil {
					if _, seen := byLoop[lp]; !seen {
						order = append(order, lp)
					}
					byLoop[lp] = append(byLoop[lp], pt)
				}
			}
			for _, lp := range order {
				loops = append(loops, copyLoop{g, lp, byLoop[lp]})
			}
			if len(order) > 0 || depth <= 0 {
				return
			}
			// the copying loop may live in a helper (copyTree(dst, src))
			for _, cs := range g.Calls() {
				if fn, ok := cs.Callee.(*types.Func); ok {
					if ci := g.P.FuncOf(fn); ci != nil && ci != g {
						collect(ci, depth-1)
					}
				}
			}
		}
		collect(f, 1)
		if len(loops) == 0 {
			c.Undecided("GetSnapshot|every overlay entry is copied", "T2 (loop)", f.Pos(), "no loop that puts the overlay's entries into the snapshot's own tree was found in GetSnapshot or a helper it calls")
			return
		}
		for _, cl := range loops {
			g := cl.g
			head, _ := g.LoopOf(cl.loop)
			if head == nil || len(head.Succs) == 0 {
				c.Undecided("GetSnapshot|every overlay entry is copied", "T2 (loop)", cl.loop.Pos(), "cannot locate the head of the copying loop")
				continue
			}
			body := head.Succs[0]
			wit, skip := core.PathQuery{F: g, From: core.Point{B: body, I: 0}, Avoid: core.PointSet(cl.pts...),
				Target: func(pt core.Point) bool { return pt.B == head }}.Find()
			c.Check(!skip, "GetSnapshot|every overlay entry is copied", "T2 (loop)", cl.loop.Pos(),
				"no path through the copying loop's body reaches the next entry without the Put into the snapshot's tree (tombstones included)",
				"an overlay entry can be left out of the snapshot's frozen copy (path "+g.DescribePath(wit)+"): if tombstones are skipped, Put(k,v); Flush(); Delete(k); GetSnapshot() shows k with the parent's stale value in Has/Get/iteration, unlike a snapshot of a plain store after the same history")
			// the copied pair is the entry itself
			for _, cs := range g.Calls() {
				if !isCopyPut(cs) || len(cs.Call.Args) != 2 || enclosingLoop(g, cs.Pos()) != cl.loop {
					continue
				}
				okK := mentionsCall(g, resolveLocal(g, cs.Call.Args[0]), rbtP+"Iterator.Key") || c23RangeVarOf(g, cl.loop, cs.Call.Args[0])
				v := resolveLocal(g, cs.Call.Args[1])
				okV := mentionsCall(g, v, rbtP+"Iterator.Value") || core.IsNil(g.Info(), v) || c23RangeVarOf(g, cl.loop, cs.Call.Args[1])
				// (informative: an unrecognised spelling of the pair is noted, not reported — the necessary
				// condition decided here is that no entry is skipped)
				if okK && okV {
					c.Pass("GetSnapshot|the copy holds the entry's own key and value", "provenance", "Put(entry key, entry value) (or an explicit nil tombstone)")
				} else {
					c.Note("C23.flushable.snapshot: the pair put into the snapshot's tree at %s is not recognised as the overlay iterator's Key()/Value(); not decided", c.P.Pos(cs.Pos()))
				}
			}
		}
	})
}

// c23RangeVarOf: e is (a single-definition alias of) the key or value variable of the range loop.
func c23RangeVarOf(g *core.FuncInfo, loop ast.Stmt, e ast.Expr) bool {
	rs, ok := loop.(*ast.RangeStmt)
	if !ok {
		return false
	}
	v := varOf(g, resolveLocal(g, e))
	if v == nil {
		return false
	}
	for _, x := range []ast.Expr{rs.Key, rs.Value} {
		if x != nil && varOf(g, x) == v {
			return true
		}
	}
	return false
}
