package rules

import (
	"fmt"
	"go/ast"
	"go/token"
	"go/types"
	"sort"
	"strings"

	"lachk/core"
)

// c28ViewConsistency (C28.views): view consistency of the operations of a component with respect to
// its own mutex (Artho, Havelund, Biere: high-level data races). The fields a critical section touches
// form its view. When some critical section that updates the component (a writer) touches the fields A
// and B together, it keeps a relation between them (Flush moves the pairs from `modified` into the
// underlying store in one step). An operation on the same object that touches A in one critical section
// and B in another, separate one — with no section of its own that sees both — can observe A from
// before the writer and B from after it: a state that never existed, so the operation has no
// linearization point (GetSnapshot combining a pre-flush parent snapshot with the post-flush, empty
// modified tree loses pairs).
//
// Formally, for every writer view W of mutex M, the views V1..Vn of the critical sections of M that an
// operation runs on its own receiver must form a chain under inclusion after intersection with W.
// Sections may be inline (recv.mu.Lock()) or calls of methods of the same receiver that take the mutex
// themselves (bounded depth), so the verdict does not depend on how the operation is split into helpers.
func c28ViewConsistency(c *core.Ctx) {
	c.Clause("C28.views", func() {
		p := c.P
		type comp struct {
			name string
			spec core.LockSpec
		}
		ws, _ := wlruLockSpec(p)
		comps := []comp{
			{"flushable/pool", flushableLockSpec()},
			{"wlru", ws},
			{"semaphore", semaphoreLockSpec()},
			{"ordering buffer", bufferLockSpec(p)},
		}
		nOps, nWriters := 0, 0
		for _, cm := range comps {
			res := c28RunLockset(p, cm.spec)
			type view struct{ touched, written map[string]bool }
			own := map[*core.FuncInfo]*view{}
			for _, a := range res.Accesses {
				v := own[a.F]
				if v == nil {
					v = &view{map[string]bool{}, map[string]bool{}}
					own[a.F] = v
				}
				v.touched[a.Field] = true
				if a.Write {
					v.written[a.Field] = true
				}
			}
			inSet := map[*core.FuncInfo]bool{}
			for _, f := range res.Analysed {
				inSet[f] = true
			}
			calleeOf := func(cs *core.CallSite) *core.FuncInfo {
				fn, ok := cs.Callee.(*types.Func)
				if !ok {
					return nil
				}
				ci := p.FuncOf(fn)
				if ci == nil || !inSet[ci] {
					return nil
				}
				return ci
			}
			// the view of the critical section(s) of m that g opens itself: its own accesses to fields
			// guarded by m plus those of the functions it calls with m held
			var sectionView func(g *core.FuncInfo, m string, depth int, seen map[*core.FuncInfo]bool) *view
			sectionView = func(g *core.FuncInfo, m string, depth int, seen map[*core.FuncInfo]bool) *view {
				out := &view{map[string]bool{}, map[string]bool{}}
				if v := own[g]; v != nil {
					for k := range v.touched {
						if cm.spec.Guarded[k] != "" && canonMutexOf(cm.spec, k) == m {
							out.touched[k] = true
						}
					}
					for k := range v.written {
						if cm.spec.Guarded[k] != "" && canonMutexOf(cm.spec, k) == m {
							out.written[k] = true
						}
					}
				}
				if depth <= 0 {
					return out
				}
				var callees []*core.FuncInfo
				for _, cs := range g.Calls() {
					if ci := calleeOf(cs); ci != nil {
						callees = append(callees, ci)
					}
				}
				for _, l := range g.Lits() {
					if inSet[l] {
						callees = append(callees, l)
					}
				}
				for _, ci := range callees {
					if ci == g || seen[ci] || res.Entry[ci][m] == core.LNone {
						continue
					}
					seen[ci] = true
					s := sectionView(ci, m, depth-1, seen)
					for k := range s.touched {
						out.touched[k] = true
					}
					for k := range s.written {
						out.written[k] = true
					}
				}
				return out
			}
			mutexes := map[string]bool{}
			for fld := range cm.spec.Guarded {
				mutexes[canonMutexOf(cm.spec, fld)] = true
			}
			var ms []string
			for m := range mutexes {
				ms = append(ms, m)
			}
			sort.Strings(ms)
			for _, m := range ms {
				// writer views: sections (opened by any function of the component) that update guarded state
				type writer struct {
					f *core.FuncInfo
					v *view
				}
				var writers []writer
				for _, g := range res.Analysed {
					if res.Sections[g][m] >= 1 && res.Entry[g][m] == core.LNone {
						if v := sectionView(g, m, 4, map[*core.FuncInfo]bool{g: true}); len(v.written) > 0 && len(v.touched) >= 2 {
							writers = append(writers, writer{g, v})
						}
					}
				}
				nWriters += len(writers)
				// sections an operation runs on its own receiver
				type sec struct {
					who string
					pos token.Pos
					v   *view
				}
				var ownSections func(f *core.FuncInfo, depth int, seen map[*core.FuncInfo]bool) []sec
				ownSections = func(f *core.FuncInfo, depth int, seen map[*core.FuncInfo]bool) []sec {
					var out []sec
					recv := f.Recv()
					if recv == nil || res.Entry[f][m] != core.LNone {
						return nil
					}
					if res.Sections[f][m] >= 1 && c28LocksOwnReceiver(f, recv) {
						out = append(out, sec{short(f.Name), f.Pos(), sectionView(f, m, 4, map[*core.FuncInfo]bool{f: true})})
					}
					if depth <= 0 {
						return out
					}
					for _, cs := range f.Calls() {
						ci := calleeOf(cs)
						if ci == nil || ci == f || seen[ci] || cs.InGo || !c28RootedAt(f, cs.Recv(), recv) {
							continue
						}
						// a call made inside f's own critical section belongs to that section
						held := false
						for _, in := range res.CallIns[ci] {
							if in.Caller == f && in.Pos == cs.Call.End() && in.State[m] != core.LNone {
								held = true
							}
						}
						if held {
							continue
						}
						seen[ci] = true
						for _, s := range ownSections(ci, depth-1, seen) {
							out = append(out, sec{s.who, cs.Pos(), s.v})
						}
						delete(seen, ci)
					}
					return out
				}
				for _, f := range res.Analysed {
					if f.Obj == nil {
						continue
					}
					secs := ownSections(f, 3, map[*core.FuncInfo]bool{f: true})
					if len(secs) < 2 {
						continue
					}
					nOps++
					bad := ""
					var badPos token.Pos
					bestScore := 0
					for _, w := range writers {
						for i := 0; i < len(secs); i++ {
							for j := i + 1; j < len(secs); j++ {
								onlyI, onlyJ := c28Diff(secs[i].v.touched, secs[j].v.touched, w.v.touched), c28Diff(secs[j].v.touched, secs[i].v.touched, w.v.touched)
								if len(onlyI) == 0 || len(onlyJ) == 0 {
									continue // one overlap contains the other: a chain
								}
								// the writer must actually change one of the two sides (the other may be a
								// reference through which it changes the object referred to); the report names
								// the writer that changes most of them
								score := 0
								for _, k := range append(append([]string(nil), onlyI...), onlyJ...) {
									if w.v.written[k] {
										score++
									}
								}
								if score <= bestScore {
									continue
								}
								bestScore = score
								bad = fmt.Sprintf("%s touches %s in the critical section of %s and %s in the separate critical section of %s, with no section that sees both, while %s updates them together in one critical section of %s",
									short(f.Name), c28Names(onlyI), secs[i].who, c28Names(onlyJ), secs[j].who, short(w.f.Name), short(m))
								badPos = secs[j].pos
								if secs[i].pos > badPos {
									badPos = secs[i].pos
								}
							}
						}
					}
					construct := short(f.Name) + "|" + short(m)
					if bad != "" {
						c.Fail(construct, "view consistency (one critical section per related state)", badPos, bad+": the operation can combine state from before and after that update, which matches no sequential order")
					} else {
						c.Pass(construct, "view consistency (one critical section per related state)", fmt.Sprintf("%d critical sections on the receiver; their views form a chain within every writer view", len(secs)))
					}
				}
			}
		}
		c.Note("operations with several critical sections of their own mutex examined for view consistency: %d (writer views: %d)", nOps, nWriters)
		// vacuity only: without any writer view no operation could be inconsistent
		c.ExpectAtLeast("writer views of the component mutexes", nWriters, 1)
	})
}

// canonMutexOf: the canonical mutex guarding a field (aliases followed).
func canonMutexOf(spec core.LockSpec, field string) string {
	m := spec.Guarded[field]
	for i := 0; i < 4; i++ {
		if t, ok := spec.Alias[m]; ok {
			m = t
			continue
		}
		break
	}
	return m
}

// c28RootedAt: e is the variable v or a chain of field selections / dereferences starting at it
// (w, w.flushableReader, (*w).x): the same object or a part embedded in it.
func c28RootedAt(f *core.FuncInfo, e ast.Expr, v *types.Var) bool {
	for e != nil {
		switch x := ast.Unparen(e).(type) {
		case *ast.SelectorExpr:
			e = x.X
		case *ast.StarExpr:
			e = x.X
		case *ast.UnaryExpr:
			if x.Op != token.AND {
				return false
			}
			e = x.X
		case *ast.Ident:
			return f.Info().ObjectOf(x) == v
		default:
			return false
		}
	}
	return false
}

// c28LocksOwnReceiver: f acquires a mutex reached from its receiver (recv.mu.Lock(), recv.Lock() of an
// embedded mutex, recv.lock.RLock() through a pointer field).
func c28LocksOwnReceiver(f *core.FuncInfo, recv *types.Var) bool {
	for _, cs := range f.CallsTo("sync.Mutex.Lock", "sync.RWMutex.Lock", "sync.RWMutex.RLock", "sync.Locker.Lock") {
		if !cs.InDefer && c28RootedAt(f, cs.Recv(), recv) {
			return true
		}
	}
	return false
}

// c28Diff: the fields of a that are in within but not in b, sorted.
func c28Diff(a, b, within map[string]bool) []string {
	var out []string
	for k := range a {
		if within[k] && !b[k] {
			out = append(out, k)
		}
	}
	sort.Strings(out)
	return out
}

func c28Names(fields []string) string {
	var s []string
	for _, f := range fields {
		s = append(s, short(f))
	}
	return strings.Join(s, ", ")
}
