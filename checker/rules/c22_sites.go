package rules

import (
	"go/ast"
	"go/token"
	"strings"

	"lachk/core"
)

// Effect sites of C22: where an effect of the overlay protocol (clearing the tree, zeroing the size
// estimate, writing / resetting the batch, taking the parent snapshot) happens in a function, also when a
// maintainer moved the statement into a helper. The rules then reason about these points with the usual
// path queries, whatever function the statement lives in.

// c22SameObject: a helper that is a method of the same type as f must be called on f's own receiver
// (otherwise the effect concerns another store).
func c22SameObject(f *core.FuncInfo, cs *core.CallSite, g *core.FuncInfo) bool {
	if g.RecvTypeName() == "" || f.Recv() == nil {
		return true
	}
	r := cs.Recv()
	if r == nil {
		return true
	}
	if v := varOf(f, r); v != nil {
		return canonVar(f, v) == f.Recv()
	}
	// a path below the receiver (w.Flushable.flush(), w.flushableReader.x()): still the same store
	root, _ := fieldPath(f, r)
	if v := varOf(f, root); v != nil {
		return canonVar(f, v) == f.Recv()
	}
	return false
}

// c22Sites lists the points of f at which the effect happens: f's own effect points (own(f)) and the
// calls of module functions (statically resolved, bounded depth) that contain an effect point (may), or
// pass one on every path from their entry to a return (must).
func c22Sites(f *core.FuncInfo, own func(*core.FuncInfo) []core.Point, depth int, must bool) []core.Point {
	out := append([]core.Point(nil), own(f)...)
	if depth <= 0 {
		return out
	}
	for _, cs := range f.Calls() {
		if cs.InGo || (must && cs.InDefer) {
			continue
		}
		g := c22Callee(cs)
		if g == nil || !c22SameObject(f, cs, g) {
			continue
		}
		inner := c22Sites(g, own, depth-1, must)
		if len(inner) == 0 {
			continue
		}
		if must {
			if _, found := (core.PathQuery{F: g, From: g.Entry(), Avoid: core.PointSet(inner...), TargetExit: true}).Find(); found {
				continue
			}
		}
		out = append(out, cs.Pt)
	}
	return out
}

// c22ClearIn: modified.Clear() calls of g (on the overlay tree field).
func c22ClearIn(g *core.FuncInfo) []core.Point {
	var out []core.Point
	for _, cs := range g.CallsTo(rbtP + "Tree.Clear") {
		if fieldNameOf(g, cs.Recv()) == flRead+".modified" {
			out = append(out, cs.Pt)
		}
	}
	return out
}

// c22ZeroIn: *sizeEstimation = 0 assignments of g.
func c22ZeroIn(g *core.FuncInfo) []core.Point {
	var out []core.Point
	for _, as := range assignments(g) {
		if st, ok := ast.Unparen(as.LHS).(*ast.StarExpr); ok && fieldNameOf(g, st.X) == flT+".sizeEstimation" && as.Tok == token.ASSIGN && core.IsConstInt(g.Info(), as.RHS, 0) {
			out = append(out, as.Pt)
		}
	}
	return out
}

// c22Hosts: f and the module functions it calls (bounded depth), each once.
func c22Hosts(f *core.FuncInfo, depth int) []*core.FuncInfo {
	seen := map[*core.FuncInfo]bool{f: true}
	out := []*core.FuncInfo{f}
	var walk func(g *core.FuncInfo, d int)
	walk = func(g *core.FuncInfo, d int) {
		if d <= 0 {
			return
		}
		for _, cs := range g.Calls() {
			h := c22Callee(cs)
			if h == nil || seen[h] {
				continue
			}
			seen[h] = true
			out = append(out, h)
			walk(h, d-1)
		}
	}
	walk(f, depth)
	return out
}

// c22Certifies lists the call sites of g whose nil error result implies that a call matching pred was
// made and returned a nil error: the matching calls themselves, and calls of error-returning module
// functions every possibly-succeeding return of which either returns such a call's result directly or
// is reached only after such a call succeeded.
func c22Certifies(g *core.FuncInfo, pred func(*core.CallSite) bool, depth int) []*core.CallSite {
	var out []*core.CallSite
	for _, cs := range g.Calls() {
		if cs.InGo || cs.InDefer {
			continue
		}
		if pred(cs) {
			out = append(out, cs)
			continue
		}
		if depth <= 0 {
			continue
		}
		h := c22Callee(cs)
		if h == nil || !c25ReturnsError(h) {
			continue
		}
		inner := c22Certifies(h, pred, depth-1)
		if len(inner) == 0 {
			continue
		}
		rets := c25SucceedingReturns(h)
		ok := len(rets) > 0
		for _, rp := range rets {
			if !c22ReturnCertified(h, rp, inner) {
				ok = false
			}
		}
		if ok {
			out = append(out, cs)
		}
	}
	return out
}

// c22ReturnCertified: the return at rp reports success only when one of the certifying calls succeeded.
func c22ReturnCertified(h *core.FuncInfo, rp core.Point, certs []*core.CallSite) bool {
	r, _ := rp.Node().(*ast.ReturnStmt)
	for _, w := range certs {
		if r != nil && len(r.Results) > 0 && ast.Unparen(r.Results[len(r.Results)-1]) == ast.Expr(w.Call) {
			return true
		}
		if afterSuccess(h, w, rp) {
			return true
		}
	}
	return false
}

// c22AfterCertified: the point `to` of g is reached only after one of the certifying calls succeeded.
func c22AfterCertified(g *core.FuncInfo, certs []*core.CallSite, to core.Point) bool {
	for _, w := range certs {
		if afterSuccess(g, w, to) {
			return true
		}
	}
	return false
}

// c22LockOps lists the non-deferred acquire and release operations of g on the store lock
// (flushableReader.lock, whatever path leads to it).
func c22LockOps(g *core.FuncInfo) (acq, rel []core.Point, deferredRel bool) {
	for _, cs := range g.Calls() {
		var isAcq bool
		switch cs.Name {
		case "sync.RWMutex.Lock", "sync.RWMutex.RLock":
			isAcq = true
		case "sync.RWMutex.Unlock", "sync.RWMutex.RUnlock":
		default:
			continue
		}
		if fieldNameOf(g, cs.Recv()) != flRead+".lock" {
			continue
		}
		switch {
		case cs.InDefer && !isAcq:
			deferredRel = true
		case cs.InDefer:
		case isAcq:
			acq = append(acq, cs.Pt)
		default:
			rel = append(rel, cs.Pt)
		}
	}
	return
}

// c22HeldAt: is the store lock certainly held when g reaches pt? entryHeld says whether g is entered
// with the lock held (helpers called under lock). Held means: acquired on every path (or at entry) and
// not released since.
func c22HeldAt(g *core.FuncInfo, pt core.Point, entryHeld bool) bool {
	acq, rel, _ := c22LockOps(g)
	if !entryHeld {
		if ok, _ := g.MustPassBefore(acq, pt); !ok || len(acq) == 0 {
			return false
		}
	}
	for _, r := range rel {
		if _, found := (core.PathQuery{F: g, From: r, FromAfter: true, Target: core.PointSet(pt), Avoid: core.PointSet(acq...)}).Find(); found {
			return false
		}
	}
	return true
}

// c22SameSection: both points are reached with the store lock held and the lock is neither released
// nor re-acquired on any path from one to the other.
func c22SameSection(g *core.FuncInfo, a, b core.Point, entryHeld bool) bool {
	if !c22HeldAt(g, a, entryHeld) || !c22HeldAt(g, b, entryHeld) {
		return false
	}
	acq, rel, _ := c22LockOps(g)
	ops := append(append([]core.Point(nil), acq...), rel...)
	for _, op := range ops {
		if op == a || op == b {
			continue
		}
		if (g.CanReach(a, op) && g.CanReach(op, b)) || (g.CanReach(b, op) && g.CanReach(op, a)) {
			return false
		}
	}
	return true
}

// c22PoolFuncs: the functions that implement the synced pool (C25/C28's subject, not C22's): the pool's
// methods, and the unexported plain functions (with their literals) that are called from pool functions
// only — a phase of a pool method moved into a helper stays part of the pool.
func c22PoolFuncs(res *core.LockResult) map[*core.FuncInfo]bool {
	pool := map[*core.FuncInfo]bool{}
	for _, f := range res.Analysed {
		if f.RecvTypeName() == poolT {
			pool[f] = true
		}
	}
	root := func(f *core.FuncInfo) *core.FuncInfo {
		for f.Parent != nil {
			f = f.Parent
		}
		return f
	}
	for changed := true; changed; {
		changed = false
		for _, f := range res.Analysed {
			if pool[f] || f.Obj == nil || f.Obj.Exported() || f.RecvTypeName() != "" {
				continue
			}
			ins := res.CallIns[f]
			all := len(ins) > 0
			for _, ci := range ins {
				if !pool[root(ci.Caller)] {
					all = false
				}
			}
			if all {
				pool[f] = true
				for _, l := range allLits(f) {
					pool[l] = true
				}
				changed = true
			}
		}
	}
	return pool
}

// c22SnapshotAtomic decides, for the function that builds a snapshot of the store, that the call taking
// the snapshot of the underlying store and every read of the overlay tree lie in one critical section of
// the store lock. When the whole construction is delegated to a single helper call, the question is
// decided inside the helper (entered with whatever the caller holds at the call).
func c22SnapshotAtomic(f *core.FuncInfo) (bool, string, token.Pos) {
	snapIn := func(g *core.FuncInfo) []core.Point {
		return core.Points(g.CallsMatching(func(cs *core.CallSite) bool {
			return cs.Name == "kvdb.Snapshoter.GetSnapshot" && !cs.InGo && !cs.InDefer
		}))
	}
	treeIn := func(g *core.FuncInfo) []core.Point {
		return core.Points(g.CallsMatching(func(cs *core.CallSite) bool {
			return strings.HasPrefix(cs.Name, rbtP+"Tree.") && fieldNameOf(g, cs.Recv()) == flRead+".modified"
		}))
	}
	line := func(g *core.FuncInfo, pt core.Point) string { return g.P.Pos(posOf(pt)) }
	host, held := f, false
	for d := 0; d < 3; d++ {
		ss := c22Sites(host, snapIn, 2, false)
		ts := c22Sites(host, treeIn, 2, false)
		if len(ss) == 0 || len(ts) == 0 {
			return false, "no call taking the underlying snapshot, or no read of the overlay tree, is found in " + short(host.Name), host.Pos()
		}
		if len(ss) == 1 && len(ts) == 1 && ss[0] == ts[0] && !core.PointSet(snapIn(host)...)(ss[0]) && !core.PointSet(treeIn(host)...)(ss[0]) {
			var next *core.FuncInfo
			for _, cs := range host.Calls() {
				if cs.Pt != ss[0] {
					continue
				}
				if g := c22Callee(cs); g != nil && len(c22Sites(g, snapIn, 1, false)) > 0 && len(c22Sites(g, treeIn, 1, false)) > 0 {
					next = g
				}
			}
			if next != nil {
				held = c22HeldAt(host, ss[0], held)
				host = next
				continue
			}
		}
		for _, s := range ss {
			if !c22HeldAt(host, s, held) {
				return false, "the underlying store's GetSnapshot() at " + line(host, s) + " is called without the store lock held", posOf(s)
			}
			for _, t := range ts {
				if !c22HeldAt(host, t, held) {
					return false, "the overlay tree is read at " + line(host, t) + " without the store lock held", posOf(t)
				}
				if !c22SameSection(host, s, t, held) {
					return false, "the store lock is released between the underlying GetSnapshot() at " + line(host, s) + " and the overlay read at " + line(host, t), posOf(s)
				}
			}
		}
		return true, "", host.Pos()
	}
	return false, "the snapshot construction is nested in helpers too deeply to decide", f.Pos()
}
