package rules

import (
	"go/ast"

	"lachk/core"
)

// c27NoLeakOnError: a failed open must not count as a reference: no path updates the counter and
// then returns without a store. The update may be written in openDB or in a module function it calls
// (see c27Effect); paths are searched per scenario (outcome of the cache lookup, made in openDB or
// reported by the helper that makes it), so a count made on the hit branch is not combined with the
// failure exit of the miss branch.
func c27NoLeakOnError(c *core.Ctx) {
	refc := cpState + ".refCounter"
	writes := c27NewEffect(cpState+".opened", func(f *core.FuncInfo, a assignment) (ast.Expr, bool) {
		ix, ok := ast.Unparen(a.LHS).(*ast.IndexExpr)
		if !ok || fieldNameOf(f, ix.X) != refc {
			return nil, false
		}
		return ix.Index, true
	})
	// the opening function is located by what it does (c27Openers), not by its name
	var openers []c27Opener
	c.Clause("C27.open.error", func() {
		openers = c27Openers(c.P, writes)
		c.Need(len(openers) > 0, "a function of the cachedproducer package that opens the wrapped producer's database")
	})
	for _, o := range openers {
		open := o.f
		c.Clause("C27.open.error", func() { c27NoLeakIn(c, open, writes) })
	}
}

func c27NoLeakIn(c *core.Ctx, open *core.FuncInfo, writes *c27Effect) {
	{
		sites, bad := writes.sites(open, 2)
		if bad != "" {
			c.Undecided("a failed open is not counted", "T7 Pairing", open.Pos(), "cannot tell on which paths openDB updates the reference counter: "+bad)
		}
		noStore := func(pt core.Point) bool {
			r, isRet := pt.Node().(*ast.ReturnStmt)
			return isRet && len(r.Results) == 2 && core.IsNil(open.Info(), r.Results[0])
		}
		scenarios := writes.scenarios(open, sites)
		for _, s := range sites {
			var path []core.Point
			found := false
			for _, sc := range scenarios {
				if s.cond != nil && sc.val[s.cond] != c26True {
					continue // the update is not made in this scenario
				}
				// the update must itself be reachable in the scenario
				if _, reach := (core.PathQuery{F: open, From: open.Entry(), Target: core.PointSet(s.pt), AvoidEdge: sc.infeasible}).Find(); !reach {
					continue
				}
				if p, f := (core.PathQuery{F: open, From: s.pt, FromAfter: true, AvoidEdge: sc.infeasible, Target: noStore}).Find(); f {
					path, found = p, true
				}
			}
			c.Check(!found, "a failed open is not counted", "T7 Pairing", s.pos, "no path from this counter update reaches a return without a store",
				"the reference counter is increased on a path that then fails to open the database: the leaked reference keeps the underlying database open after the last Close and hides one surplus Close ("+open.DescribePath(path)+")")
		}
		c.ExpectAtLeast("refCounter updates in openDB", len(sites), 1)
	}
}
