package rules

import (
	"go/ast"

	"lachk/core"
)

// c27NoLeakOnError: a failed open must not count as a reference: no path increments the counter and
// then returns without a store. Paths are searched per outcome of the cache lookup (see
// c27HitScenarios), so a count made on the hit branch is not combined with the failure exit of the
// miss branch.
func c27NoLeakOnError(c *core.Ctx) {
	c.Clause("C27.open.error", func() {
		open := c.Fn("kvdb/cachedproducer.openDB")
		scenarios := c27HitScenarios(open, cpState+".opened")
		n := 0
		for _, a := range assignments(open) {
			ix, ok := ast.Unparen(a.LHS).(*ast.IndexExpr)
			if !ok || fieldNameOf(open, ix.X) != cpState+".refCounter" {
				continue
			}
			n++
			var path []core.Point
			found := false
			for _, infeasible := range scenarios {
				// the update must itself be reachable in the scenario
				if _, reach := (core.PathQuery{F: open, From: open.Entry(), Target: core.PointSet(a.Pt), AvoidEdge: infeasible}).Find(); !reach && a.Pt != open.Entry() {
					continue
				}
				p, f := core.PathQuery{F: open, From: a.Pt, FromAfter: true, AvoidEdge: infeasible, Target: func(pt core.Point) bool {
					r, isRet := pt.Node().(*ast.ReturnStmt)
					return isRet && len(r.Results) == 2 && core.IsNil(open.Info(), r.Results[0])
				}}.Find()
				if f {
					path, found = p, true
				}
			}
			c.Check(!found, "a failed open is not counted", "T7 Pairing", a.Stmt.Pos(), "no path from this counter update reaches a return without a store",
				"the reference counter is increased on a path that then fails to open the database: the leaked reference keeps the underlying database open after the last Close and hides one surplus Close ("+open.DescribePath(path)+")")
		}
		c.ExpectAtLeast("refCounter updates in openDB", n, 1)
	})
}
