package rules

import (
	"fmt"
	"go/ast"
	"go/token"
	"go/types"
	"sort"
	"strings"

	"lachk/core"
)

var _ = fmt.Sprint
var _ ast.Node
var _ token.Pos
var _ types.Object
var _ = sort.Strings
var _ = strings.TrimSpace

// c27NoLeakOnError: a failed open must not count as a reference: no path increments the counter and
// then returns without a store.
func c27NoLeakOnError(c *core.Ctx) {
	c.Clause("C27.open.error", func() {
		open := c.Fn("kvdb/cachedproducer.openDB")
		n := 0
		for _, a := range assignments(open) {
			ix, ok := ast.Unparen(a.LHS).(*ast.IndexExpr)
			if !ok || fieldNameOf(open, ix.X) != cpState+".refCounter" {
				continue
			}
			n++
			path, found := core.PathQuery{F: open, From: a.Pt, FromAfter: true, Target: func(pt core.Point) bool {
				r, isRet := pt.Node().(*ast.ReturnStmt)
				return isRet && len(r.Results) == 2 && core.IsNil(open.Info(), r.Results[0])
			}}.Find()
			c.Check(!found, "a failed open is not counted", "T7 Pairing", a.Stmt.Pos(), "no path from this counter update reaches a return without a store",
				"the reference counter is increased on a path that then fails to open the database: the leaked reference keeps the underlying database open after the last Close and hides one surplus Close ("+open.DescribePath(path)+")")
		}
		c.ExpectAtLeast("refCounter updates in openDB", n, 1)
	})
}
