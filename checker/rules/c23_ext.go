package rules

import (
	"fmt"
	"go/ast"
	"go/token"
	"go/types"
	"sort"
	"strings"

	"lachk/core"
)

var _ = fmt.Sprint
var _ ast.Node
var _ token.Pos
var _ types.Object
var _ = sort.Strings
var _ = strings.TrimSpace

// c23Successor: the pebble upper bound of a prefix scan is the shortest successor of the prefix:
// the prefix cut after the last byte below 0xff, with that byte incremented (as goleveldb's
// util.BytesPrefix). A longer bound (trailing 0xff bytes kept) lets keys between the true bound and
// the too-large one leak into the scan.
func c23Successor(c *core.Ctx) {
	c.Clause("C23.range.successor", func() {
		// the successor computation is located by what it does, not by its name or result type (c23FindSuccessor)
		sc, why := c23FindSuccessor(c.P, c23Pbl, c23RangeFields[c23Pbl][0], c23RangeFields[c23Pbl][1])
		c.Need(sc != nil, why)
		f, prefix, loop := sc.g, sc.pp, sc.loop
		var iv = func() *ast.Ident {
			if as, ok := loop.Init.(*ast.AssignStmt); ok && len(as.Lhs) == 1 {
				id, _ := as.Lhs[0].(*ast.Ident)
				return id
			}
			return nil
		}()
		c.Need(iv != nil, "loop index variable")
		ivar := varOf(f, iv)
		// scan direction: starts at len(prefix)-1, steps down
		okDir := false
		if as, ok := loop.Init.(*ast.AssignStmt); ok {
			l := core.Linearize(f.Info(), as.Rhs[0], func(e ast.Expr) string {
				if call := isCallTo(f, e, "builtin.len"); call != nil && varOf(f, call.Args[0]) == prefix {
					return "len"
				}
				return ""
			})
			if inc, ok := loop.Post.(*ast.IncDecStmt); ok && inc.Tok == token.DEC && coefIs(l, "len", 1) && l.C.Int64() == -1 {
				okDir = true
			}
		}
		c.Check(okDir, "bytesPrefix|scans from the last byte downwards", "loop shape", loop.Pos(), "for i := len(prefix)-1; i >= 0; i--", "the successor is not computed from the last byte below 0xff")
		// the limit: make([]byte, i+1) ... copy(limit, prefix) ... limit[i] = c+1   (or prefix[:i+1] copied)
		nAlloc := 0
		for _, a := range assignments(f) {
			call := isCallTo(f, a.RHS, "builtin.make")
			if call == nil || a.RHS == nil || len(call.Args) < 2 {
				continue
			}
			if enclosingLoop(f, a.Stmt.Pos()) != ast.Stmt(loop) {
				continue
			}
			nAlloc++
			l := core.Linearize(f.Info(), call.Args[1], func(e ast.Expr) string {
				if varOf(f, e) == ivar {
					return "i"
				}
				return ""
			})
			okLen := len(l.Coef) == 1 && coefIs(l, "i", 1) && l.C.Int64() == 1
			c.Check(okLen, "bytesPrefix|upper bound has length i+1", "T14/T15 (normalised length)", a.Stmt.Pos(), "the bound is the prefix cut after byte i (length i+1)", "the upper bound keeps bytes after the incremented one ("+strings.TrimSpace(exprStr(call.Args[1]))+" instead of i+1): keys between the shortest successor and this bound are included in the scan")
			// the incremented byte
			lv := varOf(f, a.LHS)
			okInc := false
			for _, b := range assignments(f) {
				ix, ok := ast.Unparen(b.LHS).(*ast.IndexExpr)
				if !ok || varOf(f, ix.X) != lv || varOf(f, ix.Index) != ivar || b.RHS == nil {
					continue
				}
				lin := core.Linearize(f.Info(), b.RHS, func(e ast.Expr) string {
					if v := varOf(f, e); v != nil {
						for _, d := range assignsToVar(f, v) {
							if px, ok := ast.Unparen(d.RHS).(*ast.IndexExpr); ok && d.RHS != nil && varOf(f, px.X) == prefix && varOf(f, px.Index) == ivar {
								return "byte"
							}
						}
					}
					if px, ok := ast.Unparen(e).(*ast.IndexExpr); ok && varOf(f, px.X) == prefix && varOf(f, px.Index) == ivar {
						return "byte"
					}
					return ""
				})
				okInc = len(lin.Coef) == 1 && coefIs(lin, "byte", 1) && lin.C.Int64() == 1
			}
			c.Check(okInc, "bytesPrefix|byte i of the bound is prefix[i]+1", "T14", a.Stmt.Pos(), "limit[i] = prefix[i] + 1", "the bound's last byte is not the prefix byte incremented by one")
			okCopy := false
			for _, cs := range f.CallsTo("builtin.copy") {
				if varOf(f, cs.Call.Args[0]) == lv && varOf(f, cs.Call.Args[1]) == prefix {
					okCopy = true
				}
			}
			c.Check(okCopy, "bytesPrefix|bound starts with the prefix bytes", "T14", a.Stmt.Pos(), "copy(limit, prefix)", "the bound is not initialised from the prefix")
		}
		if nAlloc == 0 {
			c.Undecided("bytesPrefix|upper bound construction", "T14", f.Pos(), "the upper bound is not built by make+copy inside the scan loop: the rule cannot tell whether it is the shortest successor")
		}
	})
}
