package rules

import (
	"lachk/core"
)

// captureHazards reports deferred-use function literals (callbacks, queued tasks, goroutines) that are
// created in a loop and refer to a variable all iterations share: the loop's own iteration variable
// under per-loop semantics (modules declaring go < 1.22), or a variable declared outside the loop and
// assigned inside it. When the literal finally runs it sees another iteration's value: results are
// attributed to the wrong event / peer / chunk, some are handled several times and others never.
func captureHazards(c *core.Ctx, clause, pkg string, minFuncs int) {
	c.Clause(clause, func() {
		n, bad := 0, 0
		for _, f := range c.P.FuncsInPkg(pkg) {
			all := append([]*core.FuncInfo{f}, allLits(f)...)
			for _, g := range all {
				n++
				for _, lc := range core.LoopVarCaptures(g) {
					bad++
					c.Fail(short(g.Name)+"|callback refers to loop variable "+lc.Var.Name(), "closure capture (per-loop variable semantics, go < 1.22)", lc.Pos,
						"a function literal that is not invoked on the spot refers to the iteration variable "+lc.Var.Name()+": when it runs later it sees another iteration's value")
				}
				for _, sc := range core.SharedVarCaptures(g) {
					bad++
					c.Fail(short(g.Name)+"|callback refers to shared variable "+sc.Var.Name(), "closure capture (variable shared by all iterations)", sc.Pos,
						"a function literal that is not invoked on the spot refers to "+sc.Var.Name()+", which is declared outside the loop and assigned inside it: every literal created by the loop sees the value of a later iteration")
				}
			}
		}
		if bad == 0 {
			c.Pass("no deferred-use literal refers to a variable shared between iterations", "closure capture", "every callback created in a loop uses per-iteration copies")
		}
		c.ExpectAtLeast("functions and literals scanned in "+pkg, n, minFuncs)
	})
}

func c15LoopVars(c *core.Ctx) { captureHazards(c, "C15.loopvar", "gossip/dagprocessor", 10) }
func c16Captures(c *core.Ctx) { captureHazards(c, "C16.captures", "gossip/itemsfetcher", 8) }
func c17Captures(c *core.Ctx) {
	captureHazards(c, "C17.captures", "gossip/basestream/basestreamseeder", 6)
}
