package rules

import (
	"go/ast"
	"go/token"
	"go/types"

	"golang.org/x/tools/go/cfg"

	"lachk/core"
)

// State-update summaries for the C27 clauses (candidate for core). A tracked update is an assignment
// form on one of the cache-state maps ("refCounter[k]++", "notDropped[k] = true"). The update may be
// written in the function under analysis or in a module function it calls (bounded depth). A callee is
// summarised over the scenarios of its own boolean decisions (see c27Scenarios) as
//
//	never      no scenario reaches the update
//	always     in every scenario every returning path performs it (once: and none performs it twice)
//	iffResult  it is performed exactly in the scenarios in which the callee's boolean result k is true
//	           (e.g. "look up, count on a hit, report the hit")
//
// A call of an `always` callee is an update site of the caller; a call of an `iffResult` callee is a
// site that is conditional on the caller's variable receiving that result, and the caller's executions
// are split by the value of that variable. Everything else is unknown and reported as undecided.

type c27Kind int8

const (
	c27KUnknown c27Kind = iota
	c27KNever
	c27KAlways
	c27KIffResult
)

type c27Summary struct {
	kind   c27Kind
	once   bool  // no scenario performs the update twice
	result int   // c27KIffResult: the result position
	keys   []int // parameter positions used as map key by the updates
	why    string
}

// c27Site is a point of a function at which the update happens.
type c27Site struct {
	pt   core.Point
	pos  token.Pos
	cond *types.Var // nil: whenever the point is passed; otherwise: iff this boolean of the function is true
	keys []ast.Expr // expressions of the function that are used as map key by the update
}

type c27Effect struct {
	// direct recognises the update among the assignments of g and returns the key expression
	direct func(g *core.FuncInfo, a assignment) (key ast.Expr, ok bool)
	// lookup is the map field whose comma-ok reads split the executions into scenarios
	lookup string
	memo   map[*core.FuncInfo]*c27Summary
}

func c27NewEffect(lookup string, direct func(g *core.FuncInfo, a assignment) (ast.Expr, bool)) *c27Effect {
	return &c27Effect{direct: direct, lookup: lookup, memo: map[*core.FuncInfo]*c27Summary{}}
}

// c27ModuleCallee returns the declared module function a plain call enters (nil for interface methods,
// function values, builtins, and for go / defer statements).
func c27ModuleCallee(g *core.FuncInfo, cs *core.CallSite) *core.FuncInfo {
	fn, ok := cs.Callee.(*types.Func)
	if !ok || cs.IsConv {
		return nil
	}
	h := g.P.FuncOf(fn)
	if h == nil || h == g || h.Body == nil {
		return nil
	}
	return h
}

// c27ParamIndex: the position of v among the parameters of h, when v is a parameter that h never
// reassigns (it then stands for the caller's argument); -1 otherwise.
func c27ParamIndex(h *core.FuncInfo, v *types.Var) int {
	if v == nil {
		return -1
	}
	n := 0
	for _, fl := range h.Type.Params.List {
		if len(fl.Names) == 0 {
			n++
		} else {
			n += len(fl.Names)
		}
	}
	for i := 0; i < n; i++ {
		if h.Param(i) != v {
			continue
		}
		if len(assignsToVar(h, v)) > 0 {
			return -1
		}
		for _, l := range allLits(h) {
			if len(assignsToVar(l, v)) > 0 {
				return -1
			}
		}
		return i
	}
	return -1
}

// c27ResultReceiver: the variable of g that receives result k of the call, when the call is the sole
// right-hand side of an assignment / definition and that variable has no other definition.
func c27ResultReceiver(g *core.FuncInfo, call *ast.CallExpr, k int) *types.Var {
	v := c26ResultReceiver(g, call, k)
	if v == nil || !c27SingleAssigned(g, v) {
		return nil
	}
	return v
}

// c27SingleAssigned: v is a local of g with exactly one definition, none of them in a nested literal.
//
// A named result of g qualifies too (it starts at its zero value and is then defined once) when that
// one definition is passed before every test of the variable and before every return that yields it:
// no decision of g can then see the zero value it had before.
func c27SingleAssigned(g *core.FuncInfo, v *types.Var) bool {
	if v == nil {
		return false
	}
	defs := assignsToVar(g, v)
	if len(defs) != 1 {
		return false
	}
	for _, l := range allLits(g) {
		if len(assignsToVar(l, v)) > 0 {
			return false
		}
	}
	if g.Body.Pos() <= v.Pos() && v.Pos() < g.Body.End() {
		return true
	}
	if !c27IsResult(g, v) {
		return false
	}
	def := []core.Point{defs[0].Pt}
	for _, b := range g.CFG().Blocks {
		cond := g.BranchCond(b)
		if !b.Live || cond == nil || !mentionsObj(g, cond, v) {
			continue
		}
		if dom, _ := g.MustPassBefore(def, core.Point{B: b, I: len(b.Nodes) - 1}); !dom {
			return false
		}
	}
	for _, rp := range g.ReturnPoints() {
		r, isRet := rp.Node().(*ast.ReturnStmt)
		if !isRet {
			return false // implicit return of the named results
		}
		uses := len(r.Results) == 0
		for _, res := range r.Results {
			uses = uses || mentionsObj(g, res, v)
		}
		if !uses {
			continue
		}
		if dom, _ := g.MustPassBefore(def, rp); !dom {
			return false
		}
	}
	return true
}

// sites lists the update sites of g; bad is non-empty when some call may perform the update in a way
// the summaries cannot express.
func (e *c27Effect) sites(g *core.FuncInfo, depth int) (out []c27Site, bad string) {
	for _, a := range assignments(g) {
		if key, ok := e.direct(g, a); ok {
			out = append(out, c27Site{pt: a.Pt, pos: a.Stmt.Pos(), keys: []ast.Expr{key}})
		}
	}
	for _, cs := range g.Calls() {
		h := c27ModuleCallee(g, cs)
		if h == nil {
			continue
		}
		sm := e.summary(h, depth-1)
		switch sm.kind {
		case c27KNever:
			continue
		case c27KUnknown:
			bad = "the call of " + short(h.Name) + " may perform the update: " + sm.why
			continue
		}
		if cs.InDefer || cs.InGo {
			bad = "the update is made by a deferred / asynchronous call of " + short(h.Name)
			continue
		}
		site := c27Site{pt: cs.Pt, pos: cs.Pos()}
		for _, k := range sm.keys {
			if k >= len(cs.Call.Args) {
				bad = "cannot match the arguments of " + short(h.Name)
				continue
			}
			site.keys = append(site.keys, cs.Call.Args[k])
		}
		if !sm.once {
			bad = short(h.Name) + " can perform the update twice"
		}
		if sm.kind == c27KIffResult {
			site.cond = c27ResultReceiver(g, cs.Call, sm.result)
			if site.cond == nil {
				bad = short(h.Name) + " reports through a result whether it performed the update, and the caller does not keep that result in a variable of its own"
				continue
			}
		}
		out = append(out, site)
	}
	return out, bad
}

// c27Scenario is one valuation of the boolean decisions of a function that hold for a whole call: the
// outcome of its single cache lookup and the results of the conditional update sites.
type c27Scenario struct {
	val        map[*types.Var]c26Tri
	infeasible func(*cfg.Block, int) bool
	atom       func(ast.Expr) c26Tri
}

func (e *c27Effect) scenarios(g *core.FuncInfo, sites []c27Site) []c27Scenario {
	var vars []*types.Var
	add := func(v *types.Var) {
		for _, w := range vars {
			if w == v {
				return
			}
		}
		vars = append(vars, v)
	}
	if hit, reads, consistent := c26CommaOkLookups(g, e.lookup); hit != nil && consistent && len(reads) == 1 && c27SingleAssigned(g, hit) {
		add(hit)
	}
	for _, s := range sites {
		if s.cond != nil {
			add(s.cond)
		}
	}
	if len(vars) > 3 {
		vars = vars[:3]
	}
	var out []c27Scenario
	for bits := 0; bits < 1<<len(vars); bits++ {
		val := map[*types.Var]c26Tri{}
		for i, v := range vars {
			if bits&(1<<i) != 0 {
				val[v] = c26True
			} else {
				val[v] = c26False
			}
		}
		atom := func(x ast.Expr) c26Tri {
			if v := varOf(g, x); v != nil {
				return val[v]
			}
			return c26Unknown
		}
		sc := c27Scenario{val: val, atom: atom}
		if len(vars) > 0 {
			sc.infeasible = c26Infeasible(g, atom)
		}
		out = append(out, sc)
	}
	return out
}

// active: the sites at which the update happens in the scenario.
func (sc c27Scenario) active(sites []c27Site) []core.Point {
	var out []core.Point
	for _, s := range sites {
		if s.cond == nil || sc.val[s.cond] == c26True {
			out = append(out, s.pt)
		}
	}
	return out
}

// c27Flow classifies one scenario of g.
type c27Flow struct {
	feasible bool // some path returns
	must     bool // every returning path performs the update
	none     bool // no path reaches an update
	twice    bool // some path performs it twice
	wit      []core.Point
}

func c27FlowOf(g *core.FuncInfo, sc c27Scenario, sites []c27Site) c27Flow {
	var fl c27Flow
	act := sc.active(sites)
	isAct := core.PointSet(act...)
	_, fl.feasible = core.PathQuery{F: g, From: g.Entry(), AvoidEdge: sc.infeasible, TargetExit: true}.Find()
	if !fl.feasible {
		return fl
	}
	path, skip := core.PathQuery{F: g, From: g.Entry(), Avoid: isAct, AvoidEdge: sc.infeasible, TargetExit: true}.Find()
	fl.must, fl.wit = !skip, path
	fl.none = true
	for _, a := range act {
		if _, reach := (core.PathQuery{F: g, From: g.Entry(), Target: core.PointSet(a), AvoidEdge: sc.infeasible}).Find(); !reach {
			continue
		}
		fl.none = false
		if p2, again := (core.PathQuery{F: g, From: a, FromAfter: true, Target: isAct, AvoidEdge: sc.infeasible}).Find(); again {
			fl.twice, fl.wit = true, p2
		}
	}
	return fl
}

func (e *c27Effect) summary(h *core.FuncInfo, depth int) *c27Summary {
	if sm, ok := e.memo[h]; ok {
		return sm
	}
	sm := &c27Summary{kind: c27KUnknown, why: "recursive call"}
	e.memo[h] = sm
	if depth < 0 {
		// too deep to look: harmless only when nothing below can hold the update
		sm.why = "call chain too deep"
		if !e.mayHold(h, 3, map[*core.FuncInfo]bool{}) {
			sm.kind, sm.once = c27KNever, true
		}
		return sm
	}
	sites, bad := e.sites(h, depth)
	if bad != "" {
		sm.why = bad
		return sm
	}
	if len(sites) == 0 {
		sm.kind, sm.once = c27KNever, true
		return sm
	}
	for _, s := range sites {
		for _, k := range s.keys {
			i := c27ParamIndex(h, varOf(h, resolveLocal(h, k)))
			if i < 0 {
				sm.why = short(h.Name) + " updates the entry of a key that is not one of its parameters"
				return sm
			}
			sm.keys = append(sm.keys, i)
		}
	}
	scs := e.scenarios(h, sites)
	flows := make([]c27Flow, len(scs))
	allMust, allNone, once := true, true, true
	for i, sc := range scs {
		flows[i] = c27FlowOf(h, sc, sites)
		if !flows[i].feasible {
			continue
		}
		allMust = allMust && flows[i].must
		allNone = allNone && flows[i].none
		once = once && !flows[i].twice
	}
	sm.once = once
	switch {
	case allNone:
		sm.kind = c27KNever
		return sm
	case allMust:
		sm.kind = c27KAlways
		return sm
	}
	// performed exactly when a boolean result is true?
	nRes := 0
	if h.Type.Results != nil {
		for _, fl := range h.Type.Results.List {
			if len(fl.Names) == 0 {
				nRes++
			} else {
				nRes += len(fl.Names)
			}
		}
	}
	for k := 0; k < nRes; k++ {
		ok := true
		for i, sc := range scs {
			fl := flows[i]
			if !fl.feasible {
				continue
			}
			want := c26Unknown
			switch {
			case fl.must:
				want = c26True
			case fl.none:
				want = c26False
			}
			if want == c26Unknown {
				ok = false
				break
			}
			for _, rp := range h.ReturnPoints() {
				if _, reach := (core.PathQuery{F: h, From: h.Entry(), Target: core.PointSet(rp), AvoidEdge: sc.infeasible}).Find(); !reach {
					continue
				}
				r := rp.Node().(*ast.ReturnStmt)
				if k >= len(r.Results) || c26Eval(h, r.Results[k], sc.atom) != want {
					ok = false
				}
			}
			if !ok {
				break
			}
		}
		if ok {
			sm.kind, sm.result = c27KIffResult, k
			return sm
		}
	}
	sm.why = short(h.Name) + " performs the update on some paths only, and no boolean result tells the caller on which"
	return sm
}

// mayHold: can the update be written in h or below it (plain syntactic reachability)?
func (e *c27Effect) mayHold(h *core.FuncInfo, depth int, seen map[*core.FuncInfo]bool) bool {
	if seen[h] {
		return false
	}
	seen[h] = true
	for _, g := range append([]*core.FuncInfo{h}, allLits(h)...) {
		for _, a := range assignments(g) {
			if _, ok := e.direct(g, a); ok {
				return true
			}
		}
		for _, cs := range g.Calls() {
			if c := c27ModuleCallee(g, cs); c != nil && (depth <= 0 || e.mayHold(c, depth-1, seen)) {
				return true
			}
		}
	}
	return false
}

// c27Put is a point of f at which a value is put into the cache map: an assignment m[k] = v, or the
// call of a module function that on every path stores one of its parameters (val is then the
// argument). val == nil when the stored value cannot be named in f.
type c27Put struct {
	pt  core.Point
	pos token.Pos
	val ast.Expr
}

func c27Puts(f *core.FuncInfo, field string, depth int) []c27Put {
	var out []c27Put
	for _, a := range assignments(f) {
		if ix, ok := ast.Unparen(a.LHS).(*ast.IndexExpr); ok && fieldNameOf(f, ix.X) == field {
			out = append(out, c27Put{a.Pt, a.Stmt.Pos(), a.RHS})
		}
	}
	if depth <= 0 {
		return out
	}
	for _, cs := range f.Calls() {
		h := c27ModuleCallee(f, cs)
		if h == nil {
			continue
		}
		inner := c27Puts(h, field, depth-1)
		if len(inner) == 0 {
			continue
		}
		put := c27Put{pt: cs.Pt, pos: cs.Pos()}
		if len(inner) == 1 && inner[0].val != nil && !cs.InDefer && !cs.InGo {
			i := c27ParamIndex(h, varOf(h, resolveLocal(h, inner[0].val)))
			_, skip := core.PathQuery{F: h, From: h.Entry(), Avoid: core.PointSet(inner[0].pt), TargetExit: true}.Find()
			if i >= 0 && i < len(cs.Call.Args) && !skip {
				put.val = cs.Call.Args[i]
			}
		}
		out = append(out, put)
	}
	return out
}

// c27CacheReads lists the variables of f that hold what was read from the cache map: v := m[k],
// v, ok := m[k], or result j of a module function every return of which yields such a variable (or nil)
// at position j.
func c27CacheReads(f *core.FuncInfo, field string, depth int) map[*types.Var]bool {
	out := map[*types.Var]bool{}
	position := func(a assignment) int {
		switch s := a.Stmt.(type) {
		case *ast.AssignStmt:
			for j, l := range s.Lhs {
				if l == a.LHS {
					return j
				}
			}
		case *ast.ValueSpec:
			for j, n := range s.Names {
				if ast.Expr(n) == a.LHS {
					return j
				}
			}
		}
		return -1
	}
	for _, a := range assignments(f) {
		if a.RHS == nil {
			continue
		}
		v, j := varOf(f, a.LHS), position(a)
		if v == nil || j < 0 {
			continue
		}
		switch x := ast.Unparen(a.RHS).(type) {
		case *ast.IndexExpr:
			if fieldNameOf(f, x.X) == field && j == 0 {
				out[v] = true
			}
		case *ast.CallExpr:
			if depth <= 0 {
				continue
			}
			obj, _ := f.P.ResolveCallee(f.Info(), x)
			h := f.P.FuncOf(c27AsFunc(obj))
			if h == nil || h == f || h.Body == nil {
				continue
			}
			inner := c27CacheReads(h, field, depth-1)
			if len(inner) == 0 {
				continue
			}
			ok, some := true, false
			for _, rp := range h.ReturnPoints() {
				r := rp.Node().(*ast.ReturnStmt)
				switch {
				case j >= len(r.Results):
					ok = false
				case core.IsNil(h.Info(), r.Results[j]):
				case inner[varOf(h, r.Results[j])]:
					some = true
				default:
					ok = false
				}
			}
			if ok && some {
				out[v] = true
			}
		}
	}
	return out
}
