package rules

import (
	"go/ast"
	"go/constant"
	"go/token"
	"go/types"
	"strings"

	"golang.org/x/tools/go/cfg"

	"lachk/core"
)

// Generic helpers written for C01/C02/C03 (candidates for promotion to core/helpers):
//
//	c01Resolver      resolveLocal bound to a function (the `resolve` argument of core.IterationOf)
//	c01StructFields  a struct value (composite literal, possibly behind single-definition locals and &)
//	                 flattened to "Field.Sub" -> expression, independent of key order / positional form
//	c01ValueOf       looks a field selection `r.Slot.Frame` through to the expression stored in r
//	c01MethodOn      `x.M()` -> the variable x (aliases followed)
//	c01CountedLoop   a counted loop `for v := init; cond; v++` (init may precede the loop)
//	c01EveryIteration every path through one loop iteration passes one of the points
//	c01Effects       call sites of an effect in a function or, one level down, in a module helper it calls
//	c01Effect.callerExpr / callerRecv / bindVar
//	                 translation of a helper's parameters (and field paths of struct-valued parameters)
//	                 to the caller's argument expressions: a one-level parameter-passing summary
//	c01ResultVar     the variable receiving result i of a call
//	c01BoolOperand / c01BoolFact
//	                 a branch fact read as "boolean operand e is true/false" (b, !b, b == true, false != b)

func c01Resolver(f *core.FuncInfo) func(ast.Expr) ast.Expr {
	return func(e ast.Expr) ast.Expr { return resolveLocal(f, e) }
}

// c01StructFields flattens the struct value denoted by e. Nested struct literals are flattened
// recursively ("Slot.Frame"); nil when e does not denote a struct literal.
func c01StructFields(f *core.FuncInfo, e ast.Expr) map[string]ast.Expr {
	out := map[string]ast.Expr{}
	var visit func(prefix string, e ast.Expr, depth int) bool
	visit = func(prefix string, e ast.Expr, depth int) bool {
		if e == nil || depth > 4 {
			return false
		}
		e = resolveLocal(f, e)
		if u, ok := e.(*ast.UnaryExpr); ok && u.Op == token.AND {
			e = resolveLocal(f, u.X)
		}
		cl, ok := ast.Unparen(e).(*ast.CompositeLit)
		if !ok {
			return false
		}
		t := f.Info().TypeOf(cl)
		if t == nil {
			return false
		}
		if pt, isPtr := t.Underlying().(*types.Pointer); isPtr {
			t = pt.Elem()
		}
		st, ok := t.Underlying().(*types.Struct)
		if !ok {
			return false
		}
		for i, el := range cl.Elts {
			name, val := "", el
			if kv, isKV := el.(*ast.KeyValueExpr); isKV {
				if id, isID := kv.Key.(*ast.Ident); isID {
					name = id.Name
				}
				val = kv.Value
			} else if i < st.NumFields() {
				name = st.Field(i).Name()
			}
			if name == "" {
				continue
			}
			if !visit(prefix+name+".", val, depth+1) {
				out[prefix+name] = val
			}
		}
		return true
	}
	if !visit("", e, 0) {
		return nil
	}
	return out
}

// c01ValueOf resolves single-definition locals and field selections of locally built struct values:
// with `r := T{A: S{B: x}}`, the expression r.A.B resolves to x.
func c01ValueOf(f *core.FuncInfo, e ast.Expr) ast.Expr {
	for depth := 0; depth < 4 && e != nil; depth++ {
		e = resolveLocal(f, e)
		var path []string
		x := e
		for {
			sel, ok := ast.Unparen(x).(*ast.SelectorExpr)
			if !ok {
				break
			}
			s, ok := f.Info().Selections[sel]
			if !ok || s.Kind() != types.FieldVal {
				break
			}
			path = append([]string{sel.Sel.Name}, path...)
			x = ast.Unparen(sel.X)
		}
		if len(path) == 0 {
			return e
		}
		fields := c01StructFields(f, x)
		v, ok := fields[strings.Join(path, ".")]
		if !ok {
			return e
		}
		e = v
	}
	return e
}

// c01MethodOn: e denotes a call x.<method>() on a variable; returns that variable (aliases followed).
func c01MethodOn(f *core.FuncInfo, e ast.Expr, method string) *types.Var {
	call, ok := c01ValueOf(f, e).(*ast.CallExpr)
	if !ok || !methodNamed(calleeName(f, call), method) {
		return nil
	}
	sel, ok := ast.Unparen(call.Fun).(*ast.SelectorExpr)
	if !ok {
		return nil
	}
	return canonVar(f, varOf(f, sel.X))
}

// c01CountedLoop recognises `for v := init; cond; v++ {…}`; the initialisation may also be the only
// other assignment of v, placed before the loop. v must not be assigned inside the body.
type c01Counted struct {
	Loop       *ast.ForStmt
	Var        *types.Var
	Init       ast.Expr
	Head, Done *cfg.Block
}

func c01CountedLoop(f *core.FuncInfo, loop ast.Stmt) (*c01Counted, string) {
	fs, ok := loop.(*ast.ForStmt)
	if !ok || fs == nil {
		return nil, "not a counted for loop"
	}
	if fs.Cond == nil {
		return nil, "the loop has no condition"
	}
	var v *types.Var
	switch p := fs.Post.(type) {
	case *ast.IncDecStmt:
		if p.Tok == token.INC {
			v = varOf(f, p.X)
		}
	case *ast.AssignStmt:
		if p.Tok == token.ADD_ASSIGN && len(p.Lhs) == 1 && len(p.Rhs) == 1 && core.IsConstInt(f.Info(), p.Rhs[0], 1) {
			v = varOf(f, p.Lhs[0])
		}
	}
	if v == nil {
		return nil, "the loop does not step its variable by one in the post clause"
	}
	out := &c01Counted{Loop: fs, Var: v}
	out.Head, out.Done = f.LoopOf(fs)
	if out.Head == nil {
		return nil, "loop head not found in the CFG"
	}
	n := 0
	for _, a := range assignsToVar(f, v) {
		if a.Stmt == ast.Node(fs.Post) {
			continue
		}
		if _, isDecl := a.Stmt.(*ast.ValueSpec); isDecl && a.RHS == nil {
			continue // `var v T` followed by the initialisation
		}
		n++
		if a.RHS == nil {
			return nil, "the loop variable has a multi-value definition"
		}
		if fs.Body.Pos() <= a.Stmt.Pos() {
			return nil, "the loop variable is assigned inside or after the loop body"
		}
		out.Init = a.RHS
	}
	for _, l := range allLits(f) {
		if len(assignsToVar(l, v)) > 0 {
			return nil, "the loop variable is assigned by a closure"
		}
	}
	if n != 1 || out.Init == nil {
		return nil, "the loop variable does not have exactly one initialisation"
	}
	return out, ""
}

// c01EveryIteration: every path from the entry of the loop body to the next iteration, or out of the
// loop by break, passes one of the points. Iterations that leave the function owe nothing.
func c01EveryIteration(f *core.FuncInfo, head, done *cfg.Block, via []core.Point) (bool, []core.Point) {
	if head == nil || len(head.Succs) == 0 || len(via) == 0 {
		return false, nil
	}
	body := head.Succs[0]
	path, found := core.PathQuery{F: f, From: core.Point{B: body, I: 0}, Avoid: core.PointSet(via...),
		TargetBlock: func(b *cfg.Block) bool { return b == head || (done != nil && b == done) }}.Find()
	return !found, path
}

// c01Effect is one occurrence of an effect reachable from `Caller`: either directly (G == Caller,
// At == Eff) or inside the module helper G that Caller calls at At.
type c01Effect struct {
	Caller *core.FuncInfo
	At     *core.CallSite
	G      *core.FuncInfo
	Eff    *core.CallSite
	// Up: the view in which Caller itself is seen, when Caller is not the anchor of the rule but a
	// helper of it (nil: Caller is the anchor). Lets a question asked two calls down translate its
	// operands step by step into the anchor's terms.
	Up *c01Effect
}

// up: the view of e.Caller (the direct view when Caller is the anchor).
func (e c01Effect) up() c01Effect {
	if e.Up != nil {
		return *e.Up
	}
	return c01Effect{Caller: e.Caller, G: e.Caller}
}

func c01Effects(caller *core.FuncInfo, pred func(*core.CallSite) bool) []c01Effect {
	var out []c01Effect
	for _, cs := range caller.Calls() {
		if pred(cs) {
			out = append(out, c01Effect{Caller: caller, At: cs, G: caller, Eff: cs})
			continue
		}
		fn, ok := cs.Callee.(*types.Func)
		if !ok {
			continue
		}
		h := caller.P.FuncOf(fn)
		if h == nil || h == caller {
			continue
		}
		for _, hs := range h.Calls() {
			if pred(hs) {
				out = append(out, c01Effect{Caller: caller, At: cs, G: h, Eff: hs})
			}
		}
	}
	return out
}

// c01ParamIndex: position of v among g's parameters (-1 if it is not a parameter).
func c01ParamIndex(g *core.FuncInfo, v *types.Var) int {
	if v == nil {
		return -1
	}
	i := 0
	for _, fl := range g.Type.Params.List {
		if len(fl.Names) == 0 {
			i++
			continue
		}
		for _, nm := range fl.Names {
			if g.Info().Defs[nm] == types.Object(v) {
				return i
			}
			i++
		}
	}
	return -1
}

// bindVar translates a variable of the helper e.G into the caller's terms: (an alias of) a parameter
// of the helper becomes the argument expression at the call and the caller's variable it denotes; in
// the direct case the variable itself is returned. ok=false for a helper-local value.
func (e c01Effect) bindVar(v *types.Var) (ast.Expr, *types.Var, bool) {
	if v == nil {
		return nil, nil, false
	}
	if e.G == e.Caller {
		return nil, canonVar(e.Caller, v), true
	}
	cv := canonVar(e.G, v)
	if r := e.G.Recv(); r != nil && cv == r {
		// the helper's receiver is the expression the method is called on
		arg := e.At.Recv()
		if arg == nil {
			return nil, nil, false
		}
		return arg, canonVar(e.Caller, varOf(e.Caller, arg)), true
	}
	i := c01ParamIndex(e.G, cv)
	if i < 0 || i >= len(e.At.Call.Args) {
		return nil, nil, false
	}
	arg := e.At.Call.Args[i]
	return arg, canonVar(e.Caller, varOf(e.Caller, arg)), true
}

// callerExpr: the expression x of e.G in the caller's terms. In the direct case this is x with locals
// looked through; in the helper case x must denote (an alias of) a parameter and the result is the
// argument at the call.
func (e c01Effect) callerExpr(x ast.Expr) (ast.Expr, bool) {
	if x == nil {
		return nil, false
	}
	x = c01ValueOf(e.G, x)
	if e.G == e.Caller {
		return x, true
	}
	// a parameter, or a field path of a (struct-valued) parameter
	var path []string
	root := ast.Unparen(x)
	for {
		sel, ok := root.(*ast.SelectorExpr)
		if !ok {
			break
		}
		s, ok := e.G.Info().Selections[sel]
		if !ok || s.Kind() != types.FieldVal {
			break
		}
		path = append([]string{sel.Sel.Name}, path...)
		root = ast.Unparen(sel.X)
	}
	arg, _, ok := e.bindVar(varOf(e.G, root))
	if !ok || arg == nil {
		return nil, false
	}
	if len(path) == 0 {
		return c01ValueOf(e.Caller, arg), true
	}
	v, ok := c01StructFields(e.Caller, arg)[strings.Join(path, ".")]
	if !ok {
		return nil, false
	}
	return c01ValueOf(e.Caller, v), true
}

// direct: the same site seen as an effect of the caller itself.
func (e c01Effect) direct() c01Effect {
	return c01Effect{Caller: e.Caller, At: e.At, G: e.Caller, Eff: e.At}
}

// callerRecv: x denotes a call v.<method>() — in e.G on (an alias of) a parameter, or in the caller's
// argument that x stands for; returns the caller's variable that v stands for.
func (e c01Effect) callerRecv(x ast.Expr, method string) *types.Var {
	if e.G != e.Caller {
		if cx, ok := e.callerExpr(x); ok && cx != nil {
			return c01MethodOn(e.Caller, cx, method)
		}
	}
	v := c01MethodOn(e.G, x, method)
	if v == nil {
		return nil
	}
	_, cv, ok := e.bindVar(v)
	if !ok {
		return nil
	}
	return cv
}

// c01ResultsReturning: the result positions of f through which some return statement hands out the
// variable v (aliases looked through). A position qualifies only when its declared type is v's type,
// so an error result is never taken for the value; a bare return of a named result counts like the
// explicit one. The position is found by what is returned there, not by a fixed index.
func c01ResultsReturning(f *core.FuncInfo, v *types.Var) []int {
	if f == nil || v == nil || f.Type == nil || f.Type.Results == nil {
		return nil
	}
	var named []*types.Var // per result position; nil entries for unnamed results
	var typs []types.Type
	for _, fl := range f.Type.Results.List {
		t := f.Info().TypeOf(fl.Type)
		if len(fl.Names) == 0 {
			named, typs = append(named, nil), append(typs, t)
			continue
		}
		for _, nm := range fl.Names {
			nv, _ := f.Info().Defs[nm].(*types.Var)
			named, typs = append(named, nv), append(typs, t)
		}
	}
	hit := make([]bool, len(typs))
	for _, rp := range f.ReturnPoints() {
		r, ok := rp.Node().(*ast.ReturnStmt)
		if !ok {
			continue
		}
		for i := range typs {
			if typs[i] == nil || !types.Identical(typs[i], v.Type()) {
				continue
			}
			var w *types.Var
			switch {
			case len(r.Results) == len(typs):
				w = canonVar(f, varOf(f, r.Results[i]))
			case len(r.Results) == 0 && named[i] != nil:
				w = canonVar(f, named[i])
			}
			if w != nil && w == v {
				hit[i] = true
			}
		}
	}
	var out []int
	for i, h := range hit {
		if h {
			out = append(out, i)
		}
	}
	return out
}

// c01ResultVar: the variable that receives result i of the call (the call being the sole right-hand
// side of an assignment or definition); nil when the result is discarded or the call is used otherwise.
func c01ResultVar(f *core.FuncInfo, call *ast.CallExpr, i int) *types.Var {
	var v *types.Var
	f.InspectOwn(func(n ast.Node) bool {
		switch s := n.(type) {
		case *ast.AssignStmt:
			if len(s.Rhs) == 1 && ast.Unparen(s.Rhs[0]) == ast.Expr(call) && i < len(s.Lhs) {
				v = varOf(f, s.Lhs[i])
			}
		case *ast.ValueSpec:
			if len(s.Values) == 1 && ast.Unparen(s.Values[0]) == ast.Expr(call) && i < len(s.Names) {
				v, _ = f.Info().ObjectOf(s.Names[i]).(*types.Var)
			}
		}
		return true
	})
	return v
}

// c01BoolFact matches "v is <want>" on an edge: the bare variable, its negation, or a comparison
// with the constants true/false.
func c01BoolFact(f *core.FuncInfo, v *types.Var, want bool) func(core.Fact) bool {
	return func(ft core.Fact) bool {
		if v == nil {
			return false
		}
		e, truth, ok := c01BoolOperand(f.Info(), ft)
		return ok && varOf(f, e) == v && truth == want
	}
}

// c01BoolOperand reads a fact as "boolean operand e has the given truth": the bare operand, its
// negation, or a comparison with the constants true/false in either operand order.
func c01BoolOperand(info *types.Info, ft core.Fact) (ast.Expr, bool, bool) {
	cm, ok := core.NormCmp(ft)
	if !ok || (cm.Op != token.EQL && cm.Op != token.NEQ) {
		return nil, false, false
	}
	truth := cm.Op == token.EQL
	l := cm.L
	if cm.R != nil {
		r := cm.R
		if _, isConst := core.ConstVal(info, l); isConst {
			l, r = r, l
		}
		cv, isConst := core.ConstVal(info, r)
		if !isConst || cv.Kind() != constant.Bool {
			return nil, false, false
		}
		if !constant.BoolVal(cv) {
			truth = !truth
		}
	}
	return l, truth, true
}
