package rules

import (
	"fmt"
	"go/ast"
	"go/token"
	"go/types"

	"lachk/core"
)

// T18 TimedWait, decided independently of where the pieces are written: the deadline waker may be armed
// by time.AfterFunc in the waiting function itself or in a helper it calls, its callback may be a
// literal, a closure bound to a local or a method, it may record the expiry in a captured variable or
// through a pointer parameter, and the deadline test of the wait loop may live in a predicate helper or
// a local closure.

// c30Waker is one way the waiting function f arms a deadline waker.
type c30Waker struct {
	Arm  *core.CallSite // the call in f that arms it: time.AfterFunc itself or a helper that always arms one
	Site *core.CallSite // the time.AfterFunc call (in f or in the helper)
	Fn   *core.FuncInfo // the callback
}

// c30WakerCallbackOK: the callback wakes the waiters of condField on every path, holding a mutex (a
// broadcast made without the mutex can fall between the waiter's deadline test and its Wait and be lost).
//
// The callback is looked at as an inlined view: the lock / flag / Broadcast / unlock sequence may be
// written in the literal handed to time.AfterFunc or in a method the literal calls (func() { s.expire(&flag) }).
func c30WakerCallbackOK(fn *core.FuncInfo, condField string) (bool, string) {
	wakes := func(g *core.FuncInfo) []*core.CallSite {
		var out []*core.CallSite
		for _, b := range g.CallsTo("sync.Cond.Broadcast", "sync.Cond.Signal") {
			if fieldNameOf(g, b.Recv()) == condField && !b.InGo {
				out = append(out, b)
			}
		}
		return out
	}
	sites := c30ViewSites(&c30Scope{F: fn}, 2, func(sc *c30Scope) []c30Site {
		var out []c30Site
		for _, b := range wakes(sc.F) {
			out = append(out, c30Site{Hops: []c30Hop{{sc, b.Pt}}, Pos: b.Pos()})
		}
		return out
	})
	if len(sites) == 0 {
		return false, "does not wake " + short(condField)
	}
	must := c30MustPoints(fn, 2, func(g *core.FuncInfo) []core.Point { return core.Points(wakes(g)) })
	if _, escapes := (core.PathQuery{F: fn, From: fn.Entry(), Avoid: core.PointSet(must...), TargetExit: true}).Find(); escapes || len(must) == 0 {
		return false, "does not broadcast on every path"
	}
	isLock := func(cs *core.CallSite) bool {
		return cs.Name == "sync.Mutex.Lock" || cs.Name == "sync.RWMutex.Lock" || cs.Name == "sync.Locker.Lock"
	}
	for _, s := range sites {
		// at some level of the call chain that leads to the broadcast the mutex has certainly been taken
		held := false
		for _, h := range s.Hops {
			locks := h.Sc.F.SitesMust(isLock, 1)
			if ok, _ := h.Sc.F.MustPassBefore(locks, h.Pt); ok && len(locks) > 0 {
				held = true
				break
			}
		}
		if !held {
			return false, "broadcasts without holding the mutex (wake-up can be lost between the deadline check and Wait)"
		}
	}
	return true, ""
}

// c30Wakers lists the calls of f that arm a valid deadline waker for condField.
func c30Wakers(f *core.FuncInfo, condField string, depth int) (out []c30Waker, why []string) {
	for _, cs := range f.Calls() {
		if cs.InGo || cs.InDefer {
			continue
		}
		if cs.Name == "time.AfterFunc" {
			if len(cs.Call.Args) != 2 {
				continue
			}
			fn := c30FuncValue(f, cs.Call.Args[1])
			if fn == nil {
				why = append(why, "AfterFunc callback at "+f.P.Pos(cs.Pos())+" cannot be resolved to a source function")
				continue
			}
			if ok, reason := c30WakerCallbackOK(fn, condField); !ok {
				why = append(why, "AfterFunc callback at "+f.P.Pos(cs.Pos())+" "+reason)
				continue
			}
			out = append(out, c30Waker{Arm: cs, Site: cs, Fn: fn})
			continue
		}
		if depth <= 0 {
			continue
		}
		g, _ := c30CalleeInfo(f, cs.Call)
		if g == nil || g == f {
			continue
		}
		sub, subWhy := c30Wakers(g, condField, depth-1)
		why = append(why, subWhy...)
		if len(sub) == 0 {
			continue
		}
		var pts []core.Point
		for _, s := range sub {
			pts = append(pts, s.Arm.Pt)
		}
		if _, escapes := (core.PathQuery{F: g, From: g.Entry(), Avoid: core.PointSet(pts...), TargetExit: true}).Find(); escapes {
			why = append(why, short(g.Name)+" arms the waker only on some paths")
			continue
		}
		for _, s := range sub {
			out = append(out, c30Waker{Arm: cs, Site: s.Site, Fn: s.Fn})
		}
	}
	return out, why
}

// c30WakerWrites: the variables of f that the waker's callback writes when it fires: variables it
// captures from f, and variables of f whose address was passed to the arming helper and stored through
// the corresponding pointer parameter (`*flag = true`).
func c30WakerWrites(f *core.FuncInfo, wk c30Waker) map[types.Object]bool {
	out := map[types.Object]bool{}
	// parameter of the arming helper -> variable of f whose address is passed
	byParam := map[*types.Var]*types.Var{}
	if wk.Arm != wk.Site {
		if g, _ := c30CalleeInfo(f, wk.Arm.Call); g != nil {
			for i, a := range wk.Arm.Call.Args {
				if u, ok := ast.Unparen(a).(*ast.UnaryExpr); ok && u.Op == token.AND {
					if v := varOf(f, u.X); v != nil {
						if pv := g.Param(i); pv != nil {
							byParam[pv] = v
						}
					}
				}
			}
		}
	}
	c30WrittenThrough(wk.Fn, byParam, 2, out)
	return out
}

// c30WrittenThrough adds to out the variables that g writes: variables it assigns by name (its own or
// captured ones) and the variables that its pointer parameters stand for (byParam) when it stores through
// them — in g itself or in the module functions / closures it calls, to which it may hand the address of
// a variable (s.expire(&flag)) or pass a pointer parameter along.
func c30WrittenThrough(g *core.FuncInfo, byParam map[*types.Var]*types.Var, depth int, out map[types.Object]bool) {
	for _, a := range assignments(g) {
		lhs := ast.Unparen(a.LHS)
		if st, ok := lhs.(*ast.StarExpr); ok {
			if pv := varOf(g, st.X); pv != nil && byParam[pv] != nil {
				out[byParam[pv]] = true
			}
			continue
		}
		if v := varOf(g, lhs); v != nil {
			out[v] = true
		}
	}
	if depth <= 0 {
		return
	}
	for _, cs := range g.Calls() {
		h, closure := c30CalleeInfo(g, cs.Call)
		if h == nil || h == g {
			continue
		}
		sub := map[*types.Var]*types.Var{}
		if closure {
			for k, v := range byParam {
				sub[k] = v
			}
		}
		for i, arg := range cs.Call.Args {
			pv := h.Param(i)
			if pv == nil {
				continue
			}
			if u, ok := ast.Unparen(arg).(*ast.UnaryExpr); ok && u.Op == token.AND {
				if v := varOf(g, u.X); v != nil {
					sub[pv] = v
				}
			} else if v := varOf(g, arg); v != nil && byParam[v] != nil {
				sub[pv] = byParam[v]
			}
		}
		c30WrittenThrough(h, sub, depth-1, out)
	}
}

// c30TimerStops lists the points of f at which one of the timers is cancelled (time.Timer.Stop on the
// variable, in f or in a module function / closure that f calls and hands the timer to). Calls that f
// defers are not listed: they run when f returns. Inside a helper a deferred Stop counts (it runs when
// the helper returns, i.e. at the call in f).
func c30TimerStops(f *core.FuncInfo, timers map[*types.Var]bool, depth int, inHelper bool) []core.Point {
	var out []core.Point
	for _, cs := range f.Calls() {
		if cs.InGo || cs.InDefer && !inHelper {
			continue
		}
		if cs.Name == "time.Timer.Stop" {
			if timers[varOfRaw(f, cs.Recv())] {
				out = append(out, cs.Pt)
			}
			continue
		}
		if depth <= 0 {
			continue
		}
		g, closure := c30CalleeInfo(f, cs.Call)
		if g == nil || g == f {
			continue
		}
		sub := map[*types.Var]bool{}
		if closure {
			for v := range timers {
				sub[v] = true
			}
		}
		for i, arg := range cs.Call.Args {
			if v := varOfRaw(f, arg); v != nil && timers[v] {
				if pv := g.Param(i); pv != nil {
					sub[pv] = true
				}
			}
		}
		if len(sub) > 0 && len(c30TimerStops(g, sub, depth-1, true)) > 0 {
			out = append(out, cs.Pt)
		}
	}
	return out
}

// checkTimedWait is T18: the cond.Wait w in f (which has a time.Duration parameter) needs a
// deadline-bound waker armed before it, broadcasting under the mutex, and the deadline must be
// re-checked between consecutive waits.
func checkTimedWait(c *core.Ctx, f *core.FuncInfo, w *core.CallSite) {
	condField := fieldNameOf(f, w.Recv())
	if condField == "" {
		c.Undecided("T18|cond", "T18 TimedWait", w.Pos(), "cannot identify the condition variable of Wait")
		return
	}
	wakers, why := c30Wakers(f, condField, 2)
	if len(wakers) == 0 {
		detail := "cond.Wait has no deadline-bound waker: if nothing is released, the caller blocks past its timeout"
		for _, y := range why {
			detail += "; " + y
		}
		c.Fail("T18|Acquire|waker armed before Wait", "T18 TimedWait", w.Pos(), detail)
		return
	}
	// armed before the wait: every path entry -> Wait passes an arming call, or an edge that proves the
	// timer variable (assigned only from arming calls) is non-nil
	var armPts []core.Point
	armCalls := map[ast.Expr]bool{}
	for _, wk := range wakers {
		armPts = append(armPts, wk.Arm.Pt)
		armCalls[ast.Expr(wk.Arm.Call)] = true
	}
	timerVars := map[*types.Var]bool{}
	for _, a := range assignments(f) {
		if a.RHS != nil && armCalls[ast.Unparen(a.RHS)] {
			if v := varOf(f, a.LHS); v != nil {
				timerVars[v] = true
			}
		}
	}
	for v := range timerVars {
		for _, a := range assignsToVar(f, v) {
			if a.RHS == nil {
				if _, isSpec := a.Stmt.(*ast.ValueSpec); isSpec {
					continue // var t *time.Timer
				}
				delete(timerVars, v)
				continue
			}
			if armCalls[ast.Unparen(a.RHS)] || core.IsNil(f.Info(), a.RHS) {
				continue
			}
			delete(timerVars, v)
		}
	}
	armedEdge := f.GuardEdges(func(ft core.Fact) bool {
		cm, ok := core.NormCmp(ft)
		if !ok || cm.R == nil || cm.Op != token.NEQ {
			return false
		}
		return timerVars[varOf(f, cm.L)] && core.IsNil(f.Info(), cm.R)
	})
	path, found := core.PathQuery{F: f, From: f.Entry(), Target: core.PointSet(w.Pt), Avoid: core.PointSet(armPts...), AvoidEdge: armedEdge}.Find()
	c.Check(!found, "T18|Acquire|waker armed before Wait", "T18 TimedWait", w.Pos(),
		fmt.Sprintf("every path to cond.Wait arms a time.AfterFunc waker that broadcasts on %s under the mutex", short(condField)),
		"cond.Wait reachable without the deadline waker armed: "+f.DescribePath(path))
	// still armed when the wait is (re-)entered: a waker that has been cancelled (timer.Stop() that is not
	// deferred to the return) must be armed again before the next Wait — the non-nil timer variable proves
	// nothing any more, the timer it holds is dead. Otherwise a caller that was woken once (by a release
	// too small for it, or by another waiter's broadcast) goes back to sleep with no pending waker and
	// blocks past its timeout if nothing else is released. After `timer = nil` the variable test is
	// meaningful again.
	stops := c30TimerStops(f, timerVars, 2, false)
	var nilAssigns []core.Point
	for v := range timerVars {
		for _, a := range assignsToVar(f, v) {
			if a.RHS != nil && core.IsNil(f.Info(), a.RHS) {
				nilAssigns = append(nilAssigns, a.Pt)
			}
		}
	}
	disarmed, found2 := []core.Point(nil), false
	for _, sp := range stops {
		if found2 {
			break
		}
		avoid := core.PointSet(append(append([]core.Point(nil), armPts...), nilAssigns...)...)
		disarmed, found2 = core.PathQuery{F: f, From: sp, FromAfter: true, Target: core.PointSet(w.Pt), Avoid: avoid}.Find()
		for _, np := range nilAssigns {
			if found2 || !f.CanReach(sp, np) {
				continue
			}
			disarmed, found2 = core.PathQuery{F: f, From: np, FromAfter: true, Target: core.PointSet(w.Pt), Avoid: core.PointSet(armPts...), AvoidEdge: armedEdge}.Find()
		}
	}
	pass := "the deadline waker is cancelled only when the waiting function returns (deferred Stop or none)"
	if len(stops) > 0 {
		pass = "every path from a cancellation of the deadline waker back to cond.Wait arms a new one"
	}
	c.Check(!found2, "T18|Acquire|waker still armed at Wait", "T18 TimedWait", w.Pos(), pass,
		"the deadline waker is stopped and cond.Wait is entered again without arming a new one: a caller woken once before its deadline (insufficient release, another waiter's broadcast) then sleeps with no pending waker and blocks past its timeout: "+f.DescribePath(disarmed))
	// deadline re-checked between waits: a branch whose outcome depends on time.Now/Since/Until or on a
	// variable the waker writes (the test may be made by a predicate helper or a local closure)
	wakerVars := map[types.Object]bool{}
	for _, wk := range wakers {
		for v := range c30WakerWrites(f, wk) {
			wakerVars[v] = true
		}
	}
	dl := condPoints(f, func(e ast.Expr) bool {
		return c30DependsOn(f, e, 2, func(g *core.FuncInfo, n ast.Node) bool {
			if mentionsCall(g, n, "time.Now", "time.Since", "time.Until") {
				return true
			}
			for v := range wakerVars {
				if mentionsObj(g, n, v) {
					return true
				}
			}
			return false
		})
	})
	ok, wit := f.MustPassBetween(w.Pt, dl, w.Pt)
	c.Check(ok && len(dl) > 0, "T18|Acquire|deadline re-checked after wake", "T18 TimedWait", w.Pos(),
		"every path from Wait back to Wait passes a deadline test", "a path from Wait back to Wait skips the deadline test: "+f.DescribePath(wit))
}
