package rules

import (
	"go/ast"
	"go/types"

	"lachk/core"
)

// Nil-ness of the value a batch entry is created with (C22.tombstone, batch part).
//
// In a cacheBatch entry a nil value means "delete" (Write and Replay split on it). Put therefore has to
// record a value that is nil only if the caller's value is nil: an empty, non-nil value is a legal value
// and must stay a put. Whether that holds is a question about the expression stored in the entry's value
// field, answered with a small abstract value, followed through single-definition locals, conversions,
// helper parameters (bound to the arguments at the call) and helper results:
//
//	keeps  — nil exactly when Put's value parameter is nil (the parameter, common.CopyBytes of it)
//	fresh  — never nil (make, a composite literal, append onto a never-nil slice)
//	nil    — always nil
//	maybe  — can be nil although the input is not: append(nil-slice, x...) yields nil for an empty x
//	""     — not decided (no alarm: the clause only reports constructs it understands)
const (
	c22Keeps = "keeps"
	c22Fresh = "fresh"
	c22Nil   = "nil"
	c22Maybe = "maybe"
)

type c22NilEnv map[*types.Var]string

func c22NilClass(g *core.FuncInfo, env c22NilEnv, e ast.Expr, depth int) string {
	if e == nil {
		return ""
	}
	e = core.StripConv(g.Info(), resolveLocal(g, e))
	e = resolveLocal(g, e)
	if core.IsNil(g.Info(), e) {
		return c22Nil
	}
	if v := varOf(g, e); v != nil {
		if c := env[v]; c != "" {
			return c
		}
		return env[canonVar(g, v)]
	}
	switch x := e.(type) {
	case *ast.CompositeLit:
		return c22Fresh
	case *ast.SliceExpr:
		// x[:] / x[a:b] of a non-nil slice is non-nil; of nil it is nil
		if c := c22NilClass(g, env, x.X, depth); c == c22Keeps || c == c22Fresh || c == c22Nil {
			return c
		}
		return ""
	case *ast.CallExpr:
		if b, ok := g.ObjOf(x.Fun).(*types.Builtin); ok {
			switch b.Name() {
			case "make":
				return c22Fresh
			case "append":
				if len(x.Args) == 0 {
					return ""
				}
				switch c22NilClass(g, env, x.Args[0], depth) {
				case c22Fresh:
					return c22Fresh
				case c22Nil:
					if len(x.Args) == 2 && x.Ellipsis.IsValid() {
						return c22Maybe
					}
					if len(x.Args) >= 2 {
						return c22Fresh // at least one element appended
					}
					return c22Nil
				}
				return ""
			}
			return ""
		}
		if calleeName(g, x) == "github.com/ethereum/go-ethereum/common.CopyBytes" && len(x.Args) == 1 {
			// nil in, nil out; otherwise a fresh slice of the same length (non-nil also for length 0)
			return c22NilClass(g, env, x.Args[0], depth)
		}
		if depth <= 0 {
			return ""
		}
		fn, _ := g.ObjOf(x.Fun).(*types.Func)
		h := g.P.FuncOf(fn)
		if h == nil || h == g {
			return ""
		}
		henv := c22NilBind(g, env, x, h, depth)
		res := ""
		for _, rp := range h.ReturnPoints() {
			r, _ := rp.Node().(*ast.ReturnStmt)
			if r == nil || len(r.Results) != 1 {
				return ""
			}
			c := c22NilClass(h, henv, r.Results[0], depth-1)
			switch {
			case c == "":
				return ""
			case res == "" || res == c:
				res = c
			case c == c22Maybe || res == c22Maybe:
				res = c22Maybe
			default:
				return "" // mixed results: not decided
			}
		}
		return res
	}
	return ""
}

// c22NilBind: the classes of the arguments of call (in g) bound to the parameters of h that h never
// re-assigns.
func c22NilBind(g *core.FuncInfo, env c22NilEnv, call *ast.CallExpr, h *core.FuncInfo, depth int) c22NilEnv {
	henv := c22NilEnv{}
	sig, _ := h.Obj.Type().(*types.Signature)
	for i, a := range call.Args {
		if sig != nil && sig.Variadic() && i >= sig.Params().Len()-1 {
			break
		}
		pv := h.Param(i)
		if pv == nil || len(assignsToVar(h, pv)) > 0 {
			continue
		}
		if c := c22NilClass(g, env, a, depth-1); c != "" {
			henv[pv] = c
		}
	}
	return henv
}

// c22EntryValue is one place where a batch entry's value field receives its value.
type c22EntryValue struct {
	Host  *core.FuncInfo
	Expr  ast.Expr // nil when a keyed literal leaves the field out (zero value: nil)
	Node  ast.Node
	Class string
}

// c22EntryValues walks from g (entered with env) through the module functions it calls and lists the
// places where a value of the entry type is given its value field: composite literals of the entry type
// and assignments to the field.
func c22EntryValues(g *core.FuncInfo, env c22NilEnv, depth int, seen map[*core.FuncInfo]bool) []c22EntryValue {
	const entryT, valueF = "kvdb/flushable.kv", "kvdb/flushable.kv.v"
	if seen[g] {
		return nil
	}
	seen[g] = true
	var out []c22EntryValue
	add := func(n ast.Node, e ast.Expr) {
		cl := c22Nil
		if e != nil {
			cl = c22NilClass(g, env, e, 2)
		}
		out = append(out, c22EntryValue{Host: g, Expr: e, Node: n, Class: cl})
	}
	g.InspectOwn(func(n ast.Node) bool {
		cl, ok := n.(*ast.CompositeLit)
		if !ok {
			return true
		}
		t := g.Info().TypeOf(cl)
		if t == nil || t.String() != core.ModPath+"/"+entryT {
			return true
		}
		if len(cl.Elts) == 0 {
			add(cl, nil)
			return true
		}
		if _, keyed := cl.Elts[0].(*ast.KeyValueExpr); !keyed {
			// positional: the value field by its index in the struct
			if st, ok := t.Underlying().(*types.Struct); ok {
				for i := 0; i < st.NumFields() && i < len(cl.Elts); i++ {
					if g.P.FieldName(st.Field(i)) == valueF {
						add(cl, cl.Elts[i])
					}
				}
			}
			return true
		}
		found := false
		for _, el := range cl.Elts {
			if kv, ok := el.(*ast.KeyValueExpr); ok {
				if id, ok := kv.Key.(*ast.Ident); ok {
					if v, ok := g.Info().ObjectOf(id).(*types.Var); ok && g.P.FieldName(v) == valueF {
						add(cl, kv.Value)
						found = true
					}
				}
			}
		}
		if !found {
			add(cl, nil)
		}
		return true
	})
	for _, a := range assignsToField(g, valueF) {
		if a.RHS != nil {
			add(a.Stmt, a.RHS)
		}
	}
	if depth > 0 {
		for _, cs := range g.Calls() {
			if h := c22Callee(cs); h != nil && h.Obj != nil {
				out = append(out, c22EntryValues(h, c22NilBind(g, env, cs.Call, h, 2), depth-1, seen)...)
			}
		}
	}
	return out
}
