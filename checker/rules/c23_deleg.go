package rules

import (
	"go/ast"
	"go/types"
	"strings"

	"lachk/core"
)

// Delegation view of C23.wrapper (T20): the points of a wrapper method at which the same-named operation is
// certainly made on the wrapped key-value value, whatever carries the call:
//
//   - the method itself (`s.underlying.Put(k, v)`, `it.Iterator.Next()` through an embedded field);
//   - a declared function of the module that always makes it (the wrapped fields are fields of the type, so a
//     sibling method of the wrapper sees them as the operation does);
//   - a function that receives the wrapped value as a plain argument (`nextVisible(it.Iterator, it.skipPrefix)`:
//     a method turned into a function over the receiver's fields): the parameter is bound to the wrapped value
//     and the function always calls the operation on it;
//   - a function literal handed to a function that always calls it (`s.modify(func() error { return
//     s.Store.Put(k, v) })`: near-duplicate bodies unified into one function taking a callback), the literal's
//     parameters bound to the wrapped value when the caller passes it (`s.exclusively(func(db kvdb.Store) error
//     { return db.Put(k, v) })` with `op(s.underlying)` inside).
//
// "Always" is the wrapper rule's own notion (c23SkipsDelegate): every feasible path to a non-error exit. No
// name of a helper, parameter or literal is used; depth is bounded.
type c23DelegView struct {
	p       *core.Prog
	wrapped map[*types.Var]bool
	m       string
}

// c23Callback is a function literal travelling as an argument, with the variables that denote the wrapped
// value where the literal was written (it may capture them).
type c23Callback struct {
	lit   *core.FuncInfo
	bound map[*types.Var]bool
}

// isWrapped: does e denote the wrapped value in h — a selection of a wrapped field (looked through
// single-definition locals) or a variable bound to it?
func (v *c23DelegView) isWrapped(h *core.FuncInfo, e ast.Expr, bound map[*types.Var]bool) bool {
	if e == nil {
		return false
	}
	if x := varOf(h, e); x != nil && bound[x] {
		return true
	}
	r := ast.Unparen(resolveLocal(h, e))
	if x := varOf(h, r); x != nil && bound[x] {
		return true
	}
	if sel, ok := r.(*ast.SelectorExpr); ok {
		if s, ok := h.Info().Selections[sel]; ok && s.Kind() == types.FieldVal {
			if fv, ok := s.Obj().(*types.Var); ok && v.wrapped[fv] {
				return true
			}
		}
	}
	return false
}

// direct: the call is the operation m on the wrapped value.
func (v *c23DelegView) direct(h *core.FuncInfo, cs *core.CallSite, bound map[*types.Var]bool) bool {
	if c23MethodOf(cs.Name) != v.m {
		return false
	}
	if c23WrappedTarget(h, cs, v.wrapped) != nil {
		return true
	}
	if r := cs.Recv(); r != nil && len(bound) > 0 {
		if x := varOf(h, r); x != nil && bound[x] {
			return true
		}
		if x := varOf(h, resolveLocal(h, r)); x != nil && bound[x] {
			return true
		}
	}
	return false
}

// points lists the points of h at which the operation is certainly made on the wrapped value.
func (v *c23DelegView) points(h *core.FuncInfo, bound map[*types.Var]bool, cbs map[*types.Var]*c23Callback, depth int) []core.Point {
	var out []core.Point
	for _, cs := range h.Calls() {
		if cs.InGo || cs.IsConv {
			continue
		}
		if v.direct(h, cs, bound) {
			out = append(out, cs.Pt)
			continue
		}
		if depth <= 0 {
			continue
		}
		// a call of a callback parameter
		if x := varOf(h, cs.Call.Fun); x != nil && cbs[x] != nil {
			cb := cbs[x]
			lb := map[*types.Var]bool{}
			for k := range cb.bound {
				lb[k] = true
			}
			for j, a := range cs.Call.Args {
				if pv := cb.lit.Param(j); pv != nil && v.isWrapped(h, a, bound) && !c23Reassigned(cb.lit, pv) {
					lb[pv] = true
				}
			}
			if v.always(cb.lit, lb, nil, depth-1) {
				out = append(out, cs.Pt)
			}
			continue
		}
		fn, _ := cs.Callee.(*types.Func)
		g := v.p.FuncOf(fn)
		if g == nil || g == h {
			continue
		}
		if sig, _ := fn.Type().(*types.Signature); sig == nil || sig.Variadic() {
			continue
		}
		gb := map[*types.Var]bool{}
		gc := map[*types.Var]*c23Callback{}
		for i, a := range cs.Call.Args {
			pv := g.Param(i)
			if pv == nil || c23Reassigned(g, pv) {
				continue
			}
			switch {
			case v.isWrapped(h, a, bound):
				gb[pv] = true
			default:
				if lit, ok := ast.Unparen(resolveLocal(h, a)).(*ast.FuncLit); ok {
					if li := v.p.LitInfo(lit); li != nil {
						gc[pv] = &c23Callback{lit: li, bound: bound}
					}
				} else if x := varOf(h, a); x != nil && cbs[x] != nil {
					gc[pv] = cbs[x]
				}
			}
		}
		if v.always(g, gb, gc, depth-1) {
			out = append(out, cs.Pt)
		}
	}
	return out
}

// always: every feasible path of g to a non-error exit makes the operation on the wrapped value.
func (v *c23DelegView) always(g *core.FuncInfo, bound map[*types.Var]bool, cbs map[*types.Var]*c23Callback, depth int) bool {
	pts := v.points(g, bound, cbs, depth)
	if len(pts) == 0 {
		return false
	}
	skips, _ := c23SkipsDelegate(g, pts)
	return !skips
}

// c23OnLibrary: is the call made on a value of the storage library lib ("<import path>.")? Either the callee
// is declared by the library, or the receiver is a parameter, of an interface type, of an unexported function
// every use of which in its package is a call passing a value whose static type the library declares (two
// duplicate bodies over *leveldb.DB and *leveldb.Snapshot unified into one function over a small unexported
// interface both satisfy).
func c23OnLibrary(x *core.CallSite, lib string) bool {
	if strings.HasPrefix(x.Name, lib) {
		return true
	}
	f := x.F
	r := x.Recv()
	if f == nil || r == nil || f.Obj == nil || f.Obj.Exported() {
		return false
	}
	pv := varOf(f, r)
	if pv == nil || !types.IsInterface(pv.Type()) || c23Reassigned(f, pv) {
		return false
	}
	i := c23ParamIndex(f, pv)
	if i < 0 {
		return false
	}
	libPath := strings.TrimSuffix(lib, ".")
	fromLib := func(t types.Type) bool {
		if pt, ok := t.(*types.Pointer); ok {
			t = pt.Elem()
		}
		n, ok := t.(*types.Named)
		return ok && n.Obj().Pkg() != nil && n.Obj().Pkg().Path() == libPath
	}
	nCalls, nUses := 0, 0
	for _, top := range f.P.FuncsInPkg(core.RelPkg(f.Pkg.PkgPath)) {
		for _, g := range append([]*core.FuncInfo{top}, allLits(top)...) {
			for _, cs := range g.Calls() {
				if cs.Callee != types.Object(f.Obj) {
					continue
				}
				nCalls++
				if i >= len(cs.Call.Args) {
					return false
				}
				if t := g.Info().TypeOf(cs.Call.Args[i]); t == nil || !fromLib(t) {
					return false
				}
			}
		}
		top.InspectAll(func(n ast.Node) bool {
			if id, ok := n.(*ast.Ident); ok && top.Info().Uses[id] == types.Object(f.Obj) {
				nUses++
			}
			return true
		})
	}
	return nCalls >= 1 && nUses == nCalls
}
