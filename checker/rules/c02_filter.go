package rules

import (
	"go/ast"
	"go/types"

	"lachk/core"
)

// c02Filter is the confirmation walk's filter as a view: the function whose body decides whether an
// event is delivered, with matchers that translate its expressions into confirmEvents' terms (the block's
// frame, the application's per-event callback). The filter handed to the walk may be
//
//   - a function literal of confirmEvents (captured variables are confirmEvents' own);
//   - a literal that only forwards to a module function (its parameters stand for the literal's and the
//     captured variables);
//   - a method value bound to a struct that confirmEvents builds (`c := &T{frame: frame, cb: cb};
//     walk(atropos, c.visit)`): the receiver's fields stand for the expressions of the literal, provided
//     those fields are assigned nowhere else in the package;
//   - such a struct itself, handed to a walk whose parameter is an interface with a single method: the
//     filter is the struct type's method of that name.
//
// Candidate for promotion to core/helpers: "a function value as a view" (closure / forwarding closure /
// bound method).
type c02Filter struct {
	fn      *core.FuncInfo
	ev      *types.Var
	isFrame func(ast.Expr) bool
	isCb    func(ast.Expr) bool // the callee expression of a call denotes the per-event callback
	// the functions that make up the filter and are used for nothing else (C02.who)
	own []*core.FuncInfo
}

// want is the type of the walk's parameter that receives arg (nil when not known).
func c02FilterOf(f *core.FuncInfo, arg ast.Expr, want types.Type, frame, cb *types.Var) (c02Filter, bool) {
	p := f.P
	val := resolveLocal(f, arg)
	if lit, ok := val.(*ast.FuncLit); ok {
		l := p.LitInfo(lit)
		if l == nil {
			return c02Filter{}, false
		}
		isVar := func(g *core.FuncInfo, want *types.Var) func(ast.Expr) bool {
			return func(e ast.Expr) bool {
				return want != nil && e != nil && canonVar(g, varOf(g, resolveLocal(g, e))) == want
			}
		}
		out := c02Filter{fn: l, ev: l.Param(0), isFrame: isVar(l, frame), isCb: isVar(l, cb), own: []*core.FuncInfo{l}}
		// a closure that only forwards to a module function: that function is the filter, and its parameters
		// stand for the visited event, the block's frame and the callback that the closure hands over
		if fw, ok := c02Forwarding(l); ok && fw.G.Type.Params != nil {
			var ev2, frame2, cb2 *types.Var
			for _, fl := range fw.G.Type.Params.List {
				for _, nm := range fl.Names {
					pv, _ := fw.G.Info().Defs[nm].(*types.Var)
					_, cv, bound := fw.bindVar(pv)
					switch {
					case !bound || cv == nil:
					case cv == l.Param(0):
						ev2 = pv
					case frame != nil && cv == frame:
						frame2 = pv
					case cb != nil && cv == cb:
						cb2 = pv
					}
				}
			}
			if ev2 != nil {
				out.fn, out.ev, out.isFrame, out.isCb = fw.G, ev2, isVar(fw.G, frame2), isVar(fw.G, cb2)
				if fw.G.Obj != nil && c02OnlyUsedIn(p, fw.G.Obj, lit) {
					out.own = append(out.own, fw.G)
				}
			}
		}
		return out, true
	}
	// a bound method
	if sel, ok := val.(*ast.SelectorExpr); ok {
		s, ok := f.Info().Selections[sel]
		if !ok || s.Kind() != types.MethodVal {
			return c02Filter{}, false
		}
		fn, _ := s.Obj().(*types.Func)
		return c02BoundFilter(f, fn, sel.X, sel, frame, cb)
	}
	// a value of a module type handed to a walk that takes a small interface: the filter is the type's
	// method that implements the interface's single method (`walk(atropos, &confirmer{frame: frame, …})`)
	if want == nil || c01StructFields(f, val) == nil {
		return c02Filter{}, false
	}
	it, ok := want.Underlying().(*types.Interface)
	if !ok || it.NumMethods() != 1 {
		return c02Filter{}, false
	}
	t := f.Info().TypeOf(val)
	if t == nil {
		return c02Filter{}, false
	}
	m := it.Method(0)
	obj, _, _ := types.LookupFieldOrMethod(t, true, m.Pkg(), m.Name())
	fn, _ := obj.(*types.Func)
	return c02BoundFilter(f, fn, val, val, frame, cb)
}

// c02BoundFilter: the filter is method fn called on the struct value that recvExpr builds in f.
func c02BoundFilter(f *core.FuncInfo, fn *types.Func, recvExpr ast.Expr, within ast.Node, frame, cb *types.Var) (c02Filter, bool) {
	p := f.P
	if fn == nil {
		return c02Filter{}, false
	}
	g := p.FuncOf(fn)
	if g == nil || g.Recv() == nil {
		return c02Filter{}, false
	}
	fields := c01StructFields(f, recvExpr)
	if fields == nil {
		return c02Filter{}, false
	}
	recv := g.Recv()
	// recv.field in g -> the expression the literal in f gives that field
	fieldOf := func(e ast.Expr) ast.Expr {
		fs, ok := resolveLocal(g, e).(*ast.SelectorExpr)
		if !ok {
			return nil
		}
		fsel, ok := g.Info().Selections[fs]
		if !ok || fsel.Kind() != types.FieldVal || canonVar(g, varOf(g, fs.X)) != recv {
			return nil
		}
		fv, _ := fsel.Obj().(*types.Var)
		if fv == nil {
			return nil
		}
		name := p.FieldName(fv)
		for _, h := range p.FuncsInPkg(core.RelPkg(g.Pkg.PkgPath)) {
			for _, hh := range append([]*core.FuncInfo{h}, allLits(h)...) {
				if len(assignsToField(hh, name)) > 0 {
					return nil // the field does not simply hold what the literal put there
				}
			}
		}
		return fields[fs.Sel.Name]
	}
	callerVar := func(want *types.Var) func(ast.Expr) bool {
		return func(e ast.Expr) bool {
			if want == nil || e == nil {
				return false
			}
			x := fieldOf(e)
			return x != nil && canonVar(f, varOf(f, resolveLocal(f, x))) == want
		}
	}
	out := c02Filter{fn: g, ev: g.Param(0), isFrame: callerVar(frame), isCb: callerVar(cb)}
	if c02OnlyUsedIn(p, fn, within) {
		out.own = append(out.own, g)
	}
	return out, true
}

// c02OnlyUsedIn: every use of the object in the module lies within the given syntax node.
func c02OnlyUsedIn(p *core.Prog, obj types.Object, within ast.Node) bool {
	for _, pk := range p.All {
		for id, o := range pk.TypesInfo.Uses {
			if o == obj && !(within.Pos() <= id.Pos() && id.End() <= within.End()) {
				return false
			}
		}
	}
	return true
}

// c02PushKind classifies a call as a push onto a stack by what the callee does, not by its name: a module
// method with a pointer-to-slice receiver whose body appends its parameter to the receiver — one element
// (single) or, with `…`, all elements of the parameter (bulk). For callees without a body the
// conventional names decide.
func c02PushKind(cs *core.CallSite) (single, bulk bool) {
	fn, _ := cs.Callee.(*types.Func)
	if fn == nil {
		return false, false
	}
	h := cs.F.P.FuncOf(fn)
	if h == nil {
		return methodNamed(cs.Name, "Push"), methodNamed(cs.Name, "PushAll")
	}
	recv := h.Recv()
	if recv == nil || h.Param(0) == nil {
		return false, false
	}
	deref := func(e ast.Expr) *types.Var {
		if st, ok := ast.Unparen(e).(*ast.StarExpr); ok {
			return varOf(h, st.X)
		}
		return nil
	}
	n := 0
	for _, a := range assignments(h) {
		n++
		ap := isCallTo(h, a.RHS, "builtin.append")
		if ap == nil || a.RHS == nil || len(ap.Args) != 2 || deref(a.LHS) != recv || deref(ap.Args[0]) != recv {
			continue
		}
		if varOf(h, ap.Args[1]) != h.Param(0) {
			continue
		}
		if ap.Ellipsis.IsValid() {
			bulk = true
		} else {
			single = true
		}
	}
	if n != 1 {
		return false, false
	}
	return single, bulk
}
