package rules

import (
	"go/ast"
	"go/types"
	"strings"

	"golang.org/x/tools/go/cfg"

	"lachk/core"
)

// c03Order decides the order/source clause of the cheater list on Lachesis.applyAtropos, independent of
// how the loop is written (range over the canonical ids, indexed loop over them, counted loop over the
// validator indexes; guard as if-block or as negated early continue; locals looked through):
//
//   - the list is built by appends inside one iteration that covers every validator in canonical order;
//   - in each iteration the append is reached only on the edge where the merged vector's entry for this
//     iteration's validator index is fork-detected, and that edge always reaches the append (iff);
//   - the appended value is this iteration's validator;
//   - the list is not reordered or overwritten and is what the block carries.
//
// The list may be built in applyAtropos itself or in a module function whose result applyAtropos puts
// into the block (c03ListBuilder): the clause is then decided on that function, with the Atropos being
// the parameter that receives applyAtropos' Atropos, and the function must return the list it built.
func c03Order(c *core.Ctx) {
	c.Clause("C03.order", func() {
		aa := c.Fn("abft.Lachesis.applyAtropos")
		view, atropos, listExpr := c03ListBuilder(aa)
		f := view.G
		info := f.Info()
		// the merged clock of the block's Atropos
		isVec := func(e ast.Expr) bool {
			call, ok := resolveLocal(f, e).(*ast.CallExpr)
			if !ok || !methodNamed(calleeName(f, call), "GetMergedHighestBefore") || len(call.Args) != 1 {
				return false
			}
			return atropos != nil && canonVar(f, varOf(f, call.Args[0])) == atropos
		}
		nVec := 0
		for _, cs := range f.Calls() {
			if isVec(cs.Call) {
				nVec++
			}
		}
		c.Check(nVec >= 1, "vector is the merged clock of the block's Atropos", "provenance", f.Pos(), "GetMergedHighestBefore(atropos)", "the cheater list is not computed from the Atropos' merged vector clock")
		isCanonIDs := func(e ast.Expr) bool {
			return e != nil && isCallTo(f, e, "inter/pos.Validators.SortedIDs", "inter/pos.Validators.IDs") != nil
		}

		// appends to a []idx.ValidatorID that extend the same variable
		var cheaters *types.Var
		nApp := 0
		var appendPts []core.Point
		type app struct {
			a  assignment
			ap *ast.CallExpr
		}
		var apps []app
		for _, a := range assignments(f) {
			ap := isCallTo(f, a.RHS, "builtin.append")
			if ap == nil || a.RHS == nil {
				continue
			}
			v := varOf(f, a.LHS)
			if v == nil || varOf(f, ap.Args[0]) != v {
				continue
			}
			if t, ok := v.Type().Underlying().(*types.Slice); !ok || !strings.HasSuffix(t.Elem().String(), "idx.ValidatorID") {
				continue
			}
			cheaters = v
			nApp++
			appendPts = append(appendPts, a.Pt)
			apps = append(apps, app{a, ap})
		}
		for _, x := range apps {
			a, ap := x.a, x.ap
			const key = "validator i is listed iff entry i of the merged vector is fork-detected"
			const rule = "provenance + T4 (per iteration, both directions)"
			const bad = "the cheater list is not built entry-by-entry from the merged vector in canonical order"
			loop := enclosingLoop(f, a.Stmt.Pos())
			it, isIt := c01IterationOf(f, loop)
			if loop == nil || !isIt {
				c.Fail(key, rule, a.Stmt.Pos(), bad+": the append is not inside a recognised iteration over the validators")
				continue
			}
			// coverage: all validators, in canonical order
			overIDs := it.Coll != nil && isCanonIDs(it.Coll)
			overIdx := false
			if it.Coll == nil && it.Bound != nil {
				l := core.Linearize(info, resolveLocal(f, it.Bound), func(e ast.Expr) string {
					if isCallTo(f, e, "inter/pos.Validators.Len") != nil {
						return "n"
					}
					return ""
				})
				overIdx = len(l.Coef) == 1 && coefIs(l, "n", 1) && l.C.Sign() == 0
			}
			covers := it.FromZero && it.Complete && (overIDs || overIdx)
			if it.Counted {
				c.Check(covers, "counted loop covers every validator index", "T8 (normalised bound)", loop.Pos(), "the loop runs over the indexes 0 .. Len()-1 of the canonical order and is left only at its end", "the loop over validator indexes does not run from 0 to Len()-1 inclusive: the last (or first) validators can never be listed as cheaters")
			}
			// this iteration's validator index / validator
			isElem := func(e ast.Expr) bool {
				e = resolveLocal(f, e)
				if ix, ok := e.(*ast.IndexExpr); ok {
					// ids[i]: ids must be the canonical id slice
					return it.Index != nil && varOf(f, core.StripConv(info, ix.Index)) == it.Index && isCanonIDs(ix.X)
				}
				if call, ok := e.(*ast.CallExpr); ok && calleeName(f, call) == "inter/pos.Validators.GetID" && len(call.Args) == 1 {
					return it.Index != nil && varOf(f, core.StripConv(info, resolveLocal(f, call.Args[0]))) == it.Index
				}
				return overIDs && it.Value != nil && varOf(f, e) == it.Value
			}
			isIdx := func(e ast.Expr) bool {
				e = core.StripConv(info, resolveLocal(f, e))
				if it.Index != nil && varOf(f, e) == it.Index {
					return true
				}
				if call, ok := e.(*ast.CallExpr); ok && calleeName(f, call) == "inter/pos.Validators.GetIdx" && len(call.Args) == 1 {
					return isElem(call.Args[0])
				}
				return false
			}
			forkedIs := func(ft core.Fact, want bool) bool {
				e, truth, ok := c01BoolOperand(info, ft)
				if !ok || truth != want {
					return false
				}
				call, ok := resolveLocal(f, e).(*ast.CallExpr)
				if !ok || !methodNamed(calleeName(f, call), "IsForkDetected") {
					return false
				}
				sel, ok := ast.Unparen(call.Fun).(*ast.SelectorExpr)
				if !ok {
					return false
				}
				get, ok := resolveLocal(f, sel.X).(*ast.CallExpr)
				if !ok || !methodNamed(calleeName(f, get), "Get") || len(get.Args) != 1 {
					return false
				}
				gs, ok := ast.Unparen(get.Fun).(*ast.SelectorExpr)
				return ok && isVec(gs.X) && isIdx(get.Args[0])
			}
			forked := func(ft core.Fact) bool { return forkedIs(ft, true) }
			notForked := func(ft core.Fact) bool { return forkedIs(ft, false) }
			okVal := len(ap.Args) == 2 && isElem(ap.Args[1])
			// only if: within the iteration the append is reached only over the fork-detected edge
			okOnlyIf, okIf := false, false
			why := ""
			if it.Head != nil && len(it.Head.Succs) > 0 {
				body := it.Head.Succs[0]
				p, found := core.PathQuery{F: f, From: core.Point{B: body, I: 0}, Target: core.PointSet(a.Pt), AvoidEdge: f.GuardEdges(forked)}.Find()
				okOnlyIf = !found
				if found {
					why = "the append is reachable without the fork test of this validator's entry (" + f.DescribePath(p) + ")"
				}
				// if: an iteration can end without the append only over an edge on which the entry is
				// not fork-detected (a guard weakened by an extra conjunct leaves such a path)
				okIf = len(edgesWithFact(f, forked)) > 0
				p, found = core.PathQuery{F: f, From: core.Point{B: body, I: 0}, Avoid: core.PointSet(appendPts...), AvoidEdge: f.GuardEdges(notForked), TargetExit: true,
					TargetBlock: func(b *cfg.Block) bool { return b == it.Head || (it.Done != nil && b == it.Done) }}.Find()
				if found {
					okIf = false
					if why == "" {
						why = "a validator whose entry is fork-detected can be left out (" + f.DescribePath(p) + ")"
					}
				}
			}
			if !okVal && why == "" {
				why = "the appended value is not this iteration's validator"
			}
			if !(overIDs || overIdx) && why == "" {
				why = "the loop does not run over the validator set's canonical order"
			}
			if !covers && why == "" {
				why = "the loop does not start at the first validator or can be left (break) before every validator was examined"
			}
			c.Check(okVal && okOnlyIf && okIf && (overIDs || overIdx) && (it.Counted || covers), key, rule, a.Stmt.Pos(),
				"append(cheaters, validator of this iteration) inside the canonical-order loop, on and only on the vec.Get(i).IsForkDetected() edge", bad+": "+why)
		}
		c.ExpectAtLeast("cheater appends", nApp, 1)
		// no reorder: cheaters is only appended to and handed to the block
		okUse := cheaters != nil
		untouched := func(g *core.FuncInfo, list *types.Var) bool {
			ok := true
			for _, cs := range g.Calls() {
				if strings.HasPrefix(cs.Name, "sort.") || strings.HasPrefix(cs.Name, "slices.") {
					for _, a := range cs.Call.Args {
						if mentionsObj(g, a, list) {
							ok = false
						}
					}
				}
			}
			for _, a := range assignments(g) {
				if r, through := ast.Unparen(a.LHS).(*ast.IndexExpr); through && varOf(g, r.X) == list {
					ok = false
				}
			}
			return ok
		}
		if cheaters != nil {
			okUse = untouched(f, cheaters)
			if f != aa {
				// the local of applyAtropos that receives the helper's list
				if lv := varOf(aa, listExpr); lv != nil {
					okUse = okUse && untouched(aa, lv)
				}
			}
		}
		c.Check(okUse, "cheater list is not reordered", "T6", f.Pos(), "the list is only appended to and handed to the block", "the cheater list is sorted or overwritten after it was built")
		// the list is what the block carries: the block's Cheaters field is the appended list, or the
		// result of the function that builds it and returns it on every path
		okBlk := false
		if cheaters != nil && listExpr != nil {
			if f == aa {
				okBlk = canonVar(aa, varOf(aa, listExpr)) == cheaters
			} else {
				n := 0
				okBlk = true
				for _, rp := range f.ReturnPoints() {
					n++
					if r := rp.Node().(*ast.ReturnStmt); len(r.Results) != 1 || canonVar(f, varOf(f, r.Results[0])) != cheaters {
						okBlk = false
					}
				}
				okBlk = okBlk && n > 0
			}
		}
		c.Check(okBlk, "the list built is the block's cheater list", "provenance", f.Pos(), "Block{Cheaters: the appended list}", "the block handed to the application does not carry the list built from the merged vector")
	})
}

// c03ListBuilder locates the function in which the block's cheater list is built. It reads the value of
// the Cheaters field of the lachesis.Block literal in applyAtropos: a list appended to in place gives
// the direct view; the result of a static call of a module function gives that function as the view,
// together with its parameter that receives applyAtropos' Atropos. Without a block literal the direct
// view is returned (the clause then reports what is missing).
func c03ListBuilder(aa *core.FuncInfo) (view c01Effect, atropos *types.Var, listExpr ast.Expr) {
	view = c01Effect{Caller: aa, G: aa}
	atropos = aa.Param(1)
	aa.InspectOwn(func(n ast.Node) bool {
		if cl, ok := n.(*ast.CompositeLit); ok && listExpr == nil {
			if t := aa.Info().TypeOf(cl); t != nil && t.String() == core.ModPath+"/lachesis.Block" {
				if v, has := c01StructFields(aa, cl)["Cheaters"]; has {
					listExpr = v
				}
			}
		}
		return true
	})
	if listExpr == nil {
		return
	}
	pv, ok := c01Producer(aa, listExpr)
	if !ok {
		return
	}
	view = pv
	var at *types.Var
	for _, fl := range pv.G.Type.Params.List {
		for _, nm := range fl.Names {
			pvar, _ := pv.G.Info().Defs[nm].(*types.Var)
			if _, cv, bound := pv.bindVar(pvar); bound && cv != nil && cv == canonVar(aa, atropos) && atropos != nil {
				at = pvar
			}
		}
	}
	atropos = at
	return
}
