package rules

import (
	"go/ast"
	"go/token"
	"go/types"

	"lachk/core"
)

// ---------------------------------------------------------------------------
// C33.owners helper: who may hand out the whole cache struct

// c33onlyNil: is e (a function literal, possibly held in a local defined once) a producer every
// return of which yields nil?
func c33onlyNil(f *core.FuncInfo, e ast.Expr) bool {
	lit, ok := resolveLocal(f, e).(*ast.FuncLit)
	if !ok {
		return false
	}
	li := f.P.LitInfo(lit)
	if li == nil {
		return false
	}
	rets := li.ReturnPoints()
	if len(rets) == 0 {
		return false
	}
	for _, rp := range rets {
		r := rp.Node().(*ast.ReturnStmt)
		if len(r.Results) != 1 || !core.IsNil(li.Info(), r.Results[0]) {
			return false
		}
	}
	return true
}

// c33onlyFrom: is f the named root, or a function all of whose callers (in the loaded module,
// transitively up to depth) are? A function nobody calls is not.
func c33onlyFrom(f *core.FuncInfo, root string, depth int) bool {
	for f.Parent != nil {
		f = f.Parent
	}
	if f.Name == root {
		return true
	}
	if depth <= 0 || f.Obj == nil {
		return false
	}
	n := 0
	for _, g := range f.P.Funcs() {
		for _, cs := range g.Calls() {
			fn, ok := cs.Callee.(*types.Func)
			if !ok || f.P.FuncOf(fn) != f {
				continue
			}
			n++
			if g == f || !c33onlyFrom(g, root, depth-1) {
				return false
			}
		}
	}
	return n > 0
}

// c33cacheHandout decides whether handing out the whole cache struct (sel = s.cache, not followed by
// a field selection) at this place is harmless for the root registry.
func c33cacheHandout(f *core.FuncInfo, sel *ast.SelectorExpr) (bool, string) {
	for _, cs := range f.CallsTo("kvdb/table.MigrateCaches") {
		if len(cs.Call.Args) != 2 {
			continue
		}
		u, ok := ast.Unparen(cs.Call.Args[0]).(*ast.UnaryExpr)
		if !ok || u.Op != token.AND || ast.Unparen(u.X) != ast.Expr(sel) {
			continue
		}
		if c33onlyNil(f, cs.Call.Args[1]) {
			return true, "MigrateCaches(&cache, <producer of nil>): every cache is reset to nil, no cached list survives"
		}
	}
	if c33onlyFrom(f, "abft.Store.Close", 3) {
		return true, "part of Close (terminal)"
	}
	return false, "neither a reset of every cache to nil nor reachable only from Close"
}

// c33underConstruction: does the assignment to the roots cache at sel (`x.cache.FrameRoots = …`) equip
// a store that this function has just created and not yet published? Then it is part of the
// construction (where the initialisation is spelled — in a helper or in the constructor itself — does
// not matter): nothing can have been registered in, or read from, that object's cache yet. Decided as:
// x is a local of f defined once by `&T{…}` / `T{…}` / `new(T)`, not captured by a nested literal; the
// assignment is not in a loop; and every mention of x from which the assignment can be reached is a
// field selection, or the receiver of a plain (not go/defer) call of a module method from which no use
// of the cache and no go statement is reachable. Any other mention (argument, return, store, send)
// publishes the object and must not precede the assignment.
func c33underConstruction(f *core.FuncInfo, sel *ast.SelectorExpr) bool {
	if f == nil || f.Body == nil || sel == nil {
		return false
	}
	e := ast.Unparen(sel.X)
	for {
		s, ok := e.(*ast.SelectorExpr)
		if !ok {
			break
		}
		e = ast.Unparen(s.X)
	}
	rootID, ok := e.(*ast.Ident)
	if !ok {
		return false
	}
	v, _ := f.Info().ObjectOf(rootID).(*types.Var)
	if v == nil || v.IsField() || !(f.Body.Pos() <= v.Pos() && v.Pos() < f.Body.End()) {
		return false
	}
	d := c33singleDef(f, v)
	if d == nil || d.RHS == nil {
		return false
	}
	init := ast.Unparen(d.RHS)
	if u, isU := init.(*ast.UnaryExpr); isU && u.Op == token.AND {
		init = ast.Unparen(u.X)
	}
	switch x := init.(type) {
	case *ast.CompositeLit:
	case *ast.CallExpr:
		if isCallTo(f, x, "builtin.new") == nil {
			return false
		}
	default:
		return false
	}
	at, ok := f.PointOf(sel)
	if !ok || at.B == nil || f.CanReach(at, at) {
		return false
	}
	defID, _ := ast.Unparen(d.LHS).(*ast.Ident)
	callOf := map[ast.Expr]*core.CallSite{}
	for _, cs := range f.Calls() {
		callOf[ast.Unparen(cs.Call.Fun)] = cs
	}
	own := map[*ast.Ident]bool{}
	good := true
	var stack []ast.Node
	quiet := map[*core.FuncInfo]bool{}
	isQuiet := func(h *core.FuncInfo) bool {
		if q, done := quiet[h]; done {
			return q
		}
		q := true
		for _, g := range core.ReachableFuncs(f.P, []*core.FuncInfo{h}, false) {
			g.InspectAll(func(n ast.Node) bool {
				switch x := n.(type) {
				case *ast.GoStmt:
					q = false
				case *ast.SelectorExpr:
					if nm := fieldNameOf(g, x); nm == c33Cache || nm == c33CacheSt {
						q = false
					}
				}
				return q
			})
			if !q {
				break
			}
		}
		quiet[h] = q
		return q
	}
	f.InspectOwn(func(n ast.Node) bool {
		if n == nil {
			stack = stack[:len(stack)-1]
			return true
		}
		stack = append(stack, n)
		id, isID := n.(*ast.Ident)
		if !isID || f.Info().ObjectOf(id) != v {
			return true
		}
		own[id] = true
		if id == defID || !good {
			return true
		}
		// the nearest enclosing node that is not a parenthesis
		k := len(stack) - 2
		for k >= 0 {
			if _, isP := stack[k].(*ast.ParenExpr); !isP {
				break
			}
			k--
		}
		if k >= 0 {
			if ps, isSel := stack[k].(*ast.SelectorExpr); isSel && ast.Unparen(ps.X) == ast.Expr(id) {
				if s, has := f.Info().Selections[ps]; has {
					switch s.Kind() {
					case types.FieldVal:
						return true
					case types.MethodVal:
						if cs := callOf[ps]; cs != nil && !cs.InGo && !cs.InDefer {
							if fn, isF := cs.Callee.(*types.Func); isF {
								if h := f.P.FuncOf(fn); h != nil && isQuiet(h) {
									return true
								}
							}
						}
					}
				}
			}
		}
		pt, has := f.PointOf(id)
		if !has || pt.B == nil || pt == at || f.CanReach(pt, at) {
			good = false
		}
		return true
	})
	if !good {
		return false
	}
	// not mentioned by a nested literal
	f.InspectAll(func(n ast.Node) bool {
		if id, isID := n.(*ast.Ident); isID && f.Info().ObjectOf(id) == v && !own[id] {
			good = false
		}
		return good
	})
	return good
}

// ---------------------------------------------------------------------------
// C33.cache: the weighted LRU keeps what addRoot/GetFrameRoots rely on

// c33storesParam returns the points of f at which the value of f's parameter v is stored into the
// named struct field: `x.field = v`, a composite literal whose field is v, or a call that passes v to a
// module function which stores the corresponding parameter on every returning path (bounded depth).
func c33storesParam(f *core.FuncInfo, v *types.Var, field string, depth int) []core.Point {
	if v == nil || len(assignsToVar(f, v)) != 0 {
		return nil
	}
	var out []core.Point
	for _, a := range assignments(f) {
		if a.RHS != nil && a.Tok == token.ASSIGN && fieldNameOf(f, a.LHS) == field && varOf(f, a.RHS) == v {
			out = append(out, a.Pt)
		}
	}
	f.InspectOwn(func(n ast.Node) bool {
		cl, ok := n.(*ast.CompositeLit)
		if !ok {
			return true
		}
		vals := map[string]ast.Expr{}
		c33litFields(f, cl, vals)
		if e := vals[field]; e != nil && varOf(f, e) == v {
			if pt, ok := f.PointOf(cl); ok {
				out = append(out, pt)
			}
		}
		return true
	})
	if depth <= 0 {
		return out
	}
	for _, cs := range f.Calls() {
		if cs.InGo || cs.InDefer {
			continue
		}
		fn, ok := cs.Callee.(*types.Func)
		if !ok {
			continue
		}
		g := f.P.FuncOf(fn)
		if g == nil || g == f {
			continue
		}
		for i, a := range cs.Call.Args {
			if varOf(f, a) != v {
				continue
			}
			inner := c33storesParam(g, g.Param(i), field, depth-1)
			if len(inner) == 0 {
				continue
			}
			if _, skip := (core.PathQuery{F: g, From: g.Entry(), Avoid: core.PointSet(inner...), TargetExit: true}).Find(); !skip {
				out = append(out, cs.Pt)
			}
		}
	}
	return out
}

// c33Cache: addRoot re-Adds the extended list of a cached frame and GetFrameRoots Adds the complete
// scan; both rely on "after Add(k, v, w) the cache holds v under k or nothing under k" — whatever the
// weights and limits. A path through Add that returns without storing the new value leaves an older,
// shorter list of the frame in place, which GetFrameRoots then serves.
func c33CacheAdd(c *core.Ctx) {
	c.Clause("C33.cache", func() {
		const valFld = "utils/simplewlru.entry.value"
		c.Fld(valFld)
		add := c.Fn("utils/simplewlru.Cache.Add")
		valP := add.Param(1)
		c.Need(valP != nil && add.Param(2) != nil, "Cache.Add(key, value, weight)")
		sites := c33storesParam(add, valP, valFld, 2)
		ok := len(sites) > 0
		var wit []core.Point
		if ok {
			var found bool
			wit, found = core.PathQuery{F: add, From: add.Entry(), Avoid: core.PointSet(sites...), TargetExit: true}.Find()
			ok = !found
		}
		detail := "Cache.Add can return without storing the new value (neither into the existing entry of the key nor into a new one): an entry cached earlier under the same key stays, so after addRoot extended a cached frame GetFrameRoots keeps returning the shorter list — the answer depends on cache weights and on earlier queries"
		if len(wit) > 0 {
			detail += "; path " + add.DescribePath(wit)
		}
		c.Check(ok, "Cache.Add|every path stores the new value", "T3 PostDominates (callee summaries)", add.Pos(), "every returning path of Add writes the value into the key's entry (existing or new) before limits are enforced: the key maps to the new value or, after eviction, to nothing", detail)
		// limits are enforced by removing whole entries only: nothing but Add's stores writes entry.value
		n := 0
		for _, f := range c.P.Funcs() {
			if core.RelPkg(f.Pkg.PkgPath) != "utils/simplewlru" {
				continue
			}
			for _, a := range assignsToField(f, valFld) {
				n++
				top := f
				for top.Parent != nil {
					top = top.Parent
				}
				okW := a.RHS != nil && varOf(f, a.RHS) != nil && c24paramIndex(f, varOf(f, a.RHS)) >= 0 && (top == add || c33onlyFrom(top, add.Name, 2))
				c.Check(okW, short(f.Name)+"|cached value written only by Add", "T6 WhoMayWrite", a.Stmt.Pos(), "the entry's value is overwritten with Add's argument", short(f.Name)+" overwrites a cached value outside Cache.Add: a cached root list can change without a registration")
			}
		}
		c.ExpectAtLeast("stores to entry.value", n, 1)
	})
}
