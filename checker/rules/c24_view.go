package rules

import (
	"go/ast"
	"go/token"
	"go/types"

	"lachk/core"
)

// c24frame is the function in which a key expression of a wrapper method is decided: the method
// itself, or (inlined view) a plain function of the package the method hands its prefix and its own
// key parameters to and whose results it passes to the wrapped store
// (`from, to := keyRange(t.prefix, start, limit); t.underlying.Compact(from, to)`).
type c24frame struct {
	G      *core.FuncInfo
	Call   *ast.CallExpr       // the helper call in the method (nil for the method itself)
	pfx    map[*types.Var]bool // helper parameters bound to the receiver's prefix
	keys   map[*types.Var]int  // unassigned variables of G that stand for the method's parameter i
	method *core.FuncInfo
	w      c24wrapper
}

func (fr *c24frame) isPrefix(e ast.Expr) bool {
	if fr.Call == nil {
		return c24recvField(fr.G, e, fr.w.prefix)
	}
	v := varOf(fr.G, e)
	return v != nil && fr.pfx[v]
}

// keyParam: the index of the method's parameter that e stands for in this frame (-1 when none).
func (fr *c24frame) keyParam(e ast.Expr) int {
	v := varOf(fr.G, e)
	if v == nil {
		return -1
	}
	if fr.Call == nil {
		if pi := c24paramIndex(fr.G, v); pi >= 0 && len(assignsToVar(fr.G, v)) == 0 {
			return pi
		}
		return -1
	}
	if i, ok := fr.keys[v]; ok {
		return i
	}
	return -1
}

// wrapCall: is e <fn>(inner, <the wrapper's prefix>) in this frame?
func (fr *c24frame) wrapCall(e ast.Expr, fn string) (ast.Expr, bool) {
	call := isCallTo(fr.G, e, fn)
	if call == nil || len(call.Args) != 2 || !fr.isPrefix(call.Args[1]) {
		return nil, false
	}
	return ast.Unparen(call.Args[0]), true
}

func c24methodFrame(f *core.FuncInfo, w c24wrapper) *c24frame {
	return &c24frame{G: f, method: f, w: w}
}

// c24helperFrames finds the calls in the wrapper method f of plain same-package functions that are
// given the receiver's prefix: every argument must be the receiver's prefix or one of the method's own
// unassigned parameters, and the helper must not assign its parameters. The codec functions themselves
// are not helpers.
func c24helperFrames(f *core.FuncInfo, w c24wrapper) map[*ast.CallExpr]*c24frame {
	out := map[*ast.CallExpr]*c24frame{}
	for _, cs := range f.Calls() {
		fn, ok := cs.Callee.(*types.Func)
		if !ok || cs.InGo || cs.InDefer {
			continue
		}
		switch cs.Name {
		case c24Prefixed, c24NoPrefix, c24IncPfx:
			continue
		}
		h := f.P.FuncOf(fn)
		if h == nil || h == f || h.Pkg != f.Pkg || h.Recv() != nil || cs.Call.Ellipsis.IsValid() {
			continue
		}
		fr := &c24frame{G: h, Call: cs.Call, pfx: map[*types.Var]bool{}, keys: map[*types.Var]int{}, method: f, w: w}
		okAll, hasPfx := true, false
		for j, a := range cs.Call.Args {
			pv := h.Param(j)
			if pv == nil || len(assignsToVar(h, pv)) != 0 {
				okAll = false
				break
			}
			if c24recvField(f, a, w.prefix) {
				fr.pfx[pv] = true
				hasPfx = true
				continue
			}
			av := varOf(f, a)
			pi := c24paramIndex(f, av)
			if pi < 0 || len(assignsToVar(f, av)) != 0 {
				okAll = false
				break
			}
			fr.keys[pv] = pi
		}
		for _, l := range allLits(h) {
			_ = l
			okAll = false // closures in a key helper: not looked into
		}
		if okAll && hasPfx {
			out[cs.Call] = fr
		}
	}
	return out
}

// c24viewOf: is the argument a (after the look-through of a local defined once) result number idx of a
// helper call that has a frame?
func c24viewOf(f *core.FuncInfo, frames map[*ast.CallExpr]*c24frame, a ast.Expr) (*c24frame, int) {
	a = ast.Unparen(a)
	if call, ok := a.(*ast.CallExpr); ok {
		if fr := frames[call]; fr != nil {
			return fr, 0
		}
		return nil, 0
	}
	lv := varOf(f, a)
	if lv == nil || c24paramIndex(f, lv) >= 0 {
		return nil, 0
	}
	d := c33singleDef(f, lv)
	if d == nil || d.RHS == nil {
		return nil, 0
	}
	call, ok := ast.Unparen(d.RHS).(*ast.CallExpr)
	if !ok || frames[call] == nil {
		return nil, 0
	}
	as, isAs := d.Stmt.(*ast.AssignStmt)
	if !isAs {
		if len(assignsToVar(f, lv)) == 1 {
			return frames[call], 0
		}
		return nil, 0
	}
	for i, l := range as.Lhs {
		if varOf(f, l) == lv {
			return frames[call], i
		}
	}
	return nil, 0
}

// c24results lists, for every return of the helper, the expression returned as result idx (a result
// variable defined once, on every path to that return, stands for its definition). ok=false when
// some return does not spell its results out.
func c24results(h *core.FuncInfo, idx int) (exprs []ast.Expr, pts []core.Point, ok bool) {
	rets := h.ReturnPoints()
	if len(rets) == 0 {
		return nil, nil, false
	}
	for _, rp := range rets {
		r := rp.Node().(*ast.ReturnStmt)
		if idx >= len(r.Results) {
			return nil, nil, false
		}
		e := ast.Unparen(r.Results[idx])
		if v := varOf(h, e); v != nil && c24paramIndex(h, v) < 0 {
			if d := c33singleDef(h, v); d != nil && d.RHS != nil {
				if as, isAs := d.Stmt.(*ast.AssignStmt); !isAs || len(as.Lhs) == len(as.Rhs) {
					if dom, _ := h.MustPassBefore([]core.Point{d.Pt}, rp); dom && !h.CanReach(d.Pt, d.Pt) {
						e = ast.Unparen(d.RHS)
					}
				}
			}
		}
		exprs = append(exprs, e)
		pts = append(pts, rp)
	}
	return exprs, pts, true
}

// c24strayUse: a use of the raw key variable pv in g that is neither the first argument of
// <wrapFn>(·, prefix), nor a nil test, nor one of the identifiers in okExtra (arguments of a helper
// that has a frame: judged there). NoPos when there is none.
func c24strayUse(fr *c24frame, pv *types.Var, wrapFn string, okExtra map[*ast.Ident]bool) token.Pos {
	g := fr.G
	okUses := map[*ast.Ident]bool{}
	g.InspectOwn(func(n ast.Node) bool {
		switch x := n.(type) {
		case *ast.CallExpr:
			if inner, ok := fr.wrapCall(x, wrapFn); ok {
				if id, isID := inner.(*ast.Ident); isID {
					okUses[id] = true
				}
			}
		case *ast.BinaryExpr:
			if x.Op == token.EQL || x.Op == token.NEQ {
				for _, pair := range [][2]ast.Expr{{x.X, x.Y}, {x.Y, x.X}} {
					if id, isID := ast.Unparen(pair[0]).(*ast.Ident); isID && core.IsNil(g.Info(), pair[1]) {
						okUses[id] = true
					}
				}
			}
		}
		return true
	})
	stray := token.NoPos
	g.InspectOwn(func(n ast.Node) bool {
		if id, ok := n.(*ast.Ident); ok && g.Info().Uses[id] == types.Object(pv) && !okUses[id] && !okExtra[id] {
			stray = id.Pos()
		}
		return true
	})
	return stray
}

// ---------------------------------------------------------------------------
// C24.alias: nothing in the package writes into the bytes of a table prefix.
//
// A wrapper's prefix slice is shared: the table, every batch/iterator/snapshot built from it and the
// caller of New hold the same backing array, and prefixed/noPrefix/incPrefix are handed that very
// slice. A function that stores into it (`p[i]++`, `copy(p, …)`) — directly or through a value that
// shares its array (`p[:n]`, `append(p[:0], …)`, a local copied from one of those) — changes the key
// space of the table behind its back: later keys are translated with another prefix. Decided by a
// may-alias closure over assignments inside each function, seeded with the prefix fields and with the
// parameters that are handed a prefix (or an alias of one) by some call in the package.

func c24Alias(c *core.Ctx) {
	c.Clause("C24.alias", func() {
		p := c.P
		prefixFields := map[string]bool{}
		for _, w := range c24Wrappers {
			prefixFields[w.prefix] = true
		}
		var fns []*core.FuncInfo
		for _, g := range p.FuncsInPkg(c24Pkg) {
			fns = append(fns, g)
			fns = append(fns, allLits(g)...)
		}
		seedParam := map[*types.Var]bool{}
		// may e share its backing array with a prefix, given the aliasing locals of g?
		var aliasExpr func(g *core.FuncInfo, al map[*types.Var]bool, e ast.Expr, depth int) bool
		aliasExpr = func(g *core.FuncInfo, al map[*types.Var]bool, e ast.Expr, depth int) bool {
			if e == nil || depth > 8 {
				return false
			}
			e = ast.Unparen(e)
			if !c24isBytes(g.Info().TypeOf(e)) {
				return false
			}
			switch x := e.(type) {
			case *ast.Ident:
				v, _ := g.Info().ObjectOf(x).(*types.Var)
				return v != nil && (al[v] || seedParam[v])
			case *ast.SelectorExpr:
				if s, ok := g.Info().Selections[x]; ok {
					if v, ok := s.Obj().(*types.Var); ok && v.IsField() {
						return prefixFields[p.FieldName(v)]
					}
				}
			case *ast.SliceExpr:
				return aliasExpr(g, al, x.X, depth+1)
			case *ast.CallExpr:
				if tv, ok := g.Info().Types[x.Fun]; ok && tv.IsType() && len(x.Args) == 1 {
					return aliasExpr(g, al, x.Args[0], depth+1) // []byte(p) of a byte slice keeps the array
				}
				if b, isB := g.ObjOf(x.Fun).(*types.Builtin); isB && b.Name() == "append" && len(x.Args) >= 1 {
					return aliasExpr(g, al, x.Args[0], depth+1) // append may extend in place
				}
			}
			return false
		}
		aliases := map[*core.FuncInfo]map[*types.Var]bool{}
		for _, g := range fns {
			aliases[g] = map[*types.Var]bool{}
		}
		for round := 0; round < 6; round++ {
			changed := false
			for _, g := range fns {
				al := aliases[g]
				for _, a := range assignments(g) {
					v := varOfRaw(g, a.LHS)
					if v == nil || v.IsField() || al[v] || a.RHS == nil {
						continue
					}
					if as, ok := a.Stmt.(*ast.AssignStmt); ok && len(as.Lhs) != len(as.Rhs) {
						continue
					}
					if aliasExpr(g, al, a.RHS, 0) {
						al[v] = true
						changed = true
					}
				}
				// captured variables of the enclosing function keep their aliasing inside literals
				if g.Parent != nil {
					for v := range aliases[g.Parent] {
						if !al[v] {
							al[v] = true
							changed = true
						}
					}
				}
				for _, cs := range g.Calls() {
					fn, ok := cs.Callee.(*types.Func)
					if !ok {
						continue
					}
					h := p.FuncOf(fn)
					if h == nil || h.Pkg != g.Pkg {
						continue
					}
					for j, arg := range cs.Call.Args {
						if pv := h.Param(j); pv != nil && !seedParam[pv] && aliasExpr(g, al, arg, 0) {
							seedParam[pv] = true
							changed = true
						}
					}
				}
			}
			if !changed {
				break
			}
		}
		nBad := 0
		for _, g := range fns {
			al := aliases[g]
			who := short(g.Name)
			elemRoot := func(lhs ast.Expr) ast.Expr {
				lhs = ast.Unparen(lhs)
				ix, ok := lhs.(*ast.IndexExpr)
				if !ok {
					return nil
				}
				return ix.X
			}
			for _, a := range assignments(g) {
				if root := elemRoot(a.LHS); root != nil && aliasExpr(g, al, root, 0) {
					nBad++
					c.Fail(who+"|stores into the bytes of a table prefix", "alias (may-share closure)", a.Stmt.Pos(), who+" stores into "+exprStr(a.LHS)+", whose backing array can be the one of a table prefix (a parameter/field holding the prefix, a slice of it, or an append onto such a slice — none of these is a copy): after the call the table, its batches/iterators and nested tables translate keys with a changed prefix, so reads and writes land in another table's key space, and a range built from the prefix afterwards (Compact) no longer covers the table")
				}
			}
			for _, cs := range g.Calls() {
				if cs.Name == "builtin.copy" && len(cs.Call.Args) == 2 && aliasExpr(g, al, cs.Call.Args[0], 0) {
					nBad++
					c.Fail(who+"|copies into the bytes of a table prefix", "alias (may-share closure)", cs.Pos(), who+" copies into "+exprStr(cs.Call.Args[0])+", whose backing array can be the one of a table prefix: the table's key space changes behind it")
				}
			}
		}
		if nBad == 0 {
			c.Pass("the bytes of a prefix are never stored into", "alias (may-share closure)", "no element store or copy in kvdb/table targets a value that can share its array with a prefix field or a parameter that is handed a prefix")
		}
		// vacuity: the prefix really is handed to functions of the package (incPrefix, prefixed, …)
		c.ExpectAtLeast("parameters that are handed a table prefix", len(seedParam), 1)
	})
}
