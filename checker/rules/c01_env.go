package rules

import (
	"fmt"
	"go/ast"
	"go/token"
	"go/types"
	"sort"
	"strings"

	"golang.org/x/tools/go/cfg"

	"lachk/core"
)

// Generic helpers written for C01/C02/C03 (round 4; candidates for promotion to core):
//
//	c01EnvQuery    core.PathQuery refined by abstract values of plain locals: a forward search over
//	               (CFG point, environment) where the environment gives some booleans / pointers /
//	               errors one of the truth values of their branch atoms (true, false, nil, non-nil).
//	               Assignments of constants, of other known locals and of `x != nil` tests transfer
//	               the value; an edge whose condition contradicts the environment is not taken, an
//	               edge taken refines it. This is what makes a question such as "after the call
//	               reported sealed == true, can the next vote be reached?" independent of whether the
//	               result is tested in place, handed on through `return true, nil` of a helper that
//	               was folded into the view (`sealed, err = true, nil; goto L`), or kept in a second
//	               boolean. Nothing is executed: unknown values stay unknown and every edge whose
//	               condition is not decided by the environment is followed.
//	c01LoopAround  the innermost loop around a syntax node, by the tree (in an inlined view the source
//	               positions of a folded-in body do not nest in the caller's loop)
//	c01View        the inlined view of a function (c10Inlined) with the anchors of a rule kept as calls

// c01View: f with the calls of same-package helpers replaced by their bodies, except the named anchors.
func c01View(f *core.FuncInfo, keep ...string) *core.FuncInfo {
	if f == nil {
		return nil
	}
	if v := c10Inlined(f, keep...); v != nil {
		return v
	}
	return f
}

// c01ViewLits: the function literals nested in f (source function or view), at any depth.
func c01ViewLits(f *core.FuncInfo) []*core.FuncInfo {
	seen := map[*core.FuncInfo]bool{}
	var out []*core.FuncInfo
	for _, l := range append(allLits(f), c10AllLits(f)...) {
		if !seen[l] {
			seen[l] = true
			out = append(out, l)
		}
	}
	return out
}

// c01LoopsAroundNode: the loops of f's own body around the node, outermost first (by the syntax tree).
func c01LoopsAroundNode(f *core.FuncInfo, n ast.Node) []ast.Stmt {
	if f == nil || n == nil {
		return nil
	}
	var out, stack []ast.Stmt
	var nodes []ast.Node
	found := false
	ast.Inspect(f.Body, func(m ast.Node) bool {
		if found {
			return false
		}
		if m == nil {
			last := nodes[len(nodes)-1]
			nodes = nodes[:len(nodes)-1]
			switch last.(type) {
			case *ast.ForStmt, *ast.RangeStmt:
				stack = stack[:len(stack)-1]
			}
			return true
		}
		if m == n {
			out = append([]ast.Stmt(nil), stack...)
			found = true
			return false
		}
		if _, isLit := m.(*ast.FuncLit); isLit {
			return false
		}
		nodes = append(nodes, m)
		switch s := m.(type) {
		case *ast.ForStmt, *ast.RangeStmt:
			stack = append(stack, s.(ast.Stmt))
		}
		return true
	})
	return out
}

// c01LoopAround: the innermost loop around the node (nil if none).
func c01LoopAround(f *core.FuncInfo, n ast.Node) ast.Stmt {
	if l := c01LoopsAroundNode(f, n); len(l) > 0 {
		return l[len(l)-1]
	}
	return nil
}

// ---------------------------------------------------------------------------

type c01Env map[*types.Var]c01Abs

func (e c01Env) clone() c01Env {
	out := make(c01Env, len(e))
	for k, v := range e {
		out[k] = v
	}
	return out
}

func (e c01Env) key() string {
	type kv struct {
		pos token.Pos
		nm  string
		v   c01Abs
	}
	var l []kv
	for k, v := range e {
		l = append(l, kv{k.Pos(), k.Name(), v})
	}
	sort.Slice(l, func(i, j int) bool {
		if l[i].pos != l[j].pos {
			return l[i].pos < l[j].pos
		}
		return l[i].nm < l[j].nm
	})
	var sb strings.Builder
	for _, x := range l {
		fmt.Fprintf(&sb, "%d%s=%d,", x.pos, x.nm, x.v)
	}
	return sb.String()
}

// c01EnvQuery: see the file comment. Init gives the assumed values at the start.
type c01EnvQuery struct {
	F           *core.FuncInfo
	From        core.Point
	FromAfter   bool
	Init        map[*types.Var]c01Abs
	Target      func(core.Point) bool
	Avoid       func(core.Point) bool
	AvoidEdge   func(*cfg.Block, int) bool
	TargetExit  bool
	TargetBlock func(*cfg.Block) bool
}

var c01TrackCache = map[*core.FuncInfo]map[*types.Var]bool{}

// c01Untrackable: the variables of f whose value the environment must not claim to know: assigned by
// a range clause, an inc/dec or an op-assignment, assigned in a nested literal, outside the CFG, or
// whose address is taken.
func c01Untrackable(f *core.FuncInfo) map[*types.Var]bool {
	if m, ok := c01TrackCache[f]; ok {
		return m
	}
	bad := map[*types.Var]bool{}
	for _, a := range assignments(f) {
		v := varOfRaw(f, a.LHS)
		if v == nil {
			continue
		}
		switch s := a.Stmt.(type) {
		case *ast.AssignStmt:
			if (s.Tok != token.ASSIGN && s.Tok != token.DEFINE) || !a.Pt.Valid() {
				bad[v] = true
			}
		case *ast.ValueSpec:
			if !a.Pt.Valid() {
				bad[v] = true
			}
		default:
			bad[v] = true
		}
	}
	for _, l := range c01ViewLits(f) {
		for _, a := range assignments(l) {
			if v := varOfRaw(l, a.LHS); v != nil {
				bad[v] = true
			}
		}
	}
	f.InspectAll(func(n ast.Node) bool {
		if u, ok := n.(*ast.UnaryExpr); ok && u.Op == token.AND {
			if v := varOfRaw(f, u.X); v != nil {
				bad[v] = true
			}
		}
		return true
	})
	c01TrackCache[f] = bad
	return bad
}

func (q c01EnvQuery) trackable(v *types.Var) bool {
	if v == nil || v.IsField() || v.Pkg() == nil || v.Parent() == v.Pkg().Scope() {
		return false
	}
	return !c01Untrackable(q.F)[v]
}

func c01Flip(a c01Abs) c01Abs {
	switch a {
	case c01AbsTrue:
		return c01AbsFalse
	case c01AbsFalse:
		return c01AbsTrue
	}
	return c01AbsUnknown
}

func c01ZeroAbs(t types.Type) c01Abs {
	if t == nil {
		return c01AbsUnknown
	}
	switch u := t.Underlying().(type) {
	case *types.Basic:
		if u.Info()&types.IsBoolean != 0 {
			return c01AbsFalse
		}
	case *types.Pointer, *types.Interface, *types.Slice, *types.Map, *types.Signature, *types.Chan:
		return c01AbsNil
	}
	return c01AbsUnknown
}

// abs: the abstract value of expression x under env.
func (q c01EnvQuery) abs(x ast.Expr, env c01Env) c01Abs {
	f := q.F
	info := f.Info()
	x = ast.Unparen(x)
	if x == nil {
		return c01AbsUnknown
	}
	if core.IsNil(info, x) {
		return c01AbsNil
	}
	if cv, ok := core.ConstVal(info, x); ok {
		switch cv.String() {
		case "true":
			return c01AbsTrue
		case "false":
			return c01AbsFalse
		}
		return c01AbsUnknown
	}
	switch e := x.(type) {
	case *ast.Ident:
		if v := varOfRaw(f, e); v != nil && q.trackable(v) {
			return env[v]
		}
	case *ast.UnaryExpr:
		switch e.Op {
		case token.NOT:
			return c01Flip(q.abs(e.X, env))
		case token.AND:
			return c01AbsNonNil
		}
	case *ast.FuncLit:
		return c01AbsNonNil
	case *ast.BinaryExpr:
		if e.Op != token.EQL && e.Op != token.NEQ {
			return c01AbsUnknown
		}
		l, r := e.X, e.Y
		if core.IsNil(info, l) {
			l, r = r, l
		}
		if core.IsNil(info, r) {
			switch q.abs(l, env) {
			case c01AbsNil:
				if e.Op == token.EQL {
					return c01AbsTrue
				}
				return c01AbsFalse
			case c01AbsNonNil:
				if e.Op == token.EQL {
					return c01AbsFalse
				}
				return c01AbsTrue
			}
			return c01AbsUnknown
		}
		a, b := q.abs(l, env), q.abs(r, env)
		if (a == c01AbsTrue || a == c01AbsFalse) && (b == c01AbsTrue || b == c01AbsFalse) {
			if (a == b) == (e.Op == token.EQL) {
				return c01AbsTrue
			}
			return c01AbsFalse
		}
	case *ast.CallExpr:
		switch calleeName(f, e) {
		case "errors.New", "fmt.Errorf":
			return c01AbsNonNil
		}
	}
	return c01AbsUnknown
}

// transfer applies the node at a point to env (in place).
func (q c01EnvQuery) transfer(n ast.Node, env c01Env) {
	f := q.F
	set := func(v *types.Var, a c01Abs) {
		if v == nil || !q.trackable(v) {
			return
		}
		if a == c01AbsUnknown {
			delete(env, v)
		} else {
			env[v] = a
		}
	}
	switch s := n.(type) {
	case *ast.AssignStmt:
		vals := make([]c01Abs, len(s.Lhs))
		if len(s.Lhs) == len(s.Rhs) && (s.Tok == token.ASSIGN || s.Tok == token.DEFINE) {
			for i := range s.Lhs {
				vals[i] = q.abs(s.Rhs[i], env)
			}
		}
		for i, l := range s.Lhs {
			set(varOfRaw(f, l), vals[i])
		}
	case *ast.ValueSpec:
		for i, id := range s.Names {
			v, _ := f.Info().ObjectOf(id).(*types.Var)
			switch {
			case len(s.Values) == len(s.Names):
				set(v, q.abs(s.Values[i], env))
			case len(s.Values) == 0 && v != nil:
				set(v, c01ZeroAbs(v.Type()))
			default:
				set(v, c01AbsUnknown)
			}
		}
	case *ast.DeclStmt:
		if gd, ok := s.Decl.(*ast.GenDecl); ok {
			for _, sp := range gd.Specs {
				if vs, isV := sp.(*ast.ValueSpec); isV {
					q.transfer(vs, env)
				}
			}
		}
	}
}

// refine: the facts of one alternative of an edge against env. ok=false when a fact contradicts it;
// otherwise the values the facts add.
func (q c01EnvQuery) refine(alt []core.Fact, env c01Env) (map[*types.Var]c01Abs, bool) {
	f := q.F
	info := f.Info()
	add := map[*types.Var]c01Abs{}
	for _, ft := range alt {
		switch q.abs(ft.Expr, env) {
		case c01AbsTrue:
			if !ft.Truth {
				return nil, false
			}
			continue
		case c01AbsFalse:
			if ft.Truth {
				return nil, false
			}
			continue
		}
		// what the fact says about a variable
		if e, truth, ok := c01BoolOperand(info, ft); ok {
			if v := varOfRaw(f, e); v != nil && q.trackable(v) {
				if truth {
					add[v] = c01AbsTrue
				} else {
					add[v] = c01AbsFalse
				}
				continue
			}
		}
		if cm, ok := core.NormCmp(ft); ok && cm.R != nil && (cm.Op == token.EQL || cm.Op == token.NEQ) {
			l, r := cm.L, cm.R
			if core.IsNil(info, l) {
				l, r = r, l
			}
			if core.IsNil(info, r) {
				if v := varOfRaw(f, l); v != nil && q.trackable(v) {
					if cm.Op == token.EQL {
						add[v] = c01AbsNil
					} else {
						add[v] = c01AbsNonNil
					}
				}
			}
		}
	}
	return add, true
}

type c01EnvState struct {
	b      *cfg.Block
	env    c01Env
	parent *c01EnvState
}

// Find returns a witness (block exits on the way and the final point) when a target can be reached.
// When the state bound is exceeded the answer is "reachable" with an empty witness.
func (q c01EnvQuery) Find() ([]core.Point, bool) {
	if q.F == nil || q.From.B == nil {
		return nil, false
	}
	var found *core.Point
	var foundSt *c01EnvState
	scan := func(st *c01EnvState, i int) bool {
		b := st.b
		for ; i < len(b.Nodes); i++ {
			pt := core.Point{B: b, I: i}
			if q.Avoid != nil && q.Avoid(pt) {
				return false
			}
			if q.Target != nil && q.Target(pt) {
				found, foundSt = &pt, st
				return false
			}
			if q.TargetExit {
				if _, ok := b.Nodes[i].(*ast.ReturnStmt); ok {
					found, foundSt = &pt, st
					return false
				}
			}
			q.transfer(b.Nodes[i], st.env)
		}
		if len(b.Succs) == 0 {
			if q.TargetExit && q.F.IsImplicitReturn(b) {
				pt := core.Point{B: b, I: len(b.Nodes)}
				found, foundSt = &pt, st
			}
			return false
		}
		return true
	}
	seen := map[string]bool{}
	var work []*c01EnvState
	expand := func(st *c01EnvState) {
		b := st.b
		for si, s := range b.Succs {
			if q.AvoidEdge != nil && q.AvoidEdge(b, si) {
				continue
			}
			env := st.env
			if len(b.Succs) == 2 {
				if alts := q.F.EdgeAlternatives(b, si); len(alts) > 0 {
					n := 0
					var one map[*types.Var]c01Abs
					for _, alt := range alts {
						if add, ok := q.refine(alt, st.env); ok {
							n++
							one = add
						}
					}
					if n == 0 {
						continue // the condition contradicts what is known
					}
					if n == 1 && len(one) > 0 {
						env = st.env.clone()
						for v, a := range one {
							env[v] = a
						}
					}
				}
			}
			k := fmt.Sprintf("%d|%s", s.Index, env.key())
			if seen[k] {
				continue
			}
			seen[k] = true
			work = append(work, &c01EnvState{b: s, env: env.clone(), parent: st})
		}
	}
	start := &c01EnvState{b: q.From.B, env: c01Env{}}
	for v, a := range q.Init {
		if v != nil && a != c01AbsUnknown && q.trackable(v) {
			start.env[v] = a
		}
	}
	i0 := q.From.I
	if q.FromAfter {
		i0++
	}
	if scan(start, i0) {
		expand(start)
	}
	for found == nil && len(work) > 0 {
		if len(seen) > 20000 {
			return nil, true
		}
		st := work[0]
		work = work[1:]
		if q.TargetBlock != nil && q.TargetBlock(st.b) {
			pt := core.Point{B: st.b, I: 0}
			found, foundSt = &pt, st
			break
		}
		if len(st.b.Nodes) == 0 && q.Target != nil && q.Target(core.Point{B: st.b, I: 0}) {
			pt := core.Point{B: st.b, I: 0}
			found, foundSt = &pt, st
			break
		}
		if scan(st, 0) {
			expand(st)
		}
	}
	if found == nil {
		return nil, false
	}
	path := []core.Point{*found}
	for st := foundSt.parent; st != nil; st = st.parent {
		path = append(path, core.Point{B: st.b, I: len(st.b.Nodes)})
	}
	for i, j := 0, len(path)-1; i < j; i, j = i+1, j-1 {
		path[i], path[j] = path[j], path[i]
	}
	return path, true
}
