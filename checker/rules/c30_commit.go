package rules

import (
	"go/ast"
	"go/constant"
	"go/token"
	"go/types"

	"lachk/core"
)

// c30TryAcquireInPlace decides the tryAcquire obligations for the form that commits by adding the
// request to the components of processing in place,
//
//	if s.processing.Num+m.Num <= s.maxProcessing.Num && s.processing.Size+m.Size <= s.maxProcessing.Size {
//		s.processing.Num += m.Num; s.processing.Size += m.Size; return true }
//
// instead of building the sum in a local and storing it. The facts are the same: what is committed is
// processing + request for both components, every commit is guarded by held+request <= max for both
// components, and true is returned only after both commits.
func c30TryAcquireInPlace(c *core.Ctx, f *core.FuncInfo) {
	param := f.Param(0)
	c.Need(param != nil, "tryAcquire has a named metric parameter")
	commits := map[string][]assignment{}
	var all []assignment
	shapeOK := true
	for _, a := range assignments(f) {
		_, path := fieldPath(f, a.LHS)
		if len(path) != 2 || path[0] != semT+".processing" {
			continue
		}
		all = append(all, a)
		r, p2 := fieldPath(f, a.RHS)
		if a.Tok == token.ADD_ASSIGN && len(p2) == 1 && p2[0] == path[1] && varOf(f, resolveLocal(f, r)) == param {
			commits[path[1]] = append(commits[path[1]], a)
		} else {
			shapeOK = false
		}
	}
	c.Need(len(all) > 0, "tryAcquire assigns processing or its components")
	c.Check(shapeOK && len(commits["inter/dag.Metric.Num"]) > 0 && len(commits["inter/dag.Metric.Size"]) > 0, "tmp=processing+request", "provenance", all[0].Stmt.Pos(),
		"the request's Num and Size are added to the respective components of processing", "what is committed to processing is not processing + request (Num and Size)")
	name := func(acc c30Access) string {
		if len(acc.Path) == 1 && acc.Root != nil && acc.Root == param {
			return "req." + short(acc.Path[0])
		}
		if len(acc.Path) == 2 && acc.Path[0] == semT+".processing" {
			return "held." + short(acc.Path[1])
		}
		if len(acc.Path) == 2 && acc.Path[0] == semT+".maxProcessing" {
			return "max." + short(acc.Path[1])
		}
		return ""
	}
	for _, a := range all {
		for _, comp := range []string{"Metric.Num", "Metric.Size"} {
			ok, path := c30Guarded(f, a.Pt, "held."+comp+" + req."+comp+" - max."+comp+" <= 0", name)
			c.Check(ok, "commit guarded by "+comp+"<=max", "T4 GuardedBy", a.Stmt.Pos(),
				"processing is updated only on the edge where held."+comp+" + req."+comp+" <= max."+comp,
				"processing can be updated without held."+comp+" + req."+comp+" <= max."+comp+" having been established: path "+f.DescribePath(path)+c30WrapHint(f))
		}
	}
	for _, rp := range returnsWith(f, 0, func(e ast.Expr) bool { return isIdentNamed(e, "true") }) {
		for _, comp := range []string{"inter/dag.Metric.Num", "inter/dag.Metric.Size"} {
			ok, path := f.MustPassBefore(pointsOfAssign(commits[comp]), rp)
			c.Check(ok, "true only after commit", "T2 Dominates", posOf(rp), "returns true only after committing", "returns true without committing "+short(comp)+": "+f.DescribePath(path))
		}
	}
	c30Refusals(c, f, func(comp string) []string {
		return []string{"max." + comp + " - held." + comp + " - req." + comp + " + 1 <= 0"}
	}, name)
}

// c30Refusals: a fitting request is granted at once, so tryAcquire may return false only over an edge
// that establishes, for some component, that the request does not fit (overWant(comp), linear normal
// form over the roles of name). Its results must be the constants true / false, so that the edges
// decide the result.
func c30Refusals(c *core.Ctx, f *core.FuncInfo, overWants func(comp string) []string, name func(c30Access) string) {
	sc := &c30Scope{F: f}
	var ws []core.LinCmp
	for _, comp := range []string{"Metric.Num", "Metric.Size"} {
		for _, w := range overWants(comp) {
			ws = append(ws, core.ParseLinCmp(w))
		}
	}
	atom := c30AccessNamer(name)
	n := 0
	for _, rp := range f.ReturnPoints() {
		ret, _ := rp.Node().(*ast.ReturnStmt)
		var res ast.Expr
		var val constant.Value
		if ret != nil && len(ret.Results) == 1 {
			res = ret.Results[0]
			val, _ = core.ConstVal(f.Info(), res)
		}
		resultDecides := false
		if val == nil || val.Kind() != constant.Bool {
			// not a constant: the result of a helper (held in a local or called in place) whose returns
			// decide it; the false result must itself establish that the request does not fit
			if res != nil {
				if _, _, isCall := c30CallOfBool(f, res); isCall {
					resultDecides = c30ImpliesAny(sc, core.Fact{Expr: res, Truth: false}, ws, atom, 2)
				}
			}
			if !resultDecides {
				c.Undecided("result of tryAcquire is a constant", "T4 GuardedBy", posOf(rp), "the result returned here is neither the constant true or false nor a boolean whose false value establishes that the request does not fit: the edges taken do not decide it")
				continue
			}
		} else if constant.BoolVal(val) {
			continue
		}
		n++
		ok, path := resultDecides, []core.Point(nil)
		if !ok {
			ok, path = f.GuardedBy(rp, func(ft core.Fact) bool { return c30ImpliesAny(sc, ft, ws, atom, 2) })
		}
		c.Check(ok, "refusal only when the request does not fit", "T4 GuardedBy", posOf(rp),
			"false is returned only over an edge establishing that some component of held + request exceeds the capacity",
			"a request can be refused although it fits: "+f.DescribePath(path))
	}
	c.ExpectAtLeast("refusing returns of tryAcquire", n, 1)
}

// c30Delegates: TryAcquire grants exactly what tryAcquire grants: every result it returns is the result
// of a tryAcquire call (directly, through a single-definition local, or through a named result that is
// only ever assigned from such calls).
func c30Delegates(c *core.Ctx) {
	f := c.Fn(semT + ".TryAcquire")
	inner := semT + ".tryAcquire"
	c.Fn(inner)
	n := 0
	for _, rp := range f.ReturnPoints() {
		n++
		ret, _ := rp.Node().(*ast.ReturnStmt)
		ok := false
		switch {
		case ret != nil && len(ret.Results) == 1:
			ok = isCallTo(f, ret.Results[0], inner) != nil
			if v := varOfRaw(f, ret.Results[0]); !ok && v != nil {
				ok = c30OnlyFromCalls(f, v, inner)
			}
		case ret != nil && len(ret.Results) == 0 && f.Type.Results != nil && len(f.Type.Results.List) == 1 && len(f.Type.Results.List[0].Names) == 1:
			if v, _ := f.Info().Defs[f.Type.Results.List[0].Names[0]].(*types.Var); v != nil {
				ok = c30OnlyFromCalls(f, v, inner)
			}
		}
		c.Check(ok, "TryAcquire returns the result of tryAcquire", "T20 WrapperDelegation", posOf(rp),
			"the result is that of tryAcquire", "TryAcquire returns something other than the result of tryAcquire: a request is granted or refused against a different condition")
	}
	c.ExpectAtLeast("returns of TryAcquire", n, 1)
}

// c30OnlyFromCalls: v is assigned at least once and only from calls of the named function.
func c30OnlyFromCalls(f *core.FuncInfo, v *types.Var, callee string) bool {
	n := 0
	for _, a := range assignsToVar(f, v) {
		if a.RHS == nil {
			if _, isSpec := a.Stmt.(*ast.ValueSpec); isSpec {
				continue
			}
			return false
		}
		call, ok := ast.Unparen(a.RHS).(*ast.CallExpr)
		if !ok || calleeName(f, call) != callee {
			return false
		}
		n++
	}
	return n > 0
}
