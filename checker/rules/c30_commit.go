package rules

import (
	"go/ast"
	"go/token"

	"lachk/core"
)

// c30TryAcquireInPlace decides the tryAcquire obligations for the form that commits by adding the
// request to the components of processing in place,
//
//	if s.processing.Num+m.Num <= s.maxProcessing.Num && s.processing.Size+m.Size <= s.maxProcessing.Size {
//		s.processing.Num += m.Num; s.processing.Size += m.Size; return true }
//
// instead of building the sum in a local and storing it. The facts are the same: what is committed is
// processing + request for both components, every commit is guarded by held+request <= max for both
// components, and true is returned only after both commits.
func c30TryAcquireInPlace(c *core.Ctx, f *core.FuncInfo) {
	param := f.Param(0)
	c.Need(param != nil, "tryAcquire has a named metric parameter")
	commits := map[string][]assignment{}
	var all []assignment
	shapeOK := true
	for _, a := range assignments(f) {
		_, path := fieldPath(f, a.LHS)
		if len(path) != 2 || path[0] != semT+".processing" {
			continue
		}
		all = append(all, a)
		r, p2 := fieldPath(f, a.RHS)
		if a.Tok == token.ADD_ASSIGN && len(p2) == 1 && p2[0] == path[1] && varOf(f, resolveLocal(f, r)) == param {
			commits[path[1]] = append(commits[path[1]], a)
		} else {
			shapeOK = false
		}
	}
	c.Need(len(all) > 0, "tryAcquire assigns processing or its components")
	c.Check(shapeOK && len(commits["inter/dag.Metric.Num"]) > 0 && len(commits["inter/dag.Metric.Size"]) > 0, "tmp=processing+request", "provenance", all[0].Stmt.Pos(),
		"the request's Num and Size are added to the respective components of processing", "what is committed to processing is not processing + request (Num and Size)")
	name := func(acc c30Access) string {
		if len(acc.Path) == 1 && acc.Root != nil && acc.Root == param {
			return "req." + short(acc.Path[0])
		}
		if len(acc.Path) == 2 && acc.Path[0] == semT+".processing" {
			return "held." + short(acc.Path[1])
		}
		if len(acc.Path) == 2 && acc.Path[0] == semT+".maxProcessing" {
			return "max." + short(acc.Path[1])
		}
		return ""
	}
	for _, a := range all {
		for _, comp := range []string{"Metric.Num", "Metric.Size"} {
			ok, path := c30Guarded(f, a.Pt, "held."+comp+" + req."+comp+" - max."+comp+" <= 0", name)
			c.Check(ok, "commit guarded by "+comp+"<=max", "T4 GuardedBy", a.Stmt.Pos(),
				"processing is updated only on the edge where held."+comp+" + req."+comp+" <= max."+comp,
				"processing can be updated without held."+comp+" + req."+comp+" <= max."+comp+" having been established: path "+f.DescribePath(path))
		}
	}
	for _, rp := range returnsWith(f, 0, func(e ast.Expr) bool { return isIdentNamed(e, "true") }) {
		for _, comp := range []string{"inter/dag.Metric.Num", "inter/dag.Metric.Size"} {
			ok, path := f.MustPassBefore(pointsOfAssign(commits[comp]), rp)
			c.Check(ok, "true only after commit", "T2 Dominates", posOf(rp), "returns true only after committing", "returns true without committing "+short(comp)+": "+f.DescribePath(path))
		}
	}
}
