package rules

import (
	"go/ast"
	"go/types"

	"lachk/core"
)

var lhsIdentCache = map[*core.FuncInfo]map[*ast.Ident]bool{}

// lhsIdents: identifier nodes that are being assigned/defined (left-hand sides, range variables,
// declared names) in f's own body. Such a node must not be read through to the variable's definition.
func lhsIdents(f *core.FuncInfo) map[*ast.Ident]bool {
	if m, ok := lhsIdentCache[f]; ok {
		return m
	}
	m := map[*ast.Ident]bool{}
	lhsIdentCache[f] = m
	f.InspectOwn(func(n ast.Node) bool {
		switch x := n.(type) {
		case *ast.AssignStmt:
			for _, l := range x.Lhs {
				if id, ok := ast.Unparen(l).(*ast.Ident); ok {
					m[id] = true
				}
			}
		case *ast.IncDecStmt:
			if id, ok := ast.Unparen(x.X).(*ast.Ident); ok {
				m[id] = true
			}
		case *ast.ValueSpec:
			for _, id := range x.Names {
				m[id] = true
			}
		case *ast.RangeStmt:
			for _, e := range []ast.Expr{x.Key, x.Value} {
				if id, ok := e.(*ast.Ident); ok {
					m[id] = true
				}
			}
		}
		return true
	})
	return m
}

// canonVar follows pure aliases: `ev := e` makes ev denote e (only through single-definition locals
// whose definition is itself a plain identifier).
func canonVar(f *core.FuncInfo, v *types.Var) *types.Var {
	for depth := 0; depth < 5 && v != nil; depth++ {
		d := singleDef(f, v)
		if d == nil {
			return v
		}
		id, ok := ast.Unparen(d).(*ast.Ident)
		if !ok {
			return v
		}
		w, _ := f.Info().ObjectOf(id).(*types.Var)
		if w == nil {
			return v
		}
		v = w
	}
	return v
}
