package rules

import (
	"go/ast"
	"go/constant"
	"go/token"
	"go/types"

	"golang.org/x/tools/go/cfg"

	"lachk/core"
)

// Generic flow helpers written for C04/C05/C07 (candidates for promotion to core):
//
//	c04AllAltsMatch  edge predicate: every alternative of the edge's condition contains a matching fact
//	c04EvalFacts     facts that hold when a sub-expression of a short-circuit condition is evaluated
//	c04LastDef       reaching-definition question restricted to the paths of one "mode"
//	c04Negate        the opposite fact

func c04Negate(ft core.Fact) core.Fact { return core.Fact{Expr: ft.Expr, Truth: !ft.Truth} }

// c04LinIs: is the linear form exactly 1*name + k?
func c04LinIs(l *core.Lin, name string, k int64) bool {
	co, ok := l.Coef[name]
	return ok && len(l.Coef) == 1 && co.IsInt64() && co.Int64() == 1 && l.C.IsInt64() && l.C.Int64() == k
}

// c04AllAltsMatch: the truth of the branch condition on edge (b, succ) is a disjunction of
// alternatives ((a && b) = false is "a false or b false"); the edge is accepted when every
// alternative contains a fact accepted by match, i.e. the edge implies the disjunction of matches.
func c04AllAltsMatch(f *core.FuncInfo, match func(core.Fact) bool) func(*cfg.Block, int) bool {
	return func(b *cfg.Block, s int) bool {
		cond := f.BranchCond(b)
		if cond == nil || s > 1 {
			return false
		}
		for _, alt := range core.Disjuncts(cond, s == 0) {
			ok := false
			for _, ft := range alt {
				if match(ft) {
					ok = true
					break
				}
			}
			if !ok {
				return false
			}
		}
		return true
	}
}

// c04EvalFacts returns the facts that are known to hold whenever the sub-expression target of the
// condition cond is evaluated: the left operands of the enclosing && (true) and || (false).
func c04EvalFacts(cond ast.Expr, target ast.Node) []core.Fact {
	var out []core.Fact
	contains := func(n ast.Node) bool { return n.Pos() <= target.Pos() && target.End() <= n.End() }
	e := cond
	for e != nil {
		e = ast.Unparen(e)
		switch x := e.(type) {
		case *ast.UnaryExpr:
			if x.Op == token.NOT {
				e = x.X
				continue
			}
		case *ast.BinaryExpr:
			if x.Op == token.LAND || x.Op == token.LOR {
				if contains(x.Y) {
					out = append(out, core.Decompose(x.X, x.Op == token.LAND)...)
					e = x.Y
					continue
				}
				if contains(x.X) {
					e = x.X
					continue
				}
			}
		}
		break
	}
	return out
}

// c04LastDef decides, for the local variable v read at the points uses: on every path from the
// function entry to a use that takes no edge rejected by inconsistent (the paths of one mode, e.g.
// "checkOnly is true"), is the last definition of v one accepted by good? entryGood says whether
// reaching a use without any definition (zero value of a named result / declared variable) is fine.
// It returns the number of accepted definitions and, on failure, the offending definition's position
// (the function's position when the variable is undefined) and a witness path.
func c04LastDef(f *core.FuncInfo, v *types.Var, uses []core.Point, inconsistent func(*cfg.Block, int) bool, good func(assignment) bool, entryGood bool) (ok bool, nGood int, pos token.Pos, wit string) {
	return c04LastDefX(f, v, uses, inconsistent, good, entryGood, false)
}

// c04NoEdge: no edge is excluded (all paths).
func c04NoEdge(*cfg.Block, int) bool { return false }

// c04LastDefX: as c04LastDef; with multi, a definition by a multi-value statement (`a, v := call()`) is
// also handed to good (its RHS is the call), instead of being rejected outright.
func c04LastDefX(f *core.FuncInfo, v *types.Var, uses []core.Point, inconsistent func(*cfg.Block, int) bool, good func(assignment) bool, entryGood bool, multi bool) (ok bool, nGood int, pos token.Pos, wit string) {
	defs := assignsToVar(f, v)
	var defPts []core.Point
	for _, d := range defs {
		defPts = append(defPts, d.Pt)
	}
	isUse, isDef := core.PointSet(uses...), core.PointSet(defPts...)
	isGood := func(d assignment) bool {
		if d.RHS == nil {
			if _, spec := d.Stmt.(*ast.ValueSpec); spec {
				return entryGood // `var x T`: the zero value
			}
			return false
		}
		if as, isAs := d.Stmt.(*ast.AssignStmt); isAs && ((len(as.Lhs) != len(as.Rhs) && !multi) || (as.Tok != token.ASSIGN && as.Tok != token.DEFINE)) {
			return false
		}
		return good(d)
	}
	ok = true
	if !entryGood {
		if path, found := (core.PathQuery{F: f, From: f.Entry(), Target: isUse, Avoid: isDef, AvoidEdge: inconsistent}).Find(); found {
			return false, 0, f.Pos(), "read without a definition: " + f.DescribePath(path)
		}
	}
	for _, d := range defs {
		if isGood(d) {
			nGood++
			continue
		}
		if d.Pt != f.Entry() {
			if reach, _ := f.ReachableAvoiding(d.Pt, nil, inconsistent); !reach {
				continue // this definition is not made in this mode
			}
		}
		if path, found := (core.PathQuery{F: f, From: d.Pt, FromAfter: true, Target: isUse, Avoid: isDef, AvoidEdge: inconsistent}).Find(); found && ok {
			ok, pos, wit = false, d.Stmt.Pos(), f.DescribePath(append([]core.Point{d.Pt}, path...))
		}
	}
	if ok && nGood == 0 && !entryGood {
		return false, 0, f.Pos(), "no definition of the expected form"
	}
	return ok, nGood, pos, wit
}

// c04BoolFact matches the bare boolean fact "v is <truth>" (also spelled v == true / v != false).
func c04BoolFact(f *core.FuncInfo, v *types.Var, truth bool) func(core.Fact) bool {
	return func(ft core.Fact) bool {
		cm, ok := core.NormCmp(ft)
		if !ok || v == nil {
			return false
		}
		if cm.R == nil {
			return canonVar(f, varOf(f, cm.L)) == v && (cm.Op == token.EQL) == truth
		}
		if cm.Op != token.EQL && cm.Op != token.NEQ {
			return false
		}
		l, r := cm.L, cm.R
		if canonVar(f, varOf(f, l)) != v {
			l, r = r, l
		}
		if canonVar(f, varOf(f, l)) != v {
			return false
		}
		cv, isConst := core.ConstVal(f.Info(), r)
		if !isConst || cv.Kind() != constant.Bool {
			return false
		}
		isTrue := constant.BoolVal(cv)
		return ((cm.Op == token.EQL) == isTrue) == truth
	}
}

// c04NilCmp matches "X == nil" (wantNil) / "X != nil" for an operand accepted by isX, in either operand order.
func c04NilCmp(f *core.FuncInfo, isX func(ast.Expr) bool, wantNil bool) func(core.Fact) bool {
	return func(ft core.Fact) bool {
		cm, ok := core.NormCmp(ft)
		if !ok || cm.R == nil || (cm.Op != token.EQL && cm.Op != token.NEQ) {
			return false
		}
		l, r := cm.L, cm.R
		if core.IsNil(f.Info(), l) {
			l, r = r, l
		}
		if !core.IsNil(f.Info(), r) || !isX(l) {
			return false
		}
		return (cm.Op == token.EQL) == wantNil
	}
}

// c04MethodOn: is x (single-definition locals looked through) a call of a method with this name on the variable recv?
func c04MethodOn(f *core.FuncInfo, x ast.Expr, method string, recv *types.Var) *ast.CallExpr {
	if x == nil {
		return nil
	}
	call, ok := resolveLocal(f, x).(*ast.CallExpr)
	if !ok || !methodNamed(calleeName(f, call), method) {
		return nil
	}
	sel, ok := ast.Unparen(call.Fun).(*ast.SelectorExpr)
	if !ok || recv == nil || canonVar(f, varOf(f, sel.X)) != recv {
		return nil
	}
	return call
}
