package rules

import (
	"go/ast"
	"go/token"
	"go/types"

	"lachk/core"
)

func init() {
	register("C08", "other", "T7 Pairing (write-through caches), provenance (bootstrap reads persisted state), T2 Dominates (branch info persisted with the vectors), linear normaliser (frame bookkeeping)",
		"Decides the structure that makes a restart at an event boundary invisible: the consensus store's cached last-decided state and epoch state are write-through — every setter stores the same value in the cache and in the table, the getters fill the cache only from the table, nobody else writes those cache fields — so what a fresh instance reads is what the running one saw; Bootstrap builds the election from the persisted validators, the persisted last decided frame + 1, the index's forkless-cause function and the stored roots, and wires the epoch database callback to reset the vector index over the persisted index table with the stored validators; the vector engine persists its branch info before flushing the vector data, and the index is flushed only after the consensus step (so no boundary has consensus state ahead of the index); frame bookkeeping (on every path of onFrameDecided the frame that reaches the election Reset — directly or through locals assigned per branch — is one above the LastDecidedFrame assigned on that path, every successful return has passed a Reset and the persisting setter; Bootstrap creates the election at last-decided+1); every function that owns the election (creates or resets it) and persists a new epoch state, directly or in a callee, (re)sets the election with exactly those validators on every successful path after the write, and never resets it with validators that were not persisted first — so the in-memory election equals the one Bootstrap would rebuild from the store at any boundary. Equality of the later behaviour is not decided.",
		[]string{"main and epoch databases are correct stores (C22/C23)", "the application restarts over the databases as they were at an event boundary"},
		runC08)
}

func runC08(c *core.Ctx) {
	p := c.P
	c.Clause("C08.writethrough", func() {
		type st struct{ setter, getter, cache, table string }
		owners := map[string]bool{}
		for _, s := range []st{
			{"abft.Store.SetLastDecidedState", "abft.Store.GetLastDecidedState", "abft.Store.cache.LastDecidedState", "abft.Store.table.LastDecidedState"},
			{"abft.Store.SetEpochState", "abft.Store.GetEpochState", "abft.Store.cache.EpochState", "abft.Store.table.EpochState"},
		} {
			set := c.Fn(s.setter)
			get := c.Fn(s.getter)
			owners[set.Name], owners[get.Name] = true, true
			// setter: cache = v and table write of v
			as := assignsToField(set, s.cache)
			okS := len(as) == 1 && varOf(set, as[0].RHS) == set.Param(0)
			reach := core.ReachableFuncs(p, []*core.FuncInfo{set}, false)
			wrote := false
			for _, g := range append([]*core.FuncInfo{set}, reach...) {
				for _, cs := range g.CallsTo("abft.Store.set") {
					if fieldNameOf(g, cs.Call.Args[0]) == s.table {
						// value argument is the (forwarded) parameter
						if v := varOf(g, cs.Call.Args[2]); v != nil && (v == g.Param(0) || v == g.Param(1)) {
							wrote = true
						}
					}
				}
			}
			if okS {
				// the table write is on every path of the setter
				var tw []core.Point
				for _, cs := range set.Calls() {
					if cs.Name == "abft.Store.set" || cs.Name == "abft.Store.setEpochState" {
						tw = append(tw, cs.Pt)
					}
				}
				okS, _ = pairedWith(set, as[0].Pt, tw)
			}
			c.Check(okS && wrote, short(s.setter)+" writes cache and table together", "T7 Pairing", set.Pos(), "the same value goes to the cache field and, RLP-encoded, to the table", "the cached state can differ from the persisted one: a restarted instance reads something else")
			// getter: cache filled only from the table read
			ga := assignsToField(get, s.cache)
			okG := len(ga) == 1
			if okG {
				okG = c08filledFromTable(get, ga[0].RHS, ga[0].Pt, s.table, 0)
			}
			c.Check(okG, short(s.getter)+" fills the cache only from the table", "T7 Pairing", get.Pos(), "a cache miss decodes the persisted value and caches it", "the getter can cache something that was not read from the table")
		}
		// nobody else writes these cache fields
		n := 0
		for _, g := range p.FuncsInPkg("abft") {
			all := append([]*core.FuncInfo{g}, allLits(g)...)
			for _, h := range all {
				for _, fld := range []string{"abft.Store.cache.LastDecidedState", "abft.Store.cache.EpochState"} {
					for _, a := range assignsToField(h, fld) {
						n++
						c.Check(owners[h.Name], "cached state written in "+short(h.Name), "T6 WhoMayWrite", a.Stmt.Pos(), "setter/getter of that state", "a cached consensus state is written outside its setter/getter (not persisted)")
					}
				}
			}
		}
		c.ExpectAtLeast("writes of cached consensus state", n, 4)
		// in-place mutation of the cached pointers: every function that stores a state through a setter
		// (today onFrameDecided, sealEpoch, applyGenesis — located by what they do, not by name) works on
		// a copy of what the getter returned
		nMod := 0
		for _, f := range p.FuncsInPkg("abft") {
			if owners[f.Name] || len(f.CallsTo("abft.Store.SetLastDecidedState", "abft.Store.SetEpochState")) == 0 {
				continue
			}
			nMod++
			name := f.Name
			okCopy := true
			for _, a := range assignments(f) {
				call, isC := ast.Unparen(a.RHS).(*ast.CallExpr)
				if a.RHS == nil || !isC {
					continue
				}
				nm := calleeName(f, call)
				if nm == "abft.Store.GetLastDecidedState" || nm == "abft.Store.GetEpochState" {
					okCopy = false // pointer kept: later field writes would mutate the cache without persisting
				}
			}
			c.Check(okCopy, short(name)+" modifies a copy of the stored state", "alias", f.Pos(), "the state is dereferenced (*Get…()) before it is changed and then stored through the setter", "the cached state object is modified in place: the change is visible before (or without) being persisted")
		}
		c.ExpectAtLeast("functions that store a consensus state through its setter", nMod, 1)
	})

	c.Clause("C08.boot", func() {
		bs := c.Fn("abft.Orderer.Bootstrap")
		news := bs.CallsTo("abft/election.New")
		c.Need(len(news) == 1 && len(news[0].Call.Args) == 4, "Bootstrap creates the election")
		a := news[0].Call.Args
		okFC := false
		if sel, ok := ast.Unparen(a[2]).(*ast.SelectorExpr); ok && methodNamedSel(bs, sel, "ForklessCause") && fieldNameOf(bs, sel.X) == "abft.Orderer.dagIndex" {
			okFC = true
		}
		okRoots := false
		if sel, ok := ast.Unparen(a[3]).(*ast.SelectorExpr); ok {
			if fn, k := bs.Info().Uses[sel.Sel].(*types.Func); k && core.FuncName(fn) == "abft.Store.GetFrameRoots" {
				okRoots = true
			}
		}
		c.Check(okFC && okRoots, "election reads the index and the stored roots", "provenance", news[0].Pos(), "election.New(·, ·, dagIndex.ForklessCause, store.GetFrameRoots)", "the restarted election is not wired to the index's forkless cause / the persisted roots")
		// epoch DB is opened for the persisted epoch before the election is created
		// (openEpochDB is called in Bootstrap itself or in a helper that always calls it and hands its error on)
		opens := c08sitesOf(bs, "abft.Store.openEpochDB", 2)
		// (when openEpochDB has no error result it cannot fail: having passed it is enough)
		okLD := len(opens) == 1 && c08after(bs, opens[0].Outer(), news[0].Pt)
		c.Check(okLD, "epoch database is opened before the election is restored", "T2+T4", bs.Pos(), "openEpochDB succeeded before election.New", "the election can be restored before the epoch database is open")
		okE := false
		wherePos := bs.Pos()
		for _, s := range opens {
			g, arg := c08arg(s, 0)
			okE = g != nil && isCallTo(g, arg, "abft.Store.GetEpoch") != nil
			wherePos = s.Inner().Pos()
		}
		c.Check(okE, "the persisted epoch's database is opened", "provenance", wherePos, "openEpochDB(store.GetEpoch())", "a different epoch's database is opened on restart")
		// the EpochDBLoaded callback is invoked with the stored epoch
		// (directly, or in a helper that invokes the callback unless it is not set)
		cb := c09callbackSites(bs, "abft.OrdererCallbacks.EpochDBLoaded")
		okCB := len(cb) == 1 && len(cb[0].Inner().Call.Args) == 1
		if okCB {
			ag, arg := c08arg(cb[0], 0)
			okCB = ag != nil && isCallTo(ag, arg, "abft.Store.GetEpoch") != nil
		}
		if okCB {
			at := cb[0].Outer().Pt
			okCB, _ = bs.MustPassBefore([]core.Point{at}, news[0].Pt)
			// unless nil
			if !okCB {
				_, found := core.PathQuery{F: bs, From: bs.Entry(), Target: core.PointSet(news[0].Pt), Avoid: core.PointSet(at), AvoidEdge: bs.GuardEdges(c09fieldNilFact(bs, "abft.OrdererCallbacks.EpochDBLoaded", true))}.Find()
				okCB = !found
			}
		}
		c.Check(okCB, "the index is told about the loaded epoch database before roots are replayed", "T2 Dominates", bs.Pos(), "EpochDBLoaded(store.GetEpoch()) precedes election.New / bootstrapElection", "the vector index is not reset over the persisted data before the election replays roots")
		// IndexedLachesis wires EpochDBLoaded to dagIndexer.Reset(validators, VectorIndex table, GetEvent)
		ib := c.Fn("abft.IndexedLachesis.Bootstrap")
		okW := false
		for _, l := range ib.Lits() {
			for _, cs := range l.Calls() {
				if methodNamed(cs.Name, "Reset") && len(cs.Call.Args) == 3 {
					_, pth := fieldPath(l, cs.Call.Args[1])
					v := isCallTo(l, cs.Call.Args[0], "abft.Store.GetValidators") != nil
					t := len(pth) >= 1 && pth[len(pth)-1] == "abft.Store.epochTable.VectorIndex"
					okW = v && t
				}
			}
		}
		c.Check(okW, "vector index is reset over the persisted index table with the stored validators", "provenance", ib.Pos(), "dagIndexer.Reset(store.GetValidators(), store.epochTable.VectorIndex, input.GetEvent)", "a restarted vector index is not built over the persisted index data / validators")
	})

	c.Clause("C08.branches", func() {
		f := c.Fn("vecengine.Engine.Flush")
		sb := f.CallsTo("vecengine.Engine.setBranchesInfo")
		fl := f.CallsTo("kvdb.FlushableKVStore.Flush")
		c.Need(len(sb) == 1 && len(fl) == 1, "Engine.Flush persists branch info and flushes")
		// the flush is preceded by setBranchesInfo whenever branch info is loaded
		_, found := core.PathQuery{F: f, From: f.Entry(), Target: core.PointSet(fl[0].Pt), Avoid: core.PointSet(sb[0].Pt), AvoidEdge: f.GuardEdges(fieldNilFact(f, "vecengine.Engine.bi", true))}.Find()
		c.Check(!found, "branch info is written before the vectors are flushed", "T2 Dominates", fl[0].Pos(), "setBranchesInfo(bi) precedes vecDb.Flush() unless no branch info is loaded", "vectors can become durable without the branch info they refer to")
		okArg := fieldNameOf(f, sb[0].Call.Args[0]) == "vecengine.Engine.bi"
		c.Check(okArg, "the in-memory branch info is what is persisted", "provenance", sb[0].Pos(), "setBranchesInfo(vi.bi)", "a different branch info object is persisted")
		// InitBranchesInfo loads from the store when nil
		ib := c.Fn("vecengine.Engine.InitBranchesInfo")
		okL := false
		for _, a := range assignsToField(ib, "vecengine.Engine.bi") {
			if g, _ := ib.GuardedBy(a.Pt, fieldNilFact(ib, "vecengine.Engine.bi", true)); g {
				okL = true
			}
		}
		c.Check(okL, "branch info is (re)loaded only when absent", "T4 GuardedBy", ib.Pos(), "bi is assigned on the bi == nil edge", "the in-memory branch info can be replaced while in use")
		// IndexedLachesis.Process: index flush after the consensus step (shared with C07)
		proc := c.Fn(ilT + ".Process")
		flushes := proc.CallsMatching(func(cs *core.CallSite) bool { return methodNamed(cs.Name, "Flush") })
		steps := proc.CallsTo("abft.Lachesis.Process", "abft.Orderer.Process")
		ok := len(flushes) == 1 && len(steps) == 1 && afterSuccess(proc, steps[0], flushes[0].Pt)
		c.Check(ok, "index data becomes durable only after the consensus step", "T2+T4", proc.Pos(), "dagIndexer.Flush() follows a successful Lachesis.Process", "the index can be flushed before the consensus state of the event is written")
	})

	c.Clause("C08.frame", func() { c08FrameBookkeeping(c) })

	c08Election(c)
}

// c08filledFromTable: is the value e, used at the point `at` of g, read from the named table on
// every definition that can supply it? A definition counts as a table read when it is the (possibly
// type-asserted) result of Store.get(<table>, ·, ·), a (possibly type-asserted) function-local variable
// every definition of which is in turn a table read or neutral, the result of a same-package helper every return
// of which is such a read or nil, or a fresh object (&T{} / new(T)) that is handed to
// Store.get(<table>, ·, obj) as the decoding target on every path from the definition to the use.
// nil / zero definitions ("nothing stored") are neutral; anything else is not a table read. At least
// one definition must be a table read.
func c08filledFromTable(g *core.FuncInfo, e ast.Expr, at core.Point, table string, depth int) bool {
	if e == nil || depth > 2 {
		return false
	}
	isGet := func(call *ast.CallExpr) bool {
		return calleeName(g, call) == "abft.Store.get" && len(call.Args) == 3 && fieldNameOf(g, call.Args[0]) == table
	}
	// 1 = table read, 0 = neutral, -1 = something else
	var classify func(src ast.Expr, v *types.Var, defPt core.Point) int
	// fromVar: every definition of the local w is a table read or neutral, at least one is a read
	// (the locals on the current look-through chain are in seen: a cycle is not a table read)
	seen := map[*types.Var]bool{}
	fromVar := func(w *types.Var) bool {
		if w == nil || w.IsField() || seen[w] {
			return false
		}
		if w.Pkg() != nil && w.Parent() == w.Pkg().Scope() {
			return false // package-level variable: its definitions are not all in g
		}
		seen[w] = true
		defer delete(seen, w)
		good := 0
		for _, d := range assignsToVar(g, w) {
			if d.RHS == nil {
				if c33isValueSpec(d.Stmt) {
					continue
				}
				return false
			}
			switch classify(d.RHS, w, d.Pt) {
			case 1:
				good++
			case -1:
				return false
			}
		}
		return good > 0
	}
	classify = func(src ast.Expr, v *types.Var, defPt core.Point) int {
		src = ast.Unparen(src)
		if core.IsNil(g.Info(), src) {
			return 0
		}
		if ta, isTA := src.(*ast.TypeAssertExpr); isTA {
			src = ast.Unparen(ta.X)
		}
		// the value (or the operand of the assertion) is held in another local of g: it is a table
		// read when every definition of that local is (`got := s.get(t, k, &T{}); w, ok := got.(*T)`)
		if w := varOf(g, src); w != nil && !w.IsField() && w != v {
			if fromVar(w) {
				return 1
			}
			return -1
		}
		if call, isC := src.(*ast.CallExpr); isC {
			if isGet(call) {
				return 1
			}
			if isCallTo(g, call, "builtin.new") != nil {
				src = nil // fresh object, see below
			} else {
				fn, _ := g.ObjOf(call.Fun).(*types.Func)
				if fn == nil {
					if o, _ := g.P.ResolveCallee(g.Info(), call); o != nil {
						fn, _ = o.(*types.Func)
					}
				}
				h := (*core.FuncInfo)(nil)
				if fn != nil {
					h = g.P.FuncOf(fn)
				}
				if h == nil || h == g || h.Pkg != g.Pkg {
					return -1
				}
				rets := h.ReturnPoints()
				good := 0
				for _, rp := range rets {
					r := rp.Node().(*ast.ReturnStmt)
					if len(r.Results) != 1 {
						return -1
					}
					if core.IsNil(h.Info(), r.Results[0]) {
						continue
					}
					if !c08filledFromTable(h, r.Results[0], rp, table, depth+1) {
						return -1
					}
					good++
				}
				if good == 0 {
					return -1
				}
				return 1
			}
		}
		fresh := src == nil
		if u, isU := src.(*ast.UnaryExpr); isU && u.Op == token.AND {
			if cl, isL := ast.Unparen(u.X).(*ast.CompositeLit); isL && len(cl.Elts) == 0 {
				fresh = true
			}
		}
		if !fresh || v == nil {
			return -1
		}
		// the fresh object is the decoding target of a read of the table before it is used
		var reads []core.Point
		for _, cs := range g.CallsTo("abft.Store.get") {
			if isGet(cs.Call) && varOf(g, cs.Call.Args[2]) == v {
				reads = append(reads, cs.Pt)
			}
		}
		if len(reads) == 0 {
			return -1
		}
		if ok, _ := g.MustPassBetween(defPt, reads, at); !ok {
			return -1
		}
		return 1
	}
	v := varOf(g, e)
	if v == nil || v.IsField() {
		return classify(e, nil, at) == 1
	}
	return fromVar(v)
}

// methodNamedSel: does the selector denote a method (value) with this name?
func methodNamedSel(f *core.FuncInfo, sel *ast.SelectorExpr, name string) bool {
	if fn, ok := f.Info().Uses[sel.Sel].(*types.Func); ok {
		return fn.Name() == name
	}
	if s, ok := f.Info().Selections[sel]; ok {
		if fn, ok := s.Obj().(*types.Func); ok {
			return fn.Name() == name
		}
	}
	return false
}
