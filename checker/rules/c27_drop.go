package rules

import (
	"fmt"
	"go/ast"
	"go/token"

	"lachk/core"
)

// c27Drop decides the drop function of the cached store. The test-and-clear of the not-dropped mark may
// be written in the drop function or in a module function whose boolean result it tests; the facts are
// the same in both layouts:
//
//	real drop conditional    the single call of the real drop is reached only on the true edge of a boolean
//	                         (a flag variable, or directly the result of the helper);
//	the boolean is the mark  followed back through locals and helper results, its only origin that is not
//	                         the constant false is one read of notDropped[name];
//	test-and-clear           in the function holding that read, the mark is deleted on every path after the
//	                         read, and no unlock separates the two.
func c27Drop(c *core.Ctx, f *core.FuncInfo, isRealDrop func(*core.CallSite) bool, notDropped string) {
	rd := f.CallsMatching(isRealDrop)
	c.Check(len(rd) == 1, "real drop called at one site", "T6 WhoMayCall", f.Pos(), "exactly one call of the real drop", fmt.Sprintf("%d calls of the real drop in DropFn", len(rd)))
	if len(rd) != 1 {
		return
	}
	// candidate guards: booleans (variables, results of module functions) whose true edge is tested
	var cands []ast.Expr
	isCand := func(e ast.Expr) bool {
		if varOf(f, e) != nil {
			return true
		}
		if call, ok := ast.Unparen(e).(*ast.CallExpr); ok {
			obj, _ := f.P.ResolveCallee(f.Info(), call)
			return f.P.FuncOf(c27AsFunc(obj)) != nil
		}
		return false
	}
	same := func(a, b ast.Expr) bool {
		if va, vb := varOf(f, a), varOf(f, b); va != nil || vb != nil {
			return va == vb
		}
		return ast.Unparen(a) == ast.Unparen(b)
	}
	trueFact := func(want ast.Expr) func(core.Fact) bool {
		return func(ft core.Fact) bool {
			cm, ok := core.NormCmp(ft)
			if !ok || cm.R != nil || cm.Op != token.EQL || !isCand(cm.L) {
				return false
			}
			if want == nil {
				cands = append(cands, cm.L)
				return false
			}
			return same(cm.L, want)
		}
	}
	f.GuardedBy(rd[0].Pt, trueFact(nil)) // collects the candidates
	var guard ast.Expr
	for _, cand := range cands {
		if ok, _ := f.GuardedBy(rd[0].Pt, trueFact(cand)); ok {
			guard = cand
			break
		}
	}
	c.Check(guard != nil, "real drop is conditional on the mark", "T4 GuardedBy", rd[0].Pos(), "the real drop is reached only on the true edge of a flag", "the real drop is called unconditionally: it can run more than once per open")
	if guard == nil {
		return
	}
	// the guard's only origin other than false is a read of notDropped[name]
	leaves, ok := c27Leaves(f, guard, rd[0].Pt, rd[0].Pos(), 0)
	if !ok {
		c.Undecided("drop flag has an unexpected definition", "provenance", rd[0].Pos(), "the value guarding the real drop comes from outside the drop function and the helpers it calls")
		return
	}
	var reads []c27Leaf
	for _, l := range leaves {
		if l.e == nil {
			continue // zero value: false
		}
		if v, isConst := core.ConstVal(l.f.Info(), l.e); isConst {
			if c26IsTrue(l.f, l.e) {
				c.Fail("drop flag has an unexpected definition", "provenance", l.pos, "the value guarding the real drop can be the constant "+v.String()+": the real drop then runs whether or not the name was dropped before")
			}
			continue
		}
		if ix, isIx := ast.Unparen(l.e).(*ast.IndexExpr); isIx && fieldNameOf(l.f, ix.X) == notDropped {
			reads = append(reads, l)
			continue
		}
		c.Fail("drop flag has an unexpected definition", "provenance", l.pos, "the flag guarding the real drop is not read from notDropped[name]")
	}
	c.Check(len(reads) == 1, "drop flag is the not-dropped mark", "provenance", f.Pos(), "toDrop = notDropped[name]", "the drop flag is not read from notDropped[name]")
	if len(reads) != 1 {
		return
	}
	rf, read := reads[0].f, reads[0].pt
	del := core.Points(rf.CallsMatching(func(cs *core.CallSite) bool {
		return cs.Name == "builtin.delete" && len(cs.Call.Args) > 0 && fieldNameOf(rf, cs.Call.Args[0]) == notDropped
	}))
	unl := core.Points(rf.CallsMatching(func(cs *core.CallSite) bool { return cs.Name == "sync.Mutex.Unlock" && !cs.InDefer }))
	ok1, _ := rf.MustPassAfter(read, del)
	// no unlock between the read and the clear (test-and-clear is one critical section)
	ok2 := len(del) > 0
	for _, d := range del {
		if rf.CanReach(read, d) {
			if ok, _ := rf.MustPassBetween(read, unl, d); ok && len(unl) > 0 {
				ok2 = false // every path passes an unlock in between
			}
		}
	}
	c.Check(ok1 && ok2, "test-and-clear of the mark", "T7 Pairing", reads[0].pos, "the mark is deleted after it is read, within the same critical section", "the not-dropped mark is not cleared atomically with its test: two drops can both run the real drop")
}
