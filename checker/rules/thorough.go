package rules

import (
	"fmt"
	"os"
	"os/exec"
	"path/filepath"
	"regexp"
	"runtime"
	"strings"

	"lachk/core"
)

// Control is a positive control for a rule: a one-instance breakage applied as an in-memory overlay
// (never written to disk). The rule must fire on it and name the expected construct.
type Control struct {
	Name   string
	File   string // relative to the repo root
	From   string // regular expression (matched once, (?s) mode)
	To     string
	Expect string // substring of the obligation key that must be reported as violated/undecided
}

// Controls per property (see controls.go).
var Controls = map[string][]Control{}

// skip386: properties whose anchors include packages that do not type-check on 32-bit
// (third-party cockroachdb/pebble), so the GOARCH=386 pass is not run for them.
var skip386 = map[string]string{
	"C23": "anchors include kvdb/pebble, whose dependency cockroachdb/pebble does not type-check with 32-bit int",
}

// Thorough runs the extra thorough-tier work of a property:
//  1. the property's rules again on the program type-checked for GOARCH=386 (32-bit int/uint sizes,
//     build-tagged files), every obligation prefixed "386:";
//  2. the positive controls of the property;
//  3. the property's own whole-module pass, if it has one.
func Thorough(c *core.Ctx, r Property, repo string) {
	// 1. 386
	if why, skip := skip386[c.Prop]; skip {
		c.Note("GOARCH=386 pass skipped: %s", why)
	} else {
		pats, err := patternsWithout(repo, "kvdb/pebble")
		if err != nil {
			c.Note("GOARCH=386 pass skipped: cannot list packages: %v", err)
		} else {
			p386, err := core.Load(core.LoadOpts{Repo: repo, Patterns: pats, GOARCH: "386"})
			if err != nil {
				c.Clause("thorough.386", func() {
					c.Undecided("load", "load", 0, "the module (without kvdb/pebble) does not load for GOARCH=386: "+firstLine(err.Error()))
				})
			} else {
				sub := core.NewCtx(p386, c.Prop, c.Tier)
				r.Run(sub)
				c.Merge("386:", sub)
				c.Extra["goarch_386_packages"] = len(p386.All)
				c.Note("GOARCH=386 pass: %d packages, %d obligations", len(p386.All), len(sub.Obs))
			}
		}
		runtime.GC()
	}
	// 2. positive controls
	ctrls := Controls[c.Prop]
	fired, skipped := 0, 0
	for _, k := range ctrls {
		path := filepath.Join(repo, k.File)
		src, err := os.ReadFile(path)
		if err != nil {
			skipped++
			c.Note("control %q skipped: %v", k.Name, err)
			continue
		}
		re, err := regexp.Compile("(?s)" + k.From)
		if err != nil {
			panic("bad control regexp " + k.Name + ": " + err.Error())
		}
		loc := re.FindIndex(src)
		if loc == nil {
			skipped++
			c.Note("control %q skipped: its source pattern no longer matches %s (the code changed; the control needs re-deriving)", k.Name, k.File)
			continue
		}
		mut := append(append(append([]byte{}, src[:loc[0]]...), re.ReplaceAll(src[loc[0]:loc[1]], []byte(k.To))...), src[loc[1]:]...)
		pm, err := core.Load(core.LoadOpts{Repo: repo, Patterns: []string{"./..."}, Overlay: map[string][]byte{path: mut}})
		if err != nil {
			skipped++
			c.Note("control %q skipped: the mutated tree does not type-check (%s)", k.Name, firstLine(err.Error()))
			continue
		}
		sub := core.NewCtx(pm, c.Prop, c.Tier)
		r.Run(sub)
		hit := ""
		for _, o := range sub.Obs {
			if o.Status != core.Discharged && strings.Contains(o.Key, k.Expect) {
				hit = o.Key
				break
			}
		}
		c.Clause("control", func() {
			if hit != "" {
				fired++
				c.Pass(k.Name, "positive control (overlay)", "the rule fires on the seeded breakage and names "+hit)
			} else {
				c.ControlFailed(k.Name, fmt.Sprintf("the rule stays silent on a seeded breakage of %s (expected an obligation containing %q to fail)", k.File, k.Expect))
			}
		})
		runtime.GC()
	}
	c.Extra["positive_controls"] = map[string]int{"defined": len(ctrls), "fired": fired, "skipped": skipped}
	// 3. property-specific whole-module pass
	if r.ThoroughRun != nil {
		r.ThoroughRun(c, repo)
	}
}

func firstLine(s string) string {
	if i := strings.Index(s, "\n"); i >= 0 {
		if j := strings.Index(s[i+1:], "\n"); j >= 0 {
			return s[:i+1+j]
		}
	}
	return s
}

// patternsWithout lists the module's packages except those under the given relative directory.
func patternsWithout(repo, exclude string) ([]string, error) {
	cmd := exec.Command("go", "list", "./...")
	cmd.Dir = repo
	cmd.Env = core.Env("")
	out, err := cmd.Output()
	if err != nil {
		return nil, err
	}
	var pats []string
	for _, l := range strings.Split(strings.TrimSpace(string(out)), "\n") {
		rel := core.RelPkg(l)
		if rel == exclude || strings.HasPrefix(rel, exclude+"/") {
			continue
		}
		if rel == "" {
			pats = append(pats, ".")
		} else {
			pats = append(pats, "./"+rel)
		}
	}
	if len(pats) == 0 {
		return nil, fmt.Errorf("no packages")
	}
	return pats, nil
}
