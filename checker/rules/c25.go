package rules

import (
	"fmt"
	"go/ast"
	"go/token"
	"go/types"

	"golang.org/x/tools/go/cfg"

	"lachk/core"
)

const (
	poolT  = "kvdb/flushable.SyncedPool"
	fpPkg  = "kvdb/flaggedproducer"
	fStore = fpPkg + ".flaggedStore"
	fBatch = fpPkg + ".flaggedBatch"
)

func init() {
	register("C25", "other", "T2 Dominates (loop-aware phase order), T20 WrapperDelegation / override completeness, T8 DecisionTable, T4 GuardedBy",
		"Decides the write ordering that crash consistency depends on. Pool: in SyncedPool.flush the complete dirty-mark loop over all pooled databases dominates every durable mutation (dropping a queued database, flushing a database), every flush dominates the clean-mark loop, all three loops range over the same map, and marks use the configured key and the given ID. Dirty-flag producer: every mutator of the flagged store (Put, Delete, batch Write) is overridden and delegates only after modified() returned nil; modified() writes the dirty mark before returning nil on the clean edge; Flush writes the clean mark and only then clears the in-memory flag; a database drop must be preceded by invalidating the other databases' clean state. Startup check: a dirty prefix, differing marks, or an unmarked database next to a known flush ID each lead only to error returns. The enumeration of crash points itself is not performed.",
		[]string{"a single Put/Drop/batch Write of the underlying store is the unit of durability", "no I/O error injection (fault sequences are outside the property's quantifier)"},
		runC25)
}

func runC25(c *core.Ctx) {
	p := c.P

	c.Clause("C25.pool", func() {
		f := c.Fn(poolT + ".flush")
		idParam := f.Param(0)
		marks := f.CallsTo("kvdb/flushable.MarkFlushID")
		var dirty, clean []*core.CallSite
		for _, m := range marks {
			c.Need(len(m.Call.Args) == 4, "MarkFlushID(db, key, prefix, id)")
			okArgs := fieldNameOf(f, m.Call.Args[1]) == poolT+".flushIDKey" && varOf(f, m.Call.Args[3]) == idParam
			c.Check(okArgs, "mark uses the pool's key and the flush ID", "provenance", m.Pos(), "MarkFlushID(db, p.flushIDKey, ·, id)", "a flush mark is written with a different key or ID")
			switch {
			case constNamed(f, m.Call.Args[2], "kvdb/flushable.DirtyPrefix"):
				dirty = append(dirty, m)
			case constNamed(f, m.Call.Args[2], "kvdb/flushable.CleanPrefix"):
				clean = append(clean, m)
			default:
				c.Undecided("mark prefix", "T2", m.Pos(), "MarkFlushID with a prefix that is neither DirtyPrefix nor CleanPrefix")
			}
		}
		c.Need(len(dirty) == 1 && len(clean) == 1, "exactly one dirty-mark and one clean-mark site in flush")
		dirtyLoop, _ := enclosingLoop(f, dirty[0].Pos()).(*ast.RangeStmt)
		cleanLoop, _ := enclosingLoop(f, clean[0].Pos()).(*ast.RangeStmt)
		c.Need(dirtyLoop != nil && cleanLoop != nil, "marks are written inside range loops")
		dirtyDone, dComplete := loopDone(f, dirtyLoop)
		c.Check(dComplete, "dirty-mark loop is complete", "T2 (loop)", dirtyLoop.Pos(), "the dirty loop's exit is reached only after ranging over every database (no break)", "the dirty-mark loop can be left early: some databases stay unmarked")
		// the dirty mark is written on every iteration of its loop (not skipped by a continue)
		if head, _ := f.LoopOf(dirtyLoop); head != nil {
			bodyEntry := core.Point{B: head.Succs[0], I: 0}
			_, skip := core.PathQuery{F: f, From: bodyEntry, Target: func(pt core.Point) bool { return pt.B == head }, Avoid: core.PointSet(dirty[0].Pt)}.Find()
			c.Check(!skip, "every iteration writes the dirty mark", "T2 (loop)", dirtyLoop.Pos(), "no path through the loop body reaches the next iteration without MarkFlushID(Dirty)", "an iteration of the dirty-mark loop can skip a database")
		}
		// durable mutations
		var muts []*core.CallSite
		for _, cs := range f.Calls() {
			if cs.Name == "kvdb.Droper.Drop" || methodNamed(cs.Name, "Drop") || methodNamed(cs.Name, "RealDrop") ||
				cs.Name == "kvdb/flushable.LazyFlushable.Flush" || cs.Name == "kvdb/flushable.Flushable.Flush" || cs.Name == "kvdb.FlushableKVStore.Flush" {
				muts = append(muts, cs)
			}
		}
		c.ExpectAtLeast("durable mutations in flush (Drop, Flush)", len(muts), 2)
		var flushes []*core.CallSite
		for _, m := range muts {
			ok, wit := mustPassBlockBefore(f, dirtyDone, m.Pt)
			what := "database drop"
			if methodNamed(m.Name, "Flush") {
				what = "data flush"
				flushes = append(flushes, m)
			}
			c.Check(ok, what+" after all dirty marks", "T2 Dominates (loop exit)", m.Pos(),
				"the exit of the dirty-mark loop dominates this "+what,
				"this "+what+" ("+short(m.Name)+") can run before every pooled database carries the dirty mark: a crash right after it leaves databases that still show the previous clean flush ID although the set of databases/contents has changed; path "+f.DescribePath(wit))
		}
		// flush loop complete before any clean mark
		for _, fl := range flushes {
			loop, _ := enclosingLoop(f, fl.Pos()).(*ast.RangeStmt)
			c.Need(loop != nil, "Flush is called inside a range loop")
			done, complete := loopDone(f, loop)
			ok, wit := mustPassBlockBefore(f, done, clean[0].Pt)
			c.Check(ok && complete, "clean marks after all flushes", "T2 Dominates (loop exit)", clean[0].Pos(), "the exit of the complete flush loop dominates the clean-mark loop", "a clean mark can be written before every database was flushed: "+f.DescribePath(wit))
			// same collection
			c.Check(fieldNameOf(f, loop.X) == poolT+".wrappers" && fieldNameOf(f, dirtyLoop.X) == poolT+".wrappers" && fieldNameOf(f, cleanLoop.X) == poolT+".wrappers",
				"the three phases range over the same map", "T16b SiblingAgreement", loop.Pos(), "dirty, flush and clean loops all range over p.wrappers", "the phases range over different collections")
		}
		// no change of the map between the dirty loop and the end
		for _, cs := range f.CallsTo("builtin.delete") {
			if fieldNameOf(f, cs.Call.Args[0]) == poolT+".wrappers" {
				dpt := core.Point{B: dirtyDone, I: 0}
				reach := false
				if len(dirtyDone.Nodes) > 0 {
					reach = f.CanReach(dpt, cs.Pt) || dpt == cs.Pt
				}
				c.Check(!reach, "pool map not changed after the dirty phase", "T2", cs.Pos(), "delete(p.wrappers,·) happens before the dirty-mark loop only", "the pool map is modified after databases were marked dirty")
			}
		}
		// every error return precedes the next phase: a return with non-nil error inside a phase — implied by
		// the dominance checks; additionally the final return nil is dominated by the clean loop's exit
		cleanDone, cComplete := loopDone(f, cleanLoop)
		okFinal := cComplete
		for _, rp := range returnsWith(f, 0, func(e ast.Expr) bool { return core.IsNil(f.Info(), e) }) {
			if ok, _ := mustPassBlockBefore(f, cleanDone, rp); !ok {
				okFinal = false
			}
		}
		c.Check(okFinal, "success only after all clean marks", "T2 Dominates (loop exit)", f.Pos(), "flush returns nil only after the complete clean-mark loop", "flush can report success before every database carries the clean mark")
		// Flush() entry point: holds the pool mutex and the flushing lock, calls flush(id) with its own id
		ent := c.Fn(poolT + ".Flush")
		okEnt := false
		for _, cs := range ent.CallsTo(poolT + ".flush") {
			okEnt = len(cs.Call.Args) == 1 && varOf(ent, cs.Call.Args[0]) == ent.Param(0)
		}
		c.Check(okEnt, "Flush(id) runs flush(id)", "provenance", ent.Pos(), "the exported Flush passes its ID to flush", "Flush does not pass its ID to flush")
	})

	c.Clause("C25.flag.mutators", func() {
		// override completeness: the flagged store declares every mutator itself
		for _, m := range []string{"Put", "Delete", "NewBatch", "Drop", "Close"} {
			f := declaresMethod(p, fStore, m)
			c.Check(f != nil, "flaggedStore overrides "+m, "T20 override completeness", token.NoPos, "declared on flaggedStore (not promoted from the embedded raw store)", "flaggedStore does not override "+m+": the call goes straight to the raw store, bypassing the dirty mark")
		}
		c.Check(declaresMethod(p, fBatch, "Write") != nil, "flaggedBatch overrides Write", "T20 override completeness", token.NoPos, "declared on flaggedBatch", "flaggedBatch does not override Write: batch writes bypass the dirty mark")
		// NewBatch returns a flaggedBatch bound to this store
		nb := c.Fn(fStore + ".NewBatch")
		okNB := false
		nb.InspectOwn(func(n ast.Node) bool {
			if cl, ok := n.(*ast.CompositeLit); ok {
				if t := nb.Info().TypeOf(cl); t != nil && t.String() == core.ModPath+"/"+fBatch {
					for _, el := range cl.Elts {
						if kv, ok := el.(*ast.KeyValueExpr); ok && isIdentNamed(kv.Key, "db") && varOf(nb, kv.Value) == nb.Recv() {
							okNB = true
						}
					}
				}
			}
			return true
		})
		c.Check(okNB, "NewBatch wraps the batch with this store", "T20", nb.Pos(), "NewBatch returns &flaggedBatch{db: s}", "NewBatch does not return a flaggedBatch bound to the flagged store")
		// each mutator delegates only after modified() returned nil
		type mut struct{ fn, delegate string }
		n := 0
		for _, m := range []mut{{fStore + ".Put", kvPut}, {fStore + ".Delete", kvDelete}, {fBatch + ".Write", "kvdb.Batch.Write"}} {
			f := c.Fn(m.fn)
			mods := f.CallsTo(fStore + ".modified")
			dels := f.CallsTo(m.delegate)
			c.Need(len(dels) >= 1, short(m.fn)+" delegates to "+m.delegate)
			for _, d := range dels {
				n++
				ok := len(mods) == 1 && afterSuccess(f, mods[0], d.Pt)
				c.Check(ok, short(m.fn)+" marks dirty before writing", "T2+T4", d.Pos(), "the raw write is reached only after modified() returned nil", "the raw store is written without a successful modified(): data can change under a clean mark")
			}
		}
		c.ExpectAtLeast("delegating mutator sites", n, 3)
		// OpenDB hands out the flagged store only
		od := c.Fn(fpPkg + ".Producer.OpenDB")
		okOD := true
		for _, rp := range returnsWith(od, 0, func(e ast.Expr) bool { return !core.IsNil(od.Info(), e) }) {
			r := rp.Node().(*ast.ReturnStmt)
			t := od.Info().TypeOf(r.Results[0])
			if t == nil || t.String() != "*"+core.ModPath+"/"+fStore {
				okOD = false
			}
		}
		c.Check(okOD, "OpenDB returns flagged stores only", "T20", od.Pos(), "every store returned by Producer.OpenDB is a *flaggedStore", "Producer.OpenDB can return an unwrapped store")
	})

	c.Clause("C25.flag.modified", func() {
		f := c.Fn(fStore + ".modified")
		puts := f.CallsTo(kvPut)
		c.Need(len(puts) == 1, "modified() writes one mark")
		put := puts[0]
		okArgs := len(put.Call.Args) == 2 && fieldNameOf(f, put.Call.Args[0]) == fStore+".flushIDKey"
		if okArgs {
			okArgs = false
			if cl, ok := ast.Unparen(put.Call.Args[1]).(*ast.CompositeLit); ok && len(cl.Elts) == 1 && constNamed(f, cl.Elts[0], "kvdb/flushable.DirtyPrefix") {
				okArgs = true
			}
		}
		c.Check(okArgs, "dirty mark content", "provenance", put.Pos(), "Put(flushIDKey, {DirtyPrefix})", "modified() does not write {DirtyPrefix} under the flush-ID key")
		// nil returns: either after a successful Put, or via the Dirty != 0 edge
		isDirtyLoad := func(e ast.Expr) bool {
			call := isCallTo(f, e, "sync/atomic.LoadUint32")
			if call == nil || len(call.Args) != 1 {
				return false
			}
			u, ok := ast.Unparen(call.Args[0]).(*ast.UnaryExpr)
			return ok && u.Op == token.AND && fieldNameOf(f, u.X) == fStore+".Dirty"
		}
		alreadyDirty := func(ft core.Fact) bool {
			cm, ok := core.NormCmp(ft)
			if !ok || cm.R == nil {
				return false
			}
			return cm.Op == token.NEQ && isDirtyLoad(cm.L) && core.IsConstInt(f.Info(), cm.R, 0)
		}
		ev := errVarOfCall(f, put.Call)
		okNil := true
		for _, rp := range returnsWith(f, 0, func(e ast.Expr) bool { return core.IsNil(f.Info(), e) }) {
			// path to this return avoiding (Put followed by err==nil edge) and avoiding the already-dirty edge
			dirtyEdge := f.GuardEdges(alreadyDirty)
			_, found := core.PathQuery{F: f, From: f.Entry(), Target: core.PointSet(rp), Avoid: core.PointSet(put.Pt), AvoidEdge: dirtyEdge}.Find()
			if found {
				okNil = false
			}
			if ev != nil {
				if ok, _ := f.GuardedBetween(put.Pt, rp, varNilFact(f, ev, true)); !ok {
					okNil = false
				}
			} else {
				okNil = false
			}
		}
		c.Check(okNil, "modified() returns nil only when the dirty mark is on disk", "T2+T4", f.Pos(), "nil is returned only after the mark Put succeeded, or on the already-dirty edge", "modified() can return nil without the dirty mark having been written")
	})

	c.Clause("C25.flag.flush", func() {
		f := c.Fn(fpPkg + ".Producer.Flush")
		marks := f.CallsTo("kvdb/flushable.MarkFlushID")
		c.Need(len(marks) == 1, "Producer.Flush writes one mark per database")
		m := marks[0]
		okArgs := len(m.Call.Args) == 4 && constNamed(f, m.Call.Args[2], "kvdb/flushable.CleanPrefix") && varOf(f, m.Call.Args[3]) == f.Param(0) && fieldNameOf(f, m.Call.Args[1]) == fpPkg+".Producer.flushIDKey"
		c.Check(okArgs, "clean mark content", "provenance", m.Pos(), "MarkFlushID(db, flushIDKey, CleanPrefix, id)", "Producer.Flush does not write the clean mark with its key and ID")
		// the mark goes through the flagged store's own Put? it must NOT re-dirty: it is written via MarkFlushID(db,..) where db is the
		// flaggedStore; its Put calls modified() first (writes dirty mark if clean), then the clean mark overwrites it: order dirty->clean is fine.
		clears := f.CallsMatching(func(cs *core.CallSite) bool {
			if cs.Name != "sync/atomic.StoreUint32" || len(cs.Call.Args) != 2 {
				return false
			}
			u, ok := ast.Unparen(cs.Call.Args[0]).(*ast.UnaryExpr)
			return ok && u.Op == token.AND && fieldNameOf(f, u.X) == fStore+".Dirty" && core.IsConstInt(f.Info(), cs.Call.Args[1], 0)
		})
		c.ExpectAtLeast("Dirty := 0 sites in Producer.Flush", len(clears), 1)
		for _, cl := range clears {
			c.Check(afterSuccess(f, m, cl.Pt), "in-memory flag cleared only after the clean mark", "T2+T4", cl.Pos(), "Dirty is reset only after MarkFlushID(Clean) returned nil", "the in-memory dirty flag is cleared although the clean mark may not be on disk (the next write would skip the dirty mark)")
		}
		// who else clears Dirty?
		for _, g := range p.FuncsInPkg(fpPkg) {
			all := append([]*core.FuncInfo{g}, g.Lits()...)
			for _, h := range all {
				for _, cs := range h.CallsTo("sync/atomic.StoreUint32") {
					if len(cs.Call.Args) == 2 && core.IsConstInt(h.Info(), cs.Call.Args[1], 0) && h != f {
						c.Fail("Dirty cleared in "+short(h.Name), "T6 WhoMayWrite", cs.Pos(), "the dirty flag is cleared outside Producer.Flush")
					}
				}
			}
		}
	})

	c.Clause("C25.flag.drop", func() {
		od := c.Fn(fpPkg + ".Producer.OpenDB")
		var dropFn *core.FuncInfo
		od.InspectOwn(func(n ast.Node) bool {
			if kv, ok := n.(*ast.KeyValueExpr); ok {
				if id, ok := kv.Key.(*ast.Ident); ok {
					if v, ok := od.Info().ObjectOf(id).(*types.Var); ok && p.FieldName(v) == fStore+".DropFn" {
						if lit, ok := ast.Unparen(kv.Value).(*ast.FuncLit); ok {
							dropFn = p.LitInfo(lit)
						}
					}
				}
			}
			return true
		})
		c.Need(dropFn != nil, "flaggedStore.DropFn closure in Producer.OpenDB")
		drops := dropFn.CallsTo("kvdb.Droper.Drop")
		c.ExpectAtLeast("real drop sites in DropFn", len(drops), 1)
		for _, d := range drops {
			// some invalidation of the remaining databases' clean state must precede the drop:
			// a call of modified() / MarkFlushID(Dirty) reachable in the closure before the drop
			inval := core.Points(dropFn.CallsMatching(func(cs *core.CallSite) bool {
				if cs.Name == fStore+".modified" {
					return true
				}
				return cs.Name == "kvdb/flushable.MarkFlushID" && len(cs.Call.Args) == 4 && constNamed(dropFn, cs.Call.Args[2], "kvdb/flushable.DirtyPrefix")
			}))
			ok := false
			if len(inval) > 0 {
				ok, _ = dropFn.MustPassBefore(inval, d.Pt)
			}
			c.Check(ok, "flaggedproducer DropFn|drop after invalidating the clean state", "T2 Dominates", d.Pos(),
				"the remaining databases are marked dirty before the database is dropped",
				"the database is closed and dropped on disk at once while the other databases keep the clean mark of the last flush: after a crash, restarting over the surviving databases reports that flush ID although a database that existed at that flush is gone")
		}
	})

	c.Clause("C25.check", func() {
		f := c.Fn("kvdb/flushable.CheckDBsSynced")
		errRet := func(r *ast.ReturnStmt) bool {
			return len(r.Results) == 2 && !core.IsNil(f.Info(), r.Results[1])
		}
		type rule struct {
			name  string
			match func(core.Fact) bool
		}
		markVar := func() *types.Var {
			for _, cs := range f.CallsTo(kvGet) {
				for _, a := range assignments(f) {
					if a.RHS != nil && ast.Unparen(a.RHS) == ast.Expr(cs.Call) {
						if as, ok := a.Stmt.(*ast.AssignStmt); ok {
							return varOf(f, as.Lhs[0])
						}
					}
				}
			}
			return nil
		}()
		c.Need(markVar != nil, "mark, err := db.Get(flushIDKey)")
		flushID := f.ParamNamed("flushID")
		c.Need(flushID != nil, "flushID parameter")
		rules := []rule{
			{"dirty prefix => error", func(ft core.Fact) bool {
				if !ft.Truth {
					return false
				}
				call := isCallTo(f, ft.Expr, "bytes.HasPrefix")
				if call == nil || varOf(f, call.Args[0]) != markVar {
					return false
				}
				found := false
				ast.Inspect(call.Args[1], func(n ast.Node) bool {
					if e, ok := n.(ast.Expr); ok && constNamed(f, e, "kvdb/flushable.DirtyPrefix") {
						found = true
					}
					return !found
				})
				return found
			}},
			{"differing marks => error", func(ft core.Fact) bool {
				if ft.Truth {
					return false
				}
				call := isCallTo(f, ft.Expr, "bytes.Equal")
				if call == nil {
					return false
				}
				a, b := varOf(f, call.Args[0]), varOf(f, call.Args[1])
				return (a == markVar && b == flushID) || (b == markVar && a == flushID)
			}},
		}
		for _, r := range rules {
			edges := edgesWithFact(f, r.match)
			c.Check(len(edges) >= 1, r.name+"|test present", "T8 DecisionTable", f.Pos(), "the test exists", "CheckDBsSynced has no such test")
			// unmarked databases (mark == nil) are skipped before these tests: they are handled by the final test
			unmarked := varNilFact(f, markVar, true)
			okRow := true
			whyRow := ""
			for _, e := range edges {
				if o, wit := edgeLeadsOnlyTo(f, e.B, e.Succ, errRet); !o {
					okRow, whyRow = false, "acceptance is reachable after this test fired: "+f.DescribePath(wit)
				}
			}
			if okRow {
				// complementary side: per database, moving on to the next one (or accepting) needs the test to be false,
				// or the database to be unmarked
				notX := func(ft core.Fact) bool { return r.match(core.Fact{Expr: ft.Expr, Truth: !ft.Truth}) || unmarked(ft) }
				first := edges[0]
				if loop := enclosingLoop(f, posOf(core.Point{B: first.B, I: len(first.B.Nodes) - 1})); loop != nil {
					if head, _ := f.LoopOf(loop); head != nil && len(head.Succs) > 0 {
						path, found := core.PathQuery{F: f, From: blockEntry(head.Succs[0]), AvoidEdge: f.GuardEdges(notX),
							Target:      func(pt core.Point) bool { rs, k := pt.Node().(*ast.ReturnStmt); return k && !errRet(rs) },
							TargetBlock: func(b *cfg.Block) bool { return b == head }}.Find()
						if found {
							okRow, whyRow = false, "a database can pass without this test having been evaluated false: "+f.DescribePath(path)
						}
					}
				}
			}
			c.Check(okRow, r.name, "T8 DecisionTable", f.Pos(), "the condition leads only to error returns, and every marked database passes the test before the scan moves on", whyRow)
		}
		// unmarked DB next to a known flush ID: nonInit set on mark == nil; final test flushID != nil && nonInit => error
		var nonInit *types.Var
		for _, a := range assignments(f) {
			if isIdentNamed(a.RHS, "true") {
				if ok, _ := f.GuardedBy(a.Pt, varNilFact(f, markVar, true)); ok {
					nonInit = varOf(f, a.LHS)
				}
			}
		}
		c.Check(nonInit != nil, "unmarked database remembered", "T8 DecisionTable", f.Pos(), "a flag is set on the mark == nil edge", "an unmarked database is not remembered")
		if nonInit != nil {
			edges := edgesWithFact(f, func(ft core.Fact) bool { return ft.Truth && varOf(f, ft.Expr) == nonInit })
			okE := false
			for _, e := range edges {
				facts := f.EdgeFacts(e.B, e.Succ)
				hasID := false
				for _, ft := range facts {
					if varNilFact(f, flushID, false)(ft) {
						hasID = true
					}
				}
				if ok, _ := edgeLeadsOnlyTo(f, e.B, e.Succ, errRet); ok && hasID {
					okE = true
				}
			}
			c.Check(okE, "unmarked database with known flush ID => error", "T8 DecisionTable", f.Pos(), "flushID != nil && nonInit leads only to an error return", "an unmarked database next to marked ones is accepted")
			// that test dominates the success return (it is evaluated after the full scan)
			for _, rp := range returnsWith(f, 1, func(e ast.Expr) bool { return core.IsNil(f.Info(), e) }) {
				var testPts []core.Point
				for _, e := range edges {
					testPts = append(testPts, core.Point{B: e.B, I: len(e.B.Nodes) - 1})
				}
				ok, _ := f.MustPassBefore(testPts, rp)
				c.Check(ok, "success only after the full scan and the unmarked test", "T2 Dominates", posOf(rp), "the nil-error return is dominated by the final unmarked-database test", "CheckDBsSynced can accept without the final test")
			}
		}
		// flushID adopted from the first mark only when unknown
		nAdopt := 0
		for _, a := range assignsToVar(f, flushID) {
			nAdopt++
			ok, _ := f.GuardedBy(a.Pt, varNilFact(f, flushID, true))
			c.Check(ok && varOf(f, a.RHS) == markVar, "flush ID adopted only when unknown", "T4 GuardedBy", a.Stmt.Pos(), "flushID = mark only on the flushID == nil edge", "the expected flush ID is overwritten")
		}
		_ = nAdopt
		_ = fmt.Sprint
		var _ *cfg.Block
	})
}
