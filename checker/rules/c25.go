package rules

import (
	"fmt"
	"go/ast"
	"go/token"
	"go/types"

	"golang.org/x/tools/go/cfg"

	"lachk/core"
)

const (
	poolT  = "kvdb/flushable.SyncedPool"
	fpPkg  = "kvdb/flaggedproducer"
	fStore = fpPkg + ".flaggedStore"
	fBatch = fpPkg + ".flaggedBatch"
)

func init() {
	register("C25", "other", "T2 Dominates (loop-aware phase order), T20 WrapperDelegation / override completeness, T8 DecisionTable, T4 GuardedBy",
		"Decides the write ordering that crash consistency depends on. Pool: in SyncedPool.flush the complete dirty-mark loop over all pooled databases dominates every durable mutation (dropping a queued database, flushing a database), every flush dominates the clean-mark loop, all three loops range over the same map, marks use the configured key and the given ID, and every mark is put into the underlying database itself (the value the wrapper's InitUnderlyingDb() yields, followed through locals, helper parameters and helper results), never into a flushable wrapper whose Put only buffers it. Dirty-flag producer: every mutator of the flagged store (Put, Delete, batch Write) is overridden and delegates only after modified() returned nil; modified() writes the dirty mark before returning nil on the clean edge; Flush writes the clean mark and only then clears the in-memory flag; a database drop must be preceded by invalidating the other databases' clean state. Startup check: a dirty prefix, differing marks, or an unmarked database next to a known flush ID each lead only to error returns. The enumeration of crash points itself is not performed.",
		[]string{"a single Put/Drop/batch Write of the underlying store is the unit of durability", "no I/O error injection (fault sequences are outside the property's quantifier)"},
		runC25)
}

func runC25(c *core.Ctx) {
	p := c.P

	c.Clause("C25.pool", func() {
		c25Pool(c)
	})

	c.Clause("C25.flag.mutators", func() {
		// override completeness: the flagged store declares every mutator itself
		for _, m := range []string{"Put", "Delete", "NewBatch", "Drop", "Close"} {
			f := declaresMethod(p, fStore, m)
			c.Check(f != nil, "flaggedStore overrides "+m, "T20 override completeness", token.NoPos, "declared on flaggedStore (not promoted from the embedded raw store)", "flaggedStore does not override "+m+": the call goes straight to the raw store, bypassing the dirty mark")
		}
		c.Check(declaresMethod(p, fBatch, "Write") != nil, "flaggedBatch overrides Write", "T20 override completeness", token.NoPos, "declared on flaggedBatch", "flaggedBatch does not override Write: batch writes bypass the dirty mark")
		// NewBatch returns a flaggedBatch bound to this store
		nb := c.Fn(fStore + ".NewBatch")
		okNB := false
		nb.InspectOwn(func(n ast.Node) bool {
			if cl, ok := n.(*ast.CompositeLit); ok {
				if t := nb.Info().TypeOf(cl); t != nil && t.String() == core.ModPath+"/"+fBatch {
					for _, el := range cl.Elts {
						if kv, ok := el.(*ast.KeyValueExpr); ok && isIdentNamed(kv.Key, "db") && varOf(nb, kv.Value) == nb.Recv() {
							okNB = true
						}
					}
				}
			}
			return true
		})
		c.Check(okNB, "NewBatch wraps the batch with this store", "T20", nb.Pos(), "NewBatch returns &flaggedBatch{db: s}", "NewBatch does not return a flaggedBatch bound to the flagged store")
		// each mutator delegates only after modified() returned nil; the raw write may be made in the
		// mutator, in a helper it calls, or in a callback it hands to a helper that calls modified() first
		// (c25_flag.go)
		type mut struct{ fn, delegate string }
		n := 0
		for _, m := range []mut{{fStore + ".Put", kvPut}, {fStore + ".Delete", kvDelete}, {fBatch + ".Write", "kvdb.Batch.Write"}} {
			f := c.Fn(m.fn)
			nw, bad := c25RawWrites(f, m.delegate, 2)
			c.Need(nw >= 1, short(m.fn)+" delegates to "+m.delegate)
			n++
			pos := f.Pos()
			if len(bad) > 0 {
				pos = bad[0]
			}
			c.Check(len(bad) == 0, short(m.fn)+" marks dirty before writing", "T2+T4", pos, "the raw write is reached only after modified() returned nil", "the raw store is written without a successful modified(): data can change under a clean mark")
		}
		c.ExpectAtLeast("delegating mutators", n, 3)
		// OpenDB hands out the flagged store only
		od := c.Fn(fpPkg + ".Producer.OpenDB")
		okOD := true
		for _, rp := range returnsWith(od, 0, func(e ast.Expr) bool { return !core.IsNil(od.Info(), e) }) {
			r := rp.Node().(*ast.ReturnStmt)
			t := od.Info().TypeOf(r.Results[0])
			if t == nil || t.String() != "*"+core.ModPath+"/"+fStore {
				okOD = false
			}
		}
		c.Check(okOD, "OpenDB returns flagged stores only", "T20", od.Pos(), "every store returned by Producer.OpenDB is a *flaggedStore", "Producer.OpenDB can return an unwrapped store")
	})

	c.Clause("C25.flag.modified", func() {
		f := c.Fn(fStore + ".modified")
		puts := f.CallsTo(kvPut)
		c.Need(len(puts) == 1, "modified() writes one mark")
		put := puts[0]
		okArgs := len(put.Call.Args) == 2 && fieldNameOf(f, put.Call.Args[0]) == fStore+".flushIDKey"
		if okArgs {
			okArgs = false
			if cl, ok := ast.Unparen(put.Call.Args[1]).(*ast.CompositeLit); ok && len(cl.Elts) == 1 && constNamed(f, cl.Elts[0], "kvdb/flushable.DirtyPrefix") {
				okArgs = true
			}
		}
		c.Check(okArgs, "dirty mark content", "provenance", put.Pos(), "Put(flushIDKey, {DirtyPrefix})", "modified() does not write {DirtyPrefix} under the flush-ID key")
		// nil returns: either after a successful Put, or via the Dirty != 0 edge
		// (the test of the in-memory flag may be spelled in a boolean helper: the edge then carries
		// "helper() is false/true", which is decided from the helper's returns — c25_view.go)
		alreadyDirty := c25Lift(c25View{G: f, Role: func(ast.Expr) string { return "" }}, c25AlreadyDirty, 2)
		// Every path to a `return nil` takes the already-dirty edge, or passes the mark Put and then the
		// edge on which the Put's error is nil. (When the Put's result is returned as it is — `return
		// s.Store.Put(..)` — that return is not a literal nil and reports exactly the Put's outcome.)
		ev := errVarOfCall(f, put.Call)
		dirtyEdge := f.GuardEdges(alreadyDirty)
		putOK := dirtyEdge
		if ev != nil {
			errNil := f.GuardEdges(varNilFact(f, ev, true))
			putOK = func(b *cfg.Block, s int) bool { return dirtyEdge(b, s) || errNil(b, s) }
		}
		okNil := true
		for _, rp := range returnsWith(f, 0, func(e ast.Expr) bool { return core.IsNil(f.Info(), e) }) {
			// reaching this return without the Put and without the already-dirty edge
			if _, found := (core.PathQuery{F: f, From: f.Entry(), Target: core.PointSet(rp), Avoid: core.PointSet(put.Pt), AvoidEdge: dirtyEdge}).Find(); found {
				okNil = false
			}
			// reaching it after the Put without having seen its error to be nil
			if _, found := (core.PathQuery{F: f, From: put.Pt, FromAfter: true, Target: core.PointSet(rp), AvoidEdge: putOK}).Find(); found {
				okNil = false
			}
		}
		// a returned error variable must not hide a failed Put either: nothing to decide here, a non-nil
		// error is the safe answer for the caller (the write is refused)
		c.Check(okNil, "modified() returns nil only when the dirty mark is on disk", "T2+T4", f.Pos(), "nil is returned only after the mark Put succeeded, or on the already-dirty edge", "modified() can return nil without the dirty mark having been written")
	})

	c.Clause("C25.flag.flush", func() {
		f := c.Fn(fpPkg + ".Producer.Flush")
		// the clean-mark calls made by Flush, in Flush itself or in a function it calls with the key and the
		// flush ID (parameters bound to the arguments: c25_flag.go)
		marks := c25CleanMarks(f, c25Env{f.Param(0): "id"}, 2, map[*core.FuncInfo]bool{})
		c.Need(len(marks) >= 1, "Producer.Flush writes one mark per database")
		for _, m := range marks {
			c.Check(m.ArgsOK, "clean mark content", "provenance", m.Site.Pos(), "MarkFlushID(db, flushIDKey, CleanPrefix, id)", "Producer.Flush does not write the clean mark with its key and ID")
		}
		// the mark goes through the flagged store's own Put? it must NOT re-dirty: it is written via MarkFlushID(db,..) where db is the
		// flaggedStore; its Put calls modified() first (writes dirty mark if clean), then the clean mark overwrites it: order dirty->clean is fine.
		// Every reset of the in-memory flag in the package (WhoMayWrite), whatever function it lives in, is
		// reached only after a clean mark was written successfully in that function (or in a helper whose
		// nil error certifies it).
		clears := c25DirtyResets(p)
		c.ExpectAtLeast("Dirty := 0 sites in the flagged producer", len(clears), 1)
		for _, cl := range clears {
			c.Check(c25AfterCleanMark(cl.F, cl.Pt), "in-memory flag cleared only after the clean mark", "T2+T4", cl.Pos(), "Dirty is reset only after MarkFlushID(Clean) returned nil", "the in-memory dirty flag is cleared although the clean mark may not be on disk (the next write would skip the dirty mark)")
		}
		// and Flush makes (one of) these resets: the flag does not stay set for ever
		flushHosts := map[*core.FuncInfo]bool{}
		for _, h := range c22Hosts(f, 2) {
			flushHosts[h] = true
		}
		nIn := 0
		for _, cl := range clears {
			if flushHosts[cl.F] {
				nIn++
			}
		}
		c.ExpectAtLeast("Dirty := 0 sites reached from Producer.Flush", nIn, 1)
	})

	c.Clause("C25.flag.drop", func() {
		od := c.Fn(fpPkg + ".Producer.OpenDB")
		// the function values installed as flaggedStore.DropFn: a literal in the composite literal (or
		// assigned to the field), a local holding one, or the result of a module function that returns one
		var dropFns []*core.FuncInfo
		var valuesOf func(g *core.FuncInfo, e ast.Expr, depth int) bool
		valuesOf = func(g *core.FuncInfo, e ast.Expr, depth int) bool {
			e = resolveLocal(g, e)
			if lit, ok := e.(*ast.FuncLit); ok {
				if li := p.LitInfo(lit); li != nil {
					dropFns = append(dropFns, li)
					return true
				}
				return false
			}
			call, ok := e.(*ast.CallExpr)
			if !ok || depth <= 0 {
				return false
			}
			fn, _ := g.ObjOf(call.Fun).(*types.Func)
			h := p.FuncOf(fn)
			if h == nil {
				return false
			}
			rets := h.ReturnPoints()
			if len(rets) == 0 {
				return false
			}
			for _, rp := range rets {
				r := rp.Node().(*ast.ReturnStmt)
				if len(r.Results) != 1 || !valuesOf(h, r.Results[0], depth-1) {
					return false
				}
			}
			return true
		}
		// every place of the package that installs a DropFn counts (WhoMayWrite): the store may be built in
		// OpenDB itself or in a constructor helper it calls
		resolved, nSites := true, 0
		var hosts []*core.FuncInfo
		for _, g := range p.FuncsInPkg(fpPkg) {
			hosts = append(hosts, g)
			hosts = append(hosts, allLits(g)...)
		}
		for _, g := range hosts {
			g := g
			g.InspectOwn(func(n ast.Node) bool {
				if kv, ok := n.(*ast.KeyValueExpr); ok {
					if id, ok := kv.Key.(*ast.Ident); ok {
						if v, ok := g.Info().ObjectOf(id).(*types.Var); ok && p.FieldName(v) == fStore+".DropFn" {
							nSites++
							if !valuesOf(g, kv.Value, 2) {
								resolved = false
							}
						}
					}
				}
				return true
			})
			for _, a := range assignsToField(g, fStore+".DropFn") {
				nSites++
				if a.RHS == nil || !valuesOf(g, a.RHS, 2) {
					resolved = false
				}
			}
		}
		// positional composite literals of the store cannot be attributed to the field by key
		for _, g := range hosts {
			g := g
			g.InspectOwn(func(n ast.Node) bool {
				if cl, ok := n.(*ast.CompositeLit); ok && len(cl.Elts) > 0 {
					if t := g.Info().TypeOf(cl); t != nil && t.String() == core.ModPath+"/"+fStore {
						if _, keyed := cl.Elts[0].(*ast.KeyValueExpr); !keyed {
							resolved = false
						}
					}
				}
				return true
			})
		}
		_ = od
		c.Need(nSites > 0 && resolved && len(dropFns) > 0, "flaggedStore.DropFn closure installed in the flagged producer")
		// the points of each installed function at which the database may be dropped on disk (in the
		// closure or in a helper it calls)
		type dropSite struct {
			fn *core.FuncInfo
			pt core.Point
		}
		var drops []dropSite
		isDrop := func(cs *core.CallSite) bool { return cs.Name == "kvdb.Droper.Drop" && !cs.InGo }
		for _, fn := range dropFns {
			for _, pt := range fn.SitesMay(isDrop, 2) {
				drops = append(drops, dropSite{fn, pt})
			}
		}
		c.ExpectAtLeast("real drop sites in DropFn", len(drops), 1)
		for _, d := range drops {
			dropFn := d.fn
			// some invalidation of the remaining databases' clean state must precede the drop:
			// a call of modified() / MarkFlushID(Dirty) (or of a helper that always makes one) passed in
			// the closure before the drop
			inval := dropFn.SitesMust(func(cs *core.CallSite) bool {
				if cs.InDefer {
					return false
				}
				if cs.Name == fStore+".modified" {
					return true
				}
				return cs.Name == "kvdb/flushable.MarkFlushID" && len(cs.Call.Args) == 4 && constNamed(cs.F, cs.Call.Args[2], "kvdb/flushable.DirtyPrefix")
			}, 2)
			ok := false
			if len(inval) > 0 {
				ok, _ = dropFn.MustPassBefore(inval, d.pt)
			}
			c.Check(ok, "flaggedproducer DropFn|drop after invalidating the clean state", "T2 Dominates", posOf(d.pt),
				"the remaining databases are marked dirty before the database is dropped",
				"the database is closed and dropped on disk at once while the other databases keep the clean mark of the last flush: after a crash, restarting over the surviving databases reports that flush ID although a database that existed at that flush is gone")
		}
	})

	c.Clause("C25.check", func() {
		f := c.Fn("kvdb/flushable.CheckDBsSynced")
		errRet := func(r *ast.ReturnStmt) bool {
			return len(r.Results) == 2 && !core.IsNil(f.Info(), r.Results[1])
		}
		// The tests are matched in a view (c25_view.go): the roles "mark" and "id" are bound to the mark
		// variable and the flush ID parameter here, and to the corresponding parameters inside a named
		// predicate helper the test may have been moved into.
		type rule struct {
			name    string
			match   func(c25View, core.Fact) bool
			alsoNot func(c25View, core.Fact) bool // further facts that imply the condition is false (may be nil)
		}
		markVar := func() *types.Var {
			for _, cs := range f.CallsTo(kvGet) {
				for _, a := range assignments(f) {
					if a.RHS != nil && ast.Unparen(a.RHS) == ast.Expr(cs.Call) {
						if as, ok := a.Stmt.(*ast.AssignStmt); ok {
							return varOf(f, as.Lhs[0])
						}
					}
				}
			}
			return nil
		}()
		c.Need(markVar != nil, "mark, err := db.Get(flushIDKey)")
		flushID := f.ParamNamed("flushID")
		c.Need(flushID != nil, "flushID parameter")
		top := c25View{G: f, Role: func(e ast.Expr) string {
			switch canonVar(f, varOf(f, e)) {
			case nil:
				return ""
			case markVar:
				return "mark"
			case flushID:
				return "id"
			}
			return ""
		}}
		lift := func(base func(c25View, core.Fact) bool) func(core.Fact) bool { return c25Lift(top, base, 2) }
		// len(mark) == 0 (in any spelling): an empty mark does not start with the dirty prefix
		emptyMark := func(v c25View, ft core.Fact) bool {
			g := v.G
			cm, ok := core.NormCmp(ft)
			if !ok || cm.R == nil {
				return false
			}
			isLen := func(e ast.Expr) bool {
				call, ok := ast.Unparen(e).(*ast.CallExpr)
				if !ok || len(call.Args) != 1 {
					return false
				}
				b, ok := g.ObjOf(call.Fun).(*types.Builtin)
				return ok && b.Name() == "len" && v.Role(call.Args[0]) == "mark"
			}
			switch {
			case isLen(cm.L) && core.IsConstInt(g.Info(), cm.R, 0):
				return cm.Op == token.EQL || cm.Op == token.LEQ
			case isLen(cm.L) && core.IsConstInt(g.Info(), cm.R, 1):
				return cm.Op == token.LSS
			case isLen(cm.R) && core.IsConstInt(g.Info(), cm.L, 0):
				return cm.Op == token.EQL
			}
			return false
		}
		rules := []rule{
			{"dirty prefix => error", func(v c25View, ft core.Fact) bool {
				g := v.G
				// bytes.HasPrefix(mark, X) where X is (a local holding) a byte-slice literal that starts
				// with DirtyPrefix
				if call := isCallTo(g, ft.Expr, "bytes.HasPrefix"); call != nil && ft.Truth {
					if len(call.Args) != 2 || v.Role(call.Args[0]) != "mark" {
						return false
					}
					found := false
					ast.Inspect(resolveLocal(g, call.Args[1]), func(n ast.Node) bool {
						if e, ok := n.(ast.Expr); ok && constNamed(g, e, "kvdb/flushable.DirtyPrefix") {
							found = true
						}
						return !found
					})
					return found
				}
				// or the first byte compared with the constant: mark[0] == DirtyPrefix
				if cm, ok := core.NormCmp(ft); ok && cm.R != nil && cm.Op == token.EQL {
					l, r := ast.Unparen(cm.L), ast.Unparen(cm.R)
					if constNamed(g, resolveLocal(g, l), "kvdb/flushable.DirtyPrefix") {
						l, r = r, l
					}
					if ix, ok := l.(*ast.IndexExpr); ok && constNamed(g, resolveLocal(g, r), "kvdb/flushable.DirtyPrefix") {
						return v.Role(ix.X) == "mark" && core.IsConstInt(g.Info(), ix.Index, 0)
					}
				}
				return false
			}, emptyMark},
			{"differing marks => error", func(v c25View, ft core.Fact) bool {
				g := v.G
				sameOperands := func(call *ast.CallExpr) bool {
					if call == nil || len(call.Args) != 2 {
						return false
					}
					a, b := v.Role(call.Args[0]), v.Role(call.Args[1])
					return (a == "mark" && b == "id") || (b == "mark" && a == "id")
				}
				// !bytes.Equal(mark, flushID)
				if call := isCallTo(g, ft.Expr, "bytes.Equal"); call != nil {
					return !ft.Truth && sameOperands(call)
				}
				// bytes.Compare(mark, flushID) != 0
				if cm, ok := core.NormCmp(ft); ok && cm.R != nil && cm.Op == token.NEQ {
					l, r := cm.L, cm.R
					if core.IsConstInt(g.Info(), l, 0) {
						l, r = r, l
					}
					return core.IsConstInt(g.Info(), r, 0) && sameOperands(isCallTo(g, l, "bytes.Compare"))
				}
				return false
			}, nil},
		}
		// unmarked databases (mark == nil) are skipped before these tests: they are handled by the final test
		unmarked := lift(c25RoleNil("mark", true))
		for _, r := range rules {
			r := r
			edges := edgesWithFact(f, lift(r.match))
			c.Check(len(edges) >= 1, r.name+"|test present", "T8 DecisionTable", f.Pos(), "the test exists", "CheckDBsSynced has no such test")
			okRow := true
			whyRow := ""
			for _, e := range edges {
				if o, wit := edgeLeadsOnlyTo(f, e.B, e.Succ, errRet); !o {
					okRow, whyRow = false, "acceptance is reachable after this test fired: "+f.DescribePath(wit)
				}
			}
			if len(edges) == 0 {
				okRow, whyRow = false, "CheckDBsSynced never tests this condition"
			}
			if okRow {
				// complementary side: per database, moving on to the next one (or accepting) needs the test to be false,
				// or the database to be unmarked
				notX := lift(func(v c25View, ft core.Fact) bool {
					return r.match(v, core.Fact{Expr: ft.Expr, Truth: !ft.Truth}) || c25RoleNil("mark", true)(v, ft) || (r.alsoNot != nil && r.alsoNot(v, ft))
				})
				first := edges[0]
				if loop := enclosingLoop(f, posOf(core.Point{B: first.B, I: len(first.B.Nodes) - 1})); loop != nil {
					if head, _ := f.LoopOf(loop); head != nil && len(head.Succs) > 0 {
						path, found := core.PathQuery{F: f, From: blockEntry(head.Succs[0]), AvoidEdge: c25ImpliedEdges(f, notX),
							Target:      func(pt core.Point) bool { rs, k := pt.Node().(*ast.ReturnStmt); return k && !errRet(rs) },
							TargetBlock: func(b *cfg.Block) bool { return b == head }}.Find()
						if found {
							okRow, whyRow = false, "a database can pass without this test having been evaluated false: "+f.DescribePath(path)
						}
					}
				}
			}
			c.Check(okRow, r.name, "T8 DecisionTable", f.Pos(), "the condition leads only to error returns, and every marked database passes the test before the scan moves on", whyRow)
		}
		// unmarked DB next to a known flush ID: nonInit set on mark == nil; final test flushID != nil && nonInit => error
		var nonInit *types.Var
		for _, a := range assignments(f) {
			if isIdentNamed(a.RHS, "true") {
				if ok, _ := f.GuardedBy(a.Pt, unmarked); ok {
					nonInit = varOf(f, a.LHS)
				}
			}
		}
		c.Check(nonInit != nil, "unmarked database remembered", "T8 DecisionTable", f.Pos(), "a flag is set on the mark == nil edge", "an unmarked database is not remembered")
		if nonInit != nil {
			// Acceptance after the scan needs ¬(flushID != nil ∧ unmarked seen): every path from the end of the
			// scan loop to a nil-error return takes an edge that implies flushID == nil or that the flag is
			// false, however the test is spelled (one condition, nested ifs, De Morgan form, early return).
			// (Edges inside the loop do not count: flushID is still being adopted there.)
			var scan ast.Stmt
			for _, cs := range f.CallsTo(kvGet) {
				if scan == nil {
					scan = enclosingLoop(f, cs.Pos())
				}
			}
			c.Need(scan != nil, "the marks are read inside a loop over the databases")
			scanDone, scanComplete := loopDone(f, scan)
			c.Need(scanDone != nil, "scan loop exit")
			flagFalse := func(ft core.Fact) bool {
				cm, ok := core.NormCmp(ft)
				if !ok {
					return false
				}
				if cm.R == nil {
					return cm.Op == token.NEQ && canonVar(f, varOf(f, cm.L)) == nonInit
				}
				// flag == false / flag != true
				l, r := cm.L, cm.R
				if varOf(f, l) == nil {
					l, r = r, l
				}
				if canonVar(f, varOf(f, l)) != nonInit {
					return false
				}
				return (cm.Op == token.EQL && isIdentNamed(r, "false")) || (cm.Op == token.NEQ && isIdentNamed(r, "true"))
			}
			noConflict := func(ft core.Fact) bool { return flagFalse(ft) || varNilFact(f, flushID, true)(ft) }
			tested := len(edgesWithFact(f, func(ft core.Fact) bool {
				return flagFalse(ft) || flagFalse(core.Fact{Expr: ft.Expr, Truth: !ft.Truth})
			})) > 0
			okE, whyE := tested, "the unmarked-database flag is never tested"
			accepting := returnsWith(f, 1, func(e ast.Expr) bool { return core.IsNil(f.Info(), e) })
			for _, rp := range accepting {
				if path, found := (core.PathQuery{F: f, From: blockEntry(scanDone), Target: core.PointSet(rp), AvoidEdge: c25ImpliedEdges(f, noConflict)}).Find(); found {
					okE, whyE = false, "acceptance is reachable after the scan without flushID == nil or 'no unmarked database' having been established: "+f.DescribePath(path)
				}
			}
			c.Check(okE && len(accepting) > 0, "unmarked database with known flush ID => error", "T8 DecisionTable", f.Pos(), "after the scan, a nil error is returned only over an edge implying flushID == nil or that no unmarked database was seen", "an unmarked database next to marked ones is accepted: "+whyE)
			// acceptance only after the full scan
			for _, rp := range accepting {
				ok, _ := mustPassBlockBefore(f, scanDone, rp)
				c.Check(ok && scanComplete, "success only after the full scan and the unmarked test", "T2 Dominates", posOf(rp), "the nil-error return is dominated by the exit of the scan loop (and guarded by the final unmarked-database test)", "CheckDBsSynced can accept without having scanned every database")
			}
		}
		// flushID adopted from the first mark only when unknown
		nAdopt := 0
		for _, a := range assignsToVar(f, flushID) {
			nAdopt++
			ok, _ := f.GuardedBy(a.Pt, varNilFact(f, flushID, true))
			c.Check(ok && varOf(f, a.RHS) == markVar, "flush ID adopted only when unknown", "T4 GuardedBy", a.Stmt.Pos(), "flushID = mark only on the flushID == nil edge", "the expected flush ID is overwritten")
		}
		_ = nAdopt
		_ = fmt.Sprint
		var _ *cfg.Block
	})
}
