package rules

import (
	"fmt"
	"go/ast"
	"go/token"
	"go/types"
	"sort"
	"strings"

	"golang.org/x/tools/go/cfg"

	"lachk/core"
)

// Views of C23.range that do not depend on where the pieces of the range translation are written:
//
//   - c23IterRole: which of NewIterator's (prefix, start) a variable denotes, through the parameters of
//     unexported functions all of whose calls pass the same role (two duplicate constructions unified into
//     one function over a small interface);
//   - c23FindSuccessor: the function that computes the prefix's successor, located by what it does (a loop
//     over its only byte-slice parameter in which the bound is allocated), whether it returns the bound or
//     the whole library range;
//   - c23RangeFlow: a forward data-flow over bytesPrefixRange's CFG whose abstract values are the symbolic
//     provenance of the byte slices (c23Bytes: concatenation of prefix/start, freshly allocated or aliased)
//     and of the two bounds of the range under construction, kept apart by the truth values of the branch
//     atoms prefix == nil and start == nil. It decides, at every exit, lower bound = prefix||start in private
//     memory and upper bound = successor(prefix) (absent only under prefix == nil), whether the range is
//     assembled by field assignments, by a composite literal, through multi-definition locals or in a helper.

// c23IterRole: 1 if v denotes NewIterator's prefix, 2 if its start, 0 otherwise.
func c23IterRole(f *core.FuncInfo, v *types.Var, depth int) int {
	if f == nil || v == nil || f.Obj == nil {
		return 0
	}
	if f.Obj.Name() == "NewIterator" && f.RecvTypeName() != "" {
		switch v {
		case f.Param(0):
			return 1
		case f.Param(1):
			return 2
		}
		return 0
	}
	if depth <= 0 || f.Obj.Exported() || c23Reassigned(f, v) {
		return 0
	}
	i := c23ParamIndex(f, v)
	if i < 0 {
		return 0
	}
	role, nCalls, nUses := 0, 0, 0
	for _, top := range f.P.FuncsInPkg(core.RelPkg(f.Pkg.PkgPath)) {
		for _, g := range append([]*core.FuncInfo{top}, allLits(top)...) {
			for _, cs := range g.Calls() {
				if cs.Callee != types.Object(f.Obj) {
					continue
				}
				nCalls++
				if i >= len(cs.Call.Args) || g.Obj == nil {
					return 0
				}
				r := c23IterRole(g, varOf(g, cs.Call.Args[i]), depth-1)
				if r == 0 || (role != 0 && r != role) {
					return 0
				}
				role = r
			}
		}
		top.InspectAll(func(n ast.Node) bool {
			if id, ok := n.(*ast.Ident); ok && top.Info().Uses[id] == types.Object(f.Obj) {
				nUses++
			}
			return true
		})
	}
	if nCalls == 0 || nUses != nCalls {
		return 0
	}
	return role
}

// c23Succ is the located successor computation of the pebble backend.
type c23Succ struct {
	g    *core.FuncInfo
	pp   *types.Var        // the scanned prefix parameter
	lim  *types.Var        // the variable holding the computed bound
	loop *ast.ForStmt      // the scan
	lit  *ast.CompositeLit // the returned range literal when g returns the whole range; nil when g returns the bound itself
	low  ast.Expr          // the literal's lower-bound element (with lit)
}

func c23IsByteSlice(t types.Type) bool {
	if t == nil {
		return false
	}
	s, ok := t.Underlying().(*types.Slice)
	if !ok {
		return false
	}
	b, ok := s.Elem().Underlying().(*types.Basic)
	return ok && b.Kind() == types.Byte
}

// c23FindSuccessor locates, among the declared functions of pkg, the one that computes the successor of its
// only parameter (a byte slice): its body has a for loop in which a byte-slice variable is allocated with make,
// and it hands that variable out — as its result (every return is the variable or nil), or as the upper bound
// of the one range literal it returns. Exactly one function must match.
func c23FindSuccessor(p *core.Prog, pkg, lowerField, upperField string) (*c23Succ, string) {
	var found []*c23Succ
	for _, g := range p.FuncsInPkg(pkg) {
		sig, _ := g.Obj.Type().(*types.Signature)
		if sig == nil || sig.Recv() != nil || sig.Params().Len() != 1 || sig.Results().Len() != 1 || !c23IsByteSlice(sig.Params().At(0).Type()) {
			continue
		}
		pp := g.Param(0)
		if pp == nil {
			continue
		}
		var loop *ast.ForStmt
		g.InspectOwn(func(n ast.Node) bool {
			if fs, ok := n.(*ast.ForStmt); ok && loop == nil {
				loop = fs
			}
			return true
		})
		if loop == nil {
			continue
		}
		var lim *types.Var
		nLim := 0
		for _, a := range assignments(g) {
			if a.RHS == nil || isCallTo(g, a.RHS, "builtin.make") == nil || enclosingLoop(g, a.Stmt.Pos()) != ast.Stmt(loop) {
				continue
			}
			if v := varOf(g, a.LHS); v != nil && c23IsByteSlice(v.Type()) {
				if lim != v {
					nLim++
				}
				lim = v
			}
		}
		if lim == nil || nLim != 1 {
			continue
		}
		s := &c23Succ{g: g, pp: pp, lim: lim, loop: loop}
		ok := true
		if c23IsByteSlice(sig.Results().At(0).Type()) {
			nLimRet := 0
			for _, rp := range g.ReturnPoints() {
				r := rp.Node().(*ast.ReturnStmt)
				switch {
				case len(r.Results) != 1:
					ok = false
				case core.IsNil(g.Info(), r.Results[0]):
				case varOf(g, r.Results[0]) == lim:
					nLimRet++
				default:
					ok = false
				}
			}
			if nLimRet == 0 {
				ok = false
			}
		} else {
			rps := g.ReturnPoints()
			if len(rps) != 1 {
				continue
			}
			r := rps[0].Node().(*ast.ReturnStmt)
			if len(r.Results) != 1 {
				continue
			}
			cl, isLit := ast.Unparen(r.Results[0]).(*ast.CompositeLit)
			if !isLit {
				continue
			}
			var upV ast.Expr
			for _, el := range cl.Elts {
				kv, isKV := el.(*ast.KeyValueExpr)
				if !isKV {
					continue
				}
				id, isID := kv.Key.(*ast.Ident)
				if !isID {
					continue
				}
				if fv, isV := g.Info().ObjectOf(id).(*types.Var); isV {
					switch p.FieldName(fv) {
					case lowerField:
						s.low = kv.Value
					case upperField:
						upV = kv.Value
					}
				}
			}
			if upV == nil || varOf(g, upV) != lim {
				continue
			}
			s.lit = cl
		}
		if ok {
			found = append(found, s)
		}
	}
	switch len(found) {
	case 1:
		return found[0], ""
	case 0:
		return nil, "no function of " + pkg + " computes a prefix successor (a loop over its byte-slice parameter that allocates the bound it hands out)"
	}
	return nil, fmt.Sprintf("%d functions of %s look like the prefix successor computation", len(found), pkg)
}

// ---------------------------------------------------------------------------
// data-flow over bytesPrefixRange

const c23SuccAtom = "#successor(prefix)"

type c23RObj struct{ lo, up c23Bytes }

type c23RState struct {
	pNil, sNil int8
	env        map[*types.Var]c23Bytes
	objs       map[*types.Var]c23RObj
}

func (s *c23RState) clone() *c23RState {
	o := &c23RState{pNil: s.pNil, sNil: s.sNil, env: map[*types.Var]c23Bytes{}, objs: map[*types.Var]c23RObj{}}
	for k, v := range s.env {
		o.env[k] = v
	}
	for k, v := range s.objs {
		o.objs[k] = v
	}
	return o
}

func c23BytesKey(b c23Bytes) string {
	var sb strings.Builder
	fmt.Fprintf(&sb, "%v%v%v%v[", b.OK, b.Fresh, b.Capped, b.NonNil)
	for _, a := range b.Parts {
		if a.V != nil {
			fmt.Fprintf(&sb, "v%d,", a.V.Pos())
		} else {
			sb.WriteString(a.Field + ",")
		}
	}
	sb.WriteString("]")
	return sb.String()
}

func (s *c23RState) key() string {
	var ks []string
	for v, b := range s.env {
		ks = append(ks, fmt.Sprintf("e%d=%s", v.Pos(), c23BytesKey(b)))
	}
	for v, o := range s.objs {
		ks = append(ks, fmt.Sprintf("o%d=%s/%s", v.Pos(), c23BytesKey(o.lo), c23BytesKey(o.up)))
	}
	sort.Strings(ks)
	return fmt.Sprintf("%d%d|%s", s.pNil, s.sNil, strings.Join(ks, ";"))
}

// c23RangeAn is the analysis of one bytesPrefixRange helper h(prefix, start).
type c23RangeAn struct {
	h            *core.FuncInfo
	pP, pS       *types.Var
	lower, upper string        // canonical names of the library range's bound fields
	rangeT       types.Type    // the library's range struct type
	libHelper    string        // the library's prefix helper (returns {lower: prefix itself, upper: successor}), "" if none
	succ         *c23Succ      // the module's successor function, nil if none
	why          string        // first reason the analysis gave up
	verdicts     []c23RangeRet // one per (exit, state)
}

type c23RangeRet struct {
	pos    token.Pos
	ok     bool
	detail string
}

var c23NilBytes = c23Bytes{OK: true, Fresh: true}

func (a *c23RangeAn) giveUp(format string, args ...interface{}) {
	if a.why == "" {
		a.why = fmt.Sprintf(format, args...)
	}
}

func (a *c23RangeAn) isRangeT(t types.Type) bool {
	if t == nil {
		return false
	}
	if pt, ok := t.(*types.Pointer); ok {
		t = pt.Elem()
	}
	return types.Identical(t, a.rangeT)
}

// isPrefixVal: the value is the prefix parameter itself (nothing, when the prefix is known to be nil).
func (a *c23RangeAn) isPrefixVal(b c23Bytes, st *c23RState) bool {
	if !b.OK {
		return false
	}
	if len(b.Parts) == 1 && b.Parts[0].V == a.pP {
		return true
	}
	return st.pNil == c23True && len(b.Parts) == 0
}

func (a *c23RangeAn) boundField(e ast.Expr) string {
	sel, ok := ast.Unparen(e).(*ast.SelectorExpr)
	if !ok {
		return ""
	}
	s, ok := a.h.Info().Selections[sel]
	if !ok {
		return ""
	}
	fv, ok := s.Obj().(*types.Var)
	if !ok || !fv.IsField() {
		return ""
	}
	switch n := a.h.P.FieldName(fv); n {
	case a.lower, a.upper:
		return n
	}
	return ""
}

// eval: the symbolic value of a byte-slice expression in state st.
func (a *c23RangeAn) eval(e ast.Expr, st *c23RState) c23Bytes {
	e = ast.Unparen(e)
	if sel, ok := e.(*ast.SelectorExpr); ok {
		if x := varOf(a.h, sel.X); x != nil {
			if o, tracked := st.objs[x]; tracked {
				switch a.boundField(sel) {
				case a.lower:
					return o.lo
				case a.upper:
					return o.up
				}
			}
		}
	}
	if call, ok := e.(*ast.CallExpr); ok && a.succ != nil && a.succ.lit == nil && len(call.Args) == 1 {
		if obj, _ := a.h.P.ResolveCallee(a.h.Info(), call); obj != nil && obj == types.Object(a.succ.g.Obj) {
			if a.isPrefixVal(a.eval(call.Args[0], st), st) {
				return c23Bytes{OK: true, Fresh: true, Parts: []c23Atom{{Field: c23SuccAtom}}}
			}
			return c23Bytes{}
		}
	}
	env := map[*types.Var]c23Bytes{}
	for k, v := range st.env {
		env[k] = v
	}
	if st.pNil == c23True {
		env[a.pP] = c23NilBytes
	}
	if st.sNil == c23True {
		env[a.pS] = c23NilBytes
	}
	val := c23EvalBytes(a.h, e, env, 2)
	if !val.OK {
		return val
	}
	// a bound of the range under construction read inside a larger expression
	var parts []c23Atom
	for _, pt := range val.Parts {
		if pt.Field != a.lower && pt.Field != a.upper {
			parts = append(parts, pt)
			continue
		}
		if len(st.objs) != 1 {
			return c23Bytes{}
		}
		for _, o := range st.objs {
			src := o.lo
			if pt.Field == a.upper {
				src = o.up
			}
			if !src.OK {
				return c23Bytes{}
			}
			if len(val.Parts) == 1 {
				return src // the field itself: same memory, same nil-ness
			}
			parts = append(parts, src.Parts...)
		}
	}
	val.Parts = parts
	return val
}

// evalObj: the symbolic value of an expression of the range type.
func (a *c23RangeAn) evalObj(e ast.Expr, st *c23RState) (c23RObj, bool) {
	e = ast.Unparen(e)
	if u, ok := e.(*ast.UnaryExpr); ok && u.Op == token.AND {
		return a.evalObj(u.X, st)
	}
	if st2, ok := e.(*ast.StarExpr); ok {
		return a.evalObj(st2.X, st)
	}
	switch x := e.(type) {
	case *ast.Ident:
		if v := varOf(a.h, x); v != nil {
			if o, ok := st.objs[v]; ok {
				return o, true
			}
		}
	case *ast.CompositeLit:
		if !a.isRangeT(a.h.Info().TypeOf(x)) {
			return c23RObj{}, false
		}
		o := c23RObj{lo: c23NilBytes, up: c23NilBytes}
		stT, _ := a.rangeT.Underlying().(*types.Struct)
		for i, el := range x.Elts {
			var fld *types.Var
			val := el
			if kv, isKV := el.(*ast.KeyValueExpr); isKV {
				if id, isID := kv.Key.(*ast.Ident); isID {
					fld, _ = a.h.Info().ObjectOf(id).(*types.Var)
				}
				val = kv.Value
			} else if stT != nil && i < stT.NumFields() {
				fld = stT.Field(i)
			}
			if fld == nil {
				return c23RObj{}, false
			}
			switch a.h.P.FieldName(fld) {
			case a.lower:
				o.lo = a.eval(val, st)
			case a.upper:
				o.up = a.eval(val, st)
			}
		}
		return o, true
	case *ast.CallExpr:
		if len(x.Args) != 1 {
			break
		}
		isHelper := a.libHelper != "" && calleeName(a.h, x) == a.libHelper
		if !isHelper && a.succ != nil && a.succ.lit != nil {
			if obj, _ := a.h.P.ResolveCallee(a.h.Info(), x); obj != nil && obj == types.Object(a.succ.g.Obj) {
				isHelper = true
			}
		}
		if isHelper {
			arg := a.eval(x.Args[0], st)
			if !a.isPrefixVal(arg, st) {
				return c23RObj{}, false
			}
			// the helper's lower bound is its argument itself (aliased), its upper bound the successor
			return c23RObj{lo: c23Bytes{OK: true, Parts: arg.Parts}, up: c23Bytes{OK: true, Fresh: true, Parts: []c23Atom{{Field: c23SuccAtom}}}}, true
		}
	}
	return c23RObj{}, false
}

// step applies one CFG node to the state; false when the analysis has to give up.
func (a *c23RangeAn) step(n ast.Node, st *c23RState) bool {
	h := a.h
	tracked := func(e ast.Expr) bool {
		root := ast.Unparen(e)
		for {
			switch x := root.(type) {
			case *ast.SelectorExpr:
				root = ast.Unparen(x.X)
				continue
			case *ast.IndexExpr:
				root = ast.Unparen(x.X)
				continue
			case *ast.StarExpr:
				root = ast.Unparen(x.X)
				continue
			case *ast.SliceExpr:
				root = ast.Unparen(x.X)
				continue
			}
			break
		}
		v := varOfRaw(h, root)
		if v == nil {
			return false
		}
		_, inEnv := st.env[v]
		_, inObj := st.objs[v]
		return inEnv || inObj || v == a.pP || v == a.pS
	}
	assign := func(lhs ast.Expr, rhs ast.Expr, old *c23RState) bool {
		lhs = ast.Unparen(lhs)
		if v := varOfRaw(h, lhs); v != nil {
			switch {
			case v == a.pP || v == a.pS:
				a.giveUp("the parameter %s is reassigned", v.Name())
				return false
			case c23IsByteSlice(v.Type()):
				if rhs == nil {
					st.env[v] = c23NilBytes
				} else {
					st.env[v] = a.eval(rhs, old)
				}
			case a.isRangeT(v.Type()):
				if rhs == nil {
					st.objs[v] = c23RObj{lo: c23NilBytes, up: c23NilBytes}
				} else {
					o, ok := a.evalObj(rhs, old)
					if !ok {
						a.giveUp("the range value assigned to %s is not understood", v.Name())
						return false
					}
					st.objs[v] = o
				}
			}
			return true
		}
		if sel, ok := lhs.(*ast.SelectorExpr); ok {
			if x := varOfRaw(h, sel.X); x != nil {
				if o, isObj := st.objs[x]; isObj {
					switch a.boundField(sel) {
					case a.lower:
						o.lo = a.eval(rhs, old)
					case a.upper:
						o.up = a.eval(rhs, old)
					}
					st.objs[x] = o
					return true
				}
			}
		}
		if tracked(lhs) {
			a.giveUp("a store through %s is not understood", exprStr(lhs))
			return false
		}
		return true
	}
	switch x := n.(type) {
	case *ast.AssignStmt:
		if len(x.Lhs) != len(x.Rhs) || (x.Tok != token.ASSIGN && x.Tok != token.DEFINE) {
			for _, l := range x.Lhs {
				if v := varOfRaw(h, l); tracked(l) || (v != nil && (c23IsByteSlice(v.Type()) || a.isRangeT(v.Type()))) {
					a.giveUp("multi-value or compound assignment to %s", exprStr(l))
					return false
				}
			}
			return true
		}
		old := st.clone()
		for i := range x.Lhs {
			if !assign(x.Lhs[i], x.Rhs[i], old) {
				return false
			}
		}
	case *ast.ValueSpec:
		old := st.clone()
		for i, id := range x.Names {
			var rhs ast.Expr
			switch {
			case len(x.Values) == 0:
			case len(x.Values) == len(x.Names):
				rhs = x.Values[i]
			default:
				a.giveUp("multi-value declaration")
				return false
			}
			if !assign(id, rhs, old) {
				return false
			}
		}
	case *ast.ExprStmt:
		if cp := isCallTo(h, x.X, "builtin.copy"); cp != nil && len(cp.Args) == 2 && tracked(cp.Args[0]) {
			a.giveUp("copy into %s is not understood", exprStr(cp.Args[0]))
			return false
		}
	case *ast.IncDecStmt:
		if tracked(x.X) {
			a.giveUp("a store through %s is not understood", exprStr(x.X))
			return false
		}
	}
	return true
}

// judge one exit in one state.
func (a *c23RangeAn) judge(r *ast.ReturnStmt, st *c23RState) {
	v := c23RangeRet{pos: r.Pos()}
	defer func() { a.verdicts = append(a.verdicts, v) }()
	if len(r.Results) != 1 {
		a.giveUp("a return without one explicit result")
		return
	}
	if core.IsNil(a.h.Info(), r.Results[0]) {
		v.ok = st.pNil == c23True && st.sNil == c23True
		if !v.ok {
			v.detail = "the unbounded (nil) range is returned although a prefix or a start may have been given"
		}
		return
	}
	o, ok := a.evalObj(r.Results[0], st)
	if !ok {
		a.giveUp("the returned range %s is not understood", exprStr(r.Results[0]))
		return
	}
	var want []c23Atom
	if st.pNil != c23True {
		want = append(want, c23Atom{V: a.pP})
	}
	if st.sNil != c23True {
		want = append(want, c23Atom{V: a.pS})
	}
	same := o.lo.OK && len(o.lo.Parts) == len(want)
	for i := 0; same && i < len(want); i++ {
		if o.lo.Parts[i] != want[i] {
			same = false
		}
	}
	isSucc := o.up.OK && len(o.up.Parts) == 1 && o.up.Parts[0].Field == c23SuccAtom
	noUpper := o.up.OK && len(o.up.Parts) == 0 && !o.up.NonNil
	switch {
	case !same:
		v.detail = "the lower bound is not prefix followed by start: iteration does not begin at prefix||start"
	case !o.lo.Fresh:
		v.detail = "the lower bound is built in the caller's prefix slice (append writes start into its spare capacity)"
	case !isSucc && !(noUpper && st.pNil == c23True):
		v.detail = "the upper bound is not the prefix's successor (and the prefix is not known to be nil): iteration does not end with the prefix"
	default:
		v.ok = true
	}
}

// run explores the CFG; states are kept apart by the truth values of prefix == nil / start == nil and by the
// symbolic values (finite: every value is a concatenation built by the statements of h).
func (a *c23RangeAn) run() {
	h := a.h
	type item struct {
		b  *cfg.Block
		st *c23RState
	}
	pIsNil, pNotNil := varNilFact(h, a.pP, true), varNilFact(h, a.pP, false)
	sIsNil, sNotNil := varNilFact(h, a.pS, true), varNilFact(h, a.pS, false)
	seen := map[string]bool{}
	work := []item{{h.CFG().Blocks[0], &c23RState{env: map[*types.Var]c23Bytes{}, objs: map[*types.Var]c23RObj{}}}}
	for n := 0; len(work) > 0; n++ {
		if n > 2000 {
			a.giveUp("too many states")
			return
		}
		it := work[0]
		work = work[1:]
		k := fmt.Sprintf("%d|%s", it.b.Index, it.st.key())
		if seen[k] {
			continue
		}
		seen[k] = true
		st := it.st.clone()
		returned := false
		for _, nd := range it.b.Nodes {
			if r, ok := nd.(*ast.ReturnStmt); ok {
				a.judge(r, st)
				returned = true
				break
			}
			if !a.step(nd, st) {
				return
			}
		}
		if returned || a.why != "" {
			if a.why != "" {
				return
			}
			continue
		}
		if len(it.b.Succs) == 0 && it.b.Live && !c23EndsInPanic(h, it.b) {
			a.giveUp("the function can fall off its end")
			return
		}
		for si, succ := range it.b.Succs {
			ns := st.clone()
			feasible := true
			if len(it.b.Succs) == 2 {
				for _, ft := range h.EdgeFacts(it.b, si) {
					set := func(cur *int8, want int8) {
						if *cur != c23Unknown && *cur != want {
							feasible = false
						}
						*cur = want
					}
					switch {
					case pIsNil(ft):
						set(&ns.pNil, c23True)
					case pNotNil(ft):
						set(&ns.pNil, c23False)
					case sIsNil(ft):
						set(&ns.sNil, c23True)
					case sNotNil(ft):
						set(&ns.sNil, c23False)
					}
				}
			}
			if feasible {
				work = append(work, item{succ, ns})
			}
		}
	}
}

// c23RangeFlow runs the analysis. decided is false when some statement was not understood (why says which);
// otherwise ok tells whether every exit hands out the right range, with the first offending exit.
func c23RangeFlow(h *core.FuncInfo, lower, upper, libHelper string, succ *c23Succ) (decided, ok bool, why string, pos token.Pos) {
	a := &c23RangeAn{h: h, pP: h.Param(0), pS: h.Param(1), lower: lower, upper: upper, libHelper: libHelper, succ: succ}
	sig, _ := h.Obj.Type().(*types.Signature)
	if a.pP == nil || a.pS == nil || sig == nil || sig.Results().Len() != 1 {
		return false, false, "not a function (prefix, start) -> range", h.Pos()
	}
	t := sig.Results().At(0).Type()
	if pt, isPtr := t.(*types.Pointer); isPtr {
		t = pt.Elem()
	}
	a.rangeT = t
	if _, isStruct := t.Underlying().(*types.Struct); !isStruct {
		return false, false, "the result is not the library's range struct", h.Pos()
	}
	a.run()
	if a.why != "" {
		return false, false, a.why, h.Pos()
	}
	nRange := 0
	for _, v := range a.verdicts {
		if !v.ok {
			return true, false, v.detail, v.pos
		}
		nRange++
	}
	if nRange == 0 {
		return false, false, "no exit found", h.Pos()
	}
	return true, true, "", token.NoPos
}
