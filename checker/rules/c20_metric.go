package rules

import (
	"go/ast"
	"go/token"
	"go/types"

	"lachk/core"
)

// C20.metric — GetMetricOf on the inlined view.
//
// The per-validator term diffMetricFn(median, current, update, validatorIdx) may be evaluated in the
// loop of GetMetricOf itself or in a helper method that loop calls on the same receiver once per
// validator (h.diffOf(vecClock, i)). Argument provenance is decided relative to frames (c21Frame: the
// helper's parameters and receiver stand for the caller's argument expressions, single-definition
// locals are looked through), so the roles are the same facts in both spellings.

// c20RootRecv: e denotes the receiver of the root frame's method.
func c20RootRecv(fr *c21Frame, e ast.Expr) bool {
	fr2, r := c21Resolve(fr, e)
	id, ok := r.(*ast.Ident)
	if !ok || fr2.Up != nil || fr2.F.Recv() == nil {
		return false
	}
	return fr2.F.Info().ObjectOf(id) == types.Object(fr2.F.Recv())
}

// c20RootVar: e denotes variable v of the root frame (conversions, locals and parameters looked through).
func c20RootVar(fr *c21Frame, e ast.Expr, v *types.Var) bool {
	if v == nil || e == nil {
		return false
	}
	for i := 0; i < 8; i++ {
		e = core.StripConv(fr.F.Info(), e)
		fr2, r := c21Resolve(fr, e)
		r = core.StripConv(fr2.F.Info(), r)
		if fr2 == fr && r == e {
			id, ok := r.(*ast.Ident)
			return ok && fr.Up == nil && fr.F.Info().ObjectOf(id) == types.Object(v)
		}
		fr, e = fr2, r
	}
	return false
}

// c20RootFieldAt: e denotes <root receiver>.<field>[ix].
func c20RootFieldAt(fr *c21Frame, e ast.Expr, field string, ix *types.Var) bool {
	fr2, r := c21Resolve(fr, e)
	x, ok := core.StripConv(fr2.F.Info(), r).(*ast.IndexExpr)
	if !ok {
		return false
	}
	fr3, base := c21Resolve(fr2, x.X)
	sel, ok := core.StripConv(fr3.F.Info(), base).(*ast.SelectorExpr)
	if !ok {
		return false
	}
	s, ok := fr3.F.Info().Selections[sel]
	if !ok {
		return false
	}
	fv, ok := s.Obj().(*types.Var)
	if !ok || !fv.IsField() || fr3.F.P.FieldName(fv) != field {
		return false
	}
	return c20RootRecv(fr3, sel.X) && c20RootVar(fr2, x.Index, ix)
}

// c20RootSeqOfVec: e denotes seqOf(V.Get(ix)) with V = <root receiver>.dagi.GetMergedHighestBefore(id).
func c20RootSeqOfVec(fr *c21Frame, e ast.Expr, ix, id *types.Var) bool {
	callOf := func(fr *c21Frame, e ast.Expr, name string) (*c21Frame, *ast.CallExpr) {
		fr2, r := c21Resolve(fr, e)
		call, ok := core.StripConv(fr2.F.Info(), r).(*ast.CallExpr)
		if !ok || calleeName(fr2.F, call) != name {
			return nil, nil
		}
		return fr2, call
	}
	f1, sq := callOf(fr, e, c20SeqOf)
	if sq == nil || len(sq.Args) != 1 {
		return false
	}
	f2, get := callOf(f1, sq.Args[0], c20VecGet)
	if get == nil || len(get.Args) != 1 || !c20RootVar(f2, get.Args[0], ix) {
		return false
	}
	gsel, ok := ast.Unparen(get.Fun).(*ast.SelectorExpr)
	if !ok {
		return false
	}
	f3, vec := callOf(f2, gsel.X, c20VecOf)
	if vec == nil || len(vec.Args) != 1 || !c20RootVar(f3, vec.Args[0], id) {
		return false
	}
	vsel, ok := ast.Unparen(vec.Fun).(*ast.SelectorExpr)
	if !ok {
		return false
	}
	f4, dg := c21Resolve(f3, vsel.X)
	dsel, ok := dg.(*ast.SelectorExpr)
	if !ok {
		return false
	}
	s, ok := f4.F.Info().Selections[dsel]
	if !ok {
		return false
	}
	fv, ok := s.Obj().(*types.Var)
	return ok && fv.IsField() && f4.F.P.FieldName(fv) == c20Dagi && c20RootRecv(f4, dsel.X)
}

func c20Metric(c *core.Ctx) {
	f := c.Fn(c20QiT + ".GetMetricOf")
	pID := f.Param(0)
	c.Need(pID != nil, "GetMetricOf(id)")
	if n, addr := c19AssignCount(f, pID); n != 0 || addr {
		c.Need(false, "GetMetricOf does not reassign its id parameter")
	}
	root := &c21Frame{F: f}
	fr := root
	var via *core.CallSite // the call in GetMetricOf that enters the helper (nil: evaluated in GetMetricOf itself)
	calls := f.CallsTo(c20DiffFn)
	if len(calls) == 0 {
		cands := c20HelperSites(f, func(g *core.FuncInfo, _ *core.CallSite) bool { return len(g.CallsTo(c20DiffFn)) > 0 })
		c.Need(len(cands) == 1, "one diffMetricFn call in GetMetricOf (or in one helper it calls on its receiver)")
		via = cands[0]
		fr = c21Enter(root, via, c20Callee(f, via))
		calls = fr.F.CallsTo(c20DiffFn)
	}
	c.Need(len(calls) == 1, "one diffMetricFn call in GetMetricOf")
	cs := calls[0]
	g := fr.F
	if sel, ok := ast.Unparen(cs.Call.Fun).(*ast.SelectorExpr); !ok || !c20RootRecv(fr, sel.X) {
		c.Undecided("diffMetricFn receiver", "provenance", cs.Pos(), "diffMetricFn is not called on the receiver")
	}
	// parameter names of the function type
	fv := c.P.Field(c20DiffFn)
	sig, _ := fv.Type().Underlying().(*types.Signature)
	c.Need(sig != nil && sig.Params().Len() == len(cs.Call.Args) && sig.Params().Len() == 4, "DiffMetricFn has four parameters")
	// the statement of GetMetricOf's loop that stands for the term
	site, siteCall := cs.Pt, cs.Call
	once := true
	if via != nil {
		site, siteCall = via.Pt, via.Call
		// the helper evaluates the term exactly once on every path and hands it back
		once = c20AlwaysPasses(g, []core.Point{cs.Pt}) && !g.CanReach(cs.Pt, cs.Pt) && len(g.ReturnPoints()) > 0
		for _, rp := range g.ReturnPoints() {
			r := rp.Node().(*ast.ReturnStmt)
			if len(r.Results) != 1 {
				once = false
				continue
			}
			if fr2, res := c21Resolve(fr, r.Results[0]); fr2 != fr || res != ast.Expr(cs.Call) {
				once = false
			}
		}
	}
	loop, _ := enclosingLoop(f, siteCall.Pos()).(*ast.ForStmt)
	ctr, full := c20FullLoop(f, loop, func(e ast.Expr) bool { return c20IsValLen(f, e) })
	c.Check(full && once && c20EveryIteration(f, loop, site), "metric sums over every validator", "T2 (loop) + normalised bound", cs.Pos(), "diffMetricFn is evaluated once for each i in 0..validators.Len()-1", "the metric leaves out validators (loop bound, break or continue)")
	seen := map[string]bool{}
	for i := 0; i < 4; i++ {
		name := sig.Params().At(i).Name()
		arg := cs.Call.Args[i]
		var ok bool
		var want string
		switch name {
		case "median":
			ok, want = c20RootFieldAt(fr, arg, c20Medians, ctr), "globalMedianSeqs[i]"
		case "current":
			ok, want = c20RootFieldAt(fr, arg, c20Self, ctr), "selfParentSeqs[i]"
		case "update":
			ok, want = c20RootSeqOfVec(fr, arg, ctr, pID), "seqOf(dagi.GetMergedHighestBefore(id).Get(i))"
		case "validatorIdx":
			ok, want = c20RootVar(fr, arg, ctr), "i"
		default:
			c.Undecided("DiffMetricFn parameter "+name, "provenance", cs.Pos(), "DiffMetricFn has a parameter name the rule has no role for")
			continue
		}
		seen[name] = true
		c.Check(ok, "argument `"+name+"` has the provenance its name states", "provenance", cs.Pos(), name+" = "+want, "diffMetricFn's `"+name+"` argument is not "+want+": the diff function is applied to the wrong quantity (arguments swapped or taken for another validator)")
	}
	c.ExpectAtLeast("named roles of DiffMetricFn", len(seen), 4)
	// sum: metric += term (or metric = metric + term), from zero, returned
	isTerm := func(a assignment) (*types.Var, bool) {
		if a.RHS == nil {
			return nil, false
		}
		switch a.Tok {
		case token.ADD_ASSIGN:
			if ast.Unparen(a.RHS) == ast.Expr(siteCall) {
				return varOf(f, a.LHS), true
			}
		case token.ASSIGN:
			if be, ok := ast.Unparen(a.RHS).(*ast.BinaryExpr); ok && be.Op == token.ADD && varOf(f, a.LHS) != nil {
				x, y := ast.Unparen(be.X), ast.Unparen(be.Y)
				if (varOf(f, x) == varOf(f, a.LHS) && y == ast.Expr(siteCall)) || (varOf(f, y) == varOf(f, a.LHS) && x == ast.Expr(siteCall)) {
					return varOf(f, a.LHS), true
				}
			}
		}
		return nil, false
	}
	var acc *types.Var
	for _, a := range assignments(f) {
		if v, ok := isTerm(a); ok {
			acc = v
		}
	}
	okSum := acc != nil
	if okSum {
		for _, a := range assignsToVar(f, acc) {
			if _, ok := isTerm(a); ok {
				continue
			}
			zero := a.RHS == nil
			if zero {
				_, zero = a.Stmt.(*ast.ValueSpec)
			} else {
				zero = core.IsConstInt(f.Info(), a.RHS, 0)
			}
			if !zero || (loop != nil && c19Within(loop, a.Stmt.Pos())) {
				okSum = false
			}
		}
		done, _ := loopDone(f, loop)
		for _, rp := range f.ReturnPoints() {
			r := rp.Node().(*ast.ReturnStmt)
			if len(r.Results) != 1 || varOf(f, r.Results[0]) != acc || done == nil {
				okSum = false
			} else if ok, _ := mustPassBlockBefore(f, done, rp); !ok {
				okSum = false
			}
		}
	}
	c.Check(okSum, "metric is the sum of the diffs", "provenance", f.Pos(), "an accumulator starting at 0 is increased by each diffMetricFn result and returned after the loop", "the returned metric is not the sum over validators of diffMetricFn (overwritten, not zero-initialised, or returned early)")
}
