package rules

import (
	"go/ast"
	"go/token"
	"go/types"

	"lachk/core"
)

// Effect sites of the dirty-flag producer (C25.flag.*).
//
// The clauses about the flagged store ask where an effect happens relative to another one ("the raw write
// only after modified() returned nil", "Dirty := 0 only after the clean mark was written"), not which
// function spells it. The raw write may be handed over as a callback to a helper that first calls
// modified(); the clean mark and the reset of the flag may live in a method of the store that the
// producer's Flush calls with the key and the flush ID. The helpers below find the effect points through
// statically resolved calls (bounded depth), bind callee parameters to the caller's arguments, and decide
// the ordering in the function that contains the point.

// c25IsModified: a call of flaggedStore.modified().
func c25IsModified(cs *core.CallSite) bool { return cs.Name == fStore+".modified" }

// c25Guard says whether the point pt of f is reached only after a call whose nil error certifies that
// modified() returned nil (modified() itself, or a helper every succeeding return of which is reached
// only after it succeeded).
func c25Guard(f *core.FuncInfo) func(core.Point) bool {
	var certs []*core.CallSite
	done := false
	return func(pt core.Point) bool {
		if !done {
			certs, done = c22Certifies(f, c25IsModified, 2), true
		}
		return c22AfterCertified(f, certs, pt)
	}
}

// c25CallbackGuarded: the func-valued parameter pv of g is used in g only by calling it (never stored,
// passed on, deferred or started as a goroutine), and every such call is reached only after modified()
// returned nil.
func c25CallbackGuarded(g *core.FuncInfo, pv *types.Var) bool {
	if pv == nil || g.Body == nil || len(assignsToVar(g, pv)) > 0 {
		return false
	}
	guard := c25Guard(g)
	called := map[*ast.Ident]bool{}
	for _, cs := range g.Calls() {
		id, ok := ast.Unparen(cs.Call.Fun).(*ast.Ident)
		if !ok || g.Info().ObjectOf(id) != types.Object(pv) {
			continue
		}
		if cs.InDefer || cs.InGo || !guard(cs.Pt) {
			return false
		}
		called[id] = true
	}
	ok := true
	ast.Inspect(g.Body, func(n ast.Node) bool {
		if id, isID := n.(*ast.Ident); isID && g.Info().ObjectOf(id) == types.Object(pv) && !called[id] {
			ok = false
		}
		return ok
	})
	return ok
}

// c25HasDelegate: does the literal (or a literal nested in it) call the delegate?
func c25HasDelegate(l *core.FuncInfo, delegate string) bool {
	if len(l.CallsTo(delegate)) > 0 {
		return true
	}
	for _, n := range l.Lits() {
		if c25HasDelegate(n, delegate) {
			return true
		}
	}
	return false
}

// c25RawWrites visits the places of f through which the raw store's `delegate` method may be called:
// direct calls, calls of module functions that contain such a place, and function literals containing one
// that are passed to a module function as a callback. It returns the number of places and the positions
// of those not certainly preceded by a successful modified():
//   - a direct call must be guarded in f;
//   - a call of a helper containing raw writes is fine when the call is guarded in f, or when every raw
//     write inside the helper is guarded there;
//   - a literal passed as an argument is fine when that call is guarded in f, or when the callee only
//     ever calls the parameter after its own successful modified();
//   - a literal with a raw write that is used in any other way is not decided (reported).
func c25RawWrites(f *core.FuncInfo, delegate string, depth int) (n int, bad []token.Pos) {
	guard := c25Guard(f)
	accounted := map[*core.FuncInfo]bool{}
	for _, cs := range f.Calls() {
		if cs.Name == delegate {
			n++
			if cs.InDefer || cs.InGo || !guard(cs.Pt) {
				bad = append(bad, cs.Pos())
			}
			continue
		}
		g := c22Callee(cs)
		// a literal called in place
		if lit, ok := ast.Unparen(cs.Call.Fun).(*ast.FuncLit); ok {
			if li := f.P.LitInfo(lit); li != nil && c25HasDelegate(li, delegate) {
				accounted[li] = true
				n++
				if cs.InDefer || cs.InGo || !guard(cs.Pt) {
					bad = append(bad, cs.Pos())
				}
			}
		}
		for i, a := range cs.Call.Args {
			lit, ok := resolveLocal(f, a).(*ast.FuncLit)
			if !ok {
				continue
			}
			li := f.P.LitInfo(lit)
			if li == nil || !c25HasDelegate(li, delegate) {
				continue
			}
			n++
			accounted[li] = true
			if !cs.InDefer && !cs.InGo && guard(cs.Pt) {
				continue
			}
			if g == nil || depth <= 0 || cs.InGo || !c25CallbackGuarded(g, g.Param(i)) {
				bad = append(bad, lit.Pos())
			}
		}
		if g != nil && depth > 0 {
			if n2, bad2 := c25RawWrites(g, delegate, depth-1); n2 > 0 {
				n += n2
				if cs.InDefer || cs.InGo || !guard(cs.Pt) {
					bad = append(bad, bad2...)
				}
			}
		}
	}
	for _, l := range allLits(f) {
		if !accounted[l] && len(l.CallsTo(delegate)) > 0 {
			// nested in an accounted literal?
			in := false
			for p := l.Parent; p != nil && p != f; p = p.Parent {
				in = in || accounted[p]
			}
			if !in {
				n++
				bad = append(bad, l.Pos())
			}
		}
	}
	return n, bad
}

// c25FlagRole: c25Role extended with the flush-ID key of the flagged producer and of its stores.
func c25FlagRole(g *core.FuncInfo, env c25Env, e ast.Expr) string {
	if r := c25Role(g, env, e); r != "" {
		return r
	}
	if e == nil {
		return ""
	}
	switch fieldNameOf(g, core.StripConv(g.Info(), resolveLocal(g, e))) {
	case fpPkg + ".Producer.flushIDKey", fStore + ".flushIDKey":
		return "key"
	}
	return ""
}

// c25CleanMark is a MarkFlushID(·, ·, CleanPrefix, ·) call reached from Producer.Flush.
type c25CleanMark struct {
	Host   *core.FuncInfo
	Site   *core.CallSite
	ArgsOK bool // key and flush ID are the producer's key and Flush's id parameter
}

// c25CleanMarks lists the clean-mark calls of g and of the module functions it calls (bounded depth),
// the callee's parameters bound to the roles of the arguments.
func c25CleanMarks(g *core.FuncInfo, env c25Env, depth int, seen map[*core.FuncInfo]bool) []c25CleanMark {
	if seen[g] {
		return nil
	}
	seen[g] = true
	var out []c25CleanMark
	for _, cs := range g.Calls() {
		if cs.InGo {
			continue
		}
		if cs.Name == c25MarkF && len(cs.Call.Args) == 4 {
			if c25FlagRole(g, env, cs.Call.Args[2]) == c25Clean {
				out = append(out, c25CleanMark{Host: g, Site: cs,
					ArgsOK: c25FlagRole(g, env, cs.Call.Args[1]) == "key" && c25FlagRole(g, env, cs.Call.Args[3]) == "id"})
			}
			continue
		}
		h := c22Callee(cs)
		if h == nil || depth <= 0 {
			continue
		}
		henv := c25Env{}
		for pv, arg := range c22ParamArgs(cs, h) {
			if len(assignsToVar(h, pv)) > 0 {
				continue
			}
			if r := c25FlagRole(g, env, arg); r != "" {
				henv[pv] = r
			}
		}
		out = append(out, c25CleanMarks(h, henv, depth-1, seen)...)
	}
	return out
}

// c25DirtyResets lists the atomic.StoreUint32(&x.Dirty, 0) calls of the flagged producer's package.
func c25DirtyResets(p *core.Prog) []*core.CallSite {
	var out []*core.CallSite
	for _, g := range p.FuncsInPkg(fpPkg) {
		for _, h := range append([]*core.FuncInfo{g}, allLits(g)...) {
			for _, cs := range h.CallsTo("sync/atomic.StoreUint32") {
				if len(cs.Call.Args) != 2 || !core.IsConstInt(h.Info(), cs.Call.Args[1], 0) {
					continue
				}
				if u, ok := resolveLocal(h, cs.Call.Args[0]).(*ast.UnaryExpr); ok && u.Op == token.AND && fieldNameOf(h, u.X) == fStore+".Dirty" {
					out = append(out, cs)
				}
			}
		}
	}
	return out
}

// c25AfterCleanMark: the point pt of h is reached only after a clean mark was written successfully (a
// MarkFlushID(…, CleanPrefix, …) call of h, or a helper whose nil error certifies one).
func c25AfterCleanMark(h *core.FuncInfo, pt core.Point) bool {
	certs := c22Certifies(h, func(cs *core.CallSite) bool {
		return cs.Name == c25MarkF && len(cs.Call.Args) == 4 && c25Role(cs.F, nil, cs.Call.Args[2]) == c25Clean
	}, 1)
	return c22AfterCertified(h, certs, pt)
}

// c25AlreadyDirty matches "atomic.LoadUint32(&x.Dirty) != 0" in the view's function.
func c25AlreadyDirty(v c25View, ft core.Fact) bool {
	g := v.G
	cm, ok := core.NormCmp(ft)
	if !ok || cm.R == nil {
		return false
	}
	l, r := cm.L, cm.R
	if core.IsConstInt(g.Info(), l, 0) {
		l, r = r, l
	}
	if !core.IsConstInt(g.Info(), r, 0) {
		return false
	}
	call := isCallTo(g, resolveLocal(g, l), "sync/atomic.LoadUint32")
	if call == nil || len(call.Args) != 1 {
		return false
	}
	u, ok := ast.Unparen(call.Args[0]).(*ast.UnaryExpr)
	if !ok || u.Op != token.AND || fieldNameOf(g, u.X) != fStore+".Dirty" {
		return false
	}
	// unsigned: != 0 and > 0 say the same
	return cm.Op == token.NEQ || (cm.Op == token.GTR && l == cm.L) || (cm.Op == token.LSS && l == cm.R)
}
