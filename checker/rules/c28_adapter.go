package rules

import (
	"go/ast"
	"go/types"

	"lachk/core"
)

// Adapter types. A direct call made under a lock (`b.db.put(k, v)` in cacheBatch.Write) may be replaced
// by a call through a small unexported adapter type that implements an interface
// (`b.replayTo(cacheWriter{db: b.db})`, where replayTo calls w.Put / w.Delete on a kvdb.Writer). The
// methods of the adapter have exported names, so the lockset analysis enters them with no lock held,
// although they can only run where the adapter value was handed to: the type is unexported, its values
// are created only by composite literals of the package, and each literal is passed directly to a
// function of the package that does nothing with the parameter except calling its methods (or passing
// it on in the same way). The lock state on entry to an adapter method is then the meet of the lock
// states at the calls that hand an adapter over, provided the receiving functions do not lock or unlock
// anything themselves. Whenever one of these conditions fails the methods keep their unlocked entry.

var c28LockOps = map[string]bool{
	"sync.Mutex.Lock": true, "sync.Mutex.Unlock": true, "sync.Mutex.TryLock": true,
	"sync.RWMutex.Lock": true, "sync.RWMutex.Unlock": true, "sync.RWMutex.RLock": true, "sync.RWMutex.RUnlock": true,
	"sync.RWMutex.TryLock": true, "sync.RWMutex.TryRLock": true,
	"sync.Locker.Lock": true, "sync.Locker.Unlock": true,
}

// c28RunLockset is core.RunLockset with the entry states of adapter methods derived from the places
// their adapters are handed to.
func c28RunLockset(p *core.Prog, spec core.LockSpec) *core.LockResult {
	res := core.RunLockset(p, spec)
	held := c28AdapterEntries(p, res)
	if len(held) == 0 {
		return res
	}
	spec2 := spec
	spec2.AssumeHeld = map[string]map[string]int8{}
	for k, v := range spec.AssumeHeld {
		spec2.AssumeHeld[k] = v
	}
	for k, v := range held {
		if _, given := spec2.AssumeHeld[k]; !given {
			spec2.AssumeHeld[k] = v
		}
	}
	return core.RunLockset(p, spec2)
}

func c28Meet(a, b core.LState) core.LState {
	out := core.LState{}
	for k, v := range a {
		if w, ok := b[k]; ok {
			if w < v {
				v = w
			}
			if v > 0 {
				out[k] = v
			}
		}
	}
	return out
}

// c28AdapterEntries: function name -> mutex -> level for the methods of adapter types.
func c28AdapterEntries(p *core.Prog, res *core.LockResult) map[string]map[string]int8 {
	out := map[string]map[string]int8{}
	inSet := map[*core.FuncInfo]bool{}
	for _, f := range res.Analysed {
		inSet[f] = true
	}
	// candidate types: unexported named types of the analysed packages with exported methods
	methods := map[*types.TypeName][]*core.FuncInfo{}
	var order []*types.TypeName
	for _, f := range res.Analysed {
		if f.Obj == nil || f.Decl == nil || f.Decl.Recv == nil {
			continue
		}
		sig, _ := f.Obj.Type().(*types.Signature)
		if sig == nil || sig.Recv() == nil {
			continue
		}
		t := sig.Recv().Type()
		if pt, ok := t.(*types.Pointer); ok {
			t = pt.Elem()
		}
		nt, ok := t.(*types.Named)
		if !ok || nt.Obj() == nil || nt.Obj().Exported() || nt.Obj().Pkg() != f.Pkg.Types {
			continue
		}
		if _, seen := methods[nt.Obj()]; !seen {
			order = append(order, nt.Obj())
		}
		methods[nt.Obj()] = append(methods[nt.Obj()], f)
	}
	if len(order) == 0 {
		return out
	}
	// call expression -> (function, call site state)
	type siteInfo struct {
		f  *core.FuncInfo
		cs *core.CallSite
	}
	siteOf := map[*ast.CallExpr]siteInfo{}
	for _, f := range res.Analysed {
		for _, cs := range f.Calls() {
			siteOf[cs.Call] = siteInfo{f, cs}
		}
	}
	stateAt := func(g *core.FuncInfo, caller *core.FuncInfo, call *ast.CallExpr) (core.LState, bool) {
		for _, ci := range res.CallIns[g] {
			if ci.Caller == caller && ci.Pos == call.End() {
				return ci.State, true
			}
		}
		return nil, false
	}
	staticCallee := func(f *core.FuncInfo, call *ast.CallExpr) *core.FuncInfo {
		obj, _ := p.ResolveCallee(f.Info(), call)
		fn, ok := obj.(*types.Func)
		if !ok {
			return nil
		}
		g := p.FuncOf(fn)
		if g == nil || !inSet[g] {
			return nil
		}
		return g
	}
	argIndex := func(call *ast.CallExpr, e ast.Expr) int {
		for i, a := range call.Args {
			for x := a; ; {
				if x == e {
					return i
				}
				switch y := x.(type) {
				case *ast.ParenExpr:
					x = y.X
					continue
				case *ast.UnaryExpr:
					x = y.X
					continue
				}
				break
			}
		}
		return -1
	}
	// receives: g does nothing with parameter i except calling its methods or passing it on likewise,
	// and neither locks nor unlocks
	var receives func(g *core.FuncInfo, i int, depth int) bool
	receives = func(g *core.FuncInfo, i int, depth int) bool {
		pv := g.Param(i)
		if pv == nil || depth <= 0 || g.Body == nil {
			return false
		}
		if sig, _ := g.Obj.Type().(*types.Signature); sig == nil || sig.Variadic() && i >= sig.Params().Len()-1 {
			return false
		}
		for _, cs := range g.Calls() {
			if c28LockOps[cs.Name] {
				return false
			}
		}
		for _, l := range allLits(g) {
			for _, cs := range l.Calls() {
				if c28LockOps[cs.Name] {
					return false
				}
			}
		}
		ok := true
		var stack []ast.Node
		ast.Inspect(g.Body, func(n ast.Node) bool {
			if n == nil {
				stack = stack[:len(stack)-1]
				return true
			}
			stack = append(stack, n)
			id, isID := n.(*ast.Ident)
			if !isID || g.Info().Uses[id] != pv {
				return true
			}
			// the use: receiver of a direct method call, or argument passed on
			for _, anc := range stack {
				switch anc.(type) {
				case *ast.FuncLit, *ast.GoStmt, *ast.DeferStmt:
					ok = false
				}
			}
			if len(stack) < 3 {
				ok = false
				return true
			}
			parent := stack[len(stack)-2]
			switch par := parent.(type) {
			case *ast.SelectorExpr:
				call, isCall := stack[len(stack)-3].(*ast.CallExpr)
				if par.X != ast.Expr(id) || !isCall || call.Fun != ast.Expr(par) {
					ok = false
				}
			case *ast.CallExpr:
				j := argIndex(par, id)
				g2 := staticCallee(g, par)
				if j < 0 || g2 == nil || g2 == g || !receives(g2, j, depth-1) {
					ok = false
				}
			default:
				ok = false
			}
			return true
		})
		return ok
	}
	for _, tn := range order {
		ms := methods[tn]
		pkg := ms[0].Pkg
		escapes := false
		var state core.LState
		nFlows := 0
		for _, file := range pkg.Syntax {
			var stack []ast.Node
			ast.Inspect(file, func(n ast.Node) bool {
				if n == nil {
					stack = stack[:len(stack)-1]
					return true
				}
				stack = append(stack, n)
				id, isID := n.(*ast.Ident)
				if !isID || pkg.TypesInfo.Uses[id] != types.Object(tn) {
					return true
				}
				// receiver declaration
				for k := len(stack) - 2; k >= 0; k-- {
					if fl, isFL := stack[k].(*ast.FieldList); isFL && k > 0 {
						if fd, isFD := stack[k-1].(*ast.FuncDecl); isFD && fd.Recv == fl {
							return true
						}
					}
				}
				// composite literal handed directly to a function of the package
				k := len(stack) - 2
				lit, isLit := stack[k].(*ast.CompositeLit)
				if !isLit || lit.Type != ast.Expr(id) {
					escapes = true
					return true
				}
				k--
				for k >= 0 {
					if _, isParen := stack[k].(*ast.ParenExpr); isParen {
						k--
						continue
					}
					if u, isU := stack[k].(*ast.UnaryExpr); isU && u.X != nil {
						k--
						continue
					}
					break
				}
				if k < 0 {
					escapes = true
					return true
				}
				call, isCall := stack[k].(*ast.CallExpr)
				si, known := siteOf[call]
				if !isCall || !known || si.cs.InGo || si.cs.InDefer {
					escapes = true
					return true
				}
				i := argIndex(call, lit)
				g := staticCallee(si.f, call)
				if i < 0 || g == nil || g.Obj == nil || !receives(g, i, 3) {
					escapes = true
					return true
				}
				st, found := stateAt(g, si.f, call)
				if !found {
					escapes = true
					return true
				}
				if nFlows == 0 {
					state = st
				} else {
					state = c28Meet(state, st)
				}
				nFlows++
				return true
			})
		}
		if escapes || nFlows == 0 || len(state) == 0 {
			continue
		}
		for _, m := range ms {
			lv := map[string]int8{}
			for k, v := range state {
				lv[k] = v
			}
			out[m.Name] = lv
		}
	}
	return out
}
