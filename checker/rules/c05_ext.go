package rules

import (
	"fmt"
	"go/ast"
	"go/token"
	"go/types"
	"sort"
	"strings"

	"lachk/core"
)

var _ = fmt.Sprint
var _ ast.Node
var _ token.Pos
var _ types.Object
var _ = sort.Strings
var _ = strings.TrimSpace

// c05ForkPairs: forks that no parent has seen are found by testing whether two branches of one
// creator overlap in the event's merged view. The test has to range over every pair of the creator's
// branches: a fork of a fork (or a three-way fork) shows up only between two side branches, so a scan
// that pairs every branch with one fixed branch misses it, and ForklessCause then answers 'true' for
// an event whose ancestry shows a fork by that creator.
func c05ForkPairs(c *core.Ctx) {
	c.Clause("C05.forkpairs", func() {
		f := c.Fn("vecengine.Engine.fillEventVectors")
		// overlap tests: conditions containing both MinSeq(..) and Seq(..) calls on the vector
		type test struct {
			cond ast.Expr
			args []*types.Var
		}
		var tests []test
		for _, b := range f.CFG().Blocks {
			cond := f.BranchCond(b)
			if cond == nil || !b.Live {
				continue
			}
			var mins []*ast.CallExpr
			hasSeq := false
			ast.Inspect(cond, func(n ast.Node) bool {
				if call, ok := n.(*ast.CallExpr); ok {
					nm := calleeName(f, call)
					if methodNamed(nm, "MinSeq") {
						mins = append(mins, call)
					}
					if methodNamed(nm, "Seq") {
						hasSeq = true
					}
				}
				return true
			})
			if len(mins) == 0 || !hasSeq {
				continue
			}
			t := test{cond: cond}
			for _, m := range mins {
				if len(m.Args) == 1 {
					t.args = append(t.args, varOf(f, m.Args[0]))
				}
			}
			tests = append(tests, t)
		}
		c.ExpectAtLeast("branch-overlap tests in fillEventVectors", len(tests), 1)
		// resolve a variable through single-definition aliases to the range statement that defines it
		rangeOf := func(v *types.Var) *ast.RangeStmt {
			for depth := 0; depth < 4 && v != nil; depth++ {
				var found *ast.RangeStmt
				f.InspectOwn(func(n ast.Node) bool {
					if rs, ok := n.(*ast.RangeStmt); ok && rs.Value != nil && varOf(f, rs.Value) == v {
						found = rs
					}
					return true
				})
				if found != nil {
					return found
				}
				as := assignsToVar(f, v)
				if len(as) != 1 || as[0].RHS == nil {
					return nil
				}
				v = varOf(f, as[0].RHS)
			}
			return nil
		}
		fullBranchList := func(rs *ast.RangeStmt) bool {
			ix, ok := ast.Unparen(rs.X).(*ast.IndexExpr) // a SliceExpr (sub-range) is not the full list
			if !ok {
				return false
			}
			_, pth := fieldPath(f, ix.X)
			return len(pth) >= 1 && pth[len(pth)-1] == "vecengine.BranchesInfo.BranchIDByCreators"
		}
		for _, t := range tests {
			ok := len(t.args) == 2 && t.args[0] != nil && t.args[1] != nil && t.args[0] != t.args[1]
			if ok {
				r0, r1 := rangeOf(t.args[0]), rangeOf(t.args[1])
				ok = r0 != nil && r1 != nil && r0 != r1 && fullBranchList(r0) && fullBranchList(r1) &&
					((r0.Pos() <= r1.Pos() && r1.End() <= r0.End()) || (r1.Pos() <= r0.Pos() && r0.End() <= r1.End()))
				if ok {
					// both loops range over the branches of the same creator
					k0 := ast.Unparen(r0.X).(*ast.IndexExpr).Index
					k1 := ast.Unparen(r1.X).(*ast.IndexExpr).Index
					ok = varOf(f, k0) != nil && varOf(f, k0) == varOf(f, k1)
				}
			}
			c.Check(ok, "undetected forks are searched over every pair of the creator's branches", "T8 coverage (nested ranges over the same branch list)", t.cond.Pos(),
				"both operands of the overlap test range independently over all branches of the same creator",
				"the overlap test does not cover every pair of the creator's branches (an operand is fixed or ranges over a sub-list): a fork between two side branches is missed, ForklessCause answers true although the ancestry shows a fork by that creator")
		}
		// the test is symmetric: MinSeq(a) <= Seq(b) && MinSeq(b) <= Seq(a)
		for _, t := range tests {
			facts := core.Decompose(t.cond, true)
			n := 0
			for _, ft := range facts {
				cm, ok := core.NormCmp(ft)
				if !ok || cm.R == nil || cm.Op != token.LEQ {
					continue
				}
				l, lok := ast.Unparen(cm.L).(*ast.CallExpr)
				r, rok := ast.Unparen(cm.R).(*ast.CallExpr)
				if lok && rok && methodNamed(calleeName(f, l), "MinSeq") && methodNamed(calleeName(f, r), "Seq") && len(l.Args) == 1 && len(r.Args) == 1 && varOf(f, l.Args[0]) != varOf(f, r.Args[0]) {
					n++
				}
			}
			c.Check(n == 2 && len(facts) == 2, "branches overlap iff each starts no later than the other ends", "T8 DecisionTable (normalised)", t.cond.Pos(), "MinSeq(a) <= Seq(b) && MinSeq(b) <= Seq(a)", "the overlap test is not the symmetric interval-overlap test")
		}
	})
}
