package rules

import (
	"go/ast"
	"go/token"

	"lachk/core"
)

// c05ForkPairs: forks that no parent has seen are found by testing whether two branches of one
// creator overlap in the event's merged view. The test has to range over every pair of the creator's
// branches: a fork of a fork (or a three-way fork) shows up only between two side branches, so a scan
// that pairs every branch with one fixed branch misses it, and ForklessCause then answers 'true' for
// an event whose ancestry shows a fork by that creator.
//
// The overlap test is looked for in fillEventVectors and in every vecengine function it reaches through
// static calls (the pair scan may live in a helper); the two loops are recognised as iterations
// (range or counted, element taken by value variable, by index, or through single-definition locals).
func c05ForkPairs(c *core.Ctx) {
	c.Clause("C05.forkpairs", func() {
		root := c.Fn("vecengine.Engine.fillEventVectors")
		// overlap tests: branch conditions containing both MinSeq(..) and Seq(..) calls on the vector
		type test struct {
			f    *core.FuncInfo
			cond ast.Expr
			args []ast.Expr
		}
		var tests []test
		for _, f := range core.ReachableFuncs(c.P, []*core.FuncInfo{root}, false) {
			if core.RelPkg(f.Pkg.PkgPath) != "vecengine" {
				continue
			}
			for _, b := range f.CFG().Blocks {
				cond := f.BranchCond(b)
				if cond == nil || !b.Live {
					continue
				}
				var mins []*ast.CallExpr
				hasSeq := false
				ast.Inspect(cond, func(n ast.Node) bool {
					if call, ok := n.(*ast.CallExpr); ok {
						nm := calleeName(f, call)
						if methodNamed(nm, "MinSeq") {
							mins = append(mins, call)
						}
						if methodNamed(nm, "Seq") {
							hasSeq = true
						}
					}
					return true
				})
				if len(mins) == 0 || !hasSeq {
					continue
				}
				t := test{f: f, cond: cond}
				for _, m := range mins {
					if len(m.Args) == 1 {
						t.args = append(t.args, m.Args[0])
					}
				}
				tests = append(tests, t)
			}
		}
		c.ExpectAtLeast("branch-overlap tests in fillEventVectors", len(tests), 1)

		// the iteration (loop over a collection) whose current element the expression denotes
		iterOf := func(f *core.FuncInfo, x ast.Expr) *core.Iteration {
			resolve := func(e ast.Expr) ast.Expr { return resolveLocal(f, e) }
			var found *core.Iteration
			f.InspectOwn(func(n ast.Node) bool {
				switch n.(type) {
				case *ast.ForStmt, *ast.RangeStmt:
					if !(n.Pos() <= x.Pos() && x.End() <= n.End()) {
						return true
					}
					if it, ok := core.IterationOf(f, n.(ast.Stmt), resolve); ok && it.IsElem(x, resolve) {
						found = it // innermost enclosing iteration that yields x
					}
				}
				return true
			})
			return found
		}
		// the collection is the full list of one creator's branches: BranchIDByCreators[k] (not a sub-slice)
		creatorOf := func(f *core.FuncInfo, it *core.Iteration) (ast.Expr, bool) {
			if it.Coll == nil || !it.FromZero {
				return nil, false
			}
			ix, ok := ast.Unparen(resolveLocal(f, it.Coll)).(*ast.IndexExpr)
			if !ok {
				return nil, false
			}
			_, pth := fieldPath(f, ix.X)
			if len(pth) == 0 || pth[len(pth)-1] != "vecengine.BranchesInfo.BranchIDByCreators" {
				return nil, false
			}
			return ix.Index, true
		}
		sameIndex := func(f *core.FuncInfo, a, b ast.Expr) bool {
			va, vb := canonVar(f, varOf(f, core.StripConv(f.Info(), a))), canonVar(f, varOf(f, core.StripConv(f.Info(), b)))
			return va != nil && va == vb
		}
		for _, t := range tests {
			f := t.f
			ok := len(t.args) == 2 && canonVar(f, varOf(f, t.args[0])) != canonVar(f, varOf(f, t.args[1]))
			if ok {
				i0, i1 := iterOf(f, t.args[0]), iterOf(f, t.args[1])
				ok = i0 != nil && i1 != nil && i0.Stmt != i1.Stmt &&
					((i0.Stmt.Pos() <= i1.Stmt.Pos() && i1.Stmt.End() <= i0.Stmt.End()) || (i1.Stmt.Pos() <= i0.Stmt.Pos() && i0.Stmt.End() <= i1.Stmt.End()))
				if ok {
					// both loops range over all branches of the same creator
					k0, full0 := creatorOf(f, i0)
					k1, full1 := creatorOf(f, i1)
					ok = full0 && full1 && sameIndex(f, k0, k1)
				}
			}
			c.Check(ok, "undetected forks are searched over every pair of the creator's branches", "T8 coverage (nested iterations over the same branch list)", t.cond.Pos(),
				"both operands of the overlap test range independently over all branches of the same creator",
				"the overlap test in "+short(f.Name)+" does not cover every pair of the creator's branches (an operand is fixed or ranges over a sub-list): a fork between two side branches is missed, ForklessCause answers true although the ancestry shows a fork by that creator")
		}
		// the test is symmetric: MinSeq(a) <= Seq(b) && MinSeq(b) <= Seq(a)
		for _, t := range tests {
			f := t.f
			facts := core.Decompose(t.cond, true)
			n := 0
			for _, ft := range facts {
				cm, ok := core.NormCmp(ft)
				if !ok || cm.R == nil || cm.Op != token.LEQ {
					continue
				}
				l, lok := ast.Unparen(cm.L).(*ast.CallExpr)
				r, rok := ast.Unparen(cm.R).(*ast.CallExpr)
				if lok && rok && methodNamed(calleeName(f, l), "MinSeq") && methodNamed(calleeName(f, r), "Seq") && len(l.Args) == 1 && len(r.Args) == 1 && varOf(f, l.Args[0]) != varOf(f, r.Args[0]) {
					n++
				}
			}
			c.Check(n == 2 && len(facts) == 2, "branches overlap iff each starts no later than the other ends", "T8 DecisionTable (normalised)", t.cond.Pos(), "MinSeq(a) <= Seq(b) && MinSeq(b) <= Seq(a)", "the overlap test is not the symmetric interval-overlap test")
		}
	})
}
