package rules

import (
	"go/ast"
	"go/token"
	"go/types"
	"math/big"

	"lachk/core"
)

// c05ForkPairs: forks that no parent has seen are found by testing whether two branches of one
// creator overlap in the event's merged view. The test has to range over every pair of the creator's
// branches: a fork of a fork (or a three-way fork) shows up only between two side branches, so a scan
// that pairs every branch with one fixed branch misses it, and ForklessCause then answers 'true' for
// an event whose ancestry shows a fork by that creator.
//
// The overlap test is looked for in the inlined view of fillEventVectors (c05Frames: its own body and
// every vecengine function it reaches through static calls, one activation per call site). The test
// may be a branch condition, the result of a named predicate helper or a stored boolean; its operands
// are read back through the parameter bindings of the helpers to the loops that produce them, wherever
// those loops live (both in one function, or the outer one in a caller of the function holding the
// inner one). The two loops are recognised as iterations (range or counted, element taken by value
// variable, by index, or through single-definition locals).
func c05ForkPairs(c *core.Ctx) {
	c.Clause("C05.forkpairs", func() {
		root := c.Fn("vecengine.Engine.fillEventVectors")
		inEngine := func(g *core.FuncInfo) bool { return core.RelPkg(g.Pkg.PkgPath) == "vecengine" }
		// overlap tests: outermost boolean expressions containing both MinSeq(..) and Seq(..) calls on the vector
		type test struct {
			fr   *c05Frame
			cond ast.Expr
			args []ast.Expr
		}
		var tests []test
		for _, fr := range c05Frames(root, 4, inEngine) {
			f := fr.F
			for _, cond := range c05LogicalExprs(f) {
				var mins []*ast.CallExpr
				hasSeq := false
				ast.Inspect(cond, func(n ast.Node) bool {
					if call, ok := n.(*ast.CallExpr); ok {
						nm := calleeName(f, call)
						if methodNamed(nm, "MinSeq") {
							mins = append(mins, call)
						}
						if methodNamed(nm, "Seq") {
							hasSeq = true
						}
					}
					return true
				})
				if len(mins) == 0 || !hasSeq {
					continue
				}
				t := test{fr: fr, cond: cond}
				for _, m := range mins {
					if len(m.Args) == 1 {
						t.args = append(t.args, m.Args[0])
					}
				}
				tests = append(tests, t)
			}
		}
		c.ExpectAtLeast("branch-overlap tests in fillEventVectors", len(tests), 1)

		// the iteration (loop over a collection) whose current element the operand denotes, with its frame
		type loopAt struct {
			fr *c05Frame
			it *core.Iteration
		}
		iterOf := func(fr *c05Frame, arg ast.Expr) *loopAt {
			fr, x := c05Resolve(fr, arg)
			f := fr.F
			resolve := func(e ast.Expr) ast.Expr { return resolveLocal(f, e) }
			var found *core.Iteration
			f.InspectOwn(func(n ast.Node) bool {
				switch n.(type) {
				case *ast.ForStmt, *ast.RangeStmt:
					if !(n.Pos() <= x.Pos() && x.End() <= n.End()) {
						return true
					}
					if it, ok := core.IterationOf(f, n.(ast.Stmt), resolve); ok && it.IsElem(x, resolve) {
						found = it // innermost enclosing iteration that yields x
					}
				}
				return true
			})
			if found == nil {
				return nil
			}
			return &loopAt{fr, found}
		}
		// the collection is the full list of one creator's branches: BranchIDByCreators[k] (not a sub-slice);
		// k is returned as the variable (and its frame) that selects the creator
		// the overlap test is symmetric (checked below), so the inner loop may also start right after the
		// outer loop's index: unordered pairs, `for i := 0; …; for j := i + 1; …` over the same list
		triangular := func(inner, outer *loopAt) bool {
			fs, isFor := inner.it.Stmt.(*ast.ForStmt)
			if !isFor || inner.fr != outer.fr || !inner.it.Counted || !outer.it.Counted || !outer.it.FromZero || outer.it.Index == nil {
				return false
			}
			as, isAs := fs.Init.(*ast.AssignStmt)
			if !isAs || len(as.Rhs) != 1 {
				return false
			}
			g := inner.fr.F
			lin := core.Linearize(g.Info(), as.Rhs[0], func(e ast.Expr) string {
				if v := varOf(g, resolveLocal(g, e)); v != nil && v == outer.it.Index {
					return "i"
				}
				return ""
			})
			one := big.NewInt(1)
			return len(lin.Coef) == 1 && lin.Coef["i"] != nil && lin.Coef["i"].Cmp(one) == 0 && lin.C.Cmp(one) == 0
		}
		creatorOf := func(l *loopAt, tri bool) (*c05Frame, *types.Var, bool) {
			it := l.it
			if it.Coll == nil || !(it.FromZero || tri) {
				return nil, nil, false
			}
			cfr, coll := c05Resolve(l.fr, it.Coll)
			ix, ok := ast.Unparen(coll).(*ast.IndexExpr)
			if !ok {
				return nil, nil, false
			}
			_, pth := fieldPath(cfr.F, ix.X)
			if len(pth) == 0 || pth[len(pth)-1] != "vecengine.BranchesInfo.BranchIDByCreators" {
				return nil, nil, false
			}
			kfr, kv := c05VarIn(cfr, ix.Index)
			return kfr, kv, kv != nil
		}
		// nested: the inner loop runs completely inside each iteration of the outer one
		within := func(outer, inner *loopAt) bool {
			if outer.fr == inner.fr {
				return outer.it.Stmt != inner.it.Stmt && outer.it.Body != nil && outer.it.Body.Pos() <= inner.it.Stmt.Pos() && inner.it.Stmt.End() <= outer.it.Body.End()
			}
			// the inner loop lives in a helper: the call on the chain towards it is made in the outer loop's body
			for fr := inner.fr; fr.Up != nil; fr = fr.Up {
				if fr.Up == outer.fr {
					return outer.it.Body != nil && outer.it.Body.Pos() <= fr.At.Call.Pos() && fr.At.Call.End() <= outer.it.Body.End()
				}
			}
			return false
		}
		for _, t := range tests {
			f := t.fr.F
			ok := len(t.args) == 2
			if ok {
				fr0, v0 := c05VarIn(t.fr, t.args[0])
				fr1, v1 := c05VarIn(t.fr, t.args[1])
				ok = !(v0 != nil && fr0 == fr1 && v0 == v1) // the two operands are different branches
			}
			if ok {
				l0, l1 := iterOf(t.fr, t.args[0]), iterOf(t.fr, t.args[1])
				ok = l0 != nil && l1 != nil && (within(l0, l1) || within(l1, l0))
				if ok {
					// both loops range over all branches of the same creator
					kf0, k0, full0 := creatorOf(l0, within(l1, l0) && triangular(l0, l1))
					kf1, k1, full1 := creatorOf(l1, within(l0, l1) && triangular(l1, l0))
					ok = full0 && full1 && kf0 == kf1 && k0 == k1
				}
			}
			where := short(f.Name)
			for fr := t.fr; fr.Up != nil; fr = fr.Up {
				where += " called from " + short(fr.Up.F.Name) + " (" + c.P.Pos(fr.At.Pos()) + ")"
			}
			c.Check(ok, "undetected forks are searched over every pair of the creator's branches", "T8 coverage (nested iterations over the same branch list, inlined view)", t.cond.Pos(),
				"both operands of the overlap test range independently over all branches of the same creator",
				"the overlap test in "+where+" does not cover every pair of the creator's branches (an operand is fixed or ranges over a sub-list): a fork between two side branches is missed, ForklessCause answers true although the ancestry shows a fork by that creator")
			if !ok {
				continue
			}
			// … and the scan really visits every pair: each of the two iterations may be left before its
			// list is exhausted (break, goto, labelled continue, return) only on a path that has seen the
			// overlap test succeed. A pair that is merely skipped has to go on with the next one.
			l0, l1 := iterOf(t.fr, t.args[0]), iterOf(t.fr, t.args[1])
			okExit, posExit, whyExit := true, t.cond.Pos(), ""
			for _, l := range []*loopAt{l0, l1} {
				if !okExit {
					break
				}
				img, okImg := c05TestImage(t.fr, t.cond, l.fr)
				if img == nil || !okImg {
					okExit, posExit = false, l.it.Stmt.Pos()
					whyExit = "the result of the overlap test cannot be related to the exits of the iteration in " + short(l.fr.F.Name) + " (a helper on the way returns something other than the test)"
					continue
				}
				if path, early := c05EarlyExit(l.it, img); early {
					okExit, posExit = false, posOf(path[len(path)-1])
					if !posExit.IsValid() {
						posExit = l.it.Stmt.Pos()
					}
					whyExit = "the iteration over the creator's branches in " + short(l.fr.F.Name) + " can be left before all pairs were tested although no overlap was found (" + l.fr.F.DescribePath(path) + ")"
				}
			}
			c.Check(okExit, "the pair scan ends early only when an overlap was found", "T8 coverage (CFG: exits of the two iterations, guarded by the test)", posExit,
				"every exit of either iteration other than exhaustion lies behind the true edge of the overlap test",
				whyExit+": the pairs after that point are never compared, so a fork between two later branches of the creator is missed (which pairs come later depends on the order in which the branches were created, i.e. on the indexing order), and ForklessCause answers true although the ancestry shows a fork by that creator")
		}
		// the test is symmetric: MinSeq(a) <= Seq(b) && MinSeq(b) <= Seq(a)
		for _, t := range tests {
			f := t.fr.F
			facts := core.Decompose(t.cond, true)
			n := 0
			for _, ft := range facts {
				cm, ok := core.NormCmp(ft)
				if !ok || cm.R == nil || cm.Op != token.LEQ {
					continue
				}
				l, lok := ast.Unparen(cm.L).(*ast.CallExpr)
				r, rok := ast.Unparen(cm.R).(*ast.CallExpr)
				if lok && rok && methodNamed(calleeName(f, l), "MinSeq") && methodNamed(calleeName(f, r), "Seq") && len(l.Args) == 1 && len(r.Args) == 1 && varOf(f, l.Args[0]) != varOf(f, r.Args[0]) {
					n++
				}
			}
			c.Check(n == 2 && len(facts) == 2, "branches overlap iff each starts no later than the other ends", "T8 DecisionTable (normalised)", t.cond.Pos(), "MinSeq(a) <= Seq(b) && MinSeq(b) <= Seq(a)", "the overlap test is not the symmetric interval-overlap test")
		}
	})
}

// c05LogicalExprs lists the outermost logical expressions (comparisons and their combinations with
// &&, ||, !) in f's own body: branch conditions, returned predicates, stored booleans and arguments
// alike. An expression nested in another logical expression is not listed separately.
func c05LogicalExprs(f *core.FuncInfo) []ast.Expr {
	var out []ast.Expr
	isLogical := func(n ast.Node) bool {
		switch x := n.(type) {
		case *ast.BinaryExpr:
			switch x.Op {
			case token.LAND, token.LOR, token.EQL, token.NEQ, token.LSS, token.LEQ, token.GTR, token.GEQ:
				return true
			}
		case *ast.UnaryExpr:
			return x.Op == token.NOT
		}
		return false
	}
	var covered []ast.Node
	f.InspectOwn(func(n ast.Node) bool {
		if n == nil || !isLogical(n) {
			return true
		}
		for _, c := range covered {
			if c.Pos() <= n.Pos() && n.End() <= c.End() {
				return true
			}
		}
		covered = append(covered, n)
		out = append(out, n.(ast.Expr))
		return true
	})
	return out
}
