package rules

import (
	"go/ast"
	"go/token"
	"go/types"

	"lachk/core"
)

// Values computed by a small side-effect-free helper: `n := d.missing(); if n == 0 { return }` decides
// the same as the inlined comparison when every non-zero result of the helper is returned on an edge
// where the comparison holds. The helpers below decide facts about such a result by a case split over
// the helper's return statements (guards and linear forms of the returned expressions; nothing is
// evaluated). (Candidate for promotion to core.)

// c18WindowFields are the fields the window arithmetic of the peer leecher reads.
var c18WindowFields = map[string]bool{plT + ".totalRequested": true, plT + ".totalProcessed": true, plCfgP: true}

// c18CalleeOfExpr returns the analysed function the call expression invokes directly (nil for func
// values, interface methods, builtins, recursion).
func c18CalleeOfExpr(f *core.FuncInfo, call *ast.CallExpr) *core.FuncInfo {
	obj, _ := f.P.ResolveCallee(f.Info(), call)
	fn, ok := obj.(*types.Func)
	if !ok {
		return nil
	}
	h := f.P.FuncOf(fn)
	if h == nil || h == f || h.Body == nil {
		return nil
	}
	return h
}

// c18CallResult: e, read at `at`, is (a current single-definition local holding) the result of a call
// of a function that does not write the given fields; no write of those fields lies between the call
// and `at`. Returns the callee.
func c18CallResult(f *core.FuncInfo, e ast.Expr, at core.Point, fields map[string]bool) *core.FuncInfo {
	e = ast.Unparen(core.StripConv(f.Info(), e))
	for depth := 0; depth < 3; depth++ {
		id, ok := e.(*ast.Ident)
		if !ok {
			break
		}
		def, cur := c18CurrentDefX(f, id, at, fields)
		if !cur {
			return nil
		}
		e = ast.Unparen(core.StripConv(f.Info(), def))
	}
	call, ok := e.(*ast.CallExpr)
	if !ok {
		return nil
	}
	h := c18CalleeOfExpr(f, call)
	if h == nil || c18WritesField(h, fields, 2, map[*core.FuncInfo]bool{}) {
		return nil
	}
	return h
}

// c18Returns lists the return points of h with their single result expression (ok=false when some
// return has another shape: bare return of named results, several results).
func c18Returns(h *core.FuncInfo) (pts []core.Point, exprs []ast.Expr, ok bool) {
	for _, rp := range h.ReturnPoints() {
		rs, isRet := rp.Node().(*ast.ReturnStmt)
		if !isRet || len(rs.Results) != 1 {
			return nil, nil, false
		}
		pts = append(pts, rp)
		exprs = append(exprs, rs.Results[0])
	}
	return pts, exprs, len(pts) > 0
}

// c18ResultImplies: the fact says `v != 0` or `v >= k` (k >= 1) about a local v holding the current
// result of a helper, and every return of the helper either yields the constant 0 (excluded by the
// fact), or lies on an edge of the helper where a fact accepted by direct(helper) holds, or — for
// v >= 1 — yields the linear form `amount` (whose positivity is the wanted comparison).
func c18ResultImplies(f *core.FuncInfo, ft core.Fact, direct func(*core.FuncInfo) func(core.Fact) bool, namerOf func(*core.FuncInfo) core.AtomNamer, amount map[string]int64) bool {
	lc, ok := core.NormLinCmp(f.Info(), ft, nil)
	if !ok || len(lc.Form.Coef) != 1 {
		return false
	}
	var atom ast.Expr
	var coef int64
	for k, c := range lc.Form.Coef {
		if !c.IsInt64() {
			return false
		}
		atom, coef = lc.Form.Atom[k], c.Int64()
	}
	if atom == nil || !lc.Form.C.IsInt64() {
		return false
	}
	k := lc.Form.C.Int64()
	positive := false
	switch {
	case lc.Op == "!=" && k == 0 && (coef == 1 || coef == -1):
	case lc.Op == "<=" && coef == -1 && k >= 1: // k - v <= 0
		positive = true
	default:
		return false
	}
	at, okPt := f.PointOf(ft.Expr)
	if !okPt {
		return false
	}
	h := c18CallResult(f, atom, at, c18WindowFields)
	if h == nil {
		return false
	}
	pts, exprs, ok := c18Returns(h)
	if !ok {
		return false
	}
	nonZero := 0
	for i, rp := range pts {
		if core.IsConstInt(h.Info(), exprs[i], 0) {
			continue
		}
		nonZero++
		if g, _ := h.GuardedBy(rp, direct(h)); g {
			continue
		}
		if positive && c18LinIs(c18LinAt(h, exprs[i], namerOf(h), rp), amount) {
			continue
		}
		return false
	}
	return nonZero > 0
}

// c18AmountIs: e, evaluated at `at` in f, equals the linear form `amount` — directly (locals looked
// through), or as the result of a helper that does not write the window fields and whose every return
// yields either that form or the constant 0 (requesting nothing and advancing the counter by nothing
// keeps the bookkeeping exact as well).
func c18AmountIs(f *core.FuncInfo, e ast.Expr, at core.Point, namerOf func(*core.FuncInfo) core.AtomNamer, amount map[string]int64) bool {
	if c18LinIs(c18LinAt(f, e, namerOf(f), at), amount) {
		return true
	}
	call, ok := ast.Unparen(core.StripConv(f.Info(), e)).(*ast.CallExpr)
	if !ok {
		return false
	}
	h := c18CalleeOfExpr(f, call)
	if h == nil || c18WritesField(h, c18WindowFields, 2, map[*core.FuncInfo]bool{}) {
		return false
	}
	pts, exprs, ok := c18Returns(h)
	if !ok {
		return false
	}
	n := 0
	for i, rp := range pts {
		if core.IsConstInt(h.Info(), exprs[i], 0) {
			continue
		}
		if !c18LinIs(c18LinAt(h, exprs[i], namerOf(h), rp), amount) {
			return false
		}
		n++
	}
	return n > 0
}

// c18IsCallback: the call expression invokes the named callback field: directly, or through a
// func-typed parameter of the frame's function to which every (not detached) call of that function
// passes the callback field.
func c18IsCallback(fr *c17Frame, e ast.Expr, name string) bool {
	f := fr.F
	if isCallTo(f, e, name) != nil {
		return true
	}
	call, ok := ast.Unparen(e).(*ast.CallExpr)
	if !ok {
		return false
	}
	i := c18ParamIndex(f, varOf(f, call.Fun))
	if i < 0 || fr.Root || len(fr.Callers) == 0 || len(assignsToVar(f, varOf(f, call.Fun))) > 0 {
		return false
	}
	for _, cl := range fr.Callers {
		if cl.Detached || i >= len(cl.Site.Call.Args) || fieldNameOf(cl.Parent.F, cl.Site.Call.Args[i]) != name {
			return false
		}
	}
	return true
}

// c18CallbackFact is c18CallFact for a frame: the callback may have been handed in as a parameter.
func c18CallbackFact(sc *c17Scope, name string, truth bool) func(*core.FuncInfo) func(core.Fact) bool {
	return func(g *core.FuncInfo) func(core.Fact) bool {
		fr := sc.FrameOf(g)
		return func(ft core.Fact) bool {
			e, t, ok := c17BoolFact(g.Info(), ft)
			if !ok || t != truth {
				return false
			}
			if fr == nil {
				return isCallTo(g, e, name) != nil
			}
			return c18IsCallback(fr, e, name)
		}
	}
}

// c18FollowedBy is c17Scope.FollowedBy where a caller's statement that contains the call of the helper
// counts itself (x.f = helper(): the store happens when the helper has returned).
func c18FollowedBy(sc *c17Scope, fr *c17Frame, from core.Point, via func(*c17Frame) []core.Point, busy map[*c17Frame]bool, depth int) (bool, string) {
	f := fr.F
	var path []core.Point
	found := false
	if _, isRet := from.Node().(*ast.ReturnStmt); isRet {
		path, found = []core.Point{from}, true
	} else {
		path, found = core.PathQuery{F: f, From: from, FromAfter: true, Avoid: core.PointSet(via(fr)...), TargetBlock: fr.End, TargetExit: true}.Find()
	}
	if !found {
		return true, ""
	}
	here := "in " + short(f.Name) + ": " + f.DescribePath(path)
	if fr.Root || len(fr.Callers) == 0 || depth <= 0 || busy[fr] {
		return false, here
	}
	busy[fr] = true
	defer delete(busy, fr)
	for _, cl := range fr.Callers {
		if cl.Detached {
			return false, here
		}
		if core.PointSet(via(cl.Parent)...)(cl.Site.Pt) {
			continue
		}
		if ok, why := c18FollowedBy(sc, cl.Parent, cl.Site.Pt, via, busy, depth-1); !ok {
			return false, here + "; then " + why
		}
	}
	return true, ""
}

// c18TupleDef returns the call and the result index that define the local v, when v has exactly one
// definition and that is `…, v, … := call(…)` or `v := call(…)`.
func c18TupleDef(f *core.FuncInfo, v *types.Var) (*ast.CallExpr, int, core.Point) {
	as := assignsToVar(f, v)
	if v == nil || len(as) != 1 || as[0].RHS == nil {
		return nil, 0, core.Point{}
	}
	for _, l := range allLits(f) {
		if len(assignsToVar(l, v)) > 0 {
			return nil, 0, core.Point{}
		}
	}
	st, ok := as[0].Stmt.(*ast.AssignStmt)
	if !ok || len(st.Rhs) != 1 || st.Tok != token.DEFINE && st.Tok != token.ASSIGN {
		return nil, 0, core.Point{}
	}
	call, ok := ast.Unparen(st.Rhs[0]).(*ast.CallExpr)
	if !ok {
		return nil, 0, core.Point{}
	}
	for i, l := range st.Lhs {
		if l == as[0].LHS {
			return call, i, as[0].Pt
		}
	}
	return nil, 0, core.Point{}
}

// c18CountsCallbackTrue decides that result `idx` of the helper frame hf is a count of the chunks for
// which the named callback answered true: every return yields one local (or named result) counter,
// which starts at zero and is changed only by increments by one, each lying on the callback's true
// edge, re-tested on every way round.
func c18CountsCallbackTrue(sc *c17Scope, hf *c17Frame, idx int, name string) bool {
	h := hf.F
	var cnt *types.Var
	rps := h.ReturnPoints()
	if len(rps) == 0 {
		return false
	}
	named := func() *types.Var {
		if h.Type.Results == nil {
			return nil
		}
		k := 0
		for _, fl := range h.Type.Results.List {
			for _, nm := range fl.Names {
				if k == idx {
					v, _ := h.Info().Defs[nm].(*types.Var)
					return v
				}
				k++
			}
		}
		return nil
	}
	for _, rp := range rps {
		rs, ok := rp.Node().(*ast.ReturnStmt)
		if !ok {
			return false
		}
		var v *types.Var
		switch {
		case len(rs.Results) == 0:
			v = named()
		case idx < len(rs.Results):
			v = varOf(h, rs.Results[idx])
		}
		if v == nil || cnt != nil && v != cnt {
			return false
		}
		cnt = v
	}
	if !(h.Pos() <= cnt.Pos() && cnt.Pos() < h.Body.End()) {
		return false
	}
	for _, l := range allLits(h) {
		if len(assignsToVar(l, cnt)) > 0 {
			return false
		}
	}
	isNamed := cnt == named()
	incs, inits := 0, 0
	for _, a := range assignsToVar(h, cnt) {
		byOne := a.Tok == token.INC
		if a.RHS != nil {
			nm := func(e ast.Expr) string {
				if varOf(h, e) == cnt {
					return "cnt"
				}
				return ""
			}
			l := core.Linearize(h.Info(), a.RHS, nm)
			switch a.Tok {
			case token.ADD_ASSIGN:
				byOne = len(l.Coef) == 0 && l.C.IsInt64() && l.C.Int64() == 1
			case token.ASSIGN, token.DEFINE:
				if len(l.Coef) == 0 && l.C.Sign() == 0 {
					// (re)set to zero: only as the first thing that happens to the counter
					if h.CanReach(a.Pt, a.Pt) {
						return false
					}
					inits++
					continue
				}
				byOne = a.Tok == token.ASSIGN && len(l.Coef) == 1 && coefIs(l, "cnt", 1) && l.C.IsInt64() && l.C.Int64() == 1
			}
		} else if _, isSpec := a.Stmt.(*ast.ValueSpec); isSpec {
			inits++ // var cnt int
			continue
		}
		if !byOne {
			return false
		}
		incs++
		if ok, _ := sc.Guarded(hf, a.Pt, c18CallbackFact(sc, name, true), true); !ok {
			return false
		}
	}
	return incs > 0 && (isNamed || inits > 0)
}
