package rules

import (
	"go/ast"
	"go/token"
	"go/types"

	"lachk/core"
)

const bufT = "gossip/dagordering.EventsBuffer"

func init() {
	register("C14", "other", "T17 Typestate (released flag), T2/T4 Dominates/GuardedBy, T5 ExactlyOneOf, T7 Pairing, T3 PostDominates, T1 LockSet",
		"Decides the structural conditions of the ordering buffer's contract on the inlined view of pushEvent / PushEvent / spillIncompletes (helpers of the package expanded, so the facts do not depend on how the code is cut into functions): callback.Process is reachable only for an event whose parents were all found and whose Check passed, and only for an event that cannot already be released (fresh allocation, or a guard on its released flag / buffer membership taken after the last point where other events may have been processed — the recheck recursion over a stale snapshot is the case tests never reach); released is written only by releaseEvent, which reports only on the not-yet-released edge; every removal from the buffer is paired with releaseEvent of that event and every push ends in exactly one of buffered / released; the spill loop runs after every push and exits only within both limits; PushEvent and Clear hold the mutex throughout. Of the completeness part (every event of a parents-closed set is eventually processed) one necessary condition is decided: the recheck iteration passes over a buffered event without pushing it again only when that event is released or after its whole parents list was compared with the ID of the event just connected; liveness beyond that is not decided.",
		[]string{"application callbacks are opaque", "wlru.Cache is internally synchronised (C28/C29)"},
		runC14)
}

func runC14(c *core.Ctx) {
	p := c.P
	relF := "gossip/dagordering.event.released"
	incF := bufT + ".incompletes"
	cbProcess := "gossip/dagordering.Callback.Process"
	cbReleased := "gossip/dagordering.Callback.Released"
	cbCheck := "gossip/dagordering.Callback.Check"
	cbGet := "gossip/dagordering.Callback.Get"
	pushName, relName, spillName := bufT+".pushEvent", bufT+".releaseEvent", bufT+".spillIncompletes"

	// every declared function and function literal of the package
	allFuncs := func() [][2]*core.FuncInfo {
		var out [][2]*core.FuncInfo
		for _, f := range p.FuncsInPkg("gossip/dagordering") {
			out = append(out, [2]*core.FuncInfo{f, f})
			for _, l := range allLits(f) {
				out = append(out, [2]*core.FuncInfo{f, l})
			}
		}
		return out
	}
	onIncompletes := func(n *c14Node, names ...string) bool {
		for _, nm := range names {
			if n.CS.Name == nm {
				return n.recvField() == incF
			}
		}
		return false
	}

	// The function that marks an event released is located by what it does: it is the declared function
	// of the package that writes event.released. So it may be renamed, become a method of the event, or
	// receive the Released callback as an argument instead of reading it from the buffer.
	var relWriters []*core.FuncInfo
	for _, f := range p.FuncsInPkg("gossip/dagordering") {
		if len(assignsToField(f, relF)) > 0 {
			relWriters = append(relWriters, f)
		}
	}
	var relFn *core.FuncInfo
	for _, w := range relWriters {
		if w.Name == relName {
			relFn = w
		}
	}
	if relFn == nil && len(relWriters) > 0 {
		relFn = relWriters[0]
	}
	if relFn != nil {
		relName = relFn.Name
	}
	// function-typed parameters of the release function to which every call in the package passes the
	// callback.Released field
	relCbParams := func(rel *core.FuncInfo) map[*types.Var]bool {
		out := map[*types.Var]bool{}
		sig, _ := rel.Obj.Type().(*types.Signature)
		if sig == nil {
			return out
		}
		for i := 0; i < sig.Params().Len(); i++ {
			pv := rel.Param(i)
			if pv == nil {
				continue
			}
			if _, isFn := pv.Type().Underlying().(*types.Signature); !isFn || len(assignsToVar(rel, pv)) > 0 {
				continue
			}
			n, ok := 0, true
			for _, fg := range allFuncs() {
				for _, cs := range fg[1].CallsTo(rel.Name) {
					n++
					if cs.InGo || i >= len(cs.Call.Args) || len(cs.Call.Args) != sig.Params().Len() || fieldNameOf(fg[1], cs.Call.Args[i]) != cbReleased {
						ok = false
					}
				}
			}
			if ok && n > 0 {
				out[pv] = true
			}
		}
		return out
	}

	c.Clause("C14.released", func() {
		c.Fld(relF)
		c.Need(relFn != nil && relFn.Obj != nil, "a declared function of the package sets event.released")
		rel := relFn
		// T6: released is written only in the release function
		n := 0
		for _, f := range p.FuncsInPkg("gossip/dagordering") {
			for _, a := range assignsToField(f, relF) {
				n++
				c.Check(f == rel, "write of released in "+short(f.Name), "T6 WhoMayWrite", a.Stmt.Pos(), "released is set by one function ("+short(rel.Name)+") only", "released is written outside "+short(rel.Name))
			}
			for _, l := range allLits(f) {
				for _, a := range assignsToField(l, relF) {
					n++
					c.Fail("write of released in "+short(l.Name), "T6 WhoMayWrite", a.Stmt.Pos(), "released is written in a function literal")
				}
			}
		}
		c.ExpectAtLeast("writes of event.released", n, 1)
		// the event whose flag the function sets: the root of the assignment target
		var ev *types.Var
		for _, a := range assignsToField(rel, relF) {
			root, path := fieldPath(rel, a.LHS)
			if v := varOf(rel, root); len(path) == 1 && v != nil && ev == nil {
				ev = v
			}
		}
		c.Need(ev != nil && (ev == rel.Recv() || len(assignsToVar(rel, ev)) == 0), "the release function sets the flag of its receiver or of a parameter")
		isNotReleased := func(f *core.FuncInfo, v *types.Var) func(core.Fact) bool {
			return func(ft core.Fact) bool {
				cm, ok := core.NormCmp(ft)
				if !ok || cm.R != nil {
					return false
				}
				root, path := fieldPath(f, cm.L)
				return cm.Op == token.NEQ && len(path) == 1 && path[0] == relF && varOf(f, root) == v
			}
		}
		cbParams := relCbParams(rel)
		var calls []*core.CallSite
		viaParam := map[*core.CallSite]*types.Var{}
		for _, cs := range rel.Calls() {
			if cs.Name == cbReleased {
				calls = append(calls, cs)
			} else if pv, isVar := cs.Callee.(*types.Var); isVar && cbParams[pv] {
				calls = append(calls, cs)
				viaParam[cs] = pv
			}
		}
		c.ExpectAtLeast("Released callback sites in releaseEvent", len(calls), 1)
		for _, cs := range calls {
			ok, wit := rel.GuardedBy(cs.Pt, isNotReleased(rel, ev))
			c.Check(ok, "Released reported only when not yet released", "T4 GuardedBy", cs.Pos(), "callback.Released is called only on the !e.released edge", "Released can be reported for an already released event: "+rel.DescribePath(wit))
			nilFact := fieldNilFact(rel, cbReleased, false)
			if pv := viaParam[cs]; pv != nil {
				nilFact = varNilFact(rel, pv, false)
			}
			ok2, _ := rel.GuardedBy(cs.Pt, nilFact)
			c.Check(ok2, "Released nil-guarded", "T4 GuardedBy", cs.Pos(), "callback.Released is nil-guarded", "callback.Released may be called when nil")
		}
		// released = true on every path
		var sets []core.Point
		for _, a := range assignsToField(rel, relF) {
			if isIdentNamed(a.RHS, "true") {
				sets = append(sets, a.Pt)
			}
		}
		// The obligation is on the state at the exit, not on the assignment: a path that leaves on the edge
		// where the flag of this event was just read as true (early return for an already released event)
		// owes no second assignment. Every other path from the entry to a (explicit or implicit) return
		// passes `released = true`.
		isReleased := func(ft core.Fact) bool {
			cm, ok := core.NormCmp(ft)
			if !ok || cm.R != nil || cm.Op != token.EQL {
				return false
			}
			root, path := fieldPath(rel, cm.L)
			return len(path) == 1 && path[0] == relF && ev != nil && varOf(rel, root) == ev
		}
		wit, leaves := (core.PathQuery{F: rel, From: rel.Entry(), Target: func(core.Point) bool { return false }, TargetExit: true,
			Avoid: core.PointSet(sets...), AvoidEdge: rel.GuardEdges(isReleased)}).Find()
		c.Check(len(sets) > 0 && !leaves, "releaseEvent sets released on every path", "T2 Dominates", rel.Pos(), "every return of the release function follows released = true or the edge on which the event is already released", "the release function can return without marking the event released: "+rel.DescribePath(wit))
		// no write clears the flag again
		for _, a := range assignsToField(rel, relF) {
			if !isIdentNamed(a.RHS, "true") {
				c.Fail("released is only ever set", "T17 Typestate", a.Stmt.Pos(), "the release function writes a value other than true to released: the exactly-once flag can be cleared")
			}
		}
		// T6: Released callback is invoked nowhere else
		for _, fg := range allFuncs() {
			if f := fg[1]; f != rel && len(f.CallsTo(cbReleased)) > 0 {
				c.Fail("Released called in "+short(f.Name), "T6 WhoMayCall", f.CallsTo(cbReleased)[0].Pos(), "callback.Released is invoked outside "+short(rel.Name)+" (bypasses the exactly-once flag)")
			}
		}
	})

	// notReleased: the fact says that the event `target` is not released: !x.released, or x is still a
	// member of the buffer (incompletes.Contains(x.event.ID()) is true).
	notReleased := func(target c14Val) func(c14Fact) bool {
		return func(ft c14Fact) bool {
			cm, ok := core.NormCmp(ft.Fact)
			if !ok || cm.R != nil {
				return false
			}
			if cm.Op == token.NEQ {
				root, path := ft.Fr.fieldPath(cm.L)
				return len(path) == 1 && path[0] == relF && root.same(target)
			}
			if f2, call := ft.Fr.callTo(cm.L, "utils/wlru.Cache.Contains"); call != nil && len(call.Args) == 1 {
				found := false
				ast.Inspect(call.Args[0], func(n ast.Node) bool {
					if ex, ok := n.(ast.Expr); ok && !found && f2.val(ex).same(target) {
						found = true
					}
					return !found
				})
				return found
			}
			return false
		}
	}

	c.Clause("C14.process-once", func() {
		push := c.Fn(pushName)
		vp := c14NewView(push, 4, nil)
		// T6: Process is called only by pushEvent and by helpers that run only as a part of pushEvent
		priv := vp.private()
		for _, fg := range allFuncs() {
			if sites := fg[1].CallsTo(cbProcess); len(sites) > 0 && !(fg[0] == fg[1] && priv[fg[1]]) {
				c.Fail("Process called in "+short(fg[1].Name), "T6 WhoMayCall", sites[0].Pos(), "callback.Process is invoked outside pushEvent and the helpers that only pushEvent runs: the guards of pushEvent (parents found, Check passed, event not released) do not protect this call")
			}
		}
		procs := vp.callsTo(cbProcess)
		c.ExpectAtLeast("callback.Process sites", len(procs), 1)
		c.Need(vp.reachable(procs...) && vp.reachable(vp.Exit), "callback.Process and the return of pushEvent are reachable in the inlined view")
		e := c14Val{Fr: vp.Root, V: push.Param(0)}
		c.Need(e.V != nil, "pushEvent(e, …)")
		// (A) a guard inside pushEvent on every path to Process
		guardedInside := len(procs) > 0
		for _, pn := range procs {
			if ok, _ := vp.guarded(pn, notReleased(e)); !ok {
				guardedInside = false
			}
		}
		if guardedInside {
			c.Pass("pushEvent guards released before processing", "T17 Typestate", "callback.Process is reachable only on the !e.released edge inside pushEvent")
		}
		// (B) otherwise every call of pushEvent must pass a not-released event
		views := map[*core.FuncInfo]*c14View{}
		inPush := vp.funcs()
		n := 0
		for _, fg := range allFuncs() {
			top, g := fg[0], fg[1]
			for _, cs := range g.CallsTo(pushName) {
				n++
				if guardedInside {
					continue
				}
				construct := "pushEvent call in " + short(top.Name)
				var w *c14View
				if inPush[g] {
					w, construct = vp, "recheck recursion"
				} else if g == top {
					if views[top] == nil {
						views[top] = c14NewView(top, 4, nil)
					}
					w = views[top]
				}
				var insts []*c14Node
				if w != nil {
					insts = w.calls(func(n *c14Node) bool { return n.CS == cs })
				}
				if len(insts) == 0 || len(cs.Call.Args) < 1 {
					c.Undecided(construct, "T17 Typestate", cs.Pos(), "pushEvent is called from a place the inlined view does not cover (a function literal)")
					continue
				}
				ok, fresh, wit := true, true, ""
				for _, in := range insts {
					arg := in.Fr.val(cs.Call.Args[0])
					if arg.V != nil {
						as := assignsToVar(arg.Fr.Fn, arg.V)
						if len(as) == 1 && as[0].RHS != nil && isFreshEvent(arg.Fr.Fn, as[0].RHS, relF) {
							continue
						}
					} else if arg.E != nil && isFreshEvent(arg.Fr.Fn, arg.E, relF) {
						continue
					}
					fresh = false
					// guard in the same iteration: every path from the entry (and from this call back to itself) takes a not-released edge
					match := notReleased(arg)
					o, pth := w.guarded(in, match)
					if o && w.canReach(in, in) {
						o, pth = w.guardedBetween(in, in, match)
					}
					if !o {
						ok, wit = false, w.describe(pth)
					}
				}
				if fresh {
					c.Pass(construct+" passes a fresh event", "T17 Typestate", "the argument is a newly allocated event (released=false) that no other code has seen")
					continue
				}
				c.Check(ok, construct+" passes a not-released event", "T17 Typestate", cs.Pos(),
					"the call is reachable only on the edge where the event is known not to be released",
					"an event taken from a snapshot made before other events were processed is pushed again without checking its released flag or buffer membership: it can be handed to Process after it was processed, failed and reported released ("+wit+")")
			}
		}
		c.ExpectAtLeast("pushEvent call sites", n, 2)
	})

	c.Clause("C14.recheck", func() {
		c14Recheck(c, c.Fn(pushName), pushName, relF)
	})

	c.Clause("C14.parents", func() {
		push := c.Fn(pushName)
		vp := c14NewView(push, 4, nil)
		e := c14Val{Fr: vp.Root, V: push.Param(0)}
		procs := vp.callsTo(cbProcess)
		c.Need(len(procs) >= 1 && vp.reachable(procs...), "pushEvent reaches callback.Process")
		isGet := func(cs *core.CallSite) bool { return cs.Name == cbGet }
		// a variable that holds the result of the parents lookup of e: every definition of it is a call, with
		// e as first argument, of a function of the package that asks callback.Get
		// The lookup reports "all parents found" either by a non-nil list (nil is the sentinel for a missing
		// parent) or by an explicit boolean result: a lookup result is (function, result index).
		lookups := map[c14Lookup]bool{}
		fromLookup := func(wantBool bool) func(fr *c14Frame, x ast.Expr) bool {
			return func(fr *c14Frame, x ast.Expr) bool {
				val := fr.val(x)
				if val.V == nil {
					return false
				}
				as := assignsToVar(val.Fr.Fn, val.V)
				if len(as) == 0 {
					return false
				}
				var found []c14Lookup
				for _, a := range as {
					if a.RHS == nil {
						return false
					}
					call, _ := ast.Unparen(a.RHS).(*ast.CallExpr)
					if call == nil || len(call.Args) < 1 {
						return false
					}
					obj, _ := p.ResolveCallee(val.Fr.Fn.Info(), call)
					fn, _ := obj.(*types.Func)
					g := p.FuncOf(fn)
					if g == nil || (len(g.CallsTo(cbGet)) == 0 && len(g.SitesMay(isGet, 2)) == 0) || !val.Fr.val(call.Args[0]).same(e) {
						return false
					}
					lk := c14Lookup{g, c14TargetIndex(a)}
					if isB, known := lk.isBool(); !known || isB != wantBool {
						return false
					}
					found = append(found, lk)
				}
				for _, lk := range found {
					lookups[lk] = true
				}
				return true
			}
		}
		nonNilList := c14NilFact(fromLookup(false), false)
		foundAll := func(ft c14Fact) bool {
			cm, ok := core.NormCmp(ft.Fact)
			return ok && cm.R == nil && cm.Op == token.EQL && fromLookup(true)(ft.Fr, cm.L)
		}
		complete := func(ft c14Fact) bool { return nonNilList(ft) || foundAll(ft) }
		anyNonNil := c14NilFact(func(fr *c14Frame, x ast.Expr) bool { return true }, false)
		for _, pn := range procs {
			ok, wit := vp.guarded(pn, complete)
			if !ok {
				if o2, _ := vp.guarded(pn, anyNonNil); o2 {
					c.Fail("parents come from the parents lookup", "provenance", pn.pos(), "the value tested before processing is not the result of the lookup of e's parents through callback.Get")
					continue
				}
			}
			c.Check(ok, "processing only with complete parents", "T4 GuardedBy", pn.pos(), "callback.Process is reached only on the edge where the parents list of e (result of the lookup through callback.Get) is non-nil", "callback.Process reachable although a parent is missing (nil parents): "+vp.describe(wit))
		}
		c.ExpectAtLeast("parents lookup functions", len(lookups), 1)
		// the lookup: a nil Get result returns nil
		for lk := range lookups {
			cep, ridx := lk.G, lk.Idx
			// the "parent missing" value of the result: nil for a list, false for a boolean
			isMissing := func(e ast.Expr) bool { return core.IsNil(cep.Info(), e) }
			if isB, _ := lk.isBool(); isB {
				isMissing = func(e ast.Expr) bool { return c14BoolConst(cep.Info(), e) == 2 }
			}
			gets := cep.CallsTo(cbGet)
			c.ExpectAtLeast("callback.Get sites", len(gets), 1)
			for _, g := range gets {
				rv := c14ResultVar(cep, g.Call, 0)
				c.Need(rv != nil, "Get result is stored in a variable")
				// every "all found" return is guarded by rv != nil in the iteration; equivalently: from the Get call,
				// the path continuing the loop / reaching such a return must take the rv != nil edge
				nonNil := returnsWith(cep, ridx, func(e ast.Expr) bool { return !isMissing(e) })
				okAll := len(nonNil) > 0
				for _, rp := range nonNil {
					// single-exit form: a returned variable that was set to nil / false on the way (and not
					// assigned again before the return) is a "parent missing" result
					var nilSets []core.Point
					if res := varOf(cep, rp.Node().(*ast.ReturnStmt).Results[ridx]); res != nil {
						as := assignsToVar(cep, res)
						for _, a := range as {
							if a.RHS == nil || !isMissing(a.RHS) {
								continue
							}
							final := true
							for _, b := range as {
								if b.Pt != a.Pt && cep.CanReach(a.Pt, b.Pt) && cep.CanReach(b.Pt, rp) {
									final = false
								}
							}
							if final {
								nilSets = append(nilSets, a.Pt)
							}
						}
					}
					if _, found := (core.PathQuery{F: cep, From: g.Pt, FromAfter: true, Target: core.PointSet(rp), Avoid: core.PointSet(nilSets...), AvoidEdge: cep.GuardEdges(varNilFact(cep, rv, false))}).Find(); found {
						okAll = false
					}
				}
				c.Check(okAll, "missing parent => nil", "T4 GuardedBy", g.Pos(), "a non-nil parents list (or the explicit all-found result) is returned only if every Get result was non-nil", "the parents lookup can report a complete parents list although a parent was not found")
			}
		}
		// Check before Process: every path to Process passes the Check call or the Check == nil edge, and
		// behind the Check call only the edge on which it returned nil
		chks := vp.callsTo(cbCheck)
		checkNil := vp.edgesWith(c14NilFact(func(fr *c14Frame, x ast.Expr) bool { return fr.fieldOf(x) == cbCheck }, true))
		for _, pn := range procs {
			okC := len(chks) >= 1
			_, skip := vp.find(c14Query{From: []*c14Node{vp.Entry}, Target: c14NodeSet(pn), Avoid: c14NodeSet(chks...), AvoidEdge: checkNil})
			okC = okC && !skip
			for _, ck := range chks {
				ev := c14ResultVar(ck.Fr.Fn, ck.CS.Call, -1)
				if ev == nil {
					okC = false
					continue
				}
				errVal := c14Val{Fr: ck.Fr, V: ev}
				if ok2, _ := vp.guardedBetween(ck, pn, c14NilFact(func(fr *c14Frame, x ast.Expr) bool { return fr.val(x).same(errVal) }, true)); !ok2 {
					okC = false
				}
			}
			c.Check(okC, "Check passes before Process", "T2/T4", pn.pos(), "Process is reached only after Check (when set) returned nil", "Process reachable without a passing Check")
		}
	})

	c.Clause("C14.pair", func() {
		push := c.Fn(pushName)
		spill := c.Fn(spillName)
		pe := c.Fn(bufT + ".PushEvent")
		c.Need(relFn != nil, "a declared function of the package sets event.released")
		rel := relFn
		// the three anchors are looked at one by one: in the view of one of them the others (and
		// releaseEvent) stay opaque calls, their helpers are expanded
		isAnchor := func(g *core.FuncInfo) bool { return g == push || g == spill || g == pe || g == rel }
		views := map[*core.FuncInfo]*c14View{}
		covered := map[*core.FuncInfo]bool{}
		n := 0
		for _, f := range []*core.FuncInfo{push, spill, pe} {
			w := c14NewView(f, 3, isAnchor)
			views[f] = w
			c.Need(w.reachable(w.Exit), "the return of "+short(f.Name)+" is reachable in the inlined view")
			for g := range w.funcs() {
				covered[g] = true
			}
			rels := w.callsTo(relName)
			for _, rm := range w.calls(func(n *c14Node) bool {
				return onIncompletes(n, "utils/wlru.Cache.Remove", "utils/wlru.Cache.RemoveOldest")
			}) {
				n++
				// paired with releaseEvent, except on the edge where nothing was removed (!ok -> break)
				ok, wit := w.pairedWith(rm, rels)
				if !ok && rm.CS.Name == "utils/wlru.Cache.RemoveOldest" {
					// allow the empty-cache exit: avoid edges with fact ok == false of the comma-ok result
					okVar := c14ResultVar(rm.Fr.Fn, rm.CS.Call, 2)
					okVal := c14Val{Fr: rm.Fr, V: okVar}
					emptyEdge := w.edgesWith(c14BoolFact(func(v c14Val) bool { return okVar != nil && v.same(okVal) }, false))
					p1, found := w.find(c14Query{From: []*c14Node{rm}, After: true, Target: c14IsExit, Avoid: c14NodeSet(rels...), AvoidEdge: emptyEdge})
					p2, again := w.find(c14Query{From: []*c14Node{rm}, After: true, Target: c14NodeSet(rm), Avoid: c14NodeSet(rels...), AvoidEdge: emptyEdge})
					ok = !found && !again
					if found {
						wit = p1
					} else if again {
						wit = p2
					}
				}
				c.Check(ok, short(f.Name)+"|"+short(rm.CS.Name)+" paired with releaseEvent", "T7 Pairing", rm.pos(), "every event removed from the buffer is released on the same path", "an event can be removed from the buffer without being released: "+w.describe(wit))
			}
		}
		c.ExpectAtLeast("buffer removal sites", n, 3)
		// T6: nothing else removes from the buffer
		for _, fg := range allFuncs() {
			if fg[0] == fg[1] && covered[fg[1]] {
				continue
			}
			for _, cs := range fg[1].CallsTo("utils/wlru.Cache.Remove", "utils/wlru.Cache.RemoveOldest", "utils/wlru.Cache.Purge") {
				if fieldNameOf(fg[1], cs.Recv()) == incF {
					c.Fail("removal in "+short(fg[1].Name), "T6 WhoMayCall", cs.Pos(), "events are removed from the buffer outside pushEvent / spillIncompletes / PushEvent and their helpers: nothing pairs this removal with releaseEvent")
				}
			}
		}
		// pushEvent: a non-recheck push ends in exactly one of {Add, releaseEvent}
		wp := views[push]
		adds := wp.calls(func(n *c14Node) bool { return onIncompletes(n, "utils/wlru.Cache.Add") })
		rels := wp.callsTo(relName)
		// the recheck flag: the boolean parameter of pushEvent
		var recheck *types.Var
		nBool := 0
		for i := 0; i < push.Obj.Type().(*types.Signature).Params().Len(); i++ {
			if pv := push.Param(i); pv != nil {
				if b, ok := pv.Type().Underlying().(*types.Basic); ok && b.Kind() == types.Bool {
					recheck = pv
					nBool++
				}
			}
		}
		if nBool != 1 {
			recheck = push.ParamNamed("recheck")
		}
		c.Need(recheck != nil, "pushEvent has a recheck flag")
		isRecheck := func(v c14Val) bool { return recheck != nil && v.same(c14Val{Fr: wp.Root, V: recheck}) }
		both := append(append([]*c14Node{}, adds...), rels...)
		_, found := wp.find(c14Query{From: []*c14Node{wp.Entry}, Target: c14IsExit, Avoid: c14NodeSet(both...), AvoidEdge: wp.edgesWith(c14BoolFact(isRecheck, true))})
		c.Check(!found && len(adds) > 0 && len(rels) > 0, "pushEvent|a first push is buffered or released", "T5 ExactlyOneOf", push.Pos(), "every non-recheck path of pushEvent passes incompletes.Add or releaseEvent", "a pushed event can be neither buffered nor released")
		overlap := false
		for _, a := range adds {
			for _, r := range rels {
				if wp.canReach(a, r) {
					overlap = true
				}
			}
		}
		c.Check(!overlap, "pushEvent|not both buffered and released", "T5 ExactlyOneOf", push.Pos(), "no path buffers an event and then releases it in the same call", "an event is added to the buffer and also released in the same call")
		// Add only when not recheck (a rechecked event is already buffered) and only with missing parents
		for _, a := range adds {
			ok, _ := wp.guarded(a, c14BoolFact(isRecheck, false))
			c.Check(ok, "pushEvent|Add only on first push", "T4 GuardedBy", a.pos(), "incompletes.Add is on the !recheck edge", "a rechecked event is added to the buffer again")
		}
		// PushEvent: every return is preceded by releaseEvent(e) or pushEvent(e, ...)
		wpe := views[pe]
		handled := wpe.callsTo(relName, pushName)
		okPE := len(handled) >= 2
		if ok, _ := wpe.mustPassBefore(handled, wpe.Exit); !ok {
			okPE = false
		}
		c.Check(okPE, "PushEvent|every push is released or handed to pushEvent", "T2 Dominates", pe.Pos(), "each return of PushEvent (incl. the duplicate branch) follows releaseEvent or pushEvent", "PushEvent can return without releasing or buffering the event")
	})

	c.Clause("C14.limit", func() {
		pe := c.Fn(bufT + ".PushEvent")
		spill := c.Fn(spillName)
		// every spill in the package is either with the configured limit or with the zero limit (Clear)
		isSpill := func(cs *core.CallSite) bool { return cs.Name == spillName }
		isLimitSpill := func(cs *core.CallSite) bool {
			return isSpill(cs) && len(cs.Call.Args) == 1 && fieldNameOf(cs.F, cs.Call.Args[0]) == bufT+".limit"
		}
		okArg := len(pe.SitesMay(isSpill, 2)) > 0
		for _, pt := range pe.SitesMay(isSpill, 2) {
			if !core.PointSet(pe.SitesMay(isLimitSpill, 2)...)(pt) {
				okArg = false
			}
		}
		c.Check(okArg, "PushEvent spills with the configured limit", "provenance", pe.Pos(), "spillIncompletes is called with buf.limit", "spillIncompletes is not called with buf.limit")
		// The limits hold when PushEvent returns: nothing that can put an event into the buffer happens
		// after the last spill. A growth site is a call that may (transitively) reach incompletes.Add;
		// a spill site is a call that certainly performs spillIncompletes(buf.limit), directly or in a
		// helper. A growth call evaluated inside the return statement has nothing after it.
		isGrow := func(cs *core.CallSite) bool {
			return cs.Name == "utils/wlru.Cache.Add" && fieldNameOf(cs.F, cs.Recv()) == incF
		}
		grow := pe.SitesMay(isGrow, 4)
		c.ExpectAtLeast("calls of PushEvent that can put an event into the buffer", len(grow), 1)
		spillMust := pe.SitesMust(isLimitSpill, 2)
		for _, g := range grow {
			ok, wit := c14FollowedBy(pe, g, spillMust)
			c.Check(ok, "spill after every push", "T3 PostDominates", posOf(g),
				"every path from a call that can buffer an event to a return of PushEvent passes spillIncompletes(buf.limit)",
				"PushEvent can return after buffering an event without enforcing the limits afterwards (a spill made before the insertion does not count: the buffer then holds limit+1 events, or limit bytes plus the new event, until the next push): "+pe.DescribePath(wit))
		}
		// the spill loop (helpers and named predicates expanded): the function returns only within both
		// limits, or through the empty-cache exit
		ws := c14NewView(spill, 3, nil)
		lim := c14Val{Fr: ws.Root, V: spill.Param(0)}
		c.Need(lim.V != nil && ws.reachable(ws.Exit), "spillIncompletes(limit) returns")
		namer := func(fr *c14Frame) core.AtomNamer {
			return func(e ast.Expr) string {
				e = core.StripConv(fr.Fn.Info(), e)
				if f2, call := fr.callTo(e, "utils/wlru.Cache.Len", "utils/wlru.Cache.Weight"); call != nil {
					if sel, ok := ast.Unparen(call.Fun).(*ast.SelectorExpr); ok && f2.fieldOf(sel.X) == incF {
						if calleeName(f2.Fn, call) == "utils/wlru.Cache.Len" {
							return "len"
						}
						return "weight"
					}
				}
				root, path := fr.fieldPath(e)
				if len(path) == 1 && root.same(lim) {
					return "limit." + short(path[0])
				}
				return ""
			}
		}
		var okVals []c14Val
		for _, rm := range ws.calls(func(n *c14Node) bool { return onIncompletes(n, "utils/wlru.Cache.RemoveOldest") }) {
			if v := c14ResultVar(rm.Fr.Fn, rm.CS.Call, 2); v != nil {
				okVals = append(okVals, c14Val{Fr: rm.Fr, V: v})
			}
		}
		emptyFact := c14BoolFact(func(v c14Val) bool {
			for _, o := range okVals {
				if v.same(o) {
					return true
				}
			}
			return false
		}, false)
		for _, want := range []string{"len - limit.Metric.Num <= 0", "weight - limit.Metric.Size <= 0"} {
			w := core.ParseLinCmp(want)
			path, found := ws.find(c14Query{From: []*c14Node{ws.Entry}, Target: c14IsExit, AvoidEdge: ws.edgesWith(func(ft c14Fact) bool {
				if emptyFact(ft) {
					return true
				}
				lc, ok := core.NormLinCmp(ft.Fr.Fn.Info(), ft.Fact, namer(ft.Fr))
				return ok && lc.Equal(w)
			})})
			pos := spill.Pos()
			if len(path) >= 2 {
				pos = path[len(path)-2].pos()
			}
			c.Check(!found, "spill loop exits only with "+want, "T4 GuardedBy", pos, "spillIncompletes returns only when "+want+" (or the buffer is empty)", "spillIncompletes can return above the limit: "+ws.describe(path))
		}
		// Clear spills everything
		clr := c.Fn(bufT + ".Clear")
		okClr := false
		for _, s := range clr.CallsTo(spillName) {
			if cl, ok := ast.Unparen(s.Call.Args[0]).(*ast.CompositeLit); ok && len(cl.Elts) == 0 {
				okClr = true
			}
		}
		c.Check(okClr, "Clear spills with the zero limit", "provenance", clr.Pos(), "Clear calls spillIncompletes(dag.Metric{}) and so releases every buffered event", "Clear does not spill with the zero limit")
	})

	c.Clause("C14.lock", func() {
		res := core.RunLockset(p, bufferLockSpec(p))
		n := reportLockset(c, res, c28Exceptions, nil)
		c.ExpectAtLeast("ordering-buffer access groups", n, 8)
		// PushEvent and Clear: lock taken first thing with deferred unlock (held throughout)
		for _, name := range []string{"PushEvent", "Clear"} {
			f := c.Fn(bufT + "." + name)
			locks := f.CallsMatching(func(cs *core.CallSite) bool {
				return cs.Name == "sync.Mutex.Lock" && fieldNameOf(f, cs.Recv()) == bufT+".mu" && !cs.InDefer
			})
			unl := f.CallsMatching(func(cs *core.CallSite) bool {
				return cs.Name == "sync.Mutex.Unlock" && fieldNameOf(f, cs.Recv()) == bufT+".mu"
			})
			ok := len(locks) == 1 && len(unl) == 1 && unl[0].InDefer
			if ok {
				// every buffer-touching call comes after the lock
				for _, cs := range f.Calls() {
					if cs.F == f && (hasSuffix(cs.Name, ".pushEvent", ".spillIncompletes", ".releaseEvent", ".dropEvent") || hasSuffix(cs.Name, "wlru.Cache.Peek")) {
						if o, _ := f.MustPassBefore(core.Points(locks), cs.Pt); !o {
							ok = false
						}
					}
				}
			}
			c.Check(ok, name+" holds mu throughout", "T1 LockSet", f.Pos(), "mu.Lock() once, defer mu.Unlock(), all buffer operations after the lock", name+" does not hold mu over all its buffer operations")
		}
	})
}

// c14FollowedBy: after the effect at `from`, one of `via` happens on every path to a return of f.
// Unlike FuncInfo.MustPassAfter it does not pass vacuously when `from` is evaluated inside a return
// statement (`return buf.pushEvent(…)`: the CFG point of the call is the return itself and nothing
// follows it), and it accepts a `via` that is a deferred call registered on every path before `from`
// (deferred calls run after the return value was computed).
func c14FollowedBy(f *core.FuncInfo, from core.Point, via []core.Point) (bool, []core.Point) {
	var deferred, plain []core.Point
	for _, v := range via {
		if _, isDefer := v.Node().(*ast.DeferStmt); isDefer {
			deferred = append(deferred, v)
		} else {
			plain = append(plain, v)
		}
	}
	if len(deferred) > 0 {
		if ok, _ := f.MustPassBefore(deferred, from); ok {
			return true, nil
		}
	}
	if _, isRet := from.Node().(*ast.ReturnStmt); isRet {
		// a via call in the same return statement could only count if it were evaluated later; do not guess
		return false, []core.Point{from}
	}
	return f.MustPassAfter(from, plain)
}

// c14Lookup is one result of a function that looks the parents of an event up.
type c14Lookup struct {
	G   *core.FuncInfo
	Idx int
}

// isBool: is the result a boolean (true) or a nil-able value (false)? known=false for anything else.
func (lk c14Lookup) isBool() (isBool, known bool) {
	if lk.G == nil || lk.G.Obj == nil {
		return false, false
	}
	sig, _ := lk.G.Obj.Type().(*types.Signature)
	if sig == nil || lk.Idx < 0 || lk.Idx >= sig.Results().Len() {
		return false, false
	}
	switch t := sig.Results().At(lk.Idx).Type().Underlying().(type) {
	case *types.Basic:
		return t.Kind() == types.Bool, t.Kind() == types.Bool
	case *types.Slice, *types.Map, *types.Pointer, *types.Interface, *types.Chan, *types.Signature:
		return false, true
	}
	return false, false
}

// c14TargetIndex: the position of the assignment's target among the results of its (single, multi-value)
// right-hand side; 0 for a plain one-to-one assignment.
func c14TargetIndex(a assignment) int {
	switch s := a.Stmt.(type) {
	case *ast.AssignStmt:
		if len(s.Rhs) == 1 && len(s.Lhs) > 1 {
			for i, l := range s.Lhs {
				if l == a.LHS {
					return i
				}
			}
		}
	case *ast.ValueSpec:
		if len(s.Values) == 1 && len(s.Names) > 1 {
			for i, nm := range s.Names {
				if ast.Expr(nm) == a.LHS {
					return i
				}
			}
		}
	}
	return 0
}

// isFreshEvent: e is &event{...} (or new(event)) that does not set released to true.
func isFreshEvent(f *core.FuncInfo, e ast.Expr, relF string) bool {
	e = ast.Unparen(e)
	if u, ok := e.(*ast.UnaryExpr); ok && u.Op == token.AND {
		e = ast.Unparen(u.X)
	}
	cl, ok := e.(*ast.CompositeLit)
	if !ok {
		return false
	}
	for _, el := range cl.Elts {
		kv, ok := el.(*ast.KeyValueExpr)
		if !ok {
			return false // positional: cannot tell
		}
		if id, ok := kv.Key.(*ast.Ident); ok {
			if v, ok := f.Info().ObjectOf(id).(*types.Var); ok && f.P.FieldName(v) == relF {
				if !isIdentNamed(kv.Value, "false") {
					return false
				}
			}
		}
	}
	return true
}
