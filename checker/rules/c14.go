package rules

import (
	"go/ast"
	"go/token"
	"go/types"

	"lachk/core"
)

const bufT = "gossip/dagordering.EventsBuffer"

func init() {
	register("C14", "other", "T17 Typestate (released flag), T2/T4 Dominates/GuardedBy, T5 ExactlyOneOf, T7 Pairing, T3 PostDominates, T1 LockSet",
		"Decides the structural conditions of the ordering buffer's contract: callback.Process is reachable only for an event whose parents were all found and whose Check passed, and only for an event that cannot already be released (fresh allocation, or a guard on its released flag / buffer membership taken after the last point where other events may have been processed — the recheck recursion over a stale snapshot is the case tests never reach); released is written only by releaseEvent, which reports only on the not-yet-released edge; every removal from the buffer is paired with releaseEvent of that event and every push ends in exactly one of buffered / released; the spill loop runs after every push and exits only within both limits; PushEvent and Clear hold the mutex throughout. Liveness (every event of a parents-closed set is eventually processed) is not decided.",
		[]string{"application callbacks are opaque", "wlru.Cache is internally synchronised (C28/C29)"},
		runC14)
}

func runC14(c *core.Ctx) {
	p := c.P
	relF := "gossip/dagordering.event.released"
	cbProcess := "gossip/dagordering.Callback.Process"
	cbReleased := "gossip/dagordering.Callback.Released"
	cbCheck := "gossip/dagordering.Callback.Check"
	cbGet := "gossip/dagordering.Callback.Get"

	c.Clause("C14.released", func() {
		c.Fld(relF)
		// T6: released is written only in releaseEvent
		n := 0
		for _, f := range p.FuncsInPkg("gossip/dagordering") {
			for _, a := range assignsToField(f, relF) {
				n++
				c.Check(f.Name == bufT+".releaseEvent", "write of released in "+short(f.Name), "T6 WhoMayWrite", a.Stmt.Pos(), "released is set by releaseEvent only", "released is written outside releaseEvent")
			}
			for _, l := range f.Lits() {
				for _, a := range assignsToField(l, relF) {
					n++
					c.Fail("write of released in "+short(l.Name), "T6 WhoMayWrite", a.Stmt.Pos(), "released is written in a function literal")
				}
			}
		}
		c.ExpectAtLeast("writes of event.released", n, 1)
		rel := c.Fn(bufT + ".releaseEvent")
		ev := rel.Param(0)
		isNotReleased := func(f *core.FuncInfo, v *types.Var) func(core.Fact) bool {
			return func(ft core.Fact) bool {
				cm, ok := core.NormCmp(ft)
				if !ok || cm.R != nil {
					return false
				}
				root, path := fieldPath(f, cm.L)
				return cm.Op == token.NEQ && len(path) == 1 && path[0] == relF && varOf(f, root) == v
			}
		}
		calls := rel.CallsTo(cbReleased)
		c.ExpectAtLeast("Released callback sites in releaseEvent", len(calls), 1)
		for _, cs := range calls {
			ok, wit := rel.GuardedBy(cs.Pt, isNotReleased(rel, ev))
			c.Check(ok, "Released reported only when not yet released", "T4 GuardedBy", cs.Pos(), "callback.Released is called only on the !e.released edge", "Released can be reported for an already released event: "+rel.DescribePath(wit))
			ok2, _ := rel.GuardedBy(cs.Pt, fieldNilFact(rel, cbReleased, false))
			c.Check(ok2, "Released nil-guarded", "T4 GuardedBy", cs.Pos(), "callback.Released is nil-guarded", "callback.Released may be called when nil")
		}
		// released = true on every path
		var sets []core.Point
		for _, a := range assignsToField(rel, relF) {
			if isIdentNamed(a.RHS, "true") {
				sets = append(sets, a.Pt)
			}
		}
		okAll := len(sets) > 0
		for _, rp := range rel.ReturnPoints() {
			if ok, _ := rel.MustPassBefore(sets, rp); !ok {
				okAll = false
			}
		}
		c.Check(okAll, "releaseEvent sets released on every path", "T2 Dominates", rel.Pos(), "released = true dominates every return of releaseEvent", "releaseEvent can return without marking the event released")
		// T6: Released callback is invoked nowhere else
		for _, f := range p.FuncsInPkg("gossip/dagordering") {
			if f != rel && len(f.CallsTo(cbReleased)) > 0 {
				c.Fail("Released called in "+short(f.Name), "T6 WhoMayCall", f.CallsTo(cbReleased)[0].Pos(), "callback.Released is invoked outside releaseEvent (bypasses the exactly-once flag)")
			}
		}
	})

	c.Clause("C14.process-once", func() {
		push := c.Fn(bufT + ".pushEvent")
		pce := c.Fn(bufT + ".processCompleteEvent")
		// T6: Process is called only in processCompleteEvent, which is called only from pushEvent
		for _, f := range p.FuncsInPkg("gossip/dagordering") {
			if f != pce && len(f.CallsTo(cbProcess)) > 0 {
				c.Fail("Process called in "+short(f.Name), "T6 WhoMayCall", f.CallsTo(cbProcess)[0].Pos(), "callback.Process is invoked outside processCompleteEvent")
			}
			if f != push && len(f.CallsTo(bufT+".processCompleteEvent")) > 0 {
				c.Fail("processCompleteEvent called in "+short(f.Name), "T6 WhoMayCall", f.CallsTo(bufT + ".processCompleteEvent")[0].Pos(), "processCompleteEvent is invoked outside pushEvent")
			}
		}
		procSites := pce.CallsTo(cbProcess)
		c.ExpectAtLeast("callback.Process sites", len(procSites), 1)
		pceSites := push.CallsTo(bufT + ".processCompleteEvent")
		c.ExpectAtLeast("processCompleteEvent sites", len(pceSites), 1)
		e := push.Param(0)
		notReleased := func(f *core.FuncInfo, isArg func(ast.Expr) bool) func(core.Fact) bool {
			return func(ft core.Fact) bool {
				cm, ok := core.NormCmp(ft)
				if !ok {
					return false
				}
				if cm.R == nil {
					// !x.released
					root, path := fieldPath(f, cm.L)
					if cm.Op == token.NEQ && len(path) == 1 && path[0] == relF && isArg(root) {
						return true
					}
					// membership in incompletes: buf.incompletes.Contains(x.event.ID()) true
					if cm.Op == token.EQL {
						if call := isCallTo(f, cm.L, "utils/wlru.Cache.Contains"); call != nil && len(call.Args) == 1 {
							found := false
							ast.Inspect(call.Args[0], func(n ast.Node) bool {
								if ex, ok := n.(ast.Expr); ok && isArg(ex) {
									found = true
								}
								return !found
							})
							return found
						}
					}
				}
				return false
			}
		}
		// (A) a guard inside pushEvent that dominates processCompleteEvent
		guardedInside := true
		for _, s := range pceSites {
			if ok, _ := push.GuardedBy(s.Pt, notReleased(push, func(x ast.Expr) bool { return varOf(push, x) == e })); !ok {
				guardedInside = false
			}
		}
		if guardedInside {
			c.Pass("pushEvent guards released before processing", "T17 Typestate", "processCompleteEvent is reachable only on the !e.released edge inside pushEvent")
		}
		// (B) otherwise every call site must pass a not-released event
		n := 0
		for _, f := range p.FuncsInPkg("gossip/dagordering") {
			for _, cs := range f.CallsTo(bufT + ".pushEvent") {
				n++
				if guardedInside {
					continue
				}
				arg := cs.Call.Args[0]
				v := varOf(f, arg)
				construct := "pushEvent call in " + short(f.Name)
				if f == push {
					construct = "recheck recursion"
				}
				// fresh allocation?
				if v != nil {
					as := assignsToVar(f, v)
					if len(as) == 1 && as[0].RHS != nil && isFreshEvent(f, as[0].RHS, relF) {
						c.Pass(construct+" passes a fresh event", "T17 Typestate", "the argument is a newly allocated event (released=false) that no other code has seen")
						continue
					}
				}
				// guard in the same iteration: every path from entry (and from this call back to itself) takes a not-released edge
				match := notReleased(f, func(x ast.Expr) bool { return v != nil && varOf(f, x) == v })
				ok, wit := f.GuardedBy(cs.Pt, match)
				if ok && f.CanReach(cs.Pt, cs.Pt) {
					ok, wit = f.GuardedBetween(cs.Pt, cs.Pt, match)
				}
				c.Check(ok, construct+" passes a not-released event", "T17 Typestate", cs.Pos(),
					"the call is reachable only on the edge where the event is known not to be released",
					"an event taken from a snapshot made before other events were processed is pushed again without checking its released flag or buffer membership: it can be handed to Process after it was processed, failed and reported released ("+f.DescribePath(wit)+")")
			}
		}
		c.ExpectAtLeast("pushEvent call sites", n, 2)
	})

	c.Clause("C14.parents", func() {
		push := c.Fn(bufT + ".pushEvent")
		pce := c.Fn(bufT + ".processCompleteEvent")
		cep := c.Fn(bufT + ".completeEventParents")
		// parents != nil guard
		for _, s := range push.CallsTo(bufT + ".processCompleteEvent") {
			c.Need(len(s.Call.Args) == 2, "processCompleteEvent(e, parents)")
			pv := varOf(push, s.Call.Args[1])
			c.Need(pv != nil, "parents argument is a variable")
			as := assignsToVar(push, pv)
			okSrc := len(as) == 1 && as[0].RHS != nil && isCallTo(push, as[0].RHS, bufT+".completeEventParents") != nil
			c.Check(okSrc, "parents come from completeEventParents", "provenance", s.Pos(), "the parents handed on are the result of completeEventParents(e)", "parents do not come from completeEventParents")
			// varNilFact accepts either operand order (parents != nil, nil != parents, !(nil == parents))
			ok, wit := push.GuardedBy(s.Pt, varNilFact(push, pv, false))
			c.Check(ok, "processing only with complete parents", "T4 GuardedBy", s.Pos(), "processCompleteEvent is reached only on the parents != nil edge", "processCompleteEvent reachable with nil parents: "+push.DescribePath(wit))
		}
		// completeEventParents: a nil Get result returns nil
		gets := cep.CallsTo(cbGet)
		c.ExpectAtLeast("callback.Get sites", len(gets), 1)
		for _, g := range gets {
			// result variable
			var rv *types.Var
			for _, a := range assignments(cep) {
				if a.RHS != nil && ast.Unparen(a.RHS) == ast.Expr(g.Call) {
					rv = varOf(cep, a.LHS)
				}
			}
			c.Need(rv != nil, "Get result is stored in a variable")
			// every non-nil return is guarded by rv != nil in the iteration; equivalently: from the Get call,
			// the path continuing the loop / reaching a non-nil return must take the rv != nil edge
			nonNil := returnsWith(cep, 0, func(e ast.Expr) bool { return !core.IsNil(cep.Info(), e) })
			okAll := len(nonNil) > 0
			for _, rp := range nonNil {
				if ok, _ := cep.GuardedBetween(g.Pt, rp, varNilFact(cep, rv, false)); !ok {
					okAll = false
				}
			}
			c.Check(okAll, "missing parent => nil", "T4 GuardedBy", g.Pos(), "a non-nil parents list is returned only if every Get result was non-nil", "completeEventParents can return a list although a parent was not found")
		}
		// Check before Process
		for _, ps := range pce.CallsTo(cbProcess) {
			chk := pce.CallsTo(cbCheck)
			okC := len(chk) == 1
			if okC {
				// every path to Process passes the Check call or the Check == nil edge
				nilEdge := pce.GuardEdges(fieldNilFact(pce, cbCheck, true))
				_, found := core.PathQuery{F: pce, From: pce.Entry(), Target: core.PointSet(ps.Pt), Avoid: core.PointSet(chk[0].Pt), AvoidEdge: nilEdge}.Find()
				okC = !found
				// and on the Check path, only when it returned nil
				var ev *types.Var
				for _, a := range assignments(pce) {
					if a.RHS != nil && ast.Unparen(a.RHS) == ast.Expr(chk[0].Call) {
						ev = varOf(pce, a.LHS)
					}
				}
				if ev != nil {
					ok2, _ := pce.GuardedBetween(chk[0].Pt, ps.Pt, varNilFact(pce, ev, true))
					okC = okC && ok2
				} else {
					okC = false
				}
			}
			c.Check(okC, "Check passes before Process", "T2/T4", ps.Pos(), "Process is reached only after Check (when set) returned nil", "Process reachable without a passing Check")
		}
	})

	c.Clause("C14.pair", func() {
		push := c.Fn(bufT + ".pushEvent")
		spill := c.Fn(bufT + ".spillIncompletes")
		pe := c.Fn(bufT + ".PushEvent")
		n := 0
		for _, f := range []*core.FuncInfo{push, spill, pe} {
			rel := core.Points(f.CallsTo(bufT + ".releaseEvent"))
			for _, cs := range f.CallsTo("utils/wlru.Cache.Remove", "utils/wlru.Cache.RemoveOldest") {
				n++
				// paired with releaseEvent, except on the edge where nothing was removed (!ok -> break)
				ok, wit := pairedWith(f, cs.Pt, rel)
				if !ok && cs.Name == "utils/wlru.Cache.RemoveOldest" {
					// allow the empty-cache exit: avoid edges with fact ok == false of the comma-ok result
					var okVar *types.Var
					for _, a := range assignments(f) {
						if a.RHS != nil && ast.Unparen(a.RHS) == ast.Expr(cs.Call) {
							if as, isAs := a.Stmt.(*ast.AssignStmt); isAs && len(as.Lhs) == 3 {
								okVar = varOf(f, as.Lhs[2])
							}
						}
					}
					emptyEdge := f.GuardEdges(func(ft core.Fact) bool {
						cm, k := core.NormCmp(ft)
						return k && cm.R == nil && cm.Op == token.NEQ && okVar != nil && varOf(f, cm.L) == okVar
					})
					_, found := core.PathQuery{F: f, From: cs.Pt, FromAfter: true, Avoid: core.PointSet(rel...), AvoidEdge: emptyEdge, TargetExit: true}.Find()
					_, again := core.PathQuery{F: f, From: cs.Pt, FromAfter: true, Target: core.PointSet(cs.Pt), Avoid: core.PointSet(rel...), AvoidEdge: emptyEdge}.Find()
					ok = !found && !again
				}
				c.Check(ok, short(f.Name)+"|"+short(cs.Name)+" paired with releaseEvent", "T7 Pairing", cs.Pos(), "every event removed from the buffer is released on the same path", "an event can be removed from the buffer without being released: "+f.DescribePath(wit))
			}
		}
		c.ExpectAtLeast("buffer removal sites", n, 3)
		// pushEvent: a non-recheck push ends in exactly one of {Add, releaseEvent}
		adds := core.Points(push.CallsTo("utils/wlru.Cache.Add"))
		rels := core.Points(push.CallsTo(bufT + ".releaseEvent"))
		recheck := push.ParamNamed("recheck")
		if recheck == nil {
			recheck = push.Param(2)
		}
		recheckEdge := push.GuardEdges(func(ft core.Fact) bool {
			cm, k := core.NormCmp(ft)
			return k && cm.R == nil && cm.Op == token.EQL && recheck != nil && varOf(push, cm.L) == recheck
		})
		both := append(append([]core.Point{}, adds...), rels...)
		_, found := core.PathQuery{F: push, From: push.Entry(), Avoid: core.PointSet(both...), AvoidEdge: recheckEdge, TargetExit: true}.Find()
		c.Check(!found && len(adds) > 0 && len(rels) > 0, "pushEvent|a first push is buffered or released", "T5 ExactlyOneOf", push.Pos(), "every non-recheck path of pushEvent passes incompletes.Add or releaseEvent", "a pushed event can be neither buffered nor released")
		overlap := false
		for _, a := range adds {
			for _, r := range rels {
				if push.CanReach(a, r) {
					overlap = true
				}
			}
		}
		c.Check(!overlap, "pushEvent|not both buffered and released", "T5 ExactlyOneOf", push.Pos(), "no path buffers an event and then releases it in the same call", "an event is added to the buffer and also released in the same call")
		// Add only when not recheck (a rechecked event is already buffered) and only with missing parents
		for _, a := range push.CallsTo("utils/wlru.Cache.Add") {
			ok, _ := push.GuardedBy(a.Pt, func(ft core.Fact) bool {
				cm, k := core.NormCmp(ft)
				return k && cm.R == nil && cm.Op == token.NEQ && varOf(push, cm.L) == recheck
			})
			c.Check(ok, "pushEvent|Add only on first push", "T4 GuardedBy", a.Pos(), "incompletes.Add is on the !recheck edge", "a rechecked event is added to the buffer again")
		}
		// PushEvent: every return is preceded by releaseEvent(e) or pushEvent(e, ...)
		handled := append(core.Points(pe.CallsTo(bufT+".releaseEvent")), core.Points(pe.CallsTo(bufT+".pushEvent"))...)
		okPE := len(handled) >= 2
		for _, rp := range pe.ReturnPoints() {
			if ok, _ := pe.MustPassBefore(handled, rp); !ok {
				okPE = false
			}
		}
		c.Check(okPE, "PushEvent|every push is released or handed to pushEvent", "T2 Dominates", pe.Pos(), "each return of PushEvent (incl. the duplicate branch) follows releaseEvent or pushEvent", "PushEvent can return without releasing or buffering the event")
	})

	c.Clause("C14.limit", func() {
		pe := c.Fn(bufT + ".PushEvent")
		spill := c.Fn(bufT + ".spillIncompletes")
		// every spill in the package is either with the configured limit or with the zero limit (Clear)
		isSpill := func(cs *core.CallSite) bool { return cs.Name == bufT+".spillIncompletes" }
		isLimitSpill := func(cs *core.CallSite) bool {
			return isSpill(cs) && len(cs.Call.Args) == 1 && fieldNameOf(cs.F, cs.Call.Args[0]) == bufT+".limit"
		}
		okArg := len(pe.SitesMay(isSpill, 2)) > 0
		for _, pt := range pe.SitesMay(isSpill, 2) {
			if !core.PointSet(pe.SitesMay(isLimitSpill, 2)...)(pt) {
				okArg = false
			}
		}
		c.Check(okArg, "PushEvent spills with the configured limit", "provenance", pe.Pos(), "spillIncompletes is called with buf.limit", "spillIncompletes is not called with buf.limit")
		// The limits hold when PushEvent returns: nothing that can put an event into the buffer happens
		// after the last spill. A growth site is a call that may (transitively) reach incompletes.Add;
		// a spill site is a call that certainly performs spillIncompletes(buf.limit), directly or in a
		// helper. A growth call evaluated inside the return statement has nothing after it.
		isGrow := func(cs *core.CallSite) bool {
			return cs.Name == "utils/wlru.Cache.Add" && fieldNameOf(cs.F, cs.Recv()) == bufT+".incompletes"
		}
		grow := pe.SitesMay(isGrow, 4)
		c.ExpectAtLeast("calls of PushEvent that can put an event into the buffer", len(grow), 1)
		spillMust := pe.SitesMust(isLimitSpill, 2)
		for _, g := range grow {
			ok, wit := c14FollowedBy(pe, g, spillMust)
			c.Check(ok, "spill after every push", "T3 PostDominates", posOf(g),
				"every path from a call that can buffer an event to a return of PushEvent passes spillIncompletes(buf.limit)",
				"PushEvent can return after buffering an event without enforcing the limits afterwards (a spill made before the insertion does not count: the buffer then holds limit+1 events, or limit bytes plus the new event, until the next push): "+pe.DescribePath(wit))
		}
		lim := spill.Param(0)
		namer := func(e ast.Expr) string {
			e = core.StripConv(spill.Info(), e)
			if isCallTo(spill, e, "utils/wlru.Cache.Len") != nil {
				return "len"
			}
			if isCallTo(spill, e, "utils/wlru.Cache.Weight") != nil {
				return "weight"
			}
			root, path := fieldPath(spill, e)
			if len(path) == 1 && varOf(spill, root) == lim {
				return "limit." + short(path[0])
			}
			return ""
		}
		// returns are reached only within both limits, or through the empty-cache exit
		var okVar *types.Var
		for _, a := range assignments(spill) {
			if as, isAs := a.Stmt.(*ast.AssignStmt); isAs && len(as.Lhs) == 3 && a.RHS != nil && isCallTo(spill, a.RHS, "utils/wlru.Cache.RemoveOldest") != nil {
				okVar = varOf(spill, as.Lhs[2])
			}
		}
		emptyFact := func(ft core.Fact) bool {
			cm, k := core.NormCmp(ft)
			return k && cm.R == nil && cm.Op == token.NEQ && okVar != nil && varOf(spill, cm.L) == okVar
		}
		for _, want := range []string{"len - limit.Metric.Num <= 0", "weight - limit.Metric.Size <= 0"} {
			w := core.ParseLinCmp(want)
			for _, rp := range spill.ReturnPoints() {
				ok, wit := spill.GuardedBy(rp, func(ft core.Fact) bool {
					if emptyFact(ft) {
						return true
					}
					lc, ok := core.NormLinCmp(spill.Info(), ft, namer)
					return ok && lc.Equal(w)
				})
				c.Check(ok, "spill loop exits only with "+want, "T4 GuardedBy", posOf(rp), "spillIncompletes returns only when "+want+" (or the buffer is empty)", "spillIncompletes can return above the limit: "+spill.DescribePath(wit))
			}
		}
		// Clear spills everything
		clr := c.Fn(bufT + ".Clear")
		okClr := false
		for _, s := range clr.CallsTo(bufT + ".spillIncompletes") {
			if cl, ok := ast.Unparen(s.Call.Args[0]).(*ast.CompositeLit); ok && len(cl.Elts) == 0 {
				okClr = true
			}
		}
		c.Check(okClr, "Clear spills with the zero limit", "provenance", clr.Pos(), "Clear calls spillIncompletes(dag.Metric{}) and so releases every buffered event", "Clear does not spill with the zero limit")
	})

	c.Clause("C14.lock", func() {
		res := core.RunLockset(p, bufferLockSpec(p))
		n := reportLockset(c, res, c28Exceptions, nil)
		c.ExpectAtLeast("ordering-buffer access groups", n, 8)
		// PushEvent and Clear: lock taken first thing with deferred unlock (held throughout)
		for _, name := range []string{"PushEvent", "Clear"} {
			f := c.Fn(bufT + "." + name)
			locks := f.CallsMatching(func(cs *core.CallSite) bool {
				return cs.Name == "sync.Mutex.Lock" && fieldNameOf(f, cs.Recv()) == bufT+".mu" && !cs.InDefer
			})
			unl := f.CallsMatching(func(cs *core.CallSite) bool {
				return cs.Name == "sync.Mutex.Unlock" && fieldNameOf(f, cs.Recv()) == bufT+".mu"
			})
			ok := len(locks) == 1 && len(unl) == 1 && unl[0].InDefer
			if ok {
				// every buffer-touching call comes after the lock
				for _, cs := range f.Calls() {
					if cs.F == f && (hasSuffix(cs.Name, ".pushEvent", ".spillIncompletes", ".releaseEvent", ".dropEvent") || hasSuffix(cs.Name, "wlru.Cache.Peek")) {
						if o, _ := f.MustPassBefore(core.Points(locks), cs.Pt); !o {
							ok = false
						}
					}
				}
			}
			c.Check(ok, name+" holds mu throughout", "T1 LockSet", f.Pos(), "mu.Lock() once, defer mu.Unlock(), all buffer operations after the lock", name+" does not hold mu over all its buffer operations")
		}
	})
}

// c14FollowedBy: after the effect at `from`, one of `via` happens on every path to a return of f.
// Unlike FuncInfo.MustPassAfter it does not pass vacuously when `from` is evaluated inside a return
// statement (`return buf.pushEvent(…)`: the CFG point of the call is the return itself and nothing
// follows it), and it accepts a `via` that is a deferred call registered on every path before `from`
// (deferred calls run after the return value was computed).
func c14FollowedBy(f *core.FuncInfo, from core.Point, via []core.Point) (bool, []core.Point) {
	var deferred, plain []core.Point
	for _, v := range via {
		if _, isDefer := v.Node().(*ast.DeferStmt); isDefer {
			deferred = append(deferred, v)
		} else {
			plain = append(plain, v)
		}
	}
	if len(deferred) > 0 {
		if ok, _ := f.MustPassBefore(deferred, from); ok {
			return true, nil
		}
	}
	if _, isRet := from.Node().(*ast.ReturnStmt); isRet {
		// a via call in the same return statement could only count if it were evaluated later; do not guess
		return false, []core.Point{from}
	}
	return f.MustPassAfter(from, plain)
}

// isFreshEvent: e is &event{...} (or new(event)) that does not set released to true.
func isFreshEvent(f *core.FuncInfo, e ast.Expr, relF string) bool {
	e = ast.Unparen(e)
	if u, ok := e.(*ast.UnaryExpr); ok && u.Op == token.AND {
		e = ast.Unparen(u.X)
	}
	cl, ok := e.(*ast.CompositeLit)
	if !ok {
		return false
	}
	for _, el := range cl.Elts {
		kv, ok := el.(*ast.KeyValueExpr)
		if !ok {
			return false // positional: cannot tell
		}
		if id, ok := kv.Key.(*ast.Ident); ok {
			if v, ok := f.Info().ObjectOf(id).(*types.Var); ok && f.P.FieldName(v) == relF {
				if !isIdentNamed(kv.Value, "false") {
					return false
				}
			}
		}
	}
	return true
}
