package rules

import (
	"go/ast"
	"go/token"
	"go/types"

	"golang.org/x/tools/go/cfg"

	"lachk/core"
)

const seedT = "gossip/basestream/basestreamseeder.BaseSeeder"
const seedP = "gossip/basestream/basestreamseeder."

func init() {
	register("C17", "other", "T4 GuardedBy (prune only on create), T7 Pairing (tables consistent, write-back before send), T2 Dominates (pending-memory wait before add), T8 (limit tests of the item callbacks)",
		"Decides the bookkeeping the per-session stream contract depends on: an existing session is never evicted by a request that resumes a session — deleting another session / shortening the peer's session list happens only on the edge where the requested session was not found, and a changed list is stored back; the peer list and the session table stay consistent (an id appended to the list has its state stored under its key before the handler finishes; unregistering deletes every listed session and the list); the chunk loop runs only while the session is not done, updates next/done and writes the state back before the response is queued, and marks the response done with the same flag; the item callbacks stop before the stop key and when the requested count or size is reached; pending response memory is added only after waiting below the limit and the queued closure subtracts the same amount on every path. Contents and order of the payload produced by the application callback are not decided.",
		[]string{"ForEachItem / SendChunk callbacks are opaque", "the seeder state is confined to the reader goroutine"},
		runC17)
}

// selectCase finds the select-case body block of f whose communication mentions the given field.
func selectCase(f *core.FuncInfo, field string) (*cfg.Block, *ast.CommClause) {
	for _, b := range f.CFG().Blocks {
		if b.Kind != cfg.KindSelectCaseBody || !b.Live {
			continue
		}
		cc, _ := b.Stmt.(*ast.CommClause)
		if cc == nil || cc.Comm == nil {
			continue
		}
		if mentionsField(f, cc.Comm, field) {
			return b, cc
		}
	}
	return nil, nil
}

// caseEnd: entering the select's done block or the enclosing for-loop's head means the handler finished.
func caseEnd(f *core.FuncInfo, body *cfg.Block) func(*cfg.Block) bool {
	return func(b *cfg.Block) bool {
		if b == body {
			return false
		}
		if b.Kind == cfg.KindSelectDone {
			return true
		}
		// continue target of "for { select {...} }": the outermost for body
		if b.Kind == cfg.KindForBody {
			if fs, ok := b.Stmt.(*ast.ForStmt); ok && fs.Cond == nil && fs.Pos() <= body.Stmt.Pos() && body.Stmt.End() <= fs.End() {
				// only the loop that directly contains the select
				if len(b.Nodes) == 0 || true {
					for _, st := range fs.Body.List {
						if sel, ok := st.(*ast.SelectStmt); ok && sel.Pos() <= body.Stmt.Pos() && body.Stmt.End() <= sel.End() {
							return true
						}
					}
				}
			}
		}
		return false
	}
}

// withinCase restricts analysis to nodes located inside the clause.
func inClause(cc *ast.CommClause, pos token.Pos) bool { return cc.Pos() <= pos && pos < cc.End() }

func runC17(c *core.Ctx) {
	sessionsF, peerSessF := seedT+".sessions", seedT+".peerSessions"

	c.Clause("C17.prune", func() {
		f := c.Fn(seedT + ".readerLoop")
		body, cc := selectCase(f, seedT+".notifyReceivedRequest")
		c.Need(body != nil, "readerLoop has a select case on notifyReceivedRequest")
		// lookup of the requested session: session, ok := s.sessions[key]
		var okVar, sessVar *types.Var
		var lookupPt core.Point
		for _, a := range assignments(f) {
			as, isAs := a.Stmt.(*ast.AssignStmt)
			if !isAs || !inClause(cc, as.Pos()) || len(as.Lhs) != 2 || len(as.Rhs) != 1 {
				continue
			}
			if ix, ok := ast.Unparen(as.Rhs[0]).(*ast.IndexExpr); ok && fieldNameOf(f, ix.X) == sessionsF {
				sessVar, okVar = varOf(f, as.Lhs[0]), varOf(f, as.Lhs[1])
				lookupPt = a.Pt
			}
		}
		c.Need(okVar != nil && sessVar != nil, "comma-ok lookup of the requested session in the request case")
		notFound := func(ft core.Fact) bool {
			cm, ok := core.NormCmp(ft)
			return ok && cm.R == nil && cm.Op == token.NEQ && varOf(f, cm.L) == okVar
		}
		// the peer's list variable
		var listVar *types.Var
		for _, a := range assignments(f) {
			if a.RHS == nil || !inClause(cc, a.Stmt.Pos()) {
				continue
			}
			if ix, ok := ast.Unparen(a.RHS).(*ast.IndexExpr); ok && fieldNameOf(f, ix.X) == peerSessF {
				listVar = varOf(f, a.LHS)
			}
		}
		c.Need(listVar != nil, "the peer's session list is loaded into a variable")
		n := 0
		// deletes from the session table inside the request case
		for _, cs := range f.CallsTo("builtin.delete") {
			if !inClause(cc, cs.Pos()) || fieldNameOf(f, cs.Call.Args[0]) != sessionsF {
				continue
			}
			n++
			ok, wit := f.GuardedBetween(core.Point{B: body, I: 0}, cs.Pt, notFound)
			if body.Nodes != nil && len(body.Nodes) > 0 && (core.Point{B: body, I: 0}) == cs.Pt {
				ok = false
			}
			// the guard variable must refer to the lookup made in this handler run: lookup precedes
			ok2 := f.CanReach(lookupPt, cs.Pt)
			c.Check(ok && ok2, "readerLoop|session evicted only when a new one is created", "T4 GuardedBy", cs.Pos(),
				"delete(sessions, other) is reached only on the edge where the requested session was not found",
				"a request that resumes an existing session can evict another live session of the peer (it is then restarted from its start: items are sent again): "+f.DescribePath(wit))
		}
		// shortening of the list
		for _, a := range assignsToVar(f, listVar) {
			if a.RHS == nil || !inClause(cc, a.Stmt.Pos()) {
				continue
			}
			if _, isSlice := ast.Unparen(a.RHS).(*ast.SliceExpr); !isSlice {
				continue
			}
			n++
			ok, wit := f.GuardedBetween(core.Point{B: body, I: 0}, a.Pt, notFound)
			c.Check(ok && f.CanReach(lookupPt, a.Pt), "readerLoop|session list shortened only when a new one is created", "T4 GuardedBy", a.Stmt.Pos(),
				"the peer's list is resliced only on the not-found edge", "the peer's session list is shortened by a request that resumes an existing session: "+f.DescribePath(wit))
		}
		c.ExpectAtLeast("eviction sites in the request case", n, 2)
		// every change of the list is stored back before the handler ends
		var stores []core.Point
		for _, a := range assignments(f) {
			if ix, ok := ast.Unparen(a.LHS).(*ast.IndexExpr); ok && fieldNameOf(f, ix.X) == peerSessF && varOf(f, a.RHS) == listVar && inClause(cc, a.Stmt.Pos()) {
				stores = append(stores, a.Pt)
			}
		}
		for _, a := range assignsToVar(f, listVar) {
			if a.RHS == nil || !inClause(cc, a.Stmt.Pos()) {
				continue
			}
			if ix, ok := ast.Unparen(a.RHS).(*ast.IndexExpr); ok && fieldNameOf(f, ix.X) == peerSessF {
				continue // the load
			}
			path, found := core.PathQuery{F: f, From: a.Pt, FromAfter: true, Avoid: core.PointSet(stores...), TargetBlock: caseEnd(f, body), TargetExit: true}.Find()
			c.Check(!found, "readerLoop|changed session list is stored back", "T7 Pairing", a.Stmt.Pos(), "every path from this change of the list to the end of the handler stores it into peerSessions", "the peer's list is changed but not stored (list and table drift apart): "+f.DescribePath(path))
		}
	})

	c.Clause("C17.maps", func() {
		f := c.Fn(seedT + ".readerLoop")
		body, cc := selectCase(f, seedT+".notifyReceivedRequest")
		c.Need(body != nil, "request case")
		var tableStores []core.Point
		for _, a := range assignments(f) {
			if ix, ok := ast.Unparen(a.LHS).(*ast.IndexExpr); ok && fieldNameOf(f, ix.X) == sessionsF && inClause(cc, a.Stmt.Pos()) {
				tableStores = append(tableStores, a.Pt)
			}
		}
		n := 0
		for _, a := range assignments(f) {
			if a.RHS == nil || !inClause(cc, a.Stmt.Pos()) {
				continue
			}
			ap := isCallTo(f, a.RHS, "builtin.append")
			if ap == nil {
				continue
			}
			// appending to the list loaded from peerSessions
			v := varOf(f, ap.Args[0])
			isList := false
			if v != nil {
				for _, d := range assignsToVar(f, v) {
					if ix, ok := ast.Unparen(d.RHS).(*ast.IndexExpr); ok && d.RHS != nil && fieldNameOf(f, ix.X) == peerSessF {
						isList = true
					}
				}
			}
			if !isList {
				continue
			}
			n++
			path, found := core.PathQuery{F: f, From: a.Pt, FromAfter: true, Avoid: core.PointSet(tableStores...), TargetBlock: caseEnd(f, body), TargetExit: true}.Find()
			c.Check(!found, "readerLoop|listed session has a stored state", "T7 Pairing", a.Stmt.Pos(),
				"every path from listing a new session id to the end of the handler stores the session under its key",
				"a session id is listed for the peer without its state being stored (e.g. a request with zero chunks): the next request 'creates' it again, lists it twice and evicts a live session early; path "+f.DescribePath(path))
		}
		c.ExpectAtLeast("session-id appends", n, 1)
		// unregistration
		ub, ucc := selectCase(f, seedT+".notifyUnregisteredPeer")
		c.Need(ub != nil, "unregister case")
		// the peer received from the channel
		var peer *types.Var
		if as, isAs := ucc.Comm.(*ast.AssignStmt); isAs && len(as.Lhs) >= 1 {
			peer = varOf(f, as.Lhs[0])
		}
		c.Need(peer != nil, "the unregister case binds the received peer to a variable")
		region := c17Region{F: f, From: blockEntry(ub), End: caseEnd(f, ub), In: func(p token.Pos) bool { return inClause(ucc, p) }}
		ok, why := c17PeerDropped(region, peer, sessionsF, peerSessF, 2)
		c.Check(ok, "readerLoop|unregister deletes every listed session and the list", "T7 Pairing", posOf(blockEntry(ub)), "every path through the unregister handler walks the whole of peerSessions[peer] deleting each session's table entry, and deletes the list entry (directly or in a helper that always does)", "unregistering a peer leaves sessions or the list behind: "+why)
	})

	c.Clause("C17.latch", func() {
		f := c.Fn(seedT + ".readerLoop")
		_, cc := selectCase(f, seedT+".notifyReceivedRequest")
		c.Need(cc != nil, "request case")
		sends := f.CallsMatching(func(cs *core.CallSite) bool {
			return cs.Name == "utils/workers.Workers.Enqueue" && inClause(cc, cs.Pos())
		})
		c.ExpectAtLeast("response enqueue sites", len(sends), 1)
		doneF := seedP + "sessionState.done"
		notDone := func(ft core.Fact) bool {
			cm, ok := core.NormCmp(ft)
			return ok && cm.R == nil && cm.Op == token.NEQ && fieldNameOf(f, cm.L) == doneF
		}
		for _, s := range sends {
			ok, wit := f.GuardedBy(s.Pt, notDone)
			if ok && f.CanReach(s.Pt, s.Pt) {
				ok, wit = f.GuardedBetween(s.Pt, s.Pt, notDone)
			}
			c.Check(ok, "readerLoop|nothing is sent for a done session", "T4 GuardedBy", s.Pos(), "every response is queued on the !session.done edge, re-tested before each further chunk", "a response can be sent after the session was marked done: "+f.DescribePath(wit))
			// state updated and written back before the response is queued (same iteration)
			var wb, setDone, setNext []core.Point
			var doneRHS ast.Expr
			for _, a := range assignments(f) {
				if !inClause(cc, a.Stmt.Pos()) {
					continue
				}
				if ix, ok := ast.Unparen(a.LHS).(*ast.IndexExpr); ok && fieldNameOf(f, ix.X) == sessionsF {
					wb = append(wb, a.Pt)
				}
				switch fieldNameOf(f, a.LHS) {
				case doneF:
					setDone = append(setDone, a.Pt)
					doneRHS = a.RHS
				case seedP + "sessionState.next":
					if enclosingLoop(f, a.Stmt.Pos()) != nil && f.CanReach(a.Pt, s.Pt) {
						if _, isFor := enclosingLoop(f, a.Stmt.Pos()).(*ast.ForStmt); isFor && a.Tok == token.ASSIGN {
							setNext = append(setNext, a.Pt)
						}
					}
				}
			}
			ok1, _ := precedesLocally(f, wb, s.Pt)
			ok2, _ := precedesLocally(f, setDone, s.Pt)
			ok3, _ := precedesLocally(f, setNext, s.Pt)
			// the stored copy must already contain the updates: every path from an update to the send passes the write-back
			ok4 := true
			for _, upd := range append(append([]core.Point{}, setDone...), setNext...) {
				if f.CanReach(upd, s.Pt) {
					if o, _ := f.MustPassBetween(upd, wb, s.Pt); !o {
						ok4 = false
					}
				}
			}
			c.Check(ok1 && ok2 && ok3 && ok4 && len(wb) > 0, "readerLoop|progress is recorded before the chunk is queued", "T7 Pairing", s.Pos(), "next and done are updated, and only then the state is stored into sessions[key], before each Enqueue", "a chunk can be queued while the stored session state lacks the latest next/done (the state is a value copy): a resumed or finished session repeats items or sends a second 'done' response")
			// resp.Done carries the same flag
			// (either may be copied from the other, or both from one variable; the response may be built
			// field by field or by a composite literal)
			const respDoneF = "gossip/basestream.Response.Done"
			sets := map[string][]c17FieldSet{
				respDoneF: c17FieldSets(f, respDoneF, cc.Pos(), cc.End()),
				doneF:     c17FieldSets(f, doneF, cc.Pos(), cc.End()),
			}
			okD := false
			_ = doneRHS
			for _, rd := range sets[respDoneF] {
				if o, _ := precedesLocally(f, []core.Point{rd.Pt}, s.Pt); !o {
					continue
				}
				src := c17ValueSource(f, rd.RHS, rd.Pt, sets, 4)
				if src == nil {
					continue
				}
				for _, sd := range sets[doneF] {
					if o, _ := precedesLocally(f, []core.Point{sd.Pt}, s.Pt); o && c17ValueSource(f, sd.RHS, sd.Pt, sets, 4) == src {
						okD = true
					}
				}
			}
			c.Check(okD, "readerLoop|response Done equals the session's done flag", "provenance", s.Pos(), "resp.Done and session.done are assigned from the same value", "the response's Done mark and the session's done latch can differ")
		}
	})

	c.Clause("C17.limits", func() {
		f := c.Fn(seedT + ".readerLoop")
		calls := f.CallsTo(seedP + "Callbacks.ForEachItem")
		c.Need(len(calls) == 1 && len(calls[0].Call.Args) == 4, "one ForEachItem(start, type, onKey, onAppended) call")
		call := calls[0]
		// start is session.next
		c.Check(fieldNameOf(f, call.Call.Args[0]) == seedP+"sessionState.next", "iteration starts at session.next", "provenance", call.Pos(), "ForEachItem starts from the stored next locator", "the chunk does not start at the session's next locator")
		onKey, onApp := litArg(f, call.Call, 2), litArg(f, call.Call, 3)
		c.Need(onKey != nil && onApp != nil, "item callbacks are function literals")
		// onKey: returns false when key.Compare(session.stop) >= 0
		key := onKey.Param(0)
		stopFact := func(ft core.Fact) bool {
			cm, ok := core.NormCmp(ft)
			if !ok || cm.R == nil {
				return false
			}
			// Compare(key, stop) >= 0  <=>  0 <= cmp
			var cmpE, zero ast.Expr
			switch {
			case cm.Op == token.LEQ && core.IsConstInt(onKey.Info(), cm.L, 0):
				cmpE, zero = cm.R, cm.L
			default:
				return false
			}
			_ = zero
			cl, ok := ast.Unparen(cmpE).(*ast.CallExpr)
			if !ok || !methodNamed(calleeName(onKey, cl), "Compare") || len(cl.Args) != 1 {
				return false
			}
			sel, ok := cl.Fun.(*ast.SelectorExpr)
			return ok && varOf(onKey, sel.X) == key && fieldNameOf(onKey, cl.Args[0]) == seedP+"sessionState.stop"
		}
		edges := edgesWithFact(onKey, stopFact)
		okStop := len(edges) >= 1
		for _, e := range edges {
			if ok, _ := edgeLeadsOnlyTo(onKey, e.B, e.Succ, func(r *ast.ReturnStmt) bool { return len(r.Results) == 1 && isIdentNamed(r.Results[0], "false") }); !ok {
				okStop = false
			}
		}
		c.Check(okStop, "onKey stops at the stop locator", "T8 DecisionTable", onKey.Pos(), "key >= stop leads only to 'return false' (the stop key itself is excluded)", "items at or beyond the session's stop can be included")
		// true is returned only when key < stop, and lastKey is recorded then
		for _, rp := range returnsWith(onKey, 0, func(e ast.Expr) bool { return isIdentNamed(e, "true") }) {
			var rec []core.Point
			for _, a := range assignments(onKey) {
				if varOf(onKey, a.RHS) == key && a.RHS != nil {
					rec = append(rec, a.Pt)
				}
			}
			ok, _ := onKey.MustPassBefore(rec, rp)
			c.Check(ok, "onKey records the last accepted key", "T2 Dominates", posOf(rp), "every accepted key is remembered (next = lastKey.Inc())", "an accepted key is not remembered: the next chunk would repeat it")
		}
		// onAppended: false when count or size reached
		items := onApp.Param(0)
		namer := func(e ast.Expr) string {
			e = core.StripConv(onApp.Info(), e)
			if cl, ok := ast.Unparen(e).(*ast.CallExpr); ok {
				if sel, ok := cl.Fun.(*ast.SelectorExpr); ok && varOf(onApp, sel.X) == items {
					switch {
					case methodNamed(calleeName(onApp, cl), "Len"):
						return "num"
					case methodNamed(calleeName(onApp, cl), "TotalSize"):
						return "size"
					}
				}
			}
			switch fieldNameOf(onApp, e) {
			case "gossip/basestream.Request.MaxPayloadNum":
				return "maxNum"
			case "gossip/basestream.Request.MaxPayloadSize":
				return "maxSize"
			}
			return ""
		}
		// the limits may be computed into booleans first: collect var := cmp
		boolDefs := map[*types.Var]ast.Expr{}
		for _, a := range assignments(onApp) {
			if v := varOf(onApp, a.LHS); v != nil && a.RHS != nil {
				if _, isBin := ast.Unparen(a.RHS).(*ast.BinaryExpr); isBin {
					boolDefs[v] = a.RHS
				}
			}
		}
		for _, want := range []struct{ name, cmp string }{{"count", "maxNum - num <= 0"}, {"size", "maxSize - size <= 0"}} {
			w := core.ParseLinCmp(want.cmp)
			match := func(ft core.Fact) bool {
				if v := varOf(onApp, ft.Expr); v != nil {
					if def, ok := boolDefs[v]; ok {
						ft = core.Fact{Expr: def, Truth: ft.Truth}
					}
				}
				lc, ok := core.NormLinCmp(onApp.Info(), ft, namer)
				return ok && lc.Equal(w)
			}
			// on any edge where the limit is known reached, only false is returned; and such a test exists
			// (a disjunction's true edge carries no single fact, so test the complement: 'return true' needs the limit NOT reached)
			okAll := true
			nTrue := 0
			for _, rp := range returnsWith(onApp, 0, func(e ast.Expr) bool { return isIdentNamed(e, "true") }) {
				nTrue++
				neg := func(ft core.Fact) bool { return match(core.Fact{Expr: ft.Expr, Truth: !ft.Truth}) }
				if ok, _ := onApp.GuardedBy(rp, neg); !ok {
					okAll = false
				}
			}
			c.Check(okAll && nTrue > 0, "onAppended stops when the "+want.name+" limit is reached", "T4 GuardedBy", onApp.Pos(), "'continue' (true) is returned only on the edge where the "+want.name+" limit is not reached", "the payload can keep growing after the requested "+want.name+" limit is reached")
		}
	})

	c.Clause("C17.pending", func() {
		f := c.Fn(seedT + ".readerLoop")
		_, cc := selectCase(f, seedT+".notifyReceivedRequest")
		c.Need(cc != nil, "request case")
		isPendingAdd := func(g *core.FuncInfo, cs *core.CallSite) bool {
			if cs.Name != "sync/atomic.AddInt64" || len(cs.Call.Args) != 2 {
				return false
			}
			u, ok := ast.Unparen(cs.Call.Args[0]).(*ast.UnaryExpr)
			return ok && u.Op == token.AND && fieldNameOf(g, u.X) == seedT+".pendingResponsesSize"
		}
		adds := f.CallsMatching(func(cs *core.CallSite) bool { return isPendingAdd(f, cs) })
		c.ExpectAtLeast("pending-size additions", len(adds), 1)
		waits := core.Points(f.CallsMatching(func(cs *core.CallSite) bool {
			return cs.Name == seedT+".waitPendingResponsesBelowLimit" && inClause(cc, cs.Pos())
		}))
		for _, ad := range adds {
			// a wait precedes each add in the same iteration
			ok, wit := precedesLocally(f, waits, ad.Pt)
			c.Check(ok, "readerLoop|wait below the limit before adding a response", "T2 Dominates", ad.Pos(), "waitPendingResponsesBelowLimit() precedes every addition, once per chunk", "a response's memory can be added without waiting for the pending size to drop below the limit: "+f.DescribePath(wit))
			// the added amount
			amt := core.StripConv(f.Info(), ad.Call.Args[1])
			mv := varOf(f, amt)
			c.Check(mv != nil, "readerLoop|added amount is a variable", "provenance", ad.Pos(), "the amount is kept in a variable", "the added amount cannot be tracked")
			// the queued closure subtracts the same variable on every path
			okSub := false
			for _, e := range f.CallsTo("utils/workers.Workers.Enqueue") {
				lit := litArg(f, e.Call, 0)
				if lit == nil || !f.CanReach(ad.Pt, e.Pt) {
					continue
				}
				subs := lit.CallsMatching(func(cs *core.CallSite) bool {
					if !isPendingAdd(lit, cs) {
						return false
					}
					u, ok := ast.Unparen(cs.Call.Args[1]).(*ast.UnaryExpr)
					return ok && u.Op == token.SUB && varOf(lit, core.StripConv(lit.Info(), u.X)) == mv && mv != nil
				})
				if len(subs) > 0 {
					okSub = true
					for _, rp := range lit.ReturnPoints() {
						if o, _ := lit.MustPassBefore(core.Points(subs), rp); !o {
							okSub = false
						}
					}
				}
			}
			c.Check(okSub, "readerLoop|sender subtracts what was added", "T7 Pairing", ad.Pos(), "the queued closure subtracts the same amount on every path", "the pending size is not reduced by the same amount after sending (it grows without bound or goes negative)")
		}
		// the wait loop exits only below the limit (or when terminating)
		w := c.Fn(seedT + ".waitPendingResponsesBelowLimit")
		namer := func(e ast.Expr) string {
			e = core.StripConv(w.Info(), e)
			if isCallTo(w, e, "sync/atomic.LoadInt64") != nil {
				return "pending"
			}
			if fieldNameOf(w, e) == seedP+"Config.MaxPendingResponsesSize" {
				return "limit"
			}
			return ""
		}
		want := core.ParseLinCmp("pending - limit + 1 <= 0")
		okW := true
		for _, rp := range w.ReturnPoints() {
			ok, _ := w.GuardedBy(rp, func(ft core.Fact) bool {
				cm, k := core.NormCmp(ft)
				if k && cm.R == nil && cm.Op == token.EQL && fieldNameOf(w, cm.L) == seedT+".done" {
					return true
				}
				lc, k2 := core.NormLinCmp(w.Info(), ft, namer)
				return k2 && lc.Equal(want)
			})
			if !ok {
				okW = false
			}
		}
		c.Check(okW, "wait returns only below the limit", "T4 GuardedBy", w.Pos(), "the wait returns only when pending < limit (or the seeder is terminating)", "the wait can return while the pending size is at or above the limit")
	})
}
