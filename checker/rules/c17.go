package rules

import (
	"go/ast"
	"go/constant"
	"go/token"
	"go/types"

	"golang.org/x/tools/go/cfg"

	"lachk/core"
)

const seedT = "gossip/basestream/basestreamseeder.BaseSeeder"
const seedP = "gossip/basestream/basestreamseeder."

func init() {
	register("C17", "other", "T4 GuardedBy (prune only on create), T7 Pairing (tables consistent, write-back before send), T2 Dominates (pending-memory wait before add), T8 (limit tests of the item callbacks)",
		"Decides the bookkeeping the per-session stream contract depends on, over the request handler of the reader goroutine seen through its calls (the select case and the same-package helpers it is split into; guards, earlier and later statements may live one or more calls up): an existing session is never evicted by a request that resumes a session — deleting another session / shortening the peer's session list happens only on the edge where the requested session was not found, and a changed list is stored back; the peer list and the session table stay consistent (an id appended to the list has its state stored under its key before the handler finishes; unregistering deletes every listed session and the list); the chunk loop runs only while the session is not done, updates next/done and writes the state back before the response is queued, and marks the response done with the same flag, which is defined afresh for every chunk; the item callbacks stop before the stop key and when the requested count or size is reached; pending response memory is added only after waiting below the limit and the queued closure subtracts the same amount on every path. Contents and order of the payload produced by the application callback are not decided.",
		[]string{"ForEachItem / SendChunk callbacks are opaque", "the seeder state is confined to the reader goroutine"},
		runC17)
}

// selectCase finds the select-case body block of f whose communication mentions the given field.
func selectCase(f *core.FuncInfo, field string) (*cfg.Block, *ast.CommClause) {
	for _, b := range f.CFG().Blocks {
		if b.Kind != cfg.KindSelectCaseBody || !b.Live {
			continue
		}
		cc, _ := b.Stmt.(*ast.CommClause)
		if cc == nil || cc.Comm == nil {
			continue
		}
		if mentionsField(f, cc.Comm, field) {
			return b, cc
		}
	}
	return nil, nil
}

// caseEnd: entering the select's done block or the enclosing for-loop's head means the handler finished.
func caseEnd(f *core.FuncInfo, body *cfg.Block) func(*cfg.Block) bool {
	return func(b *cfg.Block) bool {
		if b == body {
			return false
		}
		if b.Kind == cfg.KindSelectDone {
			return true
		}
		// continue target of "for { select {...} }": the outermost for body
		if b.Kind == cfg.KindForBody {
			if fs, ok := b.Stmt.(*ast.ForStmt); ok && fs.Cond == nil && fs.Pos() <= body.Stmt.Pos() && body.Stmt.End() <= fs.End() {
				// only the loop that directly contains the select
				if len(b.Nodes) == 0 || true {
					for _, st := range fs.Body.List {
						if sel, ok := st.(*ast.SelectStmt); ok && sel.Pos() <= body.Stmt.Pos() && body.Stmt.End() <= sel.End() {
							return true
						}
					}
				}
			}
		}
		return false
	}
}

// withinCase restricts analysis to nodes located inside the clause.
func inClause(cc *ast.CommClause, pos token.Pos) bool { return cc.Pos() <= pos && pos < cc.End() }

// c17RequestScope is the request handler of the reader goroutine seen through its calls: the select
// case on notifyReceivedRequest and the helpers it is split into.
func c17RequestScope(c *core.Ctx) *c17Scope {
	f := c.Fn(seedT + ".readerLoop")
	body, cc := selectCase(f, seedT+".notifyReceivedRequest")
	c.Need(body != nil, "readerLoop has a select case on notifyReceivedRequest")
	root := c17Region{F: f, From: blockEntry(body), End: caseEnd(f, body), In: func(p token.Pos) bool { return inClause(cc, p) }}
	return c17ScopeFrom(root, 3)
}

// c17BoolFact reads a fact as "<expr> is true/false": b, !b, b == true, b != false, …
func c17BoolFact(info *types.Info, ft core.Fact) (ast.Expr, bool, bool) {
	cm, ok := core.NormCmp(ft)
	if !ok {
		return nil, false, false
	}
	if cm.R == nil {
		return cm.L, cm.Op == token.EQL, true
	}
	if cm.Op != token.EQL && cm.Op != token.NEQ {
		return nil, false, false
	}
	if v, isConst := core.ConstVal(info, cm.R); isConst && v.Kind() == constant.Bool {
		return cm.L, constant.BoolVal(v) == (cm.Op == token.EQL), true
	}
	return nil, false, false
}

// c17LitArg returns the function literal passed as argument i of the call, directly or through a local
// variable defined once as the literal (nil otherwise).
func c17LitArg(f *core.FuncInfo, call *ast.CallExpr, i int) *core.FuncInfo {
	if i >= len(call.Args) {
		return nil
	}
	lit, ok := c17Through(f)(call.Args[i]).(*ast.FuncLit)
	if !ok {
		return nil
	}
	return f.P.LitInfo(lit)
}

// c17IndexOfField: e is m[k] for the map/slice field.
func c17IndexOfField(f *core.FuncInfo, e ast.Expr, field string) bool {
	ix, ok := ast.Unparen(e).(*ast.IndexExpr)
	return ok && e != nil && fieldNameOf(f, ix.X) == field
}

// c17BuiltFrom: e is the slice variable v or is built from it by append / reslicing (append(v, x),
// v[1:], append(v[1:], x)); single-definition locals are looked through.
func c17BuiltFrom(f *core.FuncInfo, e ast.Expr, v *types.Var) bool {
	for depth := 0; depth < 6 && e != nil; depth++ {
		e = ast.Unparen(e)
		if w := varOf(f, e); w != nil {
			if w == v || canonVar(f, w) == v {
				return true
			}
			d := singleDef(f, w)
			if d == nil {
				return false
			}
			e = d
			continue
		}
		switch x := e.(type) {
		case *ast.SliceExpr:
			e = x.X
		case *ast.CallExpr:
			if isCallTo(f, x, "builtin.append") == nil || len(x.Args) == 0 {
				return false
			}
			e = x.Args[0]
		default:
			return false
		}
	}
	return false
}

// between: every path inside the frame's region from `from` (exclusive) to `to` passes one of via.
func (fr *c17Frame) between(from core.Point, via []core.Point, to core.Point) (bool, []core.Point) {
	path, found := core.PathQuery{F: fr.F, From: from, FromAfter: true, Target: core.PointSet(to), Avoid: core.PointSet(via...),
		AvoidEdge: func(b *cfg.Block, i int) bool { return fr.End != nil && fr.End(b.Succs[i]) }}.Find()
	return !found, path
}

func runC17(c *core.Ctx) {
	sessionsF, peerSessF := seedT+".sessions", seedT+".peerSessions"
	doneF, nextF := seedP+"sessionState.done", seedP+"sessionState.next"
	const enqueueN = "utils/workers.Workers.Enqueue"

	// stores of a session state into the table
	tableStores := func(fr *c17Frame) []core.Point {
		var out []core.Point
		for _, a := range fr.Assignments() {
			if c17IndexOfField(fr.F, a.LHS, sessionsF) {
				out = append(out, a.Pt)
			}
		}
		return out
	}
	sends := func(fr *c17Frame) []core.Point {
		var out []core.Point
		for _, cs := range fr.Calls() {
			if cs.Name == enqueueN && !cs.InGo && !cs.InDefer {
				out = append(out, cs.Pt)
			}
		}
		return out
	}

	c.Clause("C17.prune", func() {
		sc := c17RequestScope(c)
		// lookup of the requested session: session, ok := s.sessions[key]
		lf, okVar, lookupPt := c17SessionLookup(c, sc, sessionsF)
		notFound := c17NotFound(okVar)
		// a fact about the flag speaks about this handler run's lookup: the site comes after it
		afterLookup := func(fr *c17Frame, pt core.Point) bool { return fr != lf || fr.reaches(lookupPt, pt) }
		nDel, nShort := 0, 0
		// deletes from the session table inside the request handler
		for _, fr := range sc.Frames {
			for _, cs := range fr.Calls() {
				if cs.Name != "builtin.delete" || len(cs.Call.Args) != 2 || fieldNameOf(fr.F, cs.Call.Args[0]) != sessionsF {
					continue
				}
				nDel++
				ok, why := sc.Guarded(fr, cs.Pt, notFound, false)
				c.Check(ok && afterLookup(fr, cs.Pt), "readerLoop|session evicted only when a new one is created", "T4 GuardedBy", cs.Pos(),
					"delete(sessions, other) is reached only on the edge where the requested session was not found",
					"a request that resumes an existing session can evict another live session of the peer (it is then restarted from its start: items are sent again): "+why)
			}
		}
		// the peer's list variable(s): loaded from peerSessions
		type listVar struct {
			fr *c17Frame
			v  *types.Var
		}
		var lists []listVar
		for _, fr := range sc.Frames {
			for _, a := range fr.Assignments() {
				if a.RHS != nil && c17IndexOfField(fr.F, a.RHS, peerSessF) {
					if v := varOf(fr.F, a.LHS); v != nil {
						lists = append(lists, listVar{fr, v})
					}
				}
			}
		}
		c.Need(len(lists) > 0, "the peer's session list is loaded into a variable")
		for _, l := range lists {
			fr := l.fr
			var stores []core.Point
			for _, a := range fr.Assignments() {
				// the stored value is the list variable, or is built from it (append(list, id), list[1:])
				if c17IndexOfField(fr.F, a.LHS, peerSessF) && a.RHS != nil && c17BuiltFrom(fr.F, a.RHS, l.v) {
					stores = append(stores, a.Pt)
				}
			}
			via := func(g *c17Frame) []core.Point {
				if g == fr {
					return stores
				}
				return nil
			}
			for _, a := range assignsToVar(fr.F, l.v) {
				if a.RHS == nil || !fr.In(a.Stmt.Pos()) || c17IndexOfField(fr.F, a.RHS, peerSessF) {
					continue
				}
				// shortening of the list
				if _, isSlice := ast.Unparen(a.RHS).(*ast.SliceExpr); isSlice {
					nShort++
					ok, why := sc.Guarded(fr, a.Pt, notFound, false)
					c.Check(ok && afterLookup(fr, a.Pt), "readerLoop|session list shortened only when a new one is created", "T4 GuardedBy", a.Stmt.Pos(),
						"the peer's list is resliced only on the not-found edge", "the peer's session list is shortened by a request that resumes an existing session: "+why)
				}
				// every change of the list is stored back before the handler ends
				ok, why := sc.FollowedBy(fr, a.Pt, via)
				c.Check(ok, "readerLoop|changed session list is stored back", "T7 Pairing", a.Stmt.Pos(), "every path from this change of the list to the end of the handler stores it into peerSessions", "the peer's list is changed but not stored (list and table drift apart): "+why)
			}
		}
		// vacuity only: one instance of each role (table eviction, list shortening)
		c.ExpectAtLeast("evictions from the session table in the request case", nDel, 1)
		c.ExpectAtLeast("shortenings of the peer's session list in the request case", nShort, 1)
	})

	c17SenderClause(c, sessionsF, sends)

	c.Clause("C17.maps", func() {
		sc := c17RequestScope(c)
		stored := func(fr *c17Frame) []core.Point { return sc.MustSites(fr, tableStores) }
		n := 0
		for _, fr := range sc.Frames {
			f := fr.F
			for _, a := range fr.Assignments() {
				if a.RHS == nil {
					continue
				}
				ap := isCallTo(f, a.RHS, "builtin.append")
				if ap == nil || len(ap.Args) == 0 {
					continue
				}
				// appending to the list loaded from peerSessions
				v := varOf(f, ap.Args[0])
				isList := c17IndexOfField(f, ap.Args[0], peerSessF)
				if v != nil {
					for _, d := range assignsToVar(f, v) {
						if d.RHS != nil && c17IndexOfField(f, d.RHS, peerSessF) {
							isList = true
						}
					}
				}
				if !isList {
					continue
				}
				n++
				ok, why := sc.FollowedBy(fr, a.Pt, stored)
				c.Check(ok, "readerLoop|listed session has a stored state", "T7 Pairing", a.Stmt.Pos(),
					"every path from listing a new session id to the end of the handler stores the session under its key",
					"a session id is listed for the peer without its state being stored (e.g. a request with zero chunks): the next request 'creates' it again, lists it twice and evicts a live session early; path "+why)
			}
		}
		c.ExpectAtLeast("session-id appends", n, 1)
		// unregistration
		f := c.Fn(seedT + ".readerLoop")
		ub, ucc := selectCase(f, seedT+".notifyUnregisteredPeer")
		c.Need(ub != nil, "unregister case")
		// the peer received from the channel
		var peer *types.Var
		if as, isAs := ucc.Comm.(*ast.AssignStmt); isAs && len(as.Lhs) >= 1 {
			peer = varOf(f, as.Lhs[0])
		}
		c.Need(peer != nil, "the unregister case binds the received peer to a variable")
		region := c17Region{F: f, From: blockEntry(ub), End: caseEnd(f, ub), In: func(p token.Pos) bool { return inClause(ucc, p) }}
		ok, why := c17PeerDropped(region, peer, sessionsF, peerSessF, 2)
		c.Check(ok, "readerLoop|unregister deletes every listed session and the list", "T7 Pairing", posOf(blockEntry(ub)), "every path through the unregister handler walks the whole of peerSessions[peer] deleting each session's table entry, and deletes the list entry (directly or in a helper that always does)", "unregistering a peer leaves sessions or the list behind: "+why)
	})

	c.Clause("C17.latch", func() {
		sc := c17RequestScope(c)
		notDone := func(g *core.FuncInfo) func(core.Fact) bool {
			return func(ft core.Fact) bool {
				e, truth, ok := c17BoolFact(g.Info(), ft)
				return ok && !truth && fieldNameOf(g, e) == doneF
			}
		}
		fieldSets := func(field string) func(*c17Frame) []core.Point {
			return func(fr *c17Frame) []core.Point {
				var out []core.Point
				for _, a := range fr.Assignments() {
					if fieldNameOf(fr.F, a.LHS) == field && (a.Tok == token.ASSIGN || a.Tok == token.DEFINE) {
						out = append(out, a.Pt)
					}
				}
				return out
			}
		}
		setDone, setNext := fieldSets(doneF), fieldSets(nextF)
		written := func(fr *c17Frame) []core.Point { return sc.MustSites(fr, tableStores) }
		// a helper leaves the stored copy stale when it can return after an update of next/done without
		// having written the state back; its call is then an update from the caller's point of view
		stale := map[*c17Frame]int8{}
		var updates func(fr *c17Frame, depth int) []core.Point
		var leavesStale func(fr *c17Frame, depth int) bool
		updates = func(fr *c17Frame, depth int) []core.Point {
			out := append(setDone(fr), setNext(fr)...)
			if depth <= 0 {
				return out
			}
			for _, cs := range fr.Calls() {
				if g := c17ModuleCallee(cs); g != nil && sc.FrameOf(g) != nil && sc.FrameOf(g) != fr && sc.FrameOf(g).End == nil && leavesStale(sc.FrameOf(g), depth-1) {
					out = append(out, cs.Pt)
				}
			}
			return out
		}
		leavesStale = func(fr *c17Frame, depth int) bool {
			switch stale[fr] {
			case 1:
				return true
			case 2, 3:
				return false
			}
			stale[fr] = 3
			res := false
			for _, u := range updates(fr, depth) {
				if ok, _ := fr.F.MustPassAfter(u, written(fr)); !ok {
					res = true
				}
			}
			stale[fr] = 2
			if res {
				stale[fr] = 1
			}
			return res
		}
		// the stored copy contains the updates whenever a response is queued: in every frame, every
		// path from an update to a send passes the write-back
		okStored, whyStored := true, ""
		for _, fr := range sc.Frames {
			wb := written(fr)
			for _, u := range updates(fr, 3) {
				for _, sp := range sc.MaySites(fr, sends) {
					if !fr.reaches(u, sp) {
						continue
					}
					if o, wit := fr.between(u, wb, sp); !o {
						okStored, whyStored = false, "in "+short(fr.F.Name)+": "+fr.F.DescribePath(wit)
					}
				}
			}
		}
		nSends := 0
		for _, fr := range sc.Frames {
			for _, sp := range sends(fr) {
				nSends++
				pos := posOf(sp)
				ok, why := sc.Guarded(fr, sp, notDone, true)
				c.Check(ok, "readerLoop|nothing is sent for a done session", "T4 GuardedBy", pos, "every response is queued on the !session.done edge, re-tested before each further chunk", "a response can be sent after the session was marked done: "+why)
				// state updated and written back before the response is queued (same iteration)
				ok1, w1 := sc.PrecededBy(fr, sp, written)
				ok2, w2 := sc.PrecededBy(fr, sp, func(g *c17Frame) []core.Point { return sc.MustSites(g, setDone) })
				ok3, w3 := sc.PrecededBy(fr, sp, func(g *c17Frame) []core.Point { return sc.MustSites(g, setNext) })
				why = ""
				switch {
				case !ok1:
					why = "no write-back before the send, " + w1
				case !ok2:
					why = "done not updated before the send, " + w2
				case !ok3:
					why = "next not updated before the send, " + w3
				case !okStored:
					why = "an update reaches the send without the write-back, " + whyStored
				}
				c.Check(ok1 && ok2 && ok3 && okStored, "readerLoop|progress is recorded before the chunk is queued", "T7 Pairing", pos, "next and done are updated, and only then the state is stored into sessions[key], before each Enqueue", "a chunk can be queued while the stored session state lacks the latest next/done (the state is a value copy): a resumed or finished session repeats items or sends a second 'done' response ("+why+")")
			}
		}
		c.ExpectAtLeast("response enqueue sites", nSends, 1)
		// resp.Done carries the same flag (either may be copied from the other, or both from one
		// variable; the response may be built field by field or by a composite literal). Decided in the
		// frame that fills the response, against the point where that frame sends (or calls the helper
		// that sends)
		const respDoneF = "gossip/basestream.Response.Done"
		okD, nD := true, 0
		posD := token.NoPos
		for _, fr := range sc.Frames {
			f := fr.F
			lo, hi := fr.Range()
			sets := map[string][]c17FieldSet{
				respDoneF: c17FieldSets(f, respDoneF, lo, hi),
				doneF:     c17FieldSets(f, doneF, lo, hi),
			}
			if len(sets[respDoneF]) == 0 {
				continue
			}
			targets := sc.MaySites(fr, sends)
			if len(targets) == 0 {
				// the frame fills the response and hands it back to a caller that queues it afterwards:
				// the flag must agree wherever the frame returns
				targets = c17HandedBack(sc, fr, sends)
			}
			for _, sp := range targets {
				same, some := false, false
				for _, rd := range sets[respDoneF] {
					if o, _ := precedesLocally(f, []core.Point{rd.Pt}, sp); !o {
						continue
					}
					some = true
					posD = rd.Pos
					src := c17ValueSource(f, rd.RHS, rd.Pt, sets, 4)
					if src == nil {
						continue
					}
					for _, sd := range sets[doneF] {
						if o, _ := precedesLocally(f, []core.Point{sd.Pt}, sp); o && c17ValueSource(f, sd.RHS, sd.Pt, sets, 4) == src {
							same = true
						}
					}
				}
				if some {
					nD++
					okD = okD && same
				}
			}
		}
		// the flag stored into the latch describes this chunk only: the variable it is copied from is
		// defined afresh on every way round the chunk loop (a flag that survives from an earlier chunk
		// cut by a limit would keep the exhausting chunk from being marked done)
		okF, whyF, posF, nF := true, "", token.NoPos, 0
		for _, fr := range sc.Frames {
			f := fr.F
			lo, hi := fr.Range()
			sets := map[string][]c17FieldSet{doneF: c17FieldSets(f, doneF, lo, hi)}
			for _, sd := range sets[doneF] {
				nF++
				var cands []*types.Var
				if src := c17ValueSource(f, sd.RHS, sd.Pt, sets, 4); src != nil {
					cands = append(cands, src)
				} else {
					ast.Inspect(sd.RHS, func(n ast.Node) bool {
						if id, isID := n.(*ast.Ident); isID {
							if v, isVar := f.Info().Uses[id].(*types.Var); isVar && !v.IsField() {
								if b, isB := v.Type().Underlying().(*types.Basic); isB && b.Info()&types.IsBoolean != 0 {
									cands = append(cands, canonVar(f, v))
								}
							}
						}
						return true
					})
				}
				for _, v := range cands {
					if ok, why := c17ResetPerRound(sc, fr, v, sd.Pt, 3); !ok {
						okF, whyF, posF = false, why, sd.Pos
					}
				}
			}
		}
		c.Check(okF && nF > 0, "readerLoop|the done flag describes the current chunk only", "reaching definitions", posF, "the flag copied into session.done is defined afresh on every way round the chunk loop", "the 'all consumed' flag is carried over from an earlier chunk of the same request: after a chunk cut by the count/size limit the exhausting chunk is sent with Done=false and the session is never marked done ("+whyF+")")
		c.Check(okD && nD > 0, "readerLoop|response Done equals the session's done flag", "provenance", posD, "resp.Done and session.done are assigned from the same value before the response is queued", "the response's Done mark and the session's done latch can differ (or the mark is not set before the response is queued)")
	})

	c.Clause("C17.limits", func() {
		sc := c17RequestScope(c)
		var f *core.FuncInfo
		var call *core.CallSite
		nCalls := 0
		for _, fr := range sc.Frames {
			for _, cs := range fr.Calls() {
				if cs.Name == seedP+"Callbacks.ForEachItem" {
					nCalls++
					f, call = fr.F, cs
				}
			}
		}
		c.Need(nCalls == 1 && len(call.Call.Args) == 4, "one ForEachItem(start, type, onKey, onAppended) call")
		// start is session.next
		c.Check(fieldNameOf(f, c17Through(f)(call.Call.Args[0])) == seedP+"sessionState.next", "iteration starts at session.next", "provenance", call.Pos(), "ForEachItem starts from the stored next locator", "the chunk does not start at the session's next locator")
		onKey, onApp := c17LitArg(f, call.Call, 2), c17LitArg(f, call.Call, 3)
		c.Need(onKey != nil && onApp != nil, "item callbacks are function literals")
		// onKey: returns false when key.Compare(session.stop) >= 0
		key := onKey.Param(0)
		stopFact := func(ft core.Fact) bool {
			cm, ok := core.NormCmp(ft)
			if !ok || cm.R == nil {
				return false
			}
			// Compare(key, stop) >= 0  <=>  0 <= cmp
			var cmpE, zero ast.Expr
			switch {
			case cm.Op == token.LEQ && core.IsConstInt(onKey.Info(), cm.L, 0):
				cmpE, zero = cm.R, cm.L
			default:
				return false
			}
			_ = zero
			cl, ok := ast.Unparen(cmpE).(*ast.CallExpr)
			if !ok || !methodNamed(calleeName(onKey, cl), "Compare") || len(cl.Args) != 1 {
				return false
			}
			sel, ok := cl.Fun.(*ast.SelectorExpr)
			return ok && varOf(onKey, sel.X) == key && fieldNameOf(onKey, cl.Args[0]) == seedP+"sessionState.stop"
		}
		edges := edgesWithFact(onKey, stopFact)
		okStop := len(edges) >= 1
		for _, e := range edges {
			if ok, _ := edgeLeadsOnlyTo(onKey, e.B, e.Succ, func(r *ast.ReturnStmt) bool { return len(r.Results) == 1 && isIdentNamed(r.Results[0], "false") }); !ok {
				okStop = false
			}
		}
		c.Check(okStop, "onKey stops at the stop locator", "T8 DecisionTable", onKey.Pos(), "key >= stop leads only to 'return false' (the stop key itself is excluded)", "items at or beyond the session's stop can be included")
		// true is returned only when key < stop, and lastKey is recorded then
		for _, rp := range returnsWith(onKey, 0, func(e ast.Expr) bool { return isIdentNamed(e, "true") }) {
			var rec []core.Point
			for _, a := range assignments(onKey) {
				if varOf(onKey, a.RHS) == key && a.RHS != nil {
					rec = append(rec, a.Pt)
				}
			}
			ok, _ := onKey.MustPassBefore(rec, rp)
			c.Check(ok, "onKey records the last accepted key", "T2 Dominates", posOf(rp), "every accepted key is remembered (next = lastKey.Inc())", "an accepted key is not remembered: the next chunk would repeat it")
		}
		// onAppended: false when count or size reached
		items := onApp.Param(0)
		namer := func(e ast.Expr) string {
			e = core.StripConv(onApp.Info(), e)
			if cl, ok := ast.Unparen(e).(*ast.CallExpr); ok {
				if sel, ok := cl.Fun.(*ast.SelectorExpr); ok && varOf(onApp, sel.X) == items {
					switch {
					case methodNamed(calleeName(onApp, cl), "Len"):
						return "num"
					case methodNamed(calleeName(onApp, cl), "TotalSize"):
						return "size"
					}
				}
			}
			switch fieldNameOf(onApp, e) {
			case "gossip/basestream.Request.MaxPayloadNum":
				return "maxNum"
			case "gossip/basestream.Request.MaxPayloadSize":
				return "maxSize"
			}
			return ""
		}
		// the limits may be computed into booleans first: collect var := cmp
		boolDefs := map[*types.Var]ast.Expr{}
		for _, a := range assignments(onApp) {
			if v := varOf(onApp, a.LHS); v != nil && a.RHS != nil {
				if _, isBin := ast.Unparen(a.RHS).(*ast.BinaryExpr); isBin {
					boolDefs[v] = a.RHS
				}
			}
		}
		for _, want := range []struct{ name, cmp string }{{"count", "maxNum - num <= 0"}, {"size", "maxSize - size <= 0"}} {
			w := core.ParseLinCmp(want.cmp)
			match := func(ft core.Fact) bool {
				if v := varOf(onApp, ft.Expr); v != nil {
					if def, ok := boolDefs[v]; ok {
						ft = core.Fact{Expr: def, Truth: ft.Truth}
					}
				}
				lc, ok := core.NormLinCmp(onApp.Info(), ft, namer)
				return ok && lc.Equal(w)
			}
			// on any edge where the limit is known reached, only false is returned; and such a test exists
			// (a disjunction's true edge carries no single fact, so test the complement: 'return true' needs the limit NOT reached)
			okAll := true
			nTrue := 0
			for _, rp := range returnsWith(onApp, 0, func(e ast.Expr) bool { return isIdentNamed(e, "true") }) {
				nTrue++
				neg := func(ft core.Fact) bool { return match(core.Fact{Expr: ft.Expr, Truth: !ft.Truth}) }
				if ok, _ := onApp.GuardedBy(rp, neg); !ok {
					okAll = false
				}
			}
			c.Check(okAll && nTrue > 0, "onAppended stops when the "+want.name+" limit is reached", "T4 GuardedBy", onApp.Pos(), "'continue' (true) is returned only on the edge where the "+want.name+" limit is not reached", "the payload can keep growing after the requested "+want.name+" limit is reached")
		}
	})

	c.Clause("C17.pending", func() {
		sc := c17RequestScope(c)
		isPendingAdd := func(g *core.FuncInfo, cs *core.CallSite) bool {
			if cs.Name != "sync/atomic.AddInt64" || len(cs.Call.Args) != 2 {
				return false
			}
			u, ok := ast.Unparen(cs.Call.Args[0]).(*ast.UnaryExpr)
			return ok && u.Op == token.AND && fieldNameOf(g, u.X) == seedT+".pendingResponsesSize"
		}
		waits := func(fr *c17Frame) []core.Point {
			var out []core.Point
			for _, cs := range fr.Calls() {
				if cs.Name == seedT+".waitPendingResponsesBelowLimit" && !cs.InGo && !cs.InDefer {
					out = append(out, cs.Pt)
				}
			}
			return out
		}
		waited := func(fr *c17Frame) []core.Point { return sc.MustSites(fr, waits) }
		nAdds := 0
		for _, fr := range sc.Frames {
			f := fr.F
			for _, ad := range fr.Calls() {
				if !isPendingAdd(f, ad) {
					continue
				}
				nAdds++
				// a wait precedes each add in the same iteration
				ok, why := sc.PrecededBy(fr, ad.Pt, waited)
				c.Check(ok, "readerLoop|wait below the limit before adding a response", "T2 Dominates", ad.Pos(), "waitPendingResponsesBelowLimit() precedes every addition, once per chunk", "a response's memory can be added without waiting for the pending size to drop below the limit: "+why)
				// the added amount
				amt := core.StripConv(f.Info(), ad.Call.Args[1])
				mv := varOf(f, amt)
				c.Check(mv != nil, "readerLoop|added amount is a variable", "provenance", ad.Pos(), "the amount is kept in a variable", "the added amount cannot be tracked")
				// the queued closure subtracts the same variable on every path
				okSub := false
				for _, e := range f.CallsTo(enqueueN) {
					lit := c17LitArg(f, e.Call, 0)
					if lit == nil || !f.CanReach(ad.Pt, e.Pt) {
						continue
					}
					subs := lit.CallsMatching(func(cs *core.CallSite) bool {
						if !isPendingAdd(lit, cs) {
							return false
						}
						u, ok := ast.Unparen(cs.Call.Args[1]).(*ast.UnaryExpr)
						return ok && u.Op == token.SUB && varOf(lit, core.StripConv(lit.Info(), u.X)) == mv && mv != nil
					})
					if len(subs) > 0 {
						okSub = true
						for _, rp := range lit.ReturnPoints() {
							if o, _ := lit.MustPassBefore(core.Points(subs), rp); !o {
								okSub = false
							}
						}
					}
				}
				c.Check(okSub, "readerLoop|sender subtracts what was added", "T7 Pairing", ad.Pos(), "the queued closure subtracts the same amount on every path", "the pending size is not reduced by the same amount after sending (it grows without bound or goes negative)")
			}
		}
		c.ExpectAtLeast("pending-size additions", nAdds, 1)
		// the wait loop exits only below the limit (or when terminating)
		w := c.Fn(seedT + ".waitPendingResponsesBelowLimit")
		namer := func(e ast.Expr) string {
			e = core.StripConv(w.Info(), e)
			if isCallTo(w, e, "sync/atomic.LoadInt64") != nil {
				return "pending"
			}
			if fieldNameOf(w, e) == seedP+"Config.MaxPendingResponsesSize" {
				return "limit"
			}
			return ""
		}
		want := core.ParseLinCmp("pending - limit + 1 <= 0")
		okW := true
		for _, rp := range w.ReturnPoints() {
			ok, _ := w.GuardedBy(rp, func(ft core.Fact) bool {
				cm, k := core.NormCmp(ft)
				if k && cm.R == nil && cm.Op == token.EQL && fieldNameOf(w, cm.L) == seedT+".done" {
					return true
				}
				lc, k2 := core.NormLinCmp(w.Info(), ft, namer)
				return k2 && lc.Equal(want)
			})
			if !ok {
				okW = false
			}
		}
		c.Check(okW, "wait returns only below the limit", "T4 GuardedBy", w.Pos(), "the wait returns only when pending < limit (or the seeder is terminating)", "the wait can return while the pending size is at or above the limit")
	})
}
