package rules

import (
	"go/ast"
	"go/constant"
	"go/token"
	"go/types"

	"golang.org/x/tools/go/cfg"

	"lachk/core"
)

// ---------------------------------------------------------------------------
// generic helpers (c09 prefix; candidates for core)

// c09defPoint returns the CFG point of the single plain definition `v := d` / `v = d` of a local.
func c09defPoint(f *core.FuncInfo, v *types.Var, d ast.Expr) (core.Point, bool) {
	for g := f; g != nil; g = g.Parent {
		for _, a := range assignments(g) {
			if a.RHS == d && varOfRaw(g, a.LHS) == v {
				return a.Pt, g == f
			}
		}
	}
	return core.Point{}, false
}

// c09stable: does the expression d, evaluated at `from`, still have that value at the use point `at`
// (hasAt) or, when the use point is unknown, anywhere later? True when nothing it reads is stored to on
// a path from `from` to the use that does not pass `from` again (passing it again re-evaluates d): no
// assignment to a local it mentions, no assignment to a field it selects (in f's own body; calls are
// not looked into, like resolveLocal). Expressions containing calls are never stable (a call may
// yield something else the next time).
func c09stable(f *core.FuncInfo, d ast.Expr, from, at core.Point, hasAt bool) bool {
	return c09stableAt(f, d, from, at, hasAt, false)
}

// c09stableAt is c09stable with one more piece of knowledge: with rhsUse the use is the right-hand side
// of the plain assignment statement at `at` (`x.f = local`), which is evaluated before that statement
// stores anything — a store made by the using statement itself does not disturb the value read.
func c09stableAt(f *core.FuncInfo, d ast.Expr, from, at core.Point, hasAt, rhsUse bool) bool {
	vars := map[*types.Var]bool{}
	fields := map[string]bool{}
	hasCall := false
	ast.Inspect(d, func(n ast.Node) bool {
		switch x := n.(type) {
		case *ast.FuncLit:
			hasCall = true
			return false
		case *ast.CallExpr:
			if tv, ok := f.Info().Types[x.Fun]; !ok || !tv.IsType() {
				if _, isB := f.ObjOf(x.Fun).(*types.Builtin); !isB {
					hasCall = true
				}
			}
		case *ast.Ident:
			if v, ok := f.Info().ObjectOf(x).(*types.Var); ok && !v.IsField() {
				vars[v] = true
			}
		case *ast.SelectorExpr:
			if s, ok := f.Info().Selections[x]; ok {
				if v, ok := s.Obj().(*types.Var); ok && v.IsField() {
					fields[f.P.FieldName(v)] = true
				}
			}
		}
		return true
	})
	if hasCall {
		return false
	}
	for _, a := range assignments(f) {
		lhs := ast.Unparen(a.LHS)
		touched := false
		if v := varOfRaw(f, lhs); v != nil && vars[v] {
			touched = true
		}
		for e := lhs; !touched; {
			switch x := e.(type) {
			case *ast.IndexExpr:
				e = ast.Unparen(x.X)
				continue
			case *ast.StarExpr:
				e = ast.Unparen(x.X)
				continue
			case *ast.SelectorExpr:
				if s, ok := f.Info().Selections[x]; ok {
					if v, ok := s.Obj().(*types.Var); ok && v.IsField() && fields[f.P.FieldName(v)] {
						touched = true
					}
				}
				e = ast.Unparen(x.X)
				continue
			}
			break
		}
		if !touched || !f.CanReach(from, a.Pt) {
			continue // (CanReach is exclusive of its start: a store at `from` itself counts only on a cycle)
		}
		if !hasAt {
			return false
		}
		if a.Pt == at && a.Pt != from {
			if rhsUse {
				if as, isAs := a.Stmt.(*ast.AssignStmt); isAs && as.Tok == token.ASSIGN && !f.CanReach(at, at) {
					continue // the statement reads its right-hand side first, and is not passed again
				}
			}
			return false // stored in the statement that uses it: order within the statement is not decided
		}
		if _, reach := (core.PathQuery{F: f, From: a.Pt, FromAfter: true, Target: core.PointSet(at), Avoid: core.PointSet(from)}).Find(); reach {
			return false
		}
	}
	// captured and written by a nested literal: give up
	for _, l := range allLits(f) {
		for _, a := range assignments(l) {
			if v := varOfRaw(l, a.LHS); v != nil && vars[v] {
				return false
			}
		}
	}
	return true
}

// c09snapshot looks through a single-definition local that holds a value which cannot change between
// its definition and any later use (`sealed := nv != nil`, `cb := p.callback.EpochDBLoaded`): the
// local then denotes its defining expression. Unlike resolveLocal it accepts a read of a field that is
// written elsewhere in the function, as long as no such write lies between the definition and the use
// (the use point is where e occurs; every step of a chain `b := a; a := x` is checked up to that use).
func c09snapshot(f *core.FuncInfo, e ast.Expr) ast.Expr {
	var at core.Point
	hasAt := false
	if e != nil {
		at, hasAt = f.PointOf(ast.Unparen(e))
	}
	for depth := 0; depth < 5; depth++ {
		e = ast.Unparen(e)
		id, ok := e.(*ast.Ident)
		if !ok || lhsIdents(f)[id] {
			return e
		}
		v, _ := f.Info().ObjectOf(id).(*types.Var)
		d := singleDef(f, v)
		if d == nil && hasAt {
			// a named result / parameter / `var x T` assigned exactly once, on every path to the use
			d = c09soleAssign(f, v, at)
		}
		if d == nil {
			return e
		}
		pt, own := c09defPoint(f, v, d)
		if !own || !c09stable(f, d, pt, at, hasAt) {
			return e
		}
		e = d
	}
	return e
}

// c09soleAssign: the variable (a named result, a parameter, a `var x T` local — anything singleDef
// declines because of an implicit first value) is assigned exactly once in the whole declared function,
// by a plain `v = expr` in f's own body, nothing is stored through it, and that assignment lies on
// every path from the entry to the use point `at`: at the use the variable holds expr.
func c09soleAssign(f *core.FuncInfo, v *types.Var, at core.Point) ast.Expr {
	if v == nil || v.IsField() || v.Pkg() == nil || v.Parent() == v.Pkg().Scope() {
		return nil
	}
	top := f
	for top.Parent != nil {
		top = top.Parent
	}
	var rhs ast.Expr
	var pt core.Point
	n := 0
	for _, g := range append([]*core.FuncInfo{top}, allLits(top)...) {
		for _, a := range assignments(g) {
			if varOfRaw(g, a.LHS) != v {
				root, depth := ast.Unparen(a.LHS), 0
				for {
					switch x := root.(type) {
					case *ast.SelectorExpr:
						root, depth = ast.Unparen(x.X), depth+1
						continue
					case *ast.IndexExpr:
						root, depth = ast.Unparen(x.X), depth+1
						continue
					case *ast.StarExpr:
						root, depth = ast.Unparen(x.X), depth+1
						continue
					}
					break
				}
				if depth > 0 && varOfRaw(g, root) == v {
					return nil
				}
				continue
			}
			if a.RHS == nil {
				if _, isSpec := a.Stmt.(*ast.ValueSpec); isSpec {
					continue
				}
				return nil
			}
			if as, ok := a.Stmt.(*ast.AssignStmt); ok && (len(as.Lhs) != len(as.Rhs) || (as.Tok != token.DEFINE && as.Tok != token.ASSIGN)) {
				return nil
			}
			if g != f {
				return nil
			}
			n++
			rhs, pt = a.RHS, a.Pt
		}
	}
	if n != 1 || pt == at {
		return nil
	}
	if ok, _ := f.MustPassBefore([]core.Point{pt}, at); !ok {
		return nil
	}
	return rhs
}

// c09sitesUnless lists the occurrences of an effect (a call accepted by pred) in f, looking into module
// helpers up to depth: Chain[0] is the call in f, Chain[len-1] the effect itself. A helper counts when
// it contains exactly one occurrence, not in a loop, which lies on every path through the helper that
// takes no edge accepted by unless(helper) — "the helper performs the effect unless <guard>" (a
// nil-guarded callback invocation moved into a method keeps its guard with it). With unless == nil the
// effect must be on every returning path. Methods must be called on f's own receiver.
func c09sitesUnless(f *core.FuncInfo, pred func(*core.CallSite) bool, unless func(g *core.FuncInfo) func(*cfg.Block, int) bool, depth int) []c08site {
	var out []c08site
	for _, cs := range f.Calls() {
		if cs.InGo || cs.InDefer {
			continue
		}
		if pred(cs) {
			out = append(out, c08site{[]*core.CallSite{cs}})
			continue
		}
		if depth <= 0 {
			continue
		}
		fn, ok := cs.Callee.(*types.Func)
		if !ok {
			continue
		}
		g := f.P.FuncOf(fn)
		if g == nil || g == f {
			continue
		}
		if g.Recv() != nil && f.Recv() != nil && cs.Recv() != nil {
			root, _ := fieldPath(f, cs.Recv())
			if rv := varOfRaw(f, root); rv != nil && canonVar(f, rv) != f.Recv() && types.Identical(rv.Type(), f.Recv().Type()) {
				continue // the same type's method on another object
			}
		}
		inner := c09sitesUnless(g, pred, unless, depth-1)
		if len(inner) != 1 {
			continue
		}
		in := inner[0].Outer()
		var skipEdge func(*cfg.Block, int) bool
		if unless != nil {
			skipEdge = unless(g)
		}
		if _, skip := (core.PathQuery{F: g, From: g.Entry(), Avoid: core.PointSet(in.Pt), AvoidEdge: skipEdge, TargetExit: true}).Find(); skip {
			continue
		}
		if g.CanReach(in.Pt, in.Pt) {
			continue
		}
		out = append(out, c08site{append([]*core.CallSite{cs}, inner[0].Chain...)})
	}
	return out
}

// c09callbackSites: the invocations of the function stored in the named callback field reachable from
// f (directly, through a local holding the field, or in a helper that invokes it unless the field is nil).
func c09callbackSites(f *core.FuncInfo, field string) []c08site {
	pred := func(cs *core.CallSite) bool {
		if cs.IsConv {
			return false
		}
		return cs.Name == field || c09fieldOf(cs.F, cs.Call.Fun) == field
	}
	unless := func(g *core.FuncInfo) func(*cfg.Block, int) bool {
		return g.GuardEdges(c09fieldNilFact(g, field, true))
	}
	return c09sitesUnless(f, pred, unless, 2)
}

// c09fieldOf is fieldNameOf with c09snapshot look-through.
func c09fieldOf(f *core.FuncInfo, e ast.Expr) string {
	if e == nil {
		return ""
	}
	if n := fieldNameOf(f, e); n != "" {
		return n
	}
	sel, ok := c09snapshot(f, e).(*ast.SelectorExpr)
	if !ok {
		return ""
	}
	if s, ok := f.Info().Selections[sel]; ok {
		if v, ok := s.Obj().(*types.Var); ok && v.IsField() {
			return f.P.FieldName(v)
		}
	}
	return ""
}

// c09funcFieldCalls lists the calls of the function value stored in the named field, whether the field
// is called directly (`p.callback.X(a)`) or through a local holding it (`x := p.callback.X; x(a)`).
func c09funcFieldCalls(f *core.FuncInfo, field string) []*core.CallSite {
	return f.CallsMatching(func(cs *core.CallSite) bool {
		if cs.IsConv {
			return false
		}
		return cs.Name == field || c09fieldOf(f, cs.Call.Fun) == field
	})
}

// c09fieldNilFact is fieldNilFact with c09snapshot look-through of the tested expression.
func c09fieldNilFact(f *core.FuncInfo, field string, wantNil bool) func(core.Fact) bool {
	return c09lift(f, func(ft core.Fact) bool {
		cm, ok := core.NormCmp(ft)
		if !ok || cm.R == nil {
			return false
		}
		l, r := cm.L, cm.R
		if core.IsNil(f.Info(), l) {
			l, r = r, l
		}
		if !core.IsNil(f.Info(), r) || c09fieldOf(f, l) != field {
			return false
		}
		if wantNil {
			return cm.Op == token.EQL
		}
		return cm.Op == token.NEQ
	})
}

// c09facts expands a branch fact through boolean locals: with `sealed := nv != nil`, the fact
// "sealed is false" also gives "nv != nil is false"; `b == true`, `b != false`, `!b` are normalised.
// Conjunctions/disjunctions are decomposed as core.Decompose does.
func c09facts(f *core.FuncInfo, ft core.Fact, depth int) []core.Fact {
	out := []core.Fact{ft}
	if depth > 4 {
		return out
	}
	e := ast.Unparen(ft.Expr)
	truth := ft.Truth
	// b == true / b != false / true == b ...
	if be, ok := e.(*ast.BinaryExpr); ok && (be.Op == token.EQL || be.Op == token.NEQ) {
		for _, pair := range [][2]ast.Expr{{be.X, be.Y}, {be.Y, be.X}} {
			if cv, isC := core.ConstVal(f.Info(), pair[1]); isC && cv.Kind() == constant.Bool {
				if _, isID := ast.Unparen(pair[0]).(*ast.Ident); isID {
					t := (be.Op == token.EQL) == constant.BoolVal(cv)
					if !truth {
						t = !t
					}
					return append(out, c09facts(f, core.Fact{Expr: pair[0], Truth: t}, depth+1)...)
				}
			}
		}
		return out
	}
	id, ok := e.(*ast.Ident)
	if !ok {
		return out
	}
	v, _ := f.Info().ObjectOf(id).(*types.Var)
	if v == nil {
		return out
	}
	if b, isB := v.Type().Underlying().(*types.Basic); !isB || b.Info()&types.IsBoolean == 0 {
		return out
	}
	d := c09snapshot(f, id)
	if d == ast.Expr(id) {
		return out
	}
	for _, sub := range core.Decompose(d, truth) {
		out = append(out, c09facts(f, sub, depth+1)...)
	}
	return out
}

// c09lift makes a fact predicate see through boolean locals (see c09facts).
func c09lift(f *core.FuncInfo, match func(core.Fact) bool) func(core.Fact) bool {
	return func(ft core.Fact) bool {
		for _, x := range c09facts(f, ft, 0) {
			if match(x) {
				return true
			}
		}
		return false
	}
}

// c09storeSites returns the points of f at which the field `field` of f's receiver is overwritten with
// a value accepted by `fresh`: direct assignments `recv.field = v`, plus calls of module methods on the
// same receiver which (must) on every returning path pass such a point, or (!must) contain such a point
// somewhere (bounded depth). It is SitesMust/SitesMay for a field store instead of a call.
func c09storeSites(f *core.FuncInfo, field string, fresh func(g *core.FuncInfo, rhs ast.Expr) bool, must bool, depth int) []core.Point {
	memo := map[*core.FuncInfo]int{}
	var always func(g *core.FuncInfo, d int) bool
	var sites func(g *core.FuncInfo, d int) []core.Point
	sites = func(g *core.FuncInfo, d int) []core.Point {
		var out []core.Point
		recv := g.Recv()
		if recv == nil {
			return nil
		}
		for _, a := range assignments(g) {
			sel, ok := ast.Unparen(a.LHS).(*ast.SelectorExpr)
			if !ok || fieldNameOf(g, sel) != field || a.RHS == nil {
				continue
			}
			if canonVar(g, varOfRaw(g, sel.X)) != recv {
				continue
			}
			if a.Tok == token.ASSIGN && fresh(g, a.RHS) {
				out = append(out, a.Pt)
			}
		}
		if d <= 0 {
			return out
		}
		for _, cs := range g.Calls() {
			if cs.InGo || cs.InDefer || cs.Recv() == nil {
				continue
			}
			fn, ok := cs.Callee.(*types.Func)
			if !ok {
				continue
			}
			ci := g.P.FuncOf(fn)
			if ci == nil || ci == g {
				continue
			}
			// the callee works on the same object: receiver expression is g's receiver (promoted
			// methods of an embedded struct reach the same embedded object)
			root, _ := fieldPath(g, cs.Recv())
			if canonVar(g, varOfRaw(g, root)) != recv {
				continue
			}
			if always(ci, d-1) {
				out = append(out, cs.Pt)
			}
		}
		return out
	}
	always = func(g *core.FuncInfo, d int) bool {
		switch memo[g] {
		case 1:
			return true
		case 2, 3:
			return false
		}
		memo[g] = 3
		pts := sites(g, d)
		ok := len(pts) > 0
		if ok && must {
			_, found := core.PathQuery{F: g, From: g.Entry(), Avoid: core.PointSet(pts...), TargetExit: true}.Find()
			ok = !found
		}
		if ok {
			memo[g] = 1
		} else {
			memo[g] = 2
		}
		return ok
	}
	return sites(f, depth)
}

// ---------------------------------------------------------------------------
// C09.index: the vector index forgets the sealed epoch when it is reset over the new epoch's database

func c09Index(c *core.Ctx) {
	c.Clause("C09.index", func() {
		const biFld = "vecengine.Engine.bi"
		c.Fld(biFld)
		rs := c.Fn("vecengine.Engine.Reset")
		isNil := func(g *core.FuncInfo, rhs ast.Expr) bool { return core.IsNil(g.Info(), rhs) }
		clears := c09storeSites(rs, biFld, isNil, true, 3)
		ok := len(clears) > 0
		var wit []core.Point
		if ok {
			var found bool
			wit, found = core.PathQuery{F: rs, From: rs.Entry(), Avoid: core.PointSet(clears...), TargetExit: true}.Find()
			ok = !found
		}
		detail := "the cached branch info of the previous epoch survives Engine.Reset (no unconditional bi = nil in Reset or in a method it always calls): after a seal or Reset the new epoch is indexed with the old epoch's branch table (too few branches for a larger validator set), frames are computed wrongly and a sealing instance diverges from one reset directly to that epoch"
		if len(wit) > 0 {
			detail += "; path " + rs.DescribePath(wit)
		}
		c.Check(ok, "Engine.Reset|cached branch info is dropped on every path", "T3 PostDominates (callee summaries)", rs.Pos(), "every path through Engine.Reset sets bi = nil (directly or in a method it always calls): the next event reloads the branch info from the new epoch's database", detail)
		// nothing re-loads the branch info inside Reset before the new database's tables are installed
		mig := core.Points(rs.CallsTo("kvdb/table.MigrateTables"))
		notNil := func(g *core.FuncInfo, rhs ast.Expr) bool { return !core.IsNil(g.Info(), rhs) }
		for _, ld := range c09storeSites(rs, biFld, notNil, false, 3) {
			o, _ := rs.MustPassBefore(mig, ld)
			c.Check(o && len(mig) > 0, "Engine.Reset|branch info is not re-loaded before the new tables are installed", "T2 Dominates", posOf(ld), "the load follows MigrateTables", "Engine.Reset loads the branch info before the new epoch's tables are installed: it reads the old epoch's record")
		}
		// the index the consensus uses resets its engine: every implementation of Reset on a type that embeds Engine calls Engine.Reset
		n := 0
		for _, g := range c.P.Funcs() {
			if g.Obj == nil || g.Obj.Name() != "Reset" || g == rs || g.Recv() == nil {
				continue
			}
			if !c09embeds(g.Recv().Type(), "vecengine.Engine", c.P) {
				continue
			}
			n++
			calls := core.Points(g.CallsTo("vecengine.Engine.Reset"))
			o := len(calls) > 0
			if o {
				_, miss := core.PathQuery{F: g, From: g.Entry(), Avoid: core.PointSet(calls...), TargetExit: true}.Find()
				o = !miss
			}
			c.Check(o, short(g.Name)+"|resets the embedded engine", "T3 PostDominates", g.Pos(), "every path calls Engine.Reset", short(g.Name)+" can return without resetting the embedded vector engine: the old epoch's vectors/branches stay in use")
		}
		c.ExpectAtLeast("index types wrapping the vector engine with their own Reset", n, 1)
	})
}

// c09embeds: does the (pointer to) struct type embed the named struct type?
func c09embeds(t types.Type, name string, p *core.Prog) bool {
	if pt, ok := t.Underlying().(*types.Pointer); ok {
		t = pt.Elem()
	}
	st, ok := t.Underlying().(*types.Struct)
	if !ok {
		return false
	}
	for i := 0; i < st.NumFields(); i++ {
		fl := st.Field(i)
		if !fl.Embedded() {
			continue
		}
		ft := fl.Type()
		if pt, ok := ft.(*types.Pointer); ok {
			ft = pt.Elem()
		}
		if nt, ok := ft.(*types.Named); ok && p.ObjName(nt.Obj()) == name {
			return true
		}
	}
	return false
}
