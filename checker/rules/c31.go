package rules

import (
	"fmt"
	"go/ast"
	"go/constant"
	"go/token"
	"go/types"
	"math"
	"sort"
	"strings"

	"golang.org/x/tools/go/cfg"

	"lachk/core"
)

const (
	c31Pkg  = "utils/piecefunc"
	c31DotX = c31Pkg + ".Dot.X"
	c31DotY = c31Pkg + ".Dot.Y"
	c31Dots = c31Pkg + ".Func.dots"
)

func init() {
	register("C31", "other", "T8 DecisionTable (normalised guards, per-dot rows on every iteration), T15 ConstRelation (go/constant, exact), T4 GuardedBy, T2 Dominates, expression-shape comparison after substitution of single-assignment locals",
		"Decides the shape that the piecewise-linear function's range, clamping and neighbour selection depend on. NewFunc: fewer than two dots, X[i] <= previous X for i >= 1 (the previous X is recorded at the end of every iteration, after the test), Y > maxVal and X > maxVal each lead only to a panic, are evaluated for every dot of a complete range over the argument, and the returned closure is Func{dots: argument}.Get behind all of them. "+
			"Constants (exact, go/constant): DecimalUnit is a positive integer, maxVal*DecimalUnit <= MaxUint64; Mul is a*b/DecimalUnit and Div is a*DecimalUnit/b on uint64, so with coordinates <= maxVal (NewFunc) and weights <= DecimalUnit the three products of Get (Div's a*DecimalUnit, Mul's a*b twice) are at most maxVal*DecimalUnit and cannot wrap. "+
			"Get: x below (or at) the first dot's X returns only the first dot's Y, x above (or at) the last dot's X only the last dot's Y, and the interpolation is reachable only behind both complementary edges; the piece index starts at len-2, is replaced by i-1 at the first i of a forward range over all dots with X[i] > x (then the loop is left), every earlier iteration evaluates that test; the result is Mul(Y[p], DecimalUnit-r) + Mul(Y[p+1], r) with r = Div(x-X[p], X[p+1]-X[p]) for that index p (neighbouring dots, weights summing to DecimalUnit). "+
			"Loops are read as iterations (core.IterationOf): a range or a counted loop stepping by one; NewFunc's per-dot rows need index 0..len-1 (the neighbour comparison X[i] <= X[i-1] may start at 1), Get's search needs every inner index 1..len-2 in ascending order; single-definition temporaries are substituted. "+
			"Not decided: the numeric rounding bounds of the statement (at most the larger Y, at least the smaller minus one, within |dY|/10^6+2 of the exact value) - they follow from the decided shape by a pen-and-paper argument (two floor divisions lose less than 1 each, r loses less than one unit of 10^-6) that the checker does not perform; r <= DecimalUnit (no underflow of DecimalUnit-r) relies on x <= X[p+1], which follows from the decided search shape and the upper clamp but is not derived mechanically; the caller mutating the dots slice after NewFunc.",
		[]string{"uint64 arithmetic wraps only when a product exceeds MaxUint64 (Go spec)", "the caller does not modify the dots slice after NewFunc"},
		runC31)
}

// ---------------------------------------------------------------------------
// canonical expressions with substitution of single-assignment locals

type c31Ctx struct {
	f      *core.FuncInfo
	roles  map[*types.Var]string // parameters, loop keys, the piece index
	elem   map[*types.Var]string // range value variables over the dots -> index form ("i")
	defs   map[*types.Var]ast.Expr
	orig   map[ast.Node]ast.Node
	isDots func(ast.Expr) bool
}

func c31New(f *core.FuncInfo) *c31Ctx {
	x := &c31Ctx{f: f, roles: map[*types.Var]string{}, elem: map[*types.Var]string{}, defs: map[*types.Var]ast.Expr{}, orig: map[ast.Node]ast.Node{}}
	all := assignments(f)
	count := map[*types.Var]int{}
	for _, a := range all {
		if v := varOf(f, a.LHS); v != nil {
			count[v]++
		}
	}
	for _, a := range all {
		v := varOf(f, a.LHS)
		if v == nil || count[v] != 1 || a.RHS == nil || a.Tok != token.DEFINE && a.Tok != token.ASSIGN {
			continue
		}
		if as, ok := a.Stmt.(*ast.AssignStmt); ok && len(as.Lhs) != len(as.Rhs) {
			continue
		}
		if _, ok := a.Stmt.(*ast.RangeStmt); ok {
			continue
		}
		// the definition may be substituted at its uses only if nothing it reads is assigned between the
		// definition and a use: no use is reachable from such an assignment without passing the
		// definition again (so `dot := dots[i]` inside a counted loop is transparent although i++ follows)
		safe := true
		var uses []core.Point
		f.InspectOwn(func(n ast.Node) bool {
			if id, ok := n.(*ast.Ident); ok && f.Info().Uses[id] == types.Object(v) {
				if pt, ok := f.PointOf(id); ok {
					uses = append(uses, pt)
				} else {
					safe = false
				}
			}
			return true
		})
		ast.Inspect(a.RHS, func(n ast.Node) bool {
			id, ok := n.(*ast.Ident)
			if !ok {
				return true
			}
			w, _ := f.Info().ObjectOf(id).(*types.Var)
			if w == nil || count[w] <= 1 {
				return true
			}
			for _, a2 := range all {
				if varOf(f, a2.LHS) != w {
					continue
				}
				if a2.Pt == a.Pt {
					safe = false
					continue
				}
				if _, found := (core.PathQuery{F: f, From: a2.Pt, FromAfter: true, Target: core.PointSet(uses...), Avoid: core.PointSet(a.Pt)}).Find(); found {
					safe = false
				}
			}
			return true
		})
		if safe {
			x.defs[v] = a.RHS
		}
	}
	return x
}

// subst copies e with every substitutable local replaced by its definition.
func (x *c31Ctx) subst(e ast.Expr) ast.Expr {
	switch n := e.(type) {
	case *ast.Ident:
		if v := varOf(x.f, n); v != nil {
			if d, ok := x.defs[v]; ok {
				return &ast.ParenExpr{X: x.subst(d)}
			}
		}
	case *ast.ParenExpr:
		return x.subst(n.X)
	case *ast.BinaryExpr:
		l, r := x.subst(n.X), x.subst(n.Y)
		if l != n.X || r != n.Y {
			cp := *n
			cp.X, cp.Y = l, r
			x.orig[&cp] = x.origOf(n)
			return &cp
		}
	case *ast.UnaryExpr:
		if s := x.subst(n.X); s != n.X {
			cp := *n
			cp.X = s
			x.orig[&cp] = x.origOf(n)
			return &cp
		}
	case *ast.StarExpr:
		if s := x.subst(n.X); s != n.X {
			cp := *n
			cp.X = s
			x.orig[&cp] = x.origOf(n)
			return &cp
		}
	case *ast.SelectorExpr:
		if s := x.subst(n.X); s != n.X {
			cp := *n
			cp.X = s
			x.orig[&cp] = x.origOf(n)
			return &cp
		}
	case *ast.IndexExpr:
		a, i := x.subst(n.X), x.subst(n.Index)
		if a != n.X || i != n.Index {
			cp := *n
			cp.X, cp.Index = a, i
			x.orig[&cp] = x.origOf(n)
			return &cp
		}
	case *ast.CallExpr:
		changed := false
		args := make([]ast.Expr, len(n.Args))
		for i, a := range n.Args {
			args[i] = x.subst(a)
			if args[i] != a {
				changed = true
			}
		}
		if changed {
			cp := *n
			cp.Args = args
			x.orig[&cp] = x.origOf(n)
			return &cp
		}
	}
	return e
}

func (x *c31Ctx) origOf(n ast.Node) ast.Node {
	if o, ok := x.orig[n]; ok {
		return o
	}
	return n
}

func (x *c31Ctx) fieldName(sel *ast.SelectorExpr) string {
	o, _ := x.origOf(sel).(*ast.SelectorExpr)
	if o == nil {
		return ""
	}
	return fieldNameOf(x.f, o)
}

func (x *c31Ctx) callee(call *ast.CallExpr) string {
	o, _ := x.origOf(call).(*ast.CallExpr)
	if o == nil {
		return ""
	}
	return calleeName(x.f, o)
}

// lin brings an integer expression to its linear form over role names.
func (x *c31Ctx) lin(e ast.Expr) *core.Lin { return core.Linearize(x.f.Info(), x.subst(e), x.name) }

// canon is the canonical string of an integer expression.
func (x *c31Ctx) canon(e ast.Expr) string { return x.lin(e).String() }

// c31Idx renders an index form compactly: "0", "p", "p+1", "ndots-1".
func c31Idx(l *core.Lin) string {
	keys := make([]string, 0, len(l.Coef))
	for k := range l.Coef {
		keys = append(keys, k)
	}
	sort.Strings(keys)
	var sb strings.Builder
	for _, k := range keys {
		c := l.Coef[k]
		switch {
		case c.IsInt64() && c.Int64() == 1:
			if sb.Len() > 0 {
				sb.WriteString("+")
			}
			sb.WriteString(k)
		case c.IsInt64() && c.Int64() == -1:
			sb.WriteString("-" + k)
		default:
			fmt.Fprintf(&sb, "%+d*%s", c, k)
		}
	}
	if l.C.Sign() != 0 || sb.Len() == 0 {
		if sb.Len() > 0 {
			fmt.Fprintf(&sb, "%+d", l.C)
		} else {
			fmt.Fprintf(&sb, "%d", l.C)
		}
	}
	return sb.String()
}

// dotIndex: the index form of an expression denoting one dot of the list ("" if it is not one).
func (x *c31Ctx) dotIndex(e ast.Expr) string {
	switch n := ast.Unparen(e).(type) {
	case *ast.IndexExpr:
		if x.isDots != nil && x.isDots(n.X) {
			return c31Idx(x.lin(n.Index))
		}
	case *ast.Ident:
		if v := varOf(x.f, n); v != nil {
			return x.elem[v]
		}
	}
	return ""
}

// name is the AtomNamer: parameters and loop variables by role, len(dots), coordinates of a dot as
// X[index] / Y[index], Mul/Div calls and products/quotients structurally.
func (x *c31Ctx) name(e ast.Expr) string {
	e = ast.Unparen(x.subst(e))
	switch n := e.(type) {
	case *ast.Ident:
		if v := varOf(x.f, n); v != nil {
			return x.roles[v]
		}
	case *ast.CallExpr:
		nm := x.callee(n)
		switch {
		case nm == "builtin.len" && len(n.Args) == 1 && x.isDots != nil && x.isDots(n.Args[0]):
			return "ndots"
		case nm == c31Pkg+".Mul" && len(n.Args) == 2:
			a, b := x.canon(n.Args[0]), x.canon(n.Args[1])
			if b < a {
				a, b = b, a
			}
			return "Mul(" + a + ", " + b + ")"
		case nm == c31Pkg+".Div" && len(n.Args) == 2:
			return "Div(" + x.canon(n.Args[0]) + ", " + x.canon(n.Args[1]) + ")"
		}
	case *ast.SelectorExpr:
		coord := ""
		switch x.fieldName(n) {
		case c31DotX:
			coord = "X"
		case c31DotY:
			coord = "Y"
		}
		if coord != "" {
			if idx := x.dotIndex(x.subst(n.X)); idx != "" {
				return coord + "[" + idx + "]"
			}
		}
	case *ast.BinaryExpr:
		switch n.Op {
		case token.MUL:
			a, b := x.canon(n.X), x.canon(n.Y)
			if b < a {
				a, b = b, a
			}
			return "mul{" + a + " , " + b + "}"
		case token.QUO:
			return "quo{" + x.canon(n.X) + " , " + x.canon(n.Y) + "}"
		}
	}
	return ""
}

// c31Form renders a linear form exactly as core.Lin.String does: c31Form(1, "+x", "-X[0]").
func c31Form(c string, terms ...string) string {
	type term struct{ k, sign string }
	var ts []term
	for _, t := range terms {
		ts = append(ts, term{t[1:], t[:1]})
	}
	sort.Slice(ts, func(i, j int) bool { return ts[i].k < ts[j].k })
	var sb strings.Builder
	for _, t := range ts {
		sb.WriteString(t.sign + "1*" + t.k + " ")
	}
	if !strings.HasPrefix(c, "-") && !strings.HasPrefix(c, "+") {
		c = "+" + c
	}
	return sb.String() + c
}

func c31Le(c string, terms ...string) string { return c31Form(c, terms...) + " <= 0" }

func c31ConstInt(v constant.Value) (constant.Value, bool) {
	if v == nil {
		return nil, false
	}
	i := constant.ToInt(v)
	return i, i.Kind() == constant.Int
}

// ---------------------------------------------------------------------------

func runC31(c *core.Ctx) {
	p := c.P
	var decStr, maxStr, maxPlus1 string

	c.Clause("C31.consts", func() {
		dc := p.LookupConst(c31Pkg + ".DecimalUnit")
		mc := p.LookupConst(c31Pkg + ".maxVal")
		c.Need(dc != nil && mc != nil, "constants DecimalUnit and maxVal of utils/piecefunc")
		dec, okD := c31ConstInt(dc.Val())
		mv, okM := c31ConstInt(mc.Val())
		c.Check(okD && constant.Sign(dec) > 0, "DecimalUnit is a positive integer", "T15 ConstRelation", dc.Pos(), "DecimalUnit = "+dc.Val().ExactString()+" converts to uint64 exactly", "DecimalUnit is not a positive integer constant: ratios lose their unit")
		c.Need(okD && okM && constant.Sign(dec) > 0, "integer values of DecimalUnit and maxVal")
		decStr, maxStr = dec.ExactString(), mv.ExactString()
		maxPlus1 = constant.BinaryOp(mv, token.ADD, constant.MakeInt64(1)).ExactString()
		maxU := constant.MakeUint64(math.MaxUint64)
		prod := constant.BinaryOp(mv, token.MUL, dec)
		c.Check(constant.Compare(prod, token.LEQ, maxU), "maxVal*DecimalUnit <= MaxUint64", "T15 ConstRelation", mc.Pos(),
			fmt.Sprintf("%s * %s = %s <= %s: a coordinate within the supported range times a weight of at most DecimalUnit does not wrap", maxStr, decStr, prod.ExactString(), maxU.ExactString()),
			fmt.Sprintf("%s * %s = %s exceeds MaxUint64 = %s: for dots that NewFunc accepts, a*DecimalUnit in Div or a*b in Mul wraps and Get returns garbage", maxStr, decStr, prod.ExactString(), maxU.ExactString()))
		c.Check(constant.Sign(mv) > 0, "maxVal is positive", "T15 ConstRelation", mc.Pos(), "the supported range is not empty", "maxVal is not positive: every dot list is rejected")
	})

	c.Clause("C31.muldiv", func() {
		c.Need(decStr != "", "value of DecimalUnit")
		for _, spec := range []struct{ fn, want, what, breaks string }{
			{"Mul", c31Form("0", "+quo{"+c31Form("0", "+mul{"+c31Form("0", "+a")+" , "+c31Form("0", "+b")+"}")+" , +"+decStr+"}"), "a*b/DecimalUnit", "the product of a coordinate and a weight is not scaled back by DecimalUnit after the multiplication: precision or range of the interpolation changes"},
			{"Div", c31Form("0", "+quo{+"+decStr+"*a +0 , "+c31Form("0", "+b")+"}"), "a*DecimalUnit/b", "the ratio is not (a*DecimalUnit)/b: it is not expressed in DecimalUnit or loses precision before the division"},
		} {
			f := c.Fn(c31Pkg + "." + spec.fn)
			x := c31New(f)
			a, b := f.Param(0), f.Param(1)
			c.Need(a != nil && b != nil, spec.fn+" has two named parameters")
			x.roles[a], x.roles[b] = "a", "b"
			rps := f.ReturnPoints()
			got := ""
			ok := len(rps) == 1
			if ok {
				r := rps[0].Node().(*ast.ReturnStmt)
				ok = len(r.Results) == 1
				if ok {
					got = x.canon(r.Results[0])
					ok = got == spec.want
				}
			}
			u64 := true
			sig := f.Obj.Type().(*types.Signature)
			for i := 0; i < sig.Params().Len(); i++ {
				bt, isB := sig.Params().At(i).Type().Underlying().(*types.Basic)
				u64 = u64 && isB && bt.Kind() == types.Uint64
			}
			c.Check(ok && u64, spec.fn+" is "+spec.what, "T15 ConstRelation (operand shape)", f.Pos(),
				spec.fn+" computes "+spec.what+" on uint64: with the first operand <= maxVal and the other <= DecimalUnit the product is at most maxVal*DecimalUnit",
				spec.fn+" is not "+spec.what+" on uint64 (got "+got+"): "+spec.breaks)
		}
	})

	c.Clause("C31.newfunc", func() {
		c.Need(maxStr != "", "value of maxVal")
		f := c.Fn(c31Pkg + ".NewFunc")
		dotsP := f.Param(0)
		c.Need(dotsP != nil, "NewFunc has a named dots parameter")
		x := c31New(f)
		x.isDots = func(e ast.Expr) bool { return varOf(f, ast.Unparen(e)) == dotsP }
		// the validation loop: an iteration over the dots argument, written as a range or as a counted loop
		its := c13Loops(f, func(coll ast.Expr) string {
			if x.isDots(coll) {
				return "events"
			}
			return ""
		})
		c.Need(len(its) == 1 && its[0].key != nil, "exactly one loop over the dots argument (range or counted up to len(dots)) with an index variable")
		it := its[0]
		loop, key, val := it.stmt, it.key, it.val
		x.roles[key] = "i"
		if val != nil {
			x.elem[val] = "i"
		}
		// the remembered previous X
		var prev *types.Var
		var prevSet *assignment
		all := assignments(f)
		for i := range all {
			a := &all[i]
			v := varOf(f, a.LHS)
			if v == nil || v == key || v == val || a.RHS == nil || c13IsRange(a.Stmt) {
				continue
			}
			if it.contains(a.Stmt) && v.Pos() < loop.Pos() && x.canon(a.RHS) == c31Form("0", "+X[i]") {
				prev, prevSet = v, a
			}
		}
		// (without such a variable the test must compare the neighbouring dots directly: X[i] <= X[i-1])
		if prev != nil {
			delete(x.defs, prev)
			x.roles[prev] = "prev"
		}
		env := &c13Env{f: f, vars: map[*types.Var]string{}, used: map[ast.Stmt]bool{}, alias: map[*types.Var]bool{}, custom: x.name}
		env.loops = its
		env.retMsg = "is not the method value Func{dots: <the argument>}.Get: the returned function does not evaluate the validated dot list"
		// the returned closure
		var rets []c13Ret
		for _, pt := range f.ReturnPoints() {
			r := pt.Node().(*ast.ReturnStmt)
			ret := c13Ret{pt: pt, stmt: r, kind: c13Unknown}
			if len(r.Results) == 1 {
				ret.what = exprStr(r.Results[0])
				if sel, ok := ast.Unparen(x.subst(r.Results[0])).(*ast.SelectorExpr); ok {
					o, _ := x.origOf(sel).(*ast.SelectorExpr)
					if o != nil && f.P.ObjName(f.ObjOf(o)) == c31Pkg+".Func.Get" {
						recv := ast.Unparen(sel.X)
						if u, ok := recv.(*ast.UnaryExpr); ok && u.Op == token.AND {
							recv = ast.Unparen(u.X)
						}
						if cl, ok := recv.(*ast.CompositeLit); ok && len(cl.Elts) == 1 {
							el := cl.Elts[0]
							if kv, ok := el.(*ast.KeyValueExpr); ok {
								el = kv.Value
							}
							if x.isDots(el) {
								ret.kind = c13Accept
							}
						}
					}
				}
			}
			rets = append(rets, ret)
		}
		// X[i] <= X of the previous dot, for every i >= 1: the previous X is either the recorded variable
		// (loop from 0, test conditioned on i >= 1) or dots[i-1].X itself (conditioned on i >= 1, or in a
		// loop that starts at index 1)
		mono, monoIdx := c31Le("0", "+X[i]", "-prev"), c31Le("0", "+X[i]", "-X[i-1]")
		iGE1, iNE0 := c31Le("1", "-i"), c13Not(c31Form("0", "+i")+" == 0")
		monoAlts := []string{c13And(iGE1, monoIdx), c13And(iNE0, monoIdx)}
		if prev != nil && it.from == 0 {
			monoAlts = append(monoAlts, c13And(iGE1, mono), c13And(iNE0, mono))
		}
		if it.from == 1 {
			monoAlts = append(monoAlts, monoIdx)
		}
		rows := []c13Row{
			{name: "fewer than two dots", tag: "guard", alts: []string{c31Le("-1", "+ndots")}, breaks: "a list with fewer than two dots is accepted; Get then indexes dots[len-2] out of range"},
			{name: "X not strictly increasing", tag: "guard", loop: true, fromOne: true, alts: monoAlts,
				breaks: "a list whose X values repeat or decrease is accepted (Get then divides by x1-x0 = 0 or a wrapped difference), or a valid list is rejected because the first dot is compared with the initial value"},
			{name: "Y above maxVal", tag: "guard", loop: true, alts: []string{c31Le(maxPlus1, "-Y[i]")}, breaks: "a Y above the supported range is accepted: y*weight in Mul can exceed MaxUint64"},
			{name: "X above maxVal", tag: "guard", loop: true, alts: []string{c31Le(maxPlus1, "-X[i]")}, breaks: "an X above the supported range is accepted: (x-x0)*DecimalUnit in Div can exceed MaxUint64"},
		}
		for i := range rows {
			rows[i].how = "the edge on which it holds leads only to a panic; the closure is returned only behind the complementary edge"
			if rows[i].loop {
				rows[i].how = "evaluated for every dot (every iteration of a complete range over the argument, whose exit dominates the return); the edge on which it holds leads only to a panic"
			}
		}
		r := c13Table(c, env, rets, rows)
		c.ExpectAtLeast("rejected shapes of the dot list", r.guards, 4)
		nAcc := 0
		for _, rt := range rets {
			if rt.kind == c13Accept {
				nAcc++
			}
		}
		c.ExpectAtLeast("returns of Func{dots}.Get", nAcc, 1)
		// prev holds the previous dot's X when the monotonicity test runs
		usesPrev := false
		for _, e := range r.rowHit["X not strictly increasing"] {
			for _, a := range e.alts {
				usesPrev = usesPrev || strings.Contains(a, "*prev ")
			}
		}
		if prev == nil || !usesPrev {
			return // the test reads the neighbouring dot itself: nothing is remembered between iterations
		}
		head, _ := f.LoopOf(loop)
		body := c13LoopBody(f, loop)
		c.Need(head != nil && body != nil, "loop structure of NewFunc")
		nSets := 0
		for _, a := range assignsToVar(f, prev) {
			if a.RHS == nil || a.Pt == prevSet.Pt {
				continue
			}
			// an initial value assigned once before the loop is harmless (the test is conditioned on i >= 1)
			if before, _ := f.MustPassBefore([]core.Point{a.Pt}, prevSet.Pt); before && enclosingLoop(f, a.Stmt.Pos()) == nil {
				continue
			}
			nSets++
		}
		every := !c13BlocksFrom(body, nil, prevSet.Pt.B)[head]
		c.Check(every && nSets == 0, "NewFunc|previous X recorded on every iteration", "T7 Pairing (loop)", prevSet.Stmt.Pos(), "every iteration ends having stored the current dot's X, and nothing else assigns the variable", "an iteration can reach the next dot without recording its X (or the variable is assigned elsewhere): the monotonicity test compares with an older dot")
		for _, e := range r.rowHit["X not strictly increasing"] {
			condPt := core.Point{B: e.b, I: len(e.b.Nodes) - 1}
			_, found := core.PathQuery{F: f, From: prevSet.Pt, FromAfter: true, Target: core.PointSet(condPt), AvoidEdge: func(b *cfg.Block, s int) bool { return b.Succs[s] == head }}.Find()
			sameBlockBefore := prevSet.Pt.B == condPt.B && prevSet.Pt.I < condPt.I
			c.Check(!found && !sameBlockBefore, "NewFunc|monotonicity test before the update", "T2 Dominates (loop)", e.cond.Pos(), "within an iteration the test is never reached after the update: it sees the previous dot's X", "the current dot's X is stored before the test in the same iteration: every dot is compared with itself and all lists are rejected")
		}
	})

	c.Clause("C31.get", func() {
		c.Need(decStr != "", "value of DecimalUnit")
		f := c.Fn(c31Pkg + ".Func.Get")
		recv, xp := f.Recv(), f.Param(0)
		c.Need(recv != nil && xp != nil, "Func.Get has a named receiver and parameter")
		x := c31New(f)
		x.isDots = func(e ast.Expr) bool {
			sel, ok := ast.Unparen(e).(*ast.SelectorExpr)
			return ok && x.fieldName(sel) == c31Dots && varOf(f, sel.X) == recv
		}
		x.roles[xp] = "x"
		// the search loop
		// a forward scan of the dot indexes: a range over f.dots, or a counted loop from 0 or 1 up to
		// (excluding) len(dots) or len(dots)-1. What matters below is the set of indexes it visits in
		// ascending order - every inner dot 1..len-2 - not how the loop is spelled.
		var loops []ast.Stmt
		f.InspectOwn(func(n ast.Node) bool {
			switch n.(type) {
			case *ast.RangeStmt, *ast.ForStmt:
				loops = append(loops, n.(ast.Stmt))
			}
			return true
		})
		c.Need(len(loops) == 1, "Get contains exactly one loop (the piece search)")
		loop := loops[0]
		it, okIt := core.IterationOf(f, loop, nil)
		c.Need(okIt && it.Index != nil && it.Body != nil, "the search loop is a range with an index variable or a counted loop stepping by one (other search strategies are not recognised)")
		key, val := it.Index, it.Value
		x.roles[key] = "i"
		if val != nil {
			x.elem[val] = "i"
		}
		lo, hi := 0, ""
		if it.Counted {
			fs := loop.(*ast.ForStmt)
			as, _ := fs.Init.(*ast.AssignStmt)
			c.Need(as != nil && len(as.Rhs) == 1 && it.Bound != nil, "init clause and bound of the counted search loop")
			switch {
			case it.FromZero:
			case core.IsConstInt(f.Info(), as.Rhs[0], 1):
				lo = 1
			default:
				lo = -1
			}
			hi = x.canon(it.Bound)
			for _, a := range assignsToVar(f, key) {
				if it.Body.Pos() <= a.Stmt.Pos() && a.Stmt.End() <= it.Body.End() {
					lo = -1 // the index is modified inside the body: the visited set is unknown
				}
			}
		} else {
			rs := loop.(*ast.RangeStmt)
			c.Need(rs.Tok == token.DEFINE && x.isDots(rs.X), "the range of the search loop is f.dots")
			hi = c31Form("0", "+ndots")
		}
		covers := (lo == 0 || lo == 1) && (hi == c31Form("0", "+ndots") || hi == c31Form("-1", "+ndots"))
		c.Check(covers, "Get|search visits every inner dot", "T7 Pairing (loop)", loop.Pos(),
			"the search visits the indexes from 0 or 1 up to len(dots)-1 or len(dots)-2 in ascending order: every inner dot 1..len-2 is a candidate",
			"the search loop does not visit every inner dot 1..len(dots)-2 in ascending order (starts at "+fmt.Sprint(lo)+", bound "+hi+"): the first dot with X > x may be missed and x is interpolated on a piece that does not contain it")
		// the piece index: the integer local assigned more than once
		var piece *types.Var
		nPiece := 0
		cnt := map[*types.Var]int{}
		for _, a := range assignments(f) {
			if v := varOf(f, a.LHS); v != nil && v != key && v != val && !c13IsRange(a.Stmt) {
				cnt[v]++
			}
		}
		for v, n := range cnt {
			if n > 1 {
				piece = v
				nPiece++
			}
		}
		c.Need(nPiece == 1, "exactly one local variable assigned more than once (the piece index)")
		x.roles[piece] = "p"

		env := &c13Env{f: f, vars: map[*types.Var]string{}, used: map[ast.Stmt]bool{}, alias: map[*types.Var]bool{}, custom: x.name}
		firstY, lastY := c31Form("0", "+Y[0]"), c31Form("0", "+Y[ndots-1]")
		classify := func(reject, skip string) ([]c13Ret, int) {
			var rets []c13Ret
			n := 0
			for _, pt := range f.ReturnPoints() {
				r := pt.Node().(*ast.ReturnStmt)
				ret := c13Ret{pt: pt, stmt: r, kind: c13Unknown}
				if len(r.Results) == 1 {
					ret.what = exprStr(r.Results[0])
					switch x.canon(r.Results[0]) {
					case reject:
						ret.kind = c13Reject
						n++
					case skip:
						ret.kind = c13Skip
					default:
						ret.kind = c13Accept
					}
				}
				rets = append(rets, ret)
			}
			return rets, n
		}
		rets, n1 := classify(firstY, lastY)
		c13Table(c, env, rets, []c13Row{{name: "x before the first dot", tag: "clamp",
			alts:   []string{c31Le("1", "+x", "-X[0]"), c31Le("0", "+x", "-X[0]")},
			how:    "the edge x < X[0] (or <=) reaches only `return dots[0].Y`, and the interpolation lies behind the complementary edge",
			breaks: "an argument before the first dot does not yield the first dot's Y (x - x0 wraps in the interpolation)"}})
		rets, n2 := classify(lastY, firstY)
		c13Table(c, env, rets, []c13Row{{name: "x after the last dot", tag: "clamp",
			alts:   []string{c31Le("1", "-x", "+X[ndots-1]"), c31Le("0", "-x", "+X[ndots-1]")},
			how:    "the edge x > X[len-1] (or >=) reaches only `return dots[len-1].Y`, and the interpolation lies behind the complementary edge",
			breaks: "an argument after the last dot does not yield the last dot's Y (the last piece is extrapolated: the ratio exceeds DecimalUnit and DecimalUnit-ratio wraps)"}})
		c.ExpectAtLeast("returns of the first dot's Y", n1, 1)
		c.ExpectAtLeast("returns of the last dot's Y", n2, 1)

		// piece search
		var init, set *assignment
		as := assignsToVar(f, piece)
		for i := range as {
			a := &as[i]
			if it.Body.Pos() <= a.Stmt.Pos() && a.Stmt.End() <= it.Body.End() {
				set = a
			} else {
				init = a
			}
		}
		c.Need(len(as) == 2 && init != nil && set != nil && init.RHS != nil && set.RHS != nil, "the piece index has one initialisation outside and one assignment inside the loop")
		okInit, _ := f.MustPassBefore([]core.Point{init.Pt}, set.Pt)
		c.Check(okInit && x.canon(init.RHS) == c31Form("-2", "+ndots"), "Get|piece defaults to the last one", "T8 (search)", init.Stmt.Pos(), "the piece index starts at len(dots)-2 before the search", "the piece index does not start at len(dots)-2 (got "+x.canon(init.RHS)+"): for x beyond all interior dots a wrong pair of dots is interpolated")
		c.Check(set.Tok == token.ASSIGN && x.canon(set.RHS) == c31Form("-1", "+i"), "Get|piece is the one left of the match", "T8 (search)", set.Stmt.Pos(), "on a match at index i the piece index becomes i-1", "the matched index i is not turned into piece i-1 (got "+x.canon(set.RHS)+"): the dots used do not bracket x")
		head, done := f.LoopOf(loop)
		body := c13LoopBody(f, loop)
		c.Need(head != nil && done != nil && body != nil, "loop structure of Get")
		// conditions on the way from the loop body to the assignment
		pr := preds(f)
		var atoms []string
		var condBlocks []*cfg.Block
		walkOK := true
		for b := set.Pt.B; b != body; {
			ps := pr[b]
			if len(ps) != 1 {
				walkOK = false
				break
			}
			pb := ps[0]
			for s, sb := range pb.Succs {
				if sb == b && f.BranchCond(pb) != nil {
					for _, ft := range f.EdgeFacts(pb, s) {
						atoms = append(atoms, env.atomOf(ft).String())
					}
					condBlocks = append(condBlocks, pb)
				}
			}
			b = pb
		}
		strict, weak := c31Le("1", "+x", "-X[i]"), c31Le("0", "+x", "-X[i]")
		iGE1 := map[string]bool{c31Le("1", "-i"): true, c13Not(c31Form("0", "+i") + " == 0"): true}
		allowed := map[string]bool{c31Le("2", "+i", "-ndots"): true}
		hasStrict, hasWeak, hasI, extra := false, false, false, ""
		for _, a := range atoms {
			switch {
			case a == strict:
				hasStrict = true
			case a == weak:
				hasWeak = true
			case iGE1[a]:
				hasI = true
			case allowed[a]:
			default:
				extra = a
			}
		}
		switch {
		case !walkOK:
			c.Undecided("Get|match condition", "T8 (search)", set.Stmt.Pos(), "the assignment of the piece index is reached through merging control flow: the match condition cannot be read")
		case extra != "":
			c.Undecided("Get|match condition", "T8 (search)", set.Stmt.Pos(), "the match is additionally conditioned on `"+extra+"`, which the rule cannot show to be redundant: some dot with X > x may be passed over")
		default:
			c.Check(hasStrict || hasWeak && (hasI || lo == 1), "Get|match condition", "T8 (search)", set.Stmt.Pos(), "the piece index is replaced only on the edge where X[i] > x (or X[i] >= x with i >= 1)", "the piece index is not chosen by X[i] > x for the current dot i: the interpolated dots do not bracket x")
		}
		// first match wins, earlier dots are all tested, the range is forward over all dots
		leaves := !c13BlocksFrom(set.Pt.B, nil, nil)[head]
		c.Check(leaves, "Get|first match ends the search", "T8 (search)", set.Stmt.Pos(), "after the assignment the loop is left: the first dot with X > x determines the piece", "the search continues after a match: a later dot overrides the piece and x is interpolated on a piece that does not contain it")
		tested := len(condBlocks) > 0
		for _, cb := range condBlocks {
			if cb != body && c13BlocksFrom(body, nil, cb)[head] {
				tested = false
			}
		}
		okDone := true
		for _, pb := range pr[done] {
			if pb != head && pb != set.Pt.B {
				okDone = false
			}
		}
		c.Check(tested && okDone, "Get|every dot up to the match is tested", "T7 Pairing (loop)", loop.Pos(), "every iteration evaluates the match condition and the loop ends only by exhaustion or after the assignment", "an iteration can skip the match test, or the loop can end without a match before all dots were seen: the first dot with X > x may be missed")

		// interpolation
		var interp *ast.ReturnStmt
		nInterp := 0
		for _, rt := range rets {
			if rt.kind == c13Accept {
				interp = rt.stmt
				nInterp++
			}
		}
		c.Need(nInterp == 1, "exactly one return besides the two clamps (the interpolation)")
		num := c31Form("0", "+x", "-X[p]")
		den := c31Form("0", "+X[p+1]", "-X[p]")
		div := "Div(" + num + ", " + den + ")"
		mul := func(a, b string) string {
			if b < a {
				a, b = b, a
			}
			return "Mul(" + a + ", " + b + ")"
		}
		want := c31Form("0", "+"+mul(c31Form("0", "+Y[p]"), c31Form(decStr, "-"+div)), "+"+mul(c31Form("0", "+Y[p+1]"), c31Form("0", "+"+div)))
		got := x.canon(interp.Results[0])
		c.Check(got == want, "Get|interpolation between neighbouring dots", "expression shape", interp.Pos(),
			"the result is Mul(Y[p], DecimalUnit-r) + Mul(Y[p+1], r) with r = Div(x-X[p], X[p+1]-X[p]): neighbouring dots p and p+1, weights summing to DecimalUnit, coordinates <= maxVal as first Mul/Div operands",
			"the result is not the weighted sum of the two neighbouring dots' Y with r = (x-X[p])/(X[p+1]-X[p]) (got "+got+"): values between dots are not the linear interpolation")
		ipt, _ := f.PointOf(interp)
		okAfter, path := mustPassBlockBefore(f, done, ipt)
		c.Check(okAfter, "Get|interpolation after the search", "T2 Dominates (loop)", interp.Pos(), "the interpolation uses the piece index only after the search loop has ended", "the interpolation is reachable before the search has ended: "+f.DescribePath(path))
	})
}
