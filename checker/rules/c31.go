package rules

import (
	"fmt"
	"go/ast"
	"go/constant"
	"go/token"
	"go/types"
	"math"
	"math/big"
	"sort"
	"strings"

	"golang.org/x/tools/go/cfg"

	"lachk/core"
)

const (
	c31Pkg  = "utils/piecefunc"
	c31DotX = c31Pkg + ".Dot.X"
	c31DotY = c31Pkg + ".Dot.Y"
	c31Dots = c31Pkg + ".Func.dots"
)

func init() {
	register("C31", "other", "T8 DecisionTable (normalised guards, per-dot rows on every iteration), T15 ConstRelation (go/constant, exact), T4 GuardedBy, T2 Dominates, expression-shape comparison after substitution of single-assignment locals",
		"Decides the shape that the piecewise-linear function's range, clamping and neighbour selection depend on. NewFunc: fewer than two dots, X[i] <= previous X for i >= 1 (the previous X is recorded at the end of every iteration, after the test), Y > maxVal and X > maxVal each lead only to a panic, are evaluated for every dot of a complete range over the argument, and the returned closure is Func{dots: argument}.Get behind all of them. "+
			"Constants (exact, go/constant): DecimalUnit is a positive integer, maxVal*DecimalUnit <= MaxUint64; Mul is a*b/DecimalUnit and Div is a*DecimalUnit/b on uint64, so with coordinates <= maxVal (NewFunc) and weights <= DecimalUnit the three products of Get (Div's a*DecimalUnit, Mul's a*b twice) are at most maxVal*DecimalUnit and cannot wrap. "+
			"Get: x below (or at) the first dot's X returns only the first dot's Y, x above (or at) the last dot's X only the last dot's Y, and the interpolation is reachable only behind both complementary edges; the piece index starts at len-2, is replaced by i-1 at the first i of a forward range over all dots with X[i] > x (then the loop is left), every earlier iteration evaluates that test; the result is Mul(Y[p], DecimalUnit-r) + Mul(Y[p+1], r) with r = Div(x-X[p], X[p+1]-X[p]) for that index p (neighbouring dots, weights summing to DecimalUnit). "+
			"NewFunc and Get are decided on an inlined, value-tracking view (c13View): helpers of the package other than Mul/Div are spliced at their call sites with parameters bound to the arguments, so the validation may live in a helper and the piece search in a method or function that returns the index; the piece index is followed as a value (len-2 when the search is exhausted, i-1 on a match at i) whether it is a local assigned before a break or the result of an early return. "+
			"Loops are read as iterations (core.IterationOf): a range or a counted loop stepping by one, the length possibly hoisted; NewFunc's per-dot rows need index 0..len-1 (the neighbour comparison X[i] <= X[i-1] may start at 1), Get's search needs every inner index 1..len-2 in ascending order, goes on to the next dot only behind an edge implying that the current one is not a candidate, and is left at the first match; single-definition temporaries are substituted. "+
			"Not decided: the numeric rounding bounds of the statement (at most the larger Y, at least the smaller minus one, within |dY|/10^6+2 of the exact value) - they follow from the decided shape by a pen-and-paper argument (two floor divisions lose less than 1 each, r loses less than one unit of 10^-6) that the checker does not perform; r <= DecimalUnit (no underflow of DecimalUnit-r) relies on x <= X[p+1], which follows from the decided search shape and the upper clamp but is not derived mechanically; the caller mutating the dots slice after NewFunc.",
		[]string{"uint64 arithmetic wraps only when a product exceeds MaxUint64 (Go spec)", "the caller does not modify the dots slice after NewFunc"},
		runC31)
}

// ---------------------------------------------------------------------------
// canonical expressions with substitution of single-assignment locals

type c31Ctx struct {
	f      *core.FuncInfo
	roles  map[*types.Var]string // parameters, loop keys, the piece index
	elem   map[*types.Var]string // range value variables over the dots -> index form ("i")
	defs   map[*types.Var]ast.Expr
	orig   map[ast.Node]ast.Node
	isDots func(ast.Expr) bool
	// frames of an inlined view (c13View): the context of the calling frame, what the root calls the dot
	// list / the Func value, the loops whose variables carry the role "i", the locals that hold a piece index
	vw       *c13View
	fr       *c13Frame
	up       *c31Ctx
	rootDots func(ast.Expr) bool
	rootFunc *types.Var
	loopOf   map[*types.Var]*c13Loop
	piece    map[*types.Var]bool
	loops    []*c31Loop
	prev     *types.Var
	prevSet  *assignment
}

// c31Loop is a loop of a frame read as an iteration.
type c31Loop struct {
	l  *c13Loop
	it *core.Iteration
	x  *c31Ctx
}

// c31CtxOf: the expression context attached to a frame.
func c31CtxOf(fr *c13Frame) *c31Ctx { x, _ := fr.aux.(*c31Ctx); return x }

// c31ForFrame builds the context of one frame of a view: parameters bound to arguments are named through
// the calling frame; locals defined by a spliced call hold a value of the state (not their defining text).
func c31ForFrame(vw *c13View, fr *c13Frame) *c31Ctx {
	x := c31New(fr.f)
	x.vw, x.fr = vw, fr
	x.loopOf, x.piece = map[*types.Var]*c13Loop{}, map[*types.Var]bool{}
	if fr.parent != nil {
		x.up = c31CtxOf(fr.parent)
	}
	x.isDots = x.dots
	for v, d := range x.defs {
		if call, ok := ast.Unparen(d).(*ast.CallExpr); ok && vw.calleeOf(fr, call) != nil {
			delete(x.defs, v)
			// an index found by a helper is the piece index; a dot fetched by a helper (`left := f.first()`)
			// is a value of the state with the name "dot[<index>]"
			if b, isB := v.Type().Underlying().(*types.Basic); isB && b.Info()&types.IsInteger != 0 {
				x.roles[v] = "p"
			}
		}
	}
	fr.aux = x
	return x
}

// funcVal: the expression is the Func value whose dots are interpolated (the root's receiver, or a
// receiver/parameter bound to it).
func (x *c31Ctx) funcVal(e ast.Expr) bool {
	v := varOf(x.f, ast.Unparen(e))
	if v == nil {
		return false
	}
	if x.rootFunc != nil && v == x.rootFunc {
		return true
	}
	if x.up != nil {
		if arg, ok := x.fr.bind[v]; ok {
			return x.up.funcVal(arg)
		}
	}
	return false
}

// dots: the expression is the dot list (the root's own notion, <Func value>.dots, or a parameter bound to it).
func (x *c31Ctx) dots(e ast.Expr) bool {
	e = ast.Unparen(e)
	if x.rootDots != nil && x.rootDots(e) {
		return true
	}
	if sel, ok := e.(*ast.SelectorExpr); ok && x.fieldName(sel) == c31Dots && x.funcVal(sel.X) {
		return true
	}
	if v := varOf(x.f, e); v != nil && x.up != nil {
		if arg, ok := x.fr.bind[v]; ok {
			return x.up.dots(ast.Unparen(x.up.subst(arg)))
		}
	}
	return false
}

// iterVar marks the loop whose iteration variable is being named.
func (x *c31Ctx) iterVar(v *types.Var) {
	if l := x.loopOf[v]; l != nil && x.vw != nil {
		x.vw.used[l] = true
	}
}

func c31New(f *core.FuncInfo) *c31Ctx {
	x := &c31Ctx{f: f, roles: map[*types.Var]string{}, elem: map[*types.Var]string{}, defs: map[*types.Var]ast.Expr{}, orig: map[ast.Node]ast.Node{}}
	all := assignments(f)
	count := map[*types.Var]int{}
	for _, a := range all {
		if v := varOf(f, a.LHS); v != nil {
			count[v]++
		}
	}
	for _, a := range all {
		v := varOf(f, a.LHS)
		if v == nil || count[v] != 1 || a.RHS == nil || a.Tok != token.DEFINE && a.Tok != token.ASSIGN {
			continue
		}
		if as, ok := a.Stmt.(*ast.AssignStmt); ok && len(as.Lhs) != len(as.Rhs) {
			continue
		}
		if _, ok := a.Stmt.(*ast.RangeStmt); ok {
			continue
		}
		// the definition may be substituted at its uses only if nothing it reads is assigned between the
		// definition and a use: no use is reachable from such an assignment without passing the
		// definition again (so `dot := dots[i]` inside a counted loop is transparent although i++ follows)
		safe := true
		var uses []core.Point
		f.InspectOwn(func(n ast.Node) bool {
			if id, ok := n.(*ast.Ident); ok && f.Info().Uses[id] == types.Object(v) {
				if pt, ok := f.PointOf(id); ok {
					uses = append(uses, pt)
				} else {
					safe = false
				}
			}
			return true
		})
		ast.Inspect(a.RHS, func(n ast.Node) bool {
			id, ok := n.(*ast.Ident)
			if !ok {
				return true
			}
			w, _ := f.Info().ObjectOf(id).(*types.Var)
			if w != nil && w == v {
				safe = false // `x = x + 1` on a parameter: not a definition that can be substituted
			}
			if w == nil || count[w] <= 1 {
				return true
			}
			for _, a2 := range all {
				if varOf(f, a2.LHS) != w {
					continue
				}
				if a2.Pt == a.Pt {
					safe = false
					continue
				}
				if _, found := (core.PathQuery{F: f, From: a2.Pt, FromAfter: true, Target: core.PointSet(uses...), Avoid: core.PointSet(a.Pt)}).Find(); found {
					safe = false
				}
			}
			return true
		})
		if safe {
			x.defs[v] = a.RHS
		}
	}
	return x
}

// subst copies e with every substitutable local replaced by its definition.
func (x *c31Ctx) subst(e ast.Expr) ast.Expr {
	switch n := e.(type) {
	case *ast.Ident:
		if v := varOf(x.f, n); v != nil {
			if d, ok := x.defs[v]; ok {
				return &ast.ParenExpr{X: x.subst(d)}
			}
		}
	case *ast.ParenExpr:
		return x.subst(n.X)
	case *ast.BinaryExpr:
		l, r := x.subst(n.X), x.subst(n.Y)
		if l != n.X || r != n.Y {
			cp := *n
			cp.X, cp.Y = l, r
			x.orig[&cp] = x.origOf(n)
			return &cp
		}
	case *ast.UnaryExpr:
		if s := x.subst(n.X); s != n.X {
			cp := *n
			cp.X = s
			x.orig[&cp] = x.origOf(n)
			return &cp
		}
	case *ast.StarExpr:
		if s := x.subst(n.X); s != n.X {
			cp := *n
			cp.X = s
			x.orig[&cp] = x.origOf(n)
			return &cp
		}
	case *ast.SelectorExpr:
		if s := x.subst(n.X); s != n.X {
			cp := *n
			cp.X = s
			x.orig[&cp] = x.origOf(n)
			return &cp
		}
	case *ast.IndexExpr:
		a, i := x.subst(n.X), x.subst(n.Index)
		if a != n.X || i != n.Index {
			cp := *n
			cp.X, cp.Index = a, i
			x.orig[&cp] = x.origOf(n)
			return &cp
		}
	case *ast.CallExpr:
		changed := false
		args := make([]ast.Expr, len(n.Args))
		for i, a := range n.Args {
			args[i] = x.subst(a)
			if args[i] != a {
				changed = true
			}
		}
		if changed {
			cp := *n
			cp.Args = args
			x.orig[&cp] = x.origOf(n)
			return &cp
		}
	}
	return e
}

func (x *c31Ctx) origOf(n ast.Node) ast.Node {
	if o, ok := x.orig[n]; ok {
		return o
	}
	return n
}

func (x *c31Ctx) fieldName(sel *ast.SelectorExpr) string {
	o, _ := x.origOf(sel).(*ast.SelectorExpr)
	if o == nil {
		return ""
	}
	return fieldNameOf(x.f, o)
}

func (x *c31Ctx) callee(call *ast.CallExpr) string {
	o, _ := x.origOf(call).(*ast.CallExpr)
	if o == nil {
		return ""
	}
	return calleeName(x.f, o)
}

// lin brings an integer expression to its linear form over role names.
func (x *c31Ctx) lin(e ast.Expr) *core.Lin {
	return c31Expand(core.Linearize(x.f.Info(), x.subst(e), x.name))
}

// c31Lins remembers the linear form behind every canonical string the valuer of a view has produced, so a
// local that holds such a value in the state (`end, found := search(x)`, then `p = end - 1`) can be
// replaced by the form itself; c31Held marks the atom that stands for a held value inside a Linearize run.
var c31Lins = map[string]*core.Lin{}

const c31Held = "@held:"

// c31Expand replaces the atoms that stand for held values by their linear forms.
func c31Expand(l *core.Lin) *core.Lin {
	held := false
	for k := range l.Coef {
		held = held || strings.HasPrefix(k, c31Held)
	}
	if !held {
		return l
	}
	out := &core.Lin{Coef: map[string]*big.Int{}, Atom: map[string]ast.Expr{}, C: new(big.Int).Set(l.C)}
	add := func(k string, e ast.Expr, c *big.Int) {
		if cur, ok := out.Coef[k]; ok {
			cur.Add(cur, c)
			if cur.Sign() == 0 {
				delete(out.Coef, k)
				delete(out.Atom, k)
			}
			return
		}
		if c.Sign() != 0 {
			out.Coef[k], out.Atom[k] = new(big.Int).Set(c), e
		}
	}
	for k, c := range l.Coef {
		v := c31Lins[strings.TrimPrefix(k, c31Held)]
		if !strings.HasPrefix(k, c31Held) || v == nil {
			add(k, l.Atom[k], c)
			continue
		}
		for k2, c2 := range v.Coef {
			add(k2, v.Atom[k2], new(big.Int).Mul(c, c2))
		}
		out.C.Add(out.C, new(big.Int).Mul(c, v.C))
	}
	return out
}

// c31Value is the valuer of the views of C31: an integer has the canonical string of its linear form (kept
// in c31Lins), a dot of the list the name "dot[<index form>]".
func c31Value(fr *c13Frame, e ast.Expr) string {
	x := c31CtxOf(fr)
	if x == nil {
		return ""
	}
	if tv, ok := x.f.Info().Types[e]; ok && tv.Type != nil {
		if b, isB := tv.Type.Underlying().(*types.Basic); !isB || b.Info()&types.IsInteger == 0 {
			if idx := x.dotIndex(x.subst(e)); idx != "" {
				return "dot[" + idx + "]"
			}
		}
	}
	l := x.lin(e)
	s := l.String()
	c31Lins[s] = l
	return s
}

// heldDot: the state of the view holds the identifier as a dot of the list; returns its index form.
func (x *c31Ctx) heldDot(id *ast.Ident) string {
	if x.vw == nil {
		return ""
	}
	if o, ok := x.origOf(id).(*ast.Ident); ok {
		id = o
	}
	if s := x.vw.stateName(x.fr, id); strings.HasPrefix(s, "dot[") && strings.HasSuffix(s, "]") {
		return s[len("dot[") : len(s)-1]
	}
	return ""
}

// canon is the canonical string of an integer expression.
func (x *c31Ctx) canon(e ast.Expr) string { return x.lin(e).String() }

// c31Idx renders an index form compactly: "0", "p", "p+1", "ndots-1".
func c31Idx(l *core.Lin) string {
	keys := make([]string, 0, len(l.Coef))
	for k := range l.Coef {
		keys = append(keys, k)
	}
	sort.Strings(keys)
	var sb strings.Builder
	for _, k := range keys {
		c := l.Coef[k]
		switch {
		case c.IsInt64() && c.Int64() == 1:
			if sb.Len() > 0 {
				sb.WriteString("+")
			}
			sb.WriteString(k)
		case c.IsInt64() && c.Int64() == -1:
			sb.WriteString("-" + k)
		default:
			fmt.Fprintf(&sb, "%+d*%s", c, k)
		}
	}
	if l.C.Sign() != 0 || sb.Len() == 0 {
		if sb.Len() > 0 {
			fmt.Fprintf(&sb, "%+d", l.C)
		} else {
			fmt.Fprintf(&sb, "%d", l.C)
		}
	}
	return sb.String()
}

// dotIndex: the index form of an expression denoting one dot of the list ("" if it is not one).
func (x *c31Ctx) dotIndex(e ast.Expr) string {
	switch n := ast.Unparen(e).(type) {
	case *ast.IndexExpr:
		if x.isDots != nil && x.isDots(n.X) {
			return c31Idx(x.lin(n.Index))
		}
	case *ast.Ident:
		if v := varOf(x.f, n); v != nil {
			if x.elem[v] != "" {
				x.iterVar(v)
				return x.elem[v]
			}
			// a local that holds a dot fetched by a spliced helper
			if idx := x.heldDot(n); idx != "" {
				return idx
			}
			// a parameter bound to a dot of the calling frame
			if x.up != nil {
				if arg, ok := x.fr.bind[v]; ok {
					return x.up.dotIndex(x.up.subst(arg))
				}
			}
		}
	}
	return ""
}

// name is the AtomNamer: parameters and loop variables by role, len(dots), coordinates of a dot as
// X[index] / Y[index], Mul/Div calls and products/quotients structurally.
func (x *c31Ctx) name(e ast.Expr) string {
	// a stable single-definition integer local whose definition is not one atom (`last := len(dots) - 1`)
	// stands for the linear form of its definition: the placeholder is expanded by c31Expand, both in the
	// forms built here and in the comparisons the view normalises with this namer
	if id, ok := ast.Unparen(e).(*ast.Ident); ok {
		if v := varOf(x.f, id); v != nil && x.roles[v] == "" {
			if _, has := x.defs[v]; has && (x.vw == nil || !x.vw.hasState(x.fr, id)) {
				if b, isB := v.Type().Underlying().(*types.Basic); isB && b.Info()&types.IsInteger != 0 {
					l := x.lin(id)
					one := false
					for _, cf := range l.Coef {
						one = len(l.Coef) == 1 && l.C.Sign() == 0 && cf.IsInt64() && cf.Int64() == 1
					}
					if !one {
						s := l.String()
						c31Lins[s] = l
						return c31Held + s
					}
				}
			}
		}
	}
	e = ast.Unparen(x.subst(e))
	switch n := e.(type) {
	case *ast.Ident:
		if v := varOf(x.f, n); v != nil {
			if r := x.roles[v]; r != "" {
				x.iterVar(v)
				return r
			}
			// a local without a role whose integer value the state of the view holds stands for that value
			if x.vw != nil {
				if s := x.vw.stateName(x.fr, n); s != "" && c31Lins[s] != nil {
					return c31Held + s
				}
			}
			if x.up != nil {
				if arg, ok := x.fr.bind[v]; ok {
					return x.up.name(arg)
				}
			}
		}
	case *ast.CallExpr:
		nm := x.callee(n)
		if x.vw != nil {
			if o, isOrig := x.origOf(n).(*ast.CallExpr); isOrig && x.vw.calleeOf(x.fr, o) != nil {
				return "p" // the value of a spliced helper: a piece index held in the state
			}
		}
		switch {
		case nm == "builtin.len" && len(n.Args) == 1 && x.isDots != nil && x.isDots(n.Args[0]):
			return "ndots"
		case nm == c31Pkg+".Mul" && len(n.Args) == 2:
			a, b := x.canon(n.Args[0]), x.canon(n.Args[1])
			if b < a {
				a, b = b, a
			}
			return "Mul(" + a + ", " + b + ")"
		case nm == c31Pkg+".Div" && len(n.Args) == 2:
			return "Div(" + x.canon(n.Args[0]) + ", " + x.canon(n.Args[1]) + ")"
		}
	case *ast.SelectorExpr:
		coord := ""
		switch x.fieldName(n) {
		case c31DotX:
			coord = "X"
		case c31DotY:
			coord = "Y"
		}
		if coord != "" {
			if idx := x.dotIndex(x.subst(n.X)); idx != "" {
				return coord + "[" + idx + "]"
			}
		}
	case *ast.BinaryExpr:
		switch n.Op {
		case token.MUL:
			a, b := x.canon(n.X), x.canon(n.Y)
			if b < a {
				a, b = b, a
			}
			return "mul{" + a + " , " + b + "}"
		case token.QUO:
			return "quo{" + x.canon(n.X) + " , " + x.canon(n.Y) + "}"
		}
	}
	return ""
}

// c31Form renders a linear form exactly as core.Lin.String does: c31Form(1, "+x", "-X[0]").
func c31Form(c string, terms ...string) string {
	type term struct{ k, sign string }
	var ts []term
	for _, t := range terms {
		ts = append(ts, term{t[1:], t[:1]})
	}
	sort.Slice(ts, func(i, j int) bool { return ts[i].k < ts[j].k })
	var sb strings.Builder
	for _, t := range ts {
		sb.WriteString(t.sign + "1*" + t.k + " ")
	}
	if !strings.HasPrefix(c, "-") && !strings.HasPrefix(c, "+") {
		c = "+" + c
	}
	return sb.String() + c
}

// c31Le is the atom "sum(terms) + c <= 0"; its negation over the integers, "-sum(terms) - c + 1 <= 0", is
// recorded for the decision tables (c13NegAtom).
func c31Le(c string, terms ...string) string {
	a := c31Form(c, terms...) + " <= 0"
	if _, ok := c13NegOf[a]; !ok {
		if n, ok := new(big.Int).SetString(strings.TrimPrefix(c, "+"), 10); ok {
			n.Neg(n)
			n.Add(n, big.NewInt(1))
			var neg []string
			for _, t := range terms {
				if t[:1] == "+" {
					neg = append(neg, "-"+t[1:])
				} else {
					neg = append(neg, "+"+t[1:])
				}
			}
			c13NegOf[a] = c31Form(n.String(), neg...) + " <= 0"
		}
	}
	return a
}

func c31ConstInt(v constant.Value) (constant.Value, bool) {
	if v == nil {
		return nil, false
	}
	i := constant.ToInt(v)
	return i, i.Kind() == constant.Int
}

// ---------------------------------------------------------------------------

func runC31(c *core.Ctx) {
	p := c.P
	var decStr, maxStr, maxPlus1 string

	c.Clause("C31.consts", func() {
		dc := p.LookupConst(c31Pkg + ".DecimalUnit")
		mc := p.LookupConst(c31Pkg + ".maxVal")
		c.Need(dc != nil && mc != nil, "constants DecimalUnit and maxVal of utils/piecefunc")
		dec, okD := c31ConstInt(dc.Val())
		mv, okM := c31ConstInt(mc.Val())
		c.Check(okD && constant.Sign(dec) > 0, "DecimalUnit is a positive integer", "T15 ConstRelation", dc.Pos(), "DecimalUnit = "+dc.Val().ExactString()+" converts to uint64 exactly", "DecimalUnit is not a positive integer constant: ratios lose their unit")
		c.Need(okD && okM && constant.Sign(dec) > 0, "integer values of DecimalUnit and maxVal")
		decStr, maxStr = dec.ExactString(), mv.ExactString()
		maxPlus1 = constant.BinaryOp(mv, token.ADD, constant.MakeInt64(1)).ExactString()
		maxU := constant.MakeUint64(math.MaxUint64)
		prod := constant.BinaryOp(mv, token.MUL, dec)
		c.Check(constant.Compare(prod, token.LEQ, maxU), "maxVal*DecimalUnit <= MaxUint64", "T15 ConstRelation", mc.Pos(),
			fmt.Sprintf("%s * %s = %s <= %s: a coordinate within the supported range times a weight of at most DecimalUnit does not wrap", maxStr, decStr, prod.ExactString(), maxU.ExactString()),
			fmt.Sprintf("%s * %s = %s exceeds MaxUint64 = %s: for dots that NewFunc accepts, a*DecimalUnit in Div or a*b in Mul wraps and Get returns garbage", maxStr, decStr, prod.ExactString(), maxU.ExactString()))
		c.Check(constant.Sign(mv) > 0, "maxVal is positive", "T15 ConstRelation", mc.Pos(), "the supported range is not empty", "maxVal is not positive: every dot list is rejected")
	})

	c.Clause("C31.muldiv", func() {
		c.Need(decStr != "", "value of DecimalUnit")
		for _, spec := range []struct{ fn, want, what, breaks string }{
			{"Mul", c31Form("0", "+quo{"+c31Form("0", "+mul{"+c31Form("0", "+a")+" , "+c31Form("0", "+b")+"}")+" , +"+decStr+"}"), "a*b/DecimalUnit", "the product of a coordinate and a weight is not scaled back by DecimalUnit after the multiplication: precision or range of the interpolation changes"},
			{"Div", c31Form("0", "+quo{+"+decStr+"*a +0 , "+c31Form("0", "+b")+"}"), "a*DecimalUnit/b", "the ratio is not (a*DecimalUnit)/b: it is not expressed in DecimalUnit or loses precision before the division"},
		} {
			f := c.Fn(c31Pkg + "." + spec.fn)
			x := c31New(f)
			a, b := f.Param(0), f.Param(1)
			c.Need(a != nil && b != nil, spec.fn+" has two named parameters")
			x.roles[a], x.roles[b] = "a", "b"
			rps := f.ReturnPoints()
			got := ""
			ok := len(rps) == 1
			if ok {
				r := rps[0].Node().(*ast.ReturnStmt)
				ok = len(r.Results) == 1
				if ok {
					got = x.canon(r.Results[0])
					ok = got == spec.want
				}
			}
			u64 := true
			sig := f.Obj.Type().(*types.Signature)
			for i := 0; i < sig.Params().Len(); i++ {
				bt, isB := sig.Params().At(i).Type().Underlying().(*types.Basic)
				u64 = u64 && isB && bt.Kind() == types.Uint64
			}
			c.Check(ok && u64, spec.fn+" is "+spec.what, "T15 ConstRelation (operand shape)", f.Pos(),
				spec.fn+" computes "+spec.what+" on uint64: with the first operand <= maxVal and the other <= DecimalUnit the product is at most maxVal*DecimalUnit",
				spec.fn+" is not "+spec.what+" on uint64 (got "+got+"): "+spec.breaks)
		}
	})

	c.Clause("C31.newfunc", func() {
		c.Need(maxStr != "", "value of maxVal")
		c31NewFuncClause(c, maxPlus1)
	})

	c.Clause("C31.get", func() {
		c.Need(decStr != "", "value of DecimalUnit")
		c31GetClause(c, decStr)
	})
}

// c31Inline: the helpers of the package are spliced into the views of NewFunc and Get, except Mul and
// Div, which are atoms of the interpolation (decided by C31.muldiv).
func c31Inline(root *core.FuncInfo) func(*core.FuncInfo) bool {
	return func(g *core.FuncInfo) bool {
		return g.Pkg == root.Pkg && g.Name != c31Pkg+".Mul" && g.Name != c31Pkg+".Div"
	}
}

// c31NewFuncClause decides the validation of the dot list on the inlined view of NewFunc (the tests may
// live in NewFunc or in helpers it calls).
func c31NewFuncClause(c *core.Ctx, maxPlus1 string) {
	f := c.Fn(c31Pkg + ".NewFunc")
	dotsP := f.Param(0)
	c.Need(dotsP != nil, "NewFunc has a named dots parameter")
	mkEnv := func(vw *c13View, fr *c13Frame) *c13Env {
		x := c31ForFrame(vw, fr)
		g := fr.f
		if fr.parent == nil {
			x.rootDots = func(e ast.Expr) bool { return varOf(f, e) == dotsP }
		}
		env := c13BareEnv(vw, fr)
		env.custom = x.name
		env.expand = c31Expand // a local standing for a linear form (`last := len(dots) - 1`) inside a condition
		// the validation loops: iterations over the dot list, written as a range or as a counted loop
		env.loops = c13Loops(g, func(coll ast.Expr) string {
			if x.dots(coll) {
				return "events"
			}
			return ""
		})
		for _, l := range env.loops {
			l.env = env
			if l.key != nil {
				x.roles[l.key] = "i"
				x.loopOf[l.key] = l
			}
			if l.val != nil {
				x.elem[l.val] = "i"
				x.loopOf[l.val] = l
			}
		}
		// the remembered previous X: declared outside a loop over the dots, assigned the current dot's X inside
		// (without such a variable the test must compare the neighbouring dots directly: X[i] <= X[i-1])
		all := assignments(g)
		for i := range all {
			a := &all[i]
			v := varOf(g, a.LHS)
			if v == nil || a.RHS == nil || c13IsRange(a.Stmt) || x.loopOf[v] != nil {
				continue
			}
			for _, l := range env.loops {
				if l.contains(a.Stmt) && v.Pos() < l.stmt.Pos() && x.canon(a.RHS) == c31Form("0", "+X[i]") {
					x.prev, x.prevSet = v, a
				}
			}
		}
		if x.prev != nil {
			delete(x.defs, x.prev)
			x.roles[x.prev] = "prev"
		}
		return env
	}
	vw := c13NewView(f, c31Inline(f), mkEnv)
	vw.tuples = true // the validation may live in a helper that returns (message, invalid) while the caller panics
	vw.build()
	rx := c31CtxOf(vw.root)
	// the returned closure
	nAcc := 0
	accSeen := map[*ast.ReturnStmt]bool{}
	kindOf := func(o *c13Outcome) (int, string) {
		if o.panic {
			return c13Panic, ""
		}
		if o.stmt == nil || len(o.stmt.Results) != 1 {
			return c13Unknown, ""
		}
		if sel, ok := ast.Unparen(rx.subst(o.stmt.Results[0])).(*ast.SelectorExpr); ok {
			if orig, _ := rx.origOf(sel).(*ast.SelectorExpr); orig != nil && f.P.ObjName(f.ObjOf(orig)) == c31Pkg+".Func.Get" {
				recv := ast.Unparen(sel.X)
				if u, ok := recv.(*ast.UnaryExpr); ok && u.Op == token.AND {
					recv = ast.Unparen(u.X)
				}
				if cl, ok := recv.(*ast.CompositeLit); ok && len(cl.Elts) == 1 {
					el := cl.Elts[0]
					if kv, ok := el.(*ast.KeyValueExpr); ok {
						el = kv.Value
					}
					if rx.dots(el) {
						if !accSeen[o.stmt] {
							accSeen[o.stmt] = true
							nAcc++
						}
						return c13Accept, ""
					}
				}
			}
		}
		return c13Unknown, ""
	}
	hasPrev0, from1 := false, false
	for _, fr := range vw.frames {
		for _, l := range fr.env.loops {
			if l.from == 1 {
				from1 = true
			}
			if l.from == 0 && c31CtxOf(fr).prev != nil {
				hasPrev0 = true
			}
		}
	}
	// X[i] <= X of the previous dot, for every i >= 1: the previous X is either the recorded variable
	// (loop from 0, test conditioned on i >= 1) or dots[i-1].X itself (conditioned on i >= 1, or in a
	// loop that starts at index 1)
	mono, monoIdx := c31Le("0", "+X[i]", "-prev"), c31Le("0", "+X[i]", "-X[i-1]")
	iGE1, iNE0 := c31Le("1", "-i"), c13Not(c31Form("0", "+i")+" == 0")
	monoAlts := []string{c13And(iGE1, monoIdx), c13And(iNE0, monoIdx)}
	if hasPrev0 {
		monoAlts = append(monoAlts, c13And(iGE1, mono), c13And(iNE0, mono))
	}
	if from1 {
		monoAlts = append(monoAlts, monoIdx)
	}
	monoRow := "X not strictly increasing"
	rows := []c13Row{
		{name: "fewer than two dots", tag: "guard", alts: []string{c31Le("-1", "+ndots")}, breaks: "a list with fewer than two dots is accepted; Get then indexes dots[len-2] out of range"},
		{name: monoRow, tag: "guard", loop: true, fromOne: true, alts: monoAlts,
			breaks: "a list whose X values repeat or decrease is accepted (Get then divides by x1-x0 = 0 or a wrapped difference), or a valid list is rejected because the first dot is compared with the initial value"},
		{name: "Y above maxVal", tag: "guard", loop: true, alts: []string{c31Le(maxPlus1, "-Y[i]")}, breaks: "a Y above the supported range is accepted: y*weight in Mul can exceed MaxUint64"},
		{name: "X above maxVal", tag: "guard", loop: true, alts: []string{c31Le(maxPlus1, "-X[i]")}, breaks: "an X above the supported range is accepted: (x-x0)*DecimalUnit in Div can exceed MaxUint64"},
	}
	for i := range rows {
		rows[i].how = "the edge on which it holds leads only to a panic; the closure is returned only behind an edge implying the opposite"
		if rows[i].loop {
			rows[i].how = "evaluated for every dot (every iteration of a complete loop over the argument, whose exit every returning path passes); the edge on which it holds leads only to a panic"
		}
	}
	r := c13Table(c, vw, rows, c13TableOpt{kindOf: kindOf, extras: true, retMsg: "is not the method value Func{dots: <the argument>}.Get: the returned function does not evaluate the validated dot list"})
	c.ExpectAtLeast("rejected shapes of the dot list", r.guards, 4)
	c.ExpectAtLeast("returns of Func{dots}.Get", nAcc, 1)
	// the recorded variable holds the previous dot's X when the monotonicity test runs (when the test
	// reads the neighbouring dot itself, nothing is remembered between iterations)
	for _, fr := range vw.frames {
		x := c31CtxOf(fr)
		if x.prev == nil {
			continue
		}
		g := fr.f
		condBlocks := map[*cfg.Block]ast.Expr{}
		for _, e := range r.rowHit[monoRow] {
			if e.from.fr != fr {
				continue
			}
			for _, a := range vw.ctxAtoms(e) {
				if strings.Contains(a, "*prev ") {
					condBlocks[e.from.b] = e.cond
				}
			}
		}
		if len(condBlocks) == 0 {
			continue
		}
		var loop ast.Stmt
		for _, l := range fr.env.loops {
			if l.contains(x.prevSet.Stmt) {
				loop = l.stmt
			}
		}
		c.Need(loop != nil, "the loop that records the previous X")
		head, _ := g.LoopOf(loop)
		body := c13LoopBody(g, loop)
		c.Need(head != nil && body != nil, "loop structure of NewFunc")
		nSets := 0
		for _, a := range assignsToVar(g, x.prev) {
			if a.RHS == nil || a.Pt == x.prevSet.Pt {
				continue
			}
			// an initial value assigned once before the loop is harmless (the test is conditioned on i >= 1)
			if before, _ := g.MustPassBefore([]core.Point{a.Pt}, x.prevSet.Pt); before && enclosingLoop(g, a.Stmt.Pos()) == nil {
				continue
			}
			nSets++
		}
		every := !c13BlocksFrom(body, nil, x.prevSet.Pt.B)[head]
		c.Check(every && nSets == 0, "NewFunc|previous X recorded on every iteration", "T7 Pairing (loop)", x.prevSet.Stmt.Pos(), "every iteration ends having stored the current dot's X, and nothing else assigns the variable", "an iteration can reach the next dot without recording its X (or the variable is assigned elsewhere): the monotonicity test compares with an older dot")
		for cb, cond := range condBlocks {
			condPt := core.Point{B: cb, I: len(cb.Nodes) - 1}
			_, found := core.PathQuery{F: g, From: x.prevSet.Pt, FromAfter: true, Target: core.PointSet(condPt), AvoidEdge: func(b *cfg.Block, s int) bool { return b.Succs[s] == head }}.Find()
			sameBlockBefore := x.prevSet.Pt.B == condPt.B && x.prevSet.Pt.I < condPt.I
			c.Check(!found && !sameBlockBefore, "NewFunc|monotonicity test before the update", "T2 Dominates (loop)", cond.Pos(), "within an iteration the test is never reached after the update: it sees the previous dot's X", "the current dot's X is stored before the test in the same iteration: every dot is compared with itself and all lists are rejected")
		}
	}
}

// c31GetClause decides clamping, piece search and interpolation on the inlined view of Func.Get. The
// piece index is followed as a value of the view's state: whether it is a local assigned in a loop that
// is left with break, or the result of a helper that returns from inside its loop, the interpolation is
// reached with the piece "len-2" (search exhausted) or "i-1" (match at index i).
func c31GetClause(c *core.Ctx, decStr string) {
	f := c.Fn(c31Pkg + ".Func.Get")
	recv, xp := f.Recv(), f.Param(0)
	c.Need(recv != nil && xp != nil, "Func.Get has a named receiver and parameter")
	mkEnv := func(vw *c13View, fr *c13Frame) *c13Env {
		x := c31ForFrame(vw, fr)
		g := fr.f
		if fr.parent == nil {
			x.rootFunc = recv
			x.roles[xp] = "x"
		}
		env := c13BareEnv(vw, fr)
		env.custom = x.name
		env.expand = c31Expand // a local standing for a linear form (`last := len(dots) - 1`) inside a condition
		// a forward scan of the dot indexes: a range over the dots, or a counted loop. What matters below is
		// the set of indexes it visits in ascending order, not how the loop is spelled.
		var stmts []ast.Stmt
		g.InspectOwn(func(n ast.Node) bool {
			switch n.(type) {
			case *ast.RangeStmt, *ast.ForStmt:
				stmts = append(stmts, n.(ast.Stmt))
			}
			return true
		})
		for _, ls := range stmts {
			l := &c13Loop{stmt: ls, env: env}
			cl := &c31Loop{l: l, x: x}
			if it, ok := c13IterationOf(g, ls, nil); ok && it.Body != nil {
				cl.it = it
				l.body, l.key, l.val = it.Body, it.Index, it.Value
				if l.key != nil {
					x.roles[l.key] = "i"
					x.loopOf[l.key] = l
				}
				if l.val != nil {
					x.elem[l.val] = "i"
					x.loopOf[l.val] = l
				}
			}
			env.loops = append(env.loops, l)
			x.loops = append(x.loops, cl)
		}
		// the piece index: an integer local assigned more than once that is not a loop variable
		cnt := map[*types.Var]int{}
		for _, a := range assignments(g) {
			v := varOf(g, a.LHS)
			if v == nil || x.loopOf[v] != nil || c13IsRange(a.Stmt) || c13ReturnedVar(g, v) {
				continue
			}
			if b, ok := v.Type().Underlying().(*types.Basic); !ok || b.Info()&types.IsInteger == 0 {
				continue
			}
			if a.Tok == token.INC || a.Tok == token.DEC {
				cnt[v] -= 100
			}
			cnt[v]++
		}
		var pieces []*types.Var
		for v, n := range cnt {
			if n > 1 {
				pieces = append(pieces, v)
			}
		}
		sort.Slice(pieces, func(i, j int) bool { return pieces[i].Pos() < pieces[j].Pos() })
		for i, v := range pieces {
			x.piece[v] = true
			x.roles[v] = "p"
			if i > 0 {
				x.roles[v] = fmt.Sprintf("p#%d", i+1)
			}
		}
		return env
	}
	vw := c13NewView(f, c31Inline(f), mkEnv)
	vw.valuer = c31Value
	vw.track = func(fr *c13Frame, v *types.Var) bool { return c31CtxOf(fr).piece[v] }
	vw.tuples = true // a search helper may return (index, found) instead of a sentinel index
	vw.build()
	rx := c31CtxOf(vw.root)
	entry := []*c13Node{vw.entry}

	// the search loop, in Get itself or in a helper spliced into the view
	var loops []*c31Loop
	seenLoop := map[ast.Stmt]bool{}
	for _, fr := range vw.frames {
		for _, cl := range c31CtxOf(fr).loops {
			if !seenLoop[cl.l.stmt] {
				seenLoop[cl.l.stmt] = true
				loops = append(loops, cl)
			}
		}
	}
	c.Need(len(loops) == 1, "Get contains exactly one loop (the piece search), in its own body or in a helper it calls")
	sl := loops[0]
	it, lx, loop := sl.it, sl.x, sl.l.stmt
	g, lf := lx.f, lx.fr
	c.Need(it != nil && it.Index != nil && it.Body != nil, "the search loop is a range with an index variable or a counted loop stepping by one (other search strategies are not recognised)")
	lo, hi := 0, ""
	if it.Counted {
		init := c13LoopInit(g, loop, it.Index)
		c.Need(init != nil && it.Bound != nil, "init clause and bound of the counted search loop")
		switch {
		case it.FromZero:
		case core.IsConstInt(g.Info(), init, 1):
			lo = 1
		default:
			lo = -1
		}
		hi = lx.canon(it.Bound)
		for _, a := range assignsToVar(g, it.Index) {
			if it.Body.Pos() <= a.Stmt.Pos() && a.Stmt.End() <= it.Body.End() {
				lo = -1 // the index is modified inside the body: the visited set is unknown
			}
		}
	} else {
		rs := loop.(*ast.RangeStmt)
		c.Need(rs.Tok == token.DEFINE && lx.dots(rs.X), "the range of the search loop is the dot list")
		hi = c31Form("0", "+ndots")
	}
	covers := (lo == 0 || lo == 1) && (hi == c31Form("0", "+ndots") || hi == c31Form("-1", "+ndots"))
	c.Check(covers, "Get|search visits every inner dot", "T7 Pairing (loop)", loop.Pos(),
		"the search visits the indexes from 0 or 1 up to len(dots)-1 or len(dots)-2 in ascending order: every inner dot 1..len-2 is a candidate",
		"the search loop does not visit every inner dot 1..len(dots)-2 in ascending order (starts at "+fmt.Sprint(lo)+", bound "+hi+"): the first dot with X > x may be missed and x is interpolated on a piece that does not contain it")

	// clamps
	firstY, lastY := c31Form("0", "+Y[0]"), c31Form("0", "+Y[ndots-1]")
	canonOf := func(o *c13Outcome) string {
		if o.val.kind == c13VExpr {
			return o.val.origin // the value the view followed to the return (a result variable included)
		}
		if o.stmt == nil || len(o.stmt.Results) != 1 {
			return ""
		}
		vw.cur = o.st
		return rx.canon(o.stmt.Results[0])
	}
	classify := func(reject, skip string, n *int) func(*c13Outcome) (int, string) {
		seen := map[*ast.ReturnStmt]bool{}
		return func(o *c13Outcome) (int, string) {
			if o.panic {
				return c13Panic, ""
			}
			switch canonOf(o) {
			case "":
				return c13Unknown, ""
			case reject:
				if !seen[o.stmt] {
					seen[o.stmt] = true
					*n++
				}
				return c13Reject, ""
			case skip:
				return c13Skip, ""
			}
			return c13Accept, ""
		}
	}
	n1, n2 := 0, 0
	c13Table(c, vw, []c13Row{{name: "x before the first dot", tag: "clamp",
		alts:   []string{c31Le("1", "+x", "-X[0]"), c31Le("0", "+x", "-X[0]")},
		how:    "the edge x < X[0] (or <=) reaches only `return dots[0].Y`, and the interpolation lies behind an edge implying the opposite",
		breaks: "an argument before the first dot does not yield the first dot's Y (x - x0 wraps in the interpolation)"}}, c13TableOpt{kindOf: classify(firstY, lastY, &n1), extras: true})
	c13Table(c, vw, []c13Row{{name: "x after the last dot", tag: "clamp",
		alts:   []string{c31Le("1", "-x", "+X[ndots-1]"), c31Le("0", "-x", "+X[ndots-1]")},
		how:    "the edge x > X[len-1] (or >=) reaches only `return dots[len-1].Y`, and the interpolation lies behind an edge implying the opposite",
		breaks: "an argument after the last dot does not yield the last dot's Y (the last piece is extrapolated: the ratio exceeds DecimalUnit and DecimalUnit-ratio wraps)"}}, c13TableOpt{kindOf: classify(lastY, firstY, &n2), extras: true})
	c.ExpectAtLeast("returns of the first dot's Y", n1, 1)
	c.ExpectAtLeast("returns of the last dot's Y", n2, 1)

	// the interpolation and the piece it is reached with
	var interp []*c13Node
	interpStmts := map[*ast.ReturnStmt]bool{}
	for _, n := range vw.outcomes() {
		if n.outcome.panic {
			continue
		}
		if cn := canonOf(n.outcome); cn != firstY && cn != lastY {
			interp = append(interp, n)
			interpStmts[n.outcome.stmt] = true
		}
	}
	c.Need(len(interpStmts) == 1 && len(interp) > 0, "exactly one return besides the two clamps (the interpolation)")
	interpStmt := interp[0].outcome.stmt
	defV, matchV := c31Form("-2", "+ndots"), c31Form("-1", "+i")
	inDef, inMatch, inAny := map[*c13Node]bool{}, map[*c13Node]bool{}, map[*c13Node]bool{}
	other := ""
	for _, n := range interp {
		var vals []string
		for w, v := range n.outcome.st.vars {
			if v.kind == c13VExpr && (rx.roles[w] == "p" || strings.HasPrefix(rx.roles[w], "p#")) {
				vals = append(vals, v.origin)
			}
		}
		for cl, v := range n.outcome.st.calls {
			// a helper result used by the return statement: a piece index, unless the call computes the
			// returned value itself (the interpolation moved into a helper) or fetches a dot
			if len(n.outcome.stmt.Results) == 1 && ast.Unparen(n.outcome.stmt.Results[0]) == ast.Expr(cl) {
				continue
			}
			if v.kind == c13VExpr && !strings.HasPrefix(v.origin, "dot[") {
				vals = append(vals, v.origin)
			}
		}
		if len(vals) != 1 {
			c.Undecided("Get|piece index", "T8 (search)", interpStmt.Pos(), fmt.Sprintf("the interpolation is reached with %d followed piece values (expected one local or helper result that holds the piece index): the searched piece cannot be read", len(vals)))
			return
		}
		inAny[n] = true
		switch vals[0] {
		case defV:
			inDef[n] = true
		case matchV:
			inMatch[n] = true
		default:
			other = vals[0]
		}
	}
	c.Check(other == "" && len(inDef) > 0, "Get|piece defaults to the last one", "T8 (search)", interpStmt.Pos(), "when the search finds no dot the piece index is len(dots)-2", "the piece index without a match is not len(dots)-2 (got "+other+"): for x beyond all interior dots a wrong pair of dots is interpolated")
	c.Check(other == "" && len(inMatch) > 0, "Get|piece is the one left of the match", "T8 (search)", interpStmt.Pos(), "on a match at index i the piece index becomes i-1", "the matched index i is not turned into piece i-1 (got "+other+"): the dots used do not bracket x")
	head, done, body := c13LoopBlocks(g, loop)
	c.Need(head != nil && done != nil && body != nil, "loop structure of the piece search")
	atHead := func(n *c13Node) bool { return n.fr == lf && n.b == head && n.i == 0 }
	bodyN := vw.nodesAt(lf, body)
	strict, weak := c31Le("1", "+x", "-X[i]"), c31Le("0", "+x", "-X[i]")
	iGE1, iNE0 := c31Le("1", "-i"), c13Not(c31Form("0", "+i")+" == 0")
	inner := c31Le("2", "+i", "-ndots")
	isMatch := func(e *c13VEdge) bool {
		if e.kind != c13EdgeBranch || !c13HasLoop(e.loops, sl.l) {
			return false
		}
		ctx := map[string]bool{}
		for _, a := range vw.ctxAtoms(e) {
			ctx[a] = true
		}
		return ctx[strict] || ctx[weak] && (ctx[iGE1] || ctx[iNE0] || lo == 1)
	}
	n, path := vw.search(bodyN, isMatch, vw.atBlock(lf, head), func(n *c13Node) bool { return inMatch[n] })
	c.Check(n == nil, "Get|match condition", "T8 (search)", loop.Pos(), "within an iteration the piece i-1 is chosen only behind the edge where X[i] > x (or X[i] >= x with i >= 1)", "the piece i-1 can be chosen without X[i] > x for the current dot i (path "+vw.describe(path, n)+"): the interpolated dots do not bracket x")
	// first match wins
	leaves := true
	wherePos := loop.Pos()
	for _, e := range vw.branchEdges() {
		if !isMatch(e) {
			continue
		}
		if m, _ := vw.search([]*c13Node{e.to}, nil, nil, atHead); m != nil {
			leaves, wherePos = false, e.cond.Pos()
		}
	}
	c.Check(leaves, "Get|first match ends the search", "T8 (search)", wherePos, "after a match the loop is left: the first dot with X > x determines the piece", "the search continues after a match: a later dot overrides the piece and x is interpolated on a piece that does not contain it")
	// no candidate is passed over: the next iteration is reached only behind an edge implying that the
	// current dot is not a match (X[i] <= x) or not an inner dot (i < 1, i > len-2)
	notCand := map[string]bool{c13NegAtom(strict): true, c13NegAtom(weak): true, c13NegAtom(iGE1): true, c13NegAtom(iNE0): true, c13NegAtom(inner): true}
	passes := func(e *c13VEdge) bool {
		return e.kind == c13EdgeBranch && e.hasAny(notCand) && c13HasLoop(e.loops, sl.l)
	}
	n, path = vw.search(bodyN, passes, nil, atHead)
	m, _ := vw.search(bodyN, nil, vw.atBlock(lf, head), func(n *c13Node) bool { return inDef[n] })
	c.Check(n == nil && m == nil, "Get|every dot up to the match is tested", "T7 Pairing (loop)", loop.Pos(), "every iteration evaluates the match condition, goes on only when the current dot is not a candidate, and the default piece is used only when the loop is exhausted", "an iteration can go on to the next dot without the current one having failed the match test (path "+vw.describe(path, n)+"), or the loop can end without a match before all dots were seen: the first dot with X > x may be missed")

	// interpolation
	num := c31Form("0", "+x", "-X[p]")
	den := c31Form("0", "+X[p+1]", "-X[p]")
	div := "Div(" + num + ", " + den + ")"
	mul := func(a, b string) string {
		if b < a {
			a, b = b, a
		}
		return "Mul(" + a + ", " + b + ")"
	}
	want := c31Form("0", "+"+mul(c31Form("0", "+Y[p]"), c31Form(decStr, "-"+div)), "+"+mul(c31Form("0", "+Y[p+1]"), c31Form("0", "+"+div)))
	got := canonOf(interp[0].outcome)
	c.Check(got == want, "Get|interpolation between neighbouring dots", "expression shape", interpStmt.Pos(),
		"the result is Mul(Y[p], DecimalUnit-r) + Mul(Y[p+1], r) with r = Div(x-X[p], X[p+1]-X[p]): neighbouring dots p and p+1, weights summing to DecimalUnit, coordinates <= maxVal as first Mul/Div operands",
		"the result is not the weighted sum of the two neighbouring dots' Y with r = (x-X[p])/(X[p+1]-X[p]) (got "+got+"): values between dots are not the linear interpolation")
	n, path = vw.search(entry, nil, vw.atBlock(lf, head), func(n *c13Node) bool { return inAny[n] })
	c.Check(n == nil, "Get|interpolation after the search", "T2 Dominates (loop)", interpStmt.Pos(), "the interpolation uses the piece index only after the search loop has run", "the interpolation is reachable without the search: "+vw.describe(path, n))
}
