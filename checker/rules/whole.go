package rules

import (
	"strings"

	"golang.org/x/tools/go/ssa"

	"lachk/core"
)

func init() {
	thoroughRuns["C01"] = c01Whole
	thoroughRuns["C07"] = c07Whole
}

var thoroughRuns = map[string]func(c *core.Ctx, repo string){}

// wholeExceptions: order-sensitive constructs reachable in the whole-module graph that are accepted,
// each with one line of reason.
var wholeExceptions = map[string]string{
	"utils/simplewlru.Cache.Purge": "Purge reports evictions in map order; the LRU contract leaves that order open and the consensus store installs no eviction callback (simplewlru.New passes nil)",
}

// c01Whole re-decides C01.det on the whole-module VTA call graph: everything reachable from the
// consensus entry points, through dependencies and interface calls, except storage back-ends
// (kvdb/..., assumed to be a deterministic ordered map: C22/C23) must be free of randomness, time,
// goroutines, select and order-sensitive map ranges.
func c01Whole(c *core.Ctx, repo string) {
	c.Clause("C01.det.whole", func() {
		w, err := core.LoadWhole(repo)
		if err != nil {
			c.Undecided("load", "load", 0, "whole-module load failed: "+firstLine(err.Error()))
			return
		}
		through := func(fn *ssa.Function) bool {
			if fn.Pkg == nil || fn.Pkg.Pkg == nil {
				return true
			}
			rel := core.RelPkg(fn.Pkg.Pkg.Path())
			// stop at the storage layer
			return !(rel == "kvdb" || strings.HasPrefix(rel, "kvdb/"))
		}
		reach, nSSA, err := w.Reachable(c01Roots, through)
		if err != nil {
			c.Undecided("reach", "VTA", 0, err.Error())
			return
		}
		nF, nR, nBad := 0, 0, 0
		for _, f := range reach {
			rel := core.RelPkg(f.Pkg.PkgPath)
			if rel == "kvdb" || strings.HasPrefix(rel, "kvdb/") {
				continue
			}
			nF++
			if eff := core.NondetEffects(f); len(eff) > 0 {
				nBad++
				c.FailAt(rel+"."+short(f.Name)+"|no randomness/time/goroutines", "T11 Determinism effects (VTA)", w.P.Pos(f.Pos()), "reachable from the consensus entry points: "+strings.Join(eff, "; "))
			}
			for _, mr := range core.MapRanges(f) {
				nR++
				if !mr.Sensitive() {
					continue
				}
				if why, ok := wholeExceptions[f.Name]; ok {
					c.Pass(rel+"."+short(f.Name)+"|map range (exception)", "T10 MapOrder (VTA)", why)
					continue
				}
				nBad++
				c.FailAt(rel+"."+short(f.Name)+"|range over "+exprStr(mr.Stmt.X), "T10 MapOrder (VTA)", w.P.Pos(mr.Stmt.Pos()), "order-sensitive map range reachable from the consensus entry points: "+strings.Join(mr.Reasons, "; "))
			}
		}
		if nBad == 0 {
			c.Pass("whole-module reach is free of nondeterministic effects", "T11/T10 (VTA)", "no randomness, time, goroutine, select or order-sensitive map range outside the storage layer")
		}
		c.ExpectAtLeast("module functions reachable from the consensus entry points (VTA)", nF, 150)
		c.Extra["vta_functions_total"] = w.NFunc
		c.Extra["vta_reached_ssa_functions"] = nSSA
		c.Extra["vta_reached_module_functions"] = nF
		c.Extra["vta_map_ranges"] = nR
		c.Note("VTA whole-module pass: %d SSA functions in the program, %d reached, %d module functions scanned, %d map ranges", w.NFunc, nSSA, nF, nR)
	})
}

// c07Whole re-decides C07.build-effects on the VTA graph: nothing reachable from
// IndexedLachesis.Build writes a consensus-store table or flushes the index.
func c07Whole(c *core.Ctx, repo string) {
	c.Clause("C07.build-effects.whole", func() {
		w, err := core.LoadWhole(repo)
		if err != nil {
			c.Undecided("load", "load", 0, "whole-module load failed: "+firstLine(err.Error()))
			return
		}
		reach, nSSA, err := w.Reachable([]string{"abft.IndexedLachesis.Build"}, nil)
		if err != nil {
			c.Undecided("reach", "VTA", 0, err.Error())
			return
		}
		n := 0
		var bad []string
		for _, g := range reach {
			n++
			rel := core.RelPkg(g.Pkg.PkgPath)
			for _, cs := range g.Calls() {
				if rel == "abft" && (cs.Name == kvPut || cs.Name == kvDelete || cs.Name == "kvdb.Batch.Write") {
					_, path := fieldPath(g, cs.Recv())
					if len(path) > 0 && strings.HasPrefix(path[0], "abft.Store.") {
						bad = append(bad, short(g.Name)+" writes "+strings.Join(path, ".")+" at "+w.P.Pos(cs.Pos()))
					}
				}
				if (strings.HasPrefix(cs.Name, "abft.DagIndexer.") || strings.HasPrefix(cs.Name, "vecengine.Engine.")) && methodNamed(cs.Name, "Flush") {
					bad = append(bad, short(g.Name)+" flushes the index at "+w.P.Pos(cs.Pos()))
				}
			}
		}
		c.Check(len(bad) == 0, "Build reaches no consensus-store write and no index flush (VTA)", "T6 effects (VTA)", 0, "none among the module functions reachable from IndexedLachesis.Build", strings.Join(bad, "; "))
		c.ExpectAtLeast("module functions reachable from Build (VTA)", n, 40)
		c.Extra["vta_reached_ssa_functions"] = nSSA
		c.Extra["vta_reached_module_functions"] = n
	})
}
