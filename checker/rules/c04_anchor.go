package rules

import (
	"go/ast"
	"go/constant"
	"go/types"

	"lachk/core"
)

// Anchors of C04, located by what the functions do rather than by their names or signatures:
//
//	quorum function   a declared abft function whose inlined view (its helpers and the callbacks it binds)
//	                  asks the index ForklessCause(..)
//	search function   the abft function that calls the quorum function on a cycle of its CFG (frame by frame)
//	callers           the abft functions that call the search function: the one that hands the result to
//	                  SetFrame is the build side, the other one the processing side
//
// The mode of a search (build: bounded by the self-parent's frame + 100, processing: bounded by the
// claimed frame) may be decided inside the search function from a boolean parameter, or by the callers
// that pass the starting frame and the bound in; both forms are decided by the same clauses.
type c04Caller struct {
	f    *core.FuncInfo
	cs   *core.CallSite
	ev   *types.Var // the caller's variable that is passed as the event
	mode string     // "build" or "check"
}

type c04Anchors struct {
	search   *core.FuncInfo
	q        *core.CallSite // the quorum test in the search function
	quorum   *core.FuncInfo
	e        *types.Var // event parameter of the search function
	eIdx     int
	modeP    *types.Var // boolean mode parameter (nil when the callers decide the mode)
	modeIdx  int
	nres     int
	callers  []*c04Caller
	build    *c04Caller
	check    *c04Caller
	problems []string
}

func c04InAbft(g *core.FuncInfo) bool { return core.RelPkg(g.Pkg.PkgPath) == "abft" }

func c04IsForklessCause(fr *c05Frame, cs *core.CallSite) bool {
	return methodNamed(cs.Name, "ForklessCause") && len(cs.Call.Args) == 2
}

// c04ParamIndex: the index of the parameter v of g (-1 if v is not one).
func c04ParamIndex(g *core.FuncInfo, v *types.Var) int {
	if v == nil || g.Type == nil || g.Type.Params == nil {
		return -1
	}
	n := 0
	for _, fl := range g.Type.Params.List {
		if len(fl.Names) == 0 {
			n++
			continue
		}
		for range fl.Names {
			if g.Param(n) == v {
				return n
			}
			n++
		}
	}
	return -1
}

func c04NumResults(g *core.FuncInfo) int {
	if g.Type == nil || g.Type.Results == nil {
		return 0
	}
	n := 0
	for _, fl := range g.Type.Results.List {
		if len(fl.Names) == 0 {
			n++
		} else {
			n += len(fl.Names)
		}
	}
	return n
}

var c04AnchorCache = map[*core.Prog]*c04Anchors{}

// c04Locate finds the anchors (nil with a reason when nothing matching exists).
func c04Locate(c *core.Ctx) *c04Anchors {
	if a, ok := c04AnchorCache[c.P]; ok {
		return a
	}
	p := c.P
	an := &c04Anchors{eIdx: -1, modeIdx: -1}
	c04AnchorCache[p] = an
	var decl []*core.FuncInfo
	for _, g := range p.FuncsInPkg("abft") {
		if g.Obj != nil && g.Body != nil {
			decl = append(decl, g)
		}
	}
	type cand struct {
		h, g *core.FuncInfo
		q    *core.CallSite
	}
	var cands []cand
	for _, g := range decl {
		if sig, _ := g.Obj.Type().(*types.Signature); sig == nil || sig.Results().Len() != 1 || !types.Identical(sig.Results().At(0).Type().Underlying(), types.Typ[types.Bool]) {
			continue
		}
		if len(c05Sites(g, 3, c04InAbft, c04IsForklessCause)) == 0 {
			continue
		}
		for _, h := range decl {
			if h == g {
				continue
			}
			for _, cs := range h.Calls() {
				if cs.Callee == types.Object(g.Obj) && !cs.InGo && !cs.InDefer && h.CanReach(cs.Pt, cs.Pt) {
					cands = append(cands, cand{h, g, cs})
				}
			}
		}
	}
	if len(cands) != 1 {
		an.problems = append(an.problems, "abft has not exactly one function that repeats a forkless-cause quorum test frame by frame")
		return an
	}
	an.search, an.quorum, an.q = cands[0].h, cands[0].g, cands[0].q
	h := an.search
	an.nres = c04NumResults(h)
	// the event parameter: what the quorum test is asked for
	for _, arg := range an.q.Call.Args {
		v := canonVar(h, varOf(h, arg))
		if v == nil {
			continue
		}
		if i := c04ParamIndex(h, v); i >= 0 {
			if _, isIface := v.Type().Underlying().(*types.Interface); isIface {
				an.e, an.eIdx = v, i
			}
		}
	}
	if an.e == nil {
		an.problems = append(an.problems, "the quorum test of "+short(h.Name)+" is not asked for an event parameter")
		return an
	}
	if h.Type.Params != nil {
		n := 0
		for _, fl := range h.Type.Params.List {
			k := len(fl.Names)
			if k == 0 {
				k = 1
			}
			for j := 0; j < k; j++ {
				if v := h.Param(n); v != nil && types.Identical(v.Type().Underlying(), types.Typ[types.Bool]) {
					an.modeP, an.modeIdx = v, n
				}
				n++
			}
		}
	}
	for _, g := range decl {
		for _, k := range append([]*core.FuncInfo{g}, allLits(g)...) {
			for _, cs := range k.Calls() {
				if cs.Callee != types.Object(h.Obj) {
					continue
				}
				cl := &c04Caller{f: k, cs: cs, mode: "check"}
				if an.eIdx < len(cs.Call.Args) {
					cl.ev = canonVar(k, varOf(k, cs.Call.Args[an.eIdx]))
				}
				if len(k.CallsMatching(func(s *core.CallSite) bool { return methodNamed(s.Name, "SetFrame") })) > 0 {
					cl.mode = "build"
				}
				an.callers = append(an.callers, cl)
			}
		}
	}
	for _, cl := range an.callers {
		switch {
		case cl.mode == "build" && an.build == nil:
			an.build = cl
		case cl.mode == "check" && an.check == nil:
			an.check = cl
		}
	}
	return an
}

// c04ConstBool: x is the boolean constant want.
func c04ConstBool(f *core.FuncInfo, x ast.Expr, want bool) bool {
	cv, ok := core.ConstVal(f.Info(), x)
	return ok && cv.Kind() == constant.Bool && constant.BoolVal(cv) == want
}

// ---- "the self-parent's frame" as a symbolic value -------------------------------------------------
//
// c04Spf decides whether a variable or expression of a function g holds the frame of the stored
// self-parent of the event variable ev when a self-parent exists, and 0 otherwise. It is decided from
// definitions, not by evaluation:
//
//	GetEvent(*ev.SelfParent()).Frame()   (locals looked through) is the value for an event with a self-parent
//	                                     (without one the dereference panics, so nothing is returned);
//	the constant 0                        is the value only at a point guarded by ev.SelfParent() == nil;
//	a variable                            by its reaching definitions, separately on the paths with and
//	                                     without a self-parent (c04LastDef);
//	helper(.., ev, ..)                    when every return of the module function helper gives such a value
//	                                     for the parameter bound to ev (bounded depth).
type c04Spf struct{ depth int }

func (s c04Spf) isSelfParent(g *core.FuncInfo, ev *types.Var, x ast.Expr) bool {
	if st, ok := ast.Unparen(x).(*ast.StarExpr); ok {
		x = st.X
	}
	return c04MethodOn(g, x, "SelfParent", ev) != nil
}

func (s c04Spf) hasSP(g *core.FuncInfo, ev *types.Var, want bool) func(core.Fact) bool {
	return c04NilCmp(g, func(x ast.Expr) bool { return s.isSelfParent(g, ev, x) }, !want)
}

// spFrame: x is GetEvent(*ev.SelfParent()).Frame()
func (s c04Spf) spFrame(g *core.FuncInfo, ev *types.Var, x ast.Expr) bool {
	if x == nil {
		return false
	}
	call, ok := resolveLocal(g, core.StripConv(g.Info(), x)).(*ast.CallExpr)
	if !ok || !methodNamed(calleeName(g, call), "Frame") {
		return false
	}
	sel, ok := ast.Unparen(call.Fun).(*ast.SelectorExpr)
	if !ok {
		return false
	}
	get := isCallTo(g, sel.X, "abft.EventSource.GetEvent")
	return get != nil && len(get.Args) == 1 && s.isSelfParent(g, ev, get.Args[0])
}

// helper: x is a call of a module function every return of which gives the self-parent's frame of the
// parameter bound to ev.
func (s c04Spf) helper(g *core.FuncInfo, ev *types.Var, x ast.Expr) bool {
	if x == nil || s.depth <= 0 {
		return false
	}
	call, ok := resolveLocal(g, core.StripConv(g.Info(), x)).(*ast.CallExpr)
	if !ok {
		return false
	}
	cs := c05CallSiteOf(g, call)
	if cs == nil {
		for _, l := range allLits(g) {
			if cs = c05CallSiteOf(l, call); cs != nil {
				break
			}
		}
	}
	if cs == nil {
		return false
	}
	hh := c05Callee(cs)
	if hh == nil || c04NumResults(hh) != 1 {
		return false
	}
	var ev2 *types.Var
	for i, arg := range call.Args {
		if canonVar(g, varOf(g, arg)) == ev {
			if _, stable := c05StableParam(hh, hh.Param(i)); stable {
				ev2 = hh.Param(i)
			}
		}
	}
	if ev2 == nil {
		return false
	}
	rets := hh.ReturnPoints()
	if len(rets) == 0 {
		return false
	}
	sub := c04Spf{s.depth - 1}
	for _, rp := range rets {
		rs, _ := rp.Node().(*ast.ReturnStmt)
		if rs == nil || len(rs.Results) != 1 {
			return false
		}
		if ok, _ := sub.expr(hh, ev2, rs.Results[0], rp); !ok {
			return false
		}
	}
	return true
}

// expr: the value of x evaluated at point at of g.
func (s c04Spf) expr(g *core.FuncInfo, ev *types.Var, x ast.Expr, at core.Point) (bool, string) {
	x = core.StripConv(g.Info(), ast.Unparen(x))
	if core.IsConstInt(g.Info(), x, 0) {
		if ok, wit := g.GuardedBy(at, s.hasSP(g, ev, false)); !ok {
			return false, "0 is used as the self-parent's frame on a path where the event may have a self-parent: " + g.DescribePath(wit)
		}
		return true, ""
	}
	if s.spFrame(g, ev, x) || s.helper(g, ev, x) {
		return true, ""
	}
	if v := canonVar(g, varOf(g, x)); v != nil {
		return s.variable(g, ev, v, []core.Point{at}, false)
	}
	return false, "the value is not derived from GetEvent(*e.SelfParent()).Frame()"
}

// variable: the local variable v of g at the points uses.
func (s c04Spf) variable(g *core.FuncInfo, ev *types.Var, v *types.Var, uses []core.Point, zeroEntry bool) (bool, string) {
	if c04ParamIndex(g, v) >= 0 || len(assignsToVar(g, v)) == 0 {
		return false, "the value is a parameter or captured variable of " + short(g.Name)
	}
	withSP := func(a assignment) bool { return s.spFrame(g, ev, a.RHS) || s.helper(g, ev, a.RHS) }
	noSP := func(a assignment) bool { return core.IsConstInt(g.Info(), a.RHS, 0) || s.helper(g, ev, a.RHS) }
	if ok, _, _, wit := c04LastDef(g, v, uses, g.GuardEdges(s.hasSP(g, ev, false)), withSP, false); !ok {
		return false, "for an event with a self-parent the starting frame is not always GetEvent(*e.SelfParent()).Frame(): " + wit
	}
	if ok, _, _, wit := c04LastDef(g, v, uses, g.GuardEdges(s.hasSP(g, ev, true)), noSP, zeroEntry); !ok {
		return false, "for an event without self-parent the starting frame is not 0 (the event would not get frame 1): " + wit
	}
	return true, ""
}
