package rules

import (
	"go/ast"
	"go/token"

	"lachk/core"
)

// An inlined view of an operation: the statements of the operation itself and of the module functions
// and closures it calls (bounded depth), each with the chain of call sites that leads to it and with
// the callee parameters bound to the caller's storage locations. Facts about Release/Terminate are
// decided on this view, so that they do not depend on whether a branch is written in place or in a
// helper such as resetWithWarning(weight).

// c30Hop is one level of the chain: a point of Sc.F — a call that leads one level down, or, for the
// last hop, the statement itself.
type c30Hop struct {
	Sc *c30Scope
	Pt core.Point
}

type c30Site struct {
	Hops []c30Hop
	Pos  token.Pos
}

// top is the point of the operation through which the site is reached.
func (s c30Site) top() core.Point { return s.Hops[0].Pt }

// c30ViewSites enumerates the sites of the inlined view of sc.F accepted by pick: pick is shown every
// function of the view with its scope and returns the points of interest of that function.
func c30ViewSites(sc *c30Scope, depth int, pick func(sc *c30Scope) []c30Site) []c30Site {
	var out []c30Site
	var walk func(sc *c30Scope, prefix []c30Hop, d int, seen map[*core.FuncInfo]bool)
	walk = func(sc *c30Scope, prefix []c30Hop, d int, seen map[*core.FuncInfo]bool) {
		for _, s := range pick(sc) {
			hops := append(append([]c30Hop(nil), prefix...), s.Hops...)
			out = append(out, c30Site{Hops: hops, Pos: s.Pos})
		}
		if d <= 0 {
			return
		}
		for _, cs := range sc.F.Calls() {
			if cs.InGo {
				continue
			}
			sub := sc.enter(cs.Call)
			if sub == nil || seen[sub.F] {
				continue
			}
			seen[sub.F] = true
			walk(sub, append(append([]c30Hop(nil), prefix...), c30Hop{sc, cs.Pt}), d-1, seen)
			delete(seen, sub.F)
		}
	}
	walk(sc, nil, depth, map[*core.FuncInfo]bool{sc.F: true})
	return out
}

// c30SiteGuarded: on every path of the operation to the site an edge establishing a fact accepted by
// match has been taken: at some level of the call chain every path from that function's entry to the
// call (or to the statement) takes such an edge.
func c30SiteGuarded(s c30Site, match func(sc *c30Scope, ft core.Fact) bool) (bool, []core.Point) {
	var wit []core.Point
	for i, h := range s.Hops {
		hop := h
		ok, path := hop.Sc.F.GuardedBy(hop.Pt, func(ft core.Fact) bool { return match(hop.Sc, ft) })
		if ok {
			return true, nil
		}
		if i == 0 {
			wit = path
		}
	}
	return false, wit
}

func c30SiteGuardedLin(s c30Site, want string, name func(c30Access) string) (bool, []core.Point) {
	w := core.ParseLinCmp(want)
	return c30SiteGuarded(s, func(sc *c30Scope, ft core.Fact) bool { return c30Implies(sc, ft, w, name, 2) })
}

// c30GuardedBetween: every path of f from `from` (exclusive) to `to` takes an edge establishing want.
func c30GuardedBetween(f *core.FuncInfo, from, to core.Point, want string, name func(c30Access) string) (bool, []core.Point) {
	return c30GuardedBetweenSc(&c30Scope{F: f}, from, to, want, name)
}

// c30GuardedBetweenSc is c30GuardedBetween in a given scope of f (e.g. one that marks stale locals).
func c30GuardedBetweenSc(sc *c30Scope, from, to core.Point, want string, name func(c30Access) string) (bool, []core.Point) {
	f := sc.F
	w := core.ParseLinCmp(want)
	return f.GuardedBetween(from, to, func(ft core.Fact) bool { return c30Implies(sc, ft, w, name, 2) })
}

// c30MustPoints: the points of f at which the effect certainly happens: the points own(f) plus the calls
// of module functions / closures every returning path of which passes such a point (bounded depth).
func c30MustPoints(f *core.FuncInfo, depth int, own func(g *core.FuncInfo) []core.Point) []core.Point {
	pts := append([]core.Point(nil), own(f)...)
	if depth <= 0 {
		return pts
	}
	for _, cs := range f.Calls() {
		if cs.InGo || cs.InDefer {
			continue
		}
		g, _ := c30CalleeInfo(f, cs.Call)
		if g == nil || g == f {
			continue
		}
		sub := c30MustPoints(g, depth-1, own)
		if len(sub) == 0 {
			continue
		}
		if _, escapes := (core.PathQuery{F: g, From: g.Entry(), Avoid: core.PointSet(sub...), TargetExit: true}).Find(); !escapes {
			pts = append(pts, cs.Pt)
		}
	}
	return pts
}

func c30IsZeroMetric(e ast.Expr) bool {
	cl, ok := ast.Unparen(e).(*ast.CompositeLit)
	return ok && len(cl.Elts) == 0
}

func c30ReleaseClauses(c *core.Ctx) {
	c.Clause("C30.overrelease", func() {
		// decided on the inlined view of Release by reaching definitions, guard facts in linear normal form
		// and path queries (c30_value.go): not on the number or the spelling of the statements that
		// subtract, reset and report (they may work on a local copy of the counter and store the result
		// once, live in a helper, or be duplicated per branch)
		c30OverRelease(c)
	})

	c.Clause("C30.terminate", func() {
		f := c.Fn(semT + ".Terminate")
		zero := c30MustPoints(f, 2, func(g *core.FuncInfo) []core.Point {
			var out []core.Point
			for _, a := range assignsToField(g, semT+".maxProcessing") {
				if c30IsZeroMetric(a.RHS) {
					out = append(out, a.Pt)
				}
			}
			return out
		})
		ok := len(zero) > 0
		if ok {
			_, escapes := core.PathQuery{F: f, From: f.Entry(), Avoid: core.PointSet(zero...), TargetExit: true}.Find()
			ok = !escapes
		}
		c.Check(ok, "Terminate zeroes capacity", "T2 Dominates", f.Pos(), "maxProcessing is set to the zero Metric on every path (every later non-empty request exceeds it and is refused)", "Terminate does not zero maxProcessing on every path")
	})
}
