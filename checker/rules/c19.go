package rules

import (
	"go/ast"
	"go/token"
	"go/types"
	"strings"

	"golang.org/x/tools/go/cfg"

	"lachk/core"
)

// C19 — parent selection (emitter/ancestor: ChooseParents, MetricStrategy.Choose, RandomStrategy.Choose).
//
// The helpers with the c19 prefix (local-variable provenance, use audit, loop guards) are shared with c20.go.

const (
	c19AncPkg    = "emitter/ancestor"
	c19ChooseFn  = c19AncPkg + ".ChooseParents"
	c19IfaceCh   = c19AncPkg + ".SearchStrategy.Choose"
	c19SetMake   = "hash.Events.Set"
	c19SetSlice  = "hash.EventsSet.Slice"
	c19SetErase  = "hash.EventsSet.Erase"
	c19MetricStr = c19AncPkg + ".MetricStrategy"
	c19RandStr   = c19AncPkg + ".RandomStrategy"
)

func init() {
	register("C19", "other", "T7 Pairing, T2 Dominates (loop-aware), T4 GuardedBy (normalised loop/exit conditions), AST provenance through single-definition locals, T6 use audit",
		"Decides the shape parent selection depends on. ChooseParents: the returned slice is one local that starts empty, receives the existing parents (parameter 0, in order, via one append of existingParents...) exactly once before anything else and on every path to return, and afterwards only single-element appends, never an indexed store; the option set is options.Set() of parameter 1 and is only erased from, sliced and measured (so it stays a subset of the offered options); every existing parent is erased from it before the first slice; each appended element is curOptions[k] (directly or through a single-definition local) where curOptions is the slice of the option set taken in the same iteration and k is the result of SearchStrategy.Choose applied to that same slice (held in a local or used in place), by the strategy of this iteration (strategies[i] of the counted loop, or the range value); the append is paired both ways with erasing the same element (no parent is repeated, no option is lost); at most one append per iteration, iterations bounded by i < len(strategies) with i counted from 0 by 1; Choose and the slice are reached only with a non-empty option set, re-established after every erase; every return is reached only over an edge saying the strategies are exhausted or the option set is empty (the loop stops early only when no options remain). MetricStrategy.Choose: the returned index is one local initialised to 0; it is assigned only the index of the loop over the options parameter (range key, or the counter of for i := 0; i < len(options); i++) and always together with the running maximum, which is assigned only the metric of the option of that same iteration (the strategy's metric source — a func-valued field of the receiver called in place, or a method of a field of the receiver, declared or of a small interface — applied to the range value or options[i], possibly through a local); the update happens only on weight > max (>= accepted) or on max == 0 with an unsigned metric type, the skip only on an edge implying weight <= max; every option is evaluated (no continue/break/early return before the loop is done). RandomStrategy.Choose returns rand.Intn(len(options)); neither strategy writes through or leaks its options parameter. NOT decided: that the chosen index has maximal metric as a value fact (it follows from the decided shape for a deterministic metricFn, by the usual running-maximum invariant, but the invariant is not machine-checked), set semantics of hash.Events.Set / EventsSet.Slice / EventsSet.Erase, and behaviour of foreign SearchStrategy implementations.",
		[]string{"hash.Events.Set, hash.EventsSet.Slice and hash.EventsSet.Erase implement set semantics (Slice lists exactly the members, Erase removes exactly its arguments)",
			"SearchStrategy implementations return an index in [0,len(options)) and do not modify the slices passed to them (checked for the two implementations in emitter/ancestor only)",
			"metricFn is deterministic during one Choose call"},
		runC19)
}

// ---------------------------------------------------------------------------
// shared helpers (prefix c19)

// c19AssignCount counts the assignments to v in f including nested literals, and whether its address is taken.
func c19AssignCount(f *core.FuncInfo, v *types.Var) (n int, addr bool) {
	is := func(e ast.Expr) bool {
		id, ok := ast.Unparen(e).(*ast.Ident)
		return ok && f.Info().ObjectOf(id) == v
	}
	f.InspectAll(func(nd ast.Node) bool {
		switch x := nd.(type) {
		case *ast.AssignStmt:
			for _, l := range x.Lhs {
				if is(l) {
					n++
				}
			}
		case *ast.IncDecStmt:
			if is(x.X) {
				n++
			}
		case *ast.ValueSpec:
			for _, id := range x.Names {
				if f.Info().ObjectOf(id) == v {
					n++
				}
			}
		case *ast.RangeStmt:
			if x.Key != nil && is(x.Key) {
				n++
			}
			if x.Value != nil && is(x.Value) {
				n++
			}
		case *ast.UnaryExpr:
			if x.Op == token.AND && is(x.X) {
				addr = true
			}
		}
		return true
	})
	return
}

// c19SingleDef returns the only definition `v := rhs` / `v = rhs` / `var v = rhs` of a local variable
// (one-to-one assignment, own body). ok is false when v is assigned more than once, by a multi-value
// form, inside a closure, or has its address taken.
func c19SingleDef(f *core.FuncInfo, v *types.Var) (assignment, bool) {
	if v == nil || v.IsField() || v.Pkg() == nil || v.Parent() == v.Pkg().Scope() {
		return assignment{}, false
	}
	n, addr := c19AssignCount(f, v)
	if n != 1 || addr {
		return assignment{}, false
	}
	as := assignsToVar(f, v)
	if len(as) != 1 || as[0].RHS == nil {
		return assignment{}, false
	}
	switch s := as[0].Stmt.(type) {
	case *ast.AssignStmt:
		if len(s.Lhs) != len(s.Rhs) || (s.Tok != token.DEFINE && s.Tok != token.ASSIGN) {
			return assignment{}, false
		}
	case *ast.ValueSpec:
		if len(s.Names) != len(s.Values) {
			return assignment{}, false
		}
	default:
		return assignment{}, false
	}
	return as[0], true
}

// c19Resolve follows identifiers of single-definition locals to their defining expression, as long as
// the definition happens before the use in the same iteration. Conversions and parentheses are dropped.
func c19Resolve(f *core.FuncInfo, e ast.Expr, use core.Point) ast.Expr {
	for i := 0; i < 8; i++ {
		e = core.StripConv(f.Info(), e)
		v := varOf(f, e)
		if v == nil {
			return e
		}
		d, ok := c19SingleDef(f, v)
		if !ok {
			return e
		}
		if use.Valid() {
			// the definition dominates the use; a definition that is itself re-executed (inside a loop)
			// must be re-executed before every further use (same iteration)
			if ok, _ := f.MustPassBefore([]core.Point{d.Pt}, use); !ok {
				return e
			}
			if f.CanReach(d.Pt, d.Pt) && f.CanReach(use, use) {
				if ok, _ := f.MustPassBetween(use, []core.Point{d.Pt}, use); !ok {
					return e
				}
			}
		}
		e = d.RHS
	}
	return e
}

// c19ElemOf: e resolves to X[K] with X a plain variable; returns X and the index expression K resolved
// through single-definition locals (so `k := g(); x[k]` and `x[g()]` give the same call node).
func c19ElemOf(f *core.FuncInfo, e ast.Expr, use core.Point) (x *types.Var, k ast.Expr) {
	ix, ok := c19Resolve(f, e, use).(*ast.IndexExpr)
	if !ok {
		return nil, nil
	}
	return varOf(f, ix.X), c19Resolve(f, ix.Index, use)
}

// c19Use is one occurrence of a variable with its syntactic role.
type c19Use struct {
	Id   *ast.Ident
	Kind string // def, range, len, append0, arg:<callee>:<i>, recv:<callee>, store, index, asindex, slice, return, addr, closure, sel, other
	Node ast.Node
}

// c19UsesOf classifies every occurrence of v in f (nested literals included, reported as "closure").
func c19UsesOf(f *core.FuncInfo, v *types.Var) []c19Use {
	var out []c19Use
	var stack []ast.Node
	ast.Inspect(f.Body, func(n ast.Node) bool {
		if n == nil {
			stack = stack[:len(stack)-1]
			return true
		}
		if id, ok := n.(*ast.Ident); ok && f.Info().ObjectOf(id) == v {
			out = append(out, c19Use{Id: id, Kind: c19Classify(f, id, stack), Node: c19Parent(stack)})
		}
		stack = append(stack, n)
		return true
	})
	return out
}

func c19Parent(stack []ast.Node) ast.Node {
	for i := len(stack) - 1; i >= 0; i-- {
		if _, ok := stack[i].(*ast.ParenExpr); !ok {
			return stack[i]
		}
	}
	return nil
}

func c19Classify(f *core.FuncInfo, id *ast.Ident, stack []ast.Node) string {
	for _, n := range stack {
		if _, ok := n.(*ast.FuncLit); ok {
			return "closure"
		}
	}
	// ancestors without parentheses, innermost first
	var anc []ast.Node
	for i := len(stack) - 1; i >= 0; i-- {
		if _, ok := stack[i].(*ast.ParenExpr); !ok {
			anc = append(anc, stack[i])
		}
	}
	if len(anc) == 0 {
		return "other"
	}
	same := func(e ast.Expr, n ast.Node) bool { return e != nil && ast.Unparen(e) == n }
	var self ast.Node = id
	switch p := anc[0].(type) {
	case *ast.AssignStmt:
		for _, l := range p.Lhs {
			if same(l, self) {
				return "def"
			}
		}
		return "value"
	case *ast.ValueSpec:
		for _, nm := range p.Names {
			if nm == id {
				return "def"
			}
		}
		return "value"
	case *ast.IncDecStmt:
		return "def"
	case *ast.RangeStmt:
		if same(p.Key, self) || same(p.Value, self) {
			return "def"
		}
		if same(p.X, self) {
			return "range"
		}
	case *ast.ReturnStmt:
		return "return"
	case *ast.UnaryExpr:
		if p.Op == token.AND {
			return "addr"
		}
	case *ast.CallExpr:
		if same(p.Fun, self) {
			return "call"
		}
		nm := calleeName(f, p)
		for i, a := range p.Args {
			if same(a, self) {
				switch {
				case nm == "builtin.len" || nm == "builtin.cap":
					return "len"
				case nm == "builtin.append" && i == 0:
					return "append0"
				}
				return "arg:" + nm + ":" + string(rune('0'+i))
			}
		}
	case *ast.SelectorExpr:
		if same(p.X, self) && len(anc) > 1 {
			if call, ok := anc[1].(*ast.CallExpr); ok && ast.Unparen(call.Fun) == ast.Expr(p) {
				return "recv:" + calleeName(f, call)
			}
		}
		return "sel"
	case *ast.IndexExpr:
		if same(p.Index, self) {
			return "asindex"
		}
		if len(anc) > 1 {
			switch g := anc[1].(type) {
			case *ast.AssignStmt:
				for _, l := range g.Lhs {
					if ast.Unparen(l) == ast.Expr(p) {
						return "store"
					}
				}
			case *ast.IncDecStmt:
				return "store"
			case *ast.UnaryExpr:
				if g.Op == token.AND {
					return "addr"
				}
			}
		}
		return "index"
	case *ast.SliceExpr:
		if same(p.X, self) {
			return "slice"
		}
		return "asindex"
	case *ast.BinaryExpr:
		return "operand"
	}
	return "other"
}

// c19Audit checks that every use of v has an allowed kind; others are reported as undecided.
func c19Audit(c *core.Ctx, f *core.FuncInfo, v *types.Var, label, rule string, allowed func(kind string) bool, failKinds map[string]string) bool {
	ok := true
	for _, u := range c19UsesOf(f, v) {
		if allowed(u.Kind) {
			continue
		}
		ok = false
		if msg, bad := failKinds[u.Kind]; bad {
			c.Fail(label+" use:"+c19KindKey(u.Kind), rule, u.Id.Pos(), msg)
		} else {
			c.Undecided(label+" use:"+c19KindKey(u.Kind), rule, u.Id.Pos(), label+" is used in a way the rule cannot classify ("+u.Kind+"): it may be modified or escape")
		}
	}
	if ok {
		c.Pass(label+" uses", rule, "every occurrence of "+label+" is one of the accepted read/update forms")
	}
	return ok
}

func c19KindKey(k string) string { return strings.ReplaceAll(k, "|", "/") }

// c19Edges returns the predicate "taking this edge establishes a fact accepted by match". Unlike
// core.GuardEdges it also handles the disjunctive direction of a condition ((a && b) false, (a || b) true):
// such an edge is accepted when every alternative contains an accepted fact.
func c19Edges(f *core.FuncInfo, match func(core.Fact) bool) func(*cfg.Block, int) bool {
	cache := map[*cfg.Block][2]bool{}
	return func(b *cfg.Block, s int) bool {
		if s > 1 {
			return false
		}
		v, ok := cache[b]
		if !ok {
			if cond := f.BranchCond(b); cond != nil {
				for i := 0; i < 2; i++ {
					alts := core.Disjuncts(cond, i == 0)
					all := len(alts) > 0
					for _, alt := range alts {
						one := false
						for _, ft := range alt {
							if match(ft) {
								one = true
							}
						}
						all = all && one
					}
					v[i] = all
				}
			}
			cache[b] = v
		}
		return v[s]
	}
}

// c19GuardedLocally: every path from entry to pt takes a matching edge, and so does every path from pt back to pt.
func c19GuardedLocally(f *core.FuncInfo, pt core.Point, match func(core.Fact) bool) (bool, []core.Point) {
	edges := c19Edges(f, match)
	if reach, w := f.ReachableAvoiding(pt, nil, edges); reach {
		return false, w
	}
	if f.CanReach(pt, pt) {
		return c19GuardedBetween(f, pt, pt, match)
	}
	return true, nil
}

// c19GuardedBetween: every path from `from` (exclusive) to `to` takes a matching edge.
func c19GuardedBetween(f *core.FuncInfo, from, to core.Point, match func(core.Fact) bool) (bool, []core.Point) {
	path, found := core.PathQuery{F: f, From: from, FromAfter: true, Target: core.PointSet(to), AvoidEdge: c19Edges(f, match)}.Find()
	return !found, path
}

// c19LinMatch builds a fact predicate: the fact normalises to one of the wanted linear comparisons.
func c19LinMatch(f *core.FuncInfo, namer core.AtomNamer, wants ...string) func(core.Fact) bool {
	var ws []core.LinCmp
	for _, w := range wants {
		ws = append(ws, core.ParseLinCmp(w))
	}
	return func(ft core.Fact) bool {
		lc, ok := core.NormLinCmp(f.Info(), ft, namer)
		if !ok {
			return false
		}
		for _, w := range ws {
			if lc.Equal(w) {
				return true
			}
		}
		return false
	}
}

// c19Counter describes a counted for-loop variable: `i := 0` (or var i T) once, `i++` as the loop's post statement, nothing else.
func c19IsCounterOf(f *core.FuncInfo, i *types.Var, loop *ast.ForStmt) bool {
	if i == nil || loop == nil || loop.Post == nil {
		return false
	}
	n, addr := c19AssignCount(f, i)
	if n != 2 || addr {
		return false
	}
	inc, ok := loop.Post.(*ast.IncDecStmt)
	if !ok || inc.Tok != token.INC || varOf(f, inc.X) != i {
		return false
	}
	for _, a := range assignsToVar(f, i) {
		if a.Stmt == ast.Node(inc) {
			continue
		}
		// the other assignment is the initialisation to zero and it precedes the loop
		if a.RHS == nil {
			if _, isSpec := a.Stmt.(*ast.ValueSpec); !isSpec {
				return false
			}
		} else if !core.IsConstInt(f.Info(), a.RHS, 0) {
			return false
		}
		if a.Stmt.Pos() >= loop.Body.Pos() {
			return false
		}
		head, done := f.LoopOf(loop)
		if head == nil {
			return false
		}
		if ok, _ := f.MustPassBefore([]core.Point{a.Pt}, core.Point{B: head, I: 0}); !ok {
			return false
		}
		// the initialisation is not repeated while the loop runs: from the loop's test it is reached again
		// only after the loop was left (a loop nested in another one is entered afresh, with its counter
		// zeroed again, in every iteration of the outer loop)
		if _, again := (core.PathQuery{F: f, From: core.Point{B: head, I: 0}, Target: core.PointSet(a.Pt), AvoidEdge: func(b *cfg.Block, s int) bool { return done != nil && b.Succs[s] == done }}).Find(); again {
			return false
		}
	}
	return true
}

// c19IterationBoundary returns a predicate on edges that enter the loop head (a new iteration starts / the loop is re-tested).
func c19IntoHead(head *cfg.Block) func(*cfg.Block, int) bool {
	return func(b *cfg.Block, s int) bool { return b.Succs[s] == head }
}

// c19Within: pos lies inside node n.
func c19Within(n ast.Node, pos token.Pos) bool { return n.Pos() <= pos && pos < n.End() }

// c19EmptySliceExpr: make(T, 0[, cap]), T{}, T(nil), nil.
func c19EmptySliceExpr(f *core.FuncInfo, e ast.Expr) bool {
	e = ast.Unparen(e)
	if core.IsNil(f.Info(), core.StripConv(f.Info(), e)) {
		return true
	}
	switch x := e.(type) {
	case *ast.CompositeLit:
		return len(x.Elts) == 0
	case *ast.CallExpr:
		if calleeName(f, x) == "builtin.make" && len(x.Args) >= 2 {
			return core.IsConstInt(f.Info(), x.Args[1], 0)
		}
	}
	return false
}

// ---------------------------------------------------------------------------

func runC19(c *core.Ctx) {
	c.Clause("C19.result", func() { c19Result(c) })
	c.Clause("C19.metric", func() { c19Metric(c) })
	c.Clause("C19.strategies", func() { c19Strategies(c) })
}

func c19Result(c *core.Ctx) {
	f := c.Fn(c19ChooseFn)
	pExisting, pOptions, pStrategies := f.Param(0), f.Param(1), f.Param(2)
	c.Need(pExisting != nil && pOptions != nil && pStrategies != nil, "ChooseParents(existingParents, options, strategies) with named parameters")

	// --- the result variable
	var res *types.Var
	rets := f.ReturnPoints()
	c.Need(len(rets) > 0, "ChooseParents has a return statement")
	for _, rp := range rets {
		r := rp.Node().(*ast.ReturnStmt)
		c.Need(len(r.Results) == 1, "ChooseParents returns one value explicitly")
		v := varOf(f, r.Results[0])
		c.Need(v != nil && (res == nil || res == v), "every return yields the same local result variable")
		res = v
	}
	c.Need(res != pExisting && res != pOptions, "the result is a local, not a parameter")

	// --- the option set
	var set *types.Var
	for _, a := range assignments(f) {
		if call := isCallTo(f, a.RHS, c19SetMake); call != nil {
			if sel, ok := ast.Unparen(call.Fun).(*ast.SelectorExpr); ok && varOf(f, sel.X) == pOptions {
				if v := varOf(f, a.LHS); v != nil {
					if _, single := c19SingleDef(f, v); single {
						set = v
					}
				}
			}
		}
	}
	c.Need(set != nil, "a local defined once as options.Set() (the option set)")
	setDef, _ := c19SingleDef(f, set)
	c.Check(!f.CanReach(setDef.Pt, setDef.Pt), "option set built once from the options parameter", "provenance", setDef.Stmt.Pos(),
		"the option set is options.Set() of parameter 1, computed once", "the option set is rebuilt inside a loop: erased options come back and can be chosen again")
	c19Audit(c, f, set, "option set", "T6 use audit", func(k string) bool {
		switch k {
		case "def", "len", "recv:" + c19SetErase, "recv:" + c19SetSlice, "recv:hash.EventsSet.Contains", "recv:hash.EventsSet.String":
			return true
		}
		return false
	}, map[string]string{
		"recv:hash.EventsSet.Add": "the option set is extended: an element that was not offered (or was already chosen/erased) can be selected",
		"store":                   "the option set is written by index: an element that was not offered can be selected",
	})

	// --- classify the assignments to the result
	type app struct {
		a    assignment
		elem ast.Expr
	}
	var prefix []assignment
	var elems []app
	emptyInit := 0
	okForms := true
	for _, a := range assignsToVar(f, res) {
		switch {
		case a.RHS == nil:
			if _, isSpec := a.Stmt.(*ast.ValueSpec); isSpec && a.Tok == token.DEFINE {
				emptyInit++ // var parents hash.Events
				continue
			}
		case c19EmptySliceExpr(f, a.RHS):
			emptyInit++
			continue
		case isCallTo(f, a.RHS, "hash.Events.Copy") != nil:
			call := isCallTo(f, a.RHS, "hash.Events.Copy")
			if sel, ok := ast.Unparen(call.Fun).(*ast.SelectorExpr); ok && varOf(f, sel.X) == pExisting {
				prefix = append(prefix, a)
				continue
			}
		case isCallTo(f, a.RHS, "builtin.append") != nil:
			call := isCallTo(f, a.RHS, "builtin.append")
			if len(call.Args) < 2 {
				break
			}
			base := call.Args[0]
			onto := varOf(f, base) == res
			if !onto && !c19EmptySliceExpr(f, base) {
				break
			}
			if call.Ellipsis.IsValid() {
				if len(call.Args) == 2 && varOf(f, call.Args[1]) == pExisting {
					prefix = append(prefix, a)
					continue
				}
				break
			}
			if !onto {
				break
			}
			if len(call.Args) > 2 {
				okForms = false
				c.Fail("append of several elements", "T5 AtMostOnce", a.Stmt.Pos(), "one append adds several parents at once: more than one new option per strategy")
				continue
			}
			elems = append(elems, app{a, call.Args[1]})
			continue
		}
		okForms = false
		c.Undecided("assignment to result", "provenance", a.Stmt.Pos(), "the result variable is assigned in a form the rule does not know ("+exprStr(a.RHS)+"): cannot tell that it is existing parents followed by chosen options")
	}
	c19Audit(c, f, res, "result", "T6 use audit", func(k string) bool {
		switch k {
		case "def", "len", "index", "append0", "return", "arg:" + c19IfaceCh + ":0":
			return true
		}
		return false
	}, map[string]string{
		"store": "an entry of the result is overwritten by index: the existing parents are no longer returned first and in order",
		"slice": "the result is re-sliced: existing parents or chosen options can be dropped or reordered",
	})
	if !okForms {
		return
	}

	// --- prefix: the existing parents come first, once, on every path
	c.ExpectAtLeast("copy of existingParents into the result", len(prefix), 1)
	c.ExpectAtLeast("single-element appends to the result", len(elems), 1)
	prefPts := pointsOfAssign(prefix)
	for _, rp := range rets {
		ok, wit := f.MustPassBefore(prefPts, rp)
		c.Check(ok, "existing parents copied on every path to return", "T2 Dominates", posOf(rp), "append(result, existingParents...) dominates the return", "ChooseParents can return without the existing parents: path "+f.DescribePath(wit))
	}
	once := true
	for _, a := range prefPts {
		for _, b := range prefPts {
			if f.CanReach(a, b) {
				once = false
			}
		}
	}
	if len(prefPts) == 0 {
		return
	}
	c.Check(once, "existing parents copied once", "T5 AtMostOnce", posOf(prefPts[0]), "no path copies the existing parents twice", "the existing parents can be appended twice (copy inside a loop or on one path twice)")
	for _, p := range prefix {
		// before the prefix the result is empty: it was initialised empty (or the prefix is the initialisation) and no element was added yet
		isInit := p.Tok == token.DEFINE
		if call := isCallTo(f, p.RHS, "builtin.append"); call != nil && varOf(f, call.Args[0]) != res {
			isInit = true // parents = append(hash.Events{}, existing...)
		}
		if isCallTo(f, p.RHS, "hash.Events.Copy") != nil {
			isInit = true
		}
		okEmpty := isInit || emptyInit > 0
		for _, e := range elems {
			if f.CanReach(e.a.Pt, p.Pt) {
				okEmpty = false
			}
		}
		c.Check(okEmpty, "result is empty before the existing parents are copied", "T2 Dominates", p.Stmt.Pos(), "the result starts empty and no chosen option precedes the existing parents", "a chosen option can be placed before the existing parents (or the result does not start empty)")
	}

	// --- existing parents are erased from the option set
	erases := f.CallsMatching(func(cs *core.CallSite) bool { return cs.Name == c19SetErase && varOf(f, cs.Recv()) == set })
	type domFn func(to core.Point) (bool, []core.Point)
	var existingErased []domFn
	isExistingErase := map[*core.CallSite]bool{}
	for _, e := range erases {
		e := e
		if e.Call.Ellipsis.IsValid() && len(e.Call.Args) == 1 && varOf(f, e.Call.Args[0]) == pExisting {
			isExistingErase[e] = true
			existingErased = append(existingErased, func(to core.Point) (bool, []core.Point) { return f.MustPassBefore([]core.Point{e.Pt}, to) })
			continue
		}
		loop, _ := enclosingLoop(f, e.Pos()).(*ast.RangeStmt)
		if loop == nil || varOf(f, loop.X) != pExisting || len(e.Call.Args) != 1 {
			continue
		}
		arg := ast.Unparen(e.Call.Args[0])
		elemOK := loop.Value != nil && varOf(f, arg) != nil && varOf(f, arg) == varOf(f, loop.Value)
		if ix, ok := arg.(*ast.IndexExpr); ok && loop.Key != nil && varOf(f, ix.X) == pExisting && varOf(f, ix.Index) != nil && varOf(f, ix.Index) == varOf(f, loop.Key) {
			elemOK = true
		}
		if !elemOK {
			continue
		}
		isExistingErase[e] = true
		head, _ := f.LoopOf(loop)
		done, complete := loopDone(f, loop)
		c.Need(head != nil && done != nil, "range over existingParents has a head and an exit block")
		_, skip := core.PathQuery{F: f, From: core.Point{B: head.Succs[0], I: 0}, Target: func(pt core.Point) bool { return pt.B == head }, Avoid: core.PointSet(e.Pt)}.Find()
		c.Check(complete && !skip, "every existing parent is erased from the option set", "T2 (loop)", loop.Pos(),
			"the loop over existingParents has no break and erases its element on every iteration", "some existing parents are not erased from the option set (break/continue in the loop): an existing parent can be chosen again")
		if complete && !skip {
			existingErased = append(existingErased, func(to core.Point) (bool, []core.Point) { return mustPassBlockBefore(f, done, to) })
		}
	}

	// --- each single-element append
	nonEmpty := func(ff *core.FuncInfo) func(core.Fact) bool {
		return c19LinMatch(ff, func(e ast.Expr) string {
			if call := isCallTo(ff, e, "builtin.len"); call != nil && varOf(ff, call.Args[0]) == set {
				return "m"
			}
			return ""
		}, "1 - m <= 0", "m != 0")
	}(f)
	pairedErase := map[*core.CallSite]bool{}
	var appendPts []core.Point
	for _, e := range elems {
		appendPts = append(appendPts, e.a.Pt)
	}
	for _, e := range elems {
		pos := e.a.Stmt.Pos()
		// the appended value is cur[index], directly or through single-definition locals (chosen := cur[k]),
		// the index being a variable or an expression
		cur, kExpr := c19ElemOf(f, e.elem, e.a.Pt)
		if cur == nil || kExpr == nil {
			c.Undecided("appended element", "provenance", pos, "the appended value "+exprStr(e.elem)+" is not of the form options[index] over single-definition locals: cannot tell that it is an offered option")
			continue
		}
		curDef, ok1 := c19SingleDef(f, cur)
		var slice *ast.CallExpr
		if ok1 {
			slice = isCallTo(f, curDef.RHS, c19SetSlice)
		}
		// the index is the result of Choose, held in a single-definition local or used in place
		choose := isCallTo(f, kExpr, c19IfaceCh)
		okSlice := slice != nil && varOf(f, ast.Unparen(slice.Fun).(*ast.SelectorExpr).X) == set
		c.Check(okSlice, "chosen element comes from the option set", "provenance", pos, "the appended element is indexed from optionSet.Slice()", "the appended element is not taken from the current option set: an option that was not offered, an existing parent or an already chosen option can be added")
		okIdx := choose != nil && len(choose.Args) == 2 && varOf(f, choose.Args[1]) == cur
		c.Check(okIdx, "index is the strategy's choice over the same slice", "provenance", pos, "the index is the result of SearchStrategy.Choose applied to the very slice that is indexed", "the index does not come from Choose over the indexed slice: the strategy's choice is applied to a different ordering of the options")
		if !okSlice || !okIdx {
			continue
		}
		var chooseCS *core.CallSite
		for _, cs := range f.CallsTo(c19IfaceCh) {
			if cs.Call == choose {
				chooseCS = cs
			}
		}
		c.Need(chooseCS != nil, "Choose call site")
		// the slice is taken and the choice made in this iteration, slice first
		o1, _ := precedesLocally(f, []core.Point{curDef.Pt}, chooseCS.Pt)
		o2, _ := precedesLocally(f, []core.Point{chooseCS.Pt}, e.a.Pt)
		c.Check(o1 && o2, "slice, choice and append happen in one iteration", "T2 Dominates (loop)", pos, "every path to the append re-slices the option set and asks the strategy first", "the append can use a slice or an index left over from an earlier iteration: an erased option can be added again")
		c19Audit(c, f, cur, "options slice", "T6 use audit", func(kd string) bool {
			return kd == "def" || kd == "index" || kd == "len" || kd == "arg:"+c19IfaceCh+":1"
		}, map[string]string{"store": "the slice handed to the strategy is overwritten: the chosen index no longer denotes an offered option"})
		// existing parents were erased before this slice
		okEx, wit := false, []core.Point(nil)
		for _, d := range existingErased {
			if ok, w := d(curDef.Pt); ok {
				okEx = true
			} else {
				wit = w
			}
		}
		c.Check(okEx, "existing parents erased before options are offered", "T2 Dominates", curDef.Stmt.Pos(), "erasing every existing parent from the option set dominates the slice offered to the strategy",
			"the option set can still contain existing parents when it is offered to the strategy: a parent can be repeated; path "+f.DescribePath(wit))
		// pairing with Erase of the same element
		var mine []core.Point
		for _, er := range erases {
			if len(er.Call.Args) == 1 && !er.Call.Ellipsis.IsValid() {
				x, kk := c19ElemOf(f, er.Call.Args[0], er.Pt)
				if x == cur && kk != nil && isCallTo(f, kk, c19IfaceCh) == choose {
					mine = append(mine, er.Pt)
					pairedErase[er] = true
				}
			}
		}
		okP, witP := pairedWith(f, e.a.Pt, mine)
		c.Check(okP, "append paired with erase of the same option", "T7 Pairing", pos, "every path through the append also erases the chosen option from the option set in the same iteration",
			"the chosen option stays in the option set: a later strategy can choose it again and the parent is repeated; path "+f.DescribePath(witP))
		// other erases between the slice and the append would make the slice stale
		for _, er := range erases {
			if pairedErase[er] {
				continue
			}
			if f.CanReach(er.Pt, e.a.Pt) {
				ok, w := f.MustPassBetween(er.Pt, []core.Point{curDef.Pt}, e.a.Pt)
				c.Check(ok, "option set re-sliced after foreign erase", "T2 Dominates", er.Pos(), "every path from this erase to the append re-slices the option set", "an option erased here can still be chosen from a stale slice: "+f.DescribePath(w))
			}
		}
		// non-empty option set at the slice (and therefore at Choose and the index)
		okNE, witNE := c19GuardedLocally(f, curDef.Pt, nonEmpty)
		for _, er := range erases {
			if okNE && f.CanReach(er.Pt, curDef.Pt) {
				okNE, witNE = c19GuardedBetween(f, er.Pt, curDef.Pt, nonEmpty)
			}
		}
		c.Check(okNE, "strategy consulted only with a non-empty option set", "T4 GuardedBy", curDef.Stmt.Pos(), "the slice/Choose/index sequence is reached only over len(optionSet) > 0, re-tested after every erase",
			"Choose can be called with no options left (its result then indexes an empty slice): "+f.DescribePath(witNE))

		// loop shape: which strategy, how many appends
		loopStmt := enclosingLoop(f, pos)
		c.Need(loopStmt != nil, "the single-element append is inside a loop over the strategies")
		head, _ := f.LoopOf(loopStmt)
		c.Need(head != nil, "loop head block")
		recv := ast.Unparen(chooseCS.Recv())
		switch L := loopStmt.(type) {
		case *ast.ForStmt:
			ix, isIx := recv.(*ast.IndexExpr)
			var ctr *types.Var
			if isIx && varOf(f, ix.X) == pStrategies {
				ctr = varOf(f, ix.Index)
			}
			okCtr := ctr != nil && c19IsCounterOf(f, ctr, L)
			c.Check(okCtr, "strategy of the iteration is strategies[i], i counted 0,1,2..", "provenance", chooseCS.Pos(), "Choose is called on strategies[i]; i starts at 0 and is changed only by the loop's i++", "Choose is not called on strategies[i] with a loop counter running from 0 by 1: strategies are skipped, repeated or applied out of order")
			if !okCtr {
				continue
			}
			namer := func(x ast.Expr) string {
				if varOf(f, x) == ctr {
					return "i"
				}
				if call := isCallTo(f, x, "builtin.len"); call != nil && varOf(f, call.Args[0]) == pStrategies {
					return "n"
				}
				return ""
			}
			okB, witB := c19GuardedLocally(f, chooseCS.Pt, c19LinMatch(f, namer, "i - n + 1 <= 0"))
			c.Check(okB, "at most len(strategies) selections", "T4 GuardedBy", chooseCS.Pos(), "every selection is reached over i < len(strategies), re-tested each iteration", "a selection can happen with i >= len(strategies): "+f.DescribePath(witB))
			postPt, okPost := f.PointOf(L.Post)
			c.Need(okPost, "loop post statement in the CFG")
			okOne := true
			for _, b := range appendPts {
				if f.CanReach(e.a.Pt, b) {
					if ok, _ := f.MustPassBetween(e.a.Pt, []core.Point{postPt}, b); !ok {
						okOne = false
					}
				}
			}
			c.Check(okOne, "at most one new parent per strategy", "T5 AtMostOnce", pos, "between two appends the loop counter is advanced", "two options can be appended within one iteration: more than one new parent per strategy")
		case *ast.RangeStmt:
			okR := varOf(f, L.X) == pStrategies
			okRecv := L.Value != nil && varOf(f, recv) != nil && varOf(f, recv) == varOf(f, L.Value)
			if ix, isIx := recv.(*ast.IndexExpr); isIx && L.Key != nil && varOf(f, ix.X) == pStrategies && varOf(f, ix.Index) != nil && varOf(f, ix.Index) == varOf(f, L.Key) {
				okRecv = true
			}
			if okRecv {
				if v := varOf(f, recv); v != nil {
					n, addr := c19AssignCount(f, v)
					okRecv = n == 1 && !addr
				}
			}
			c.Check(okR && okRecv, "strategy of the iteration is the range element of strategies", "provenance", chooseCS.Pos(), "Choose is called on the element of the range over strategies", "Choose is not called on the current element of a range over the strategies parameter")
			okOne := true
			for _, b := range appendPts {
				_, found := core.PathQuery{F: f, From: e.a.Pt, FromAfter: true, Target: core.PointSet(b), AvoidEdge: c19IntoHead(head)}.Find()
				if found {
					okOne = false
				}
			}
			c.Check(okOne, "at most one new parent per strategy", "T5 AtMostOnce", pos, "between two appends the range advances to the next strategy", "two options can be appended within one iteration: more than one new parent per strategy")
		}
	}
	// every erase of a chosen element is paired with its append (no option is lost)
	for _, er := range erases {
		if isExistingErase[er] {
			continue
		}
		if !pairedErase[er] {
			c.Fail("erase without append", "T7 Pairing", er.Pos(), "an element is erased from the option set that is neither an existing parent nor the option appended in this iteration: options are lost and selection stops although offered options remain")
			continue
		}
		ok, w := pairedWith(f, er.Pt, appendPts)
		c.Check(ok, "erase of chosen option paired with its append", "T7 Pairing", er.Pos(), "every path erasing the chosen option also appends it", "an option can be erased without being appended (lost option): "+f.DescribePath(w))
	}
	c.ExpectAtLeast("Erase calls on the option set", len(erases), 2)

	// --- exit condition: every return is reached only when strategies are exhausted or no options remain
	exitFact := func(ft core.Fact) bool {
		// i >= len(strategies) for any counter i of a loop; len(set) == 0
		namer := func(x ast.Expr) string {
			if call := isCallTo(f, x, "builtin.len"); call != nil {
				switch varOf(f, call.Args[0]) {
				case pStrategies:
					return "n"
				case set:
					return "m"
				}
			}
			if v := varOf(f, x); v != nil {
				if l, ok := c19LoopOfCounter(f, v); ok && c19IsCounterOf(f, v, l) {
					return "i"
				}
			}
			return ""
		}
		return c19LinMatch(f, namer, "n - i <= 0", "m <= 0", "m == 0")(ft)
	}
	guard := c19Edges(f, exitFact)
	rangeDone := func(b *cfg.Block, s int) bool {
		if b.Kind != cfg.KindRangeLoop || s != 1 {
			return false
		}
		rs, ok := b.Stmt.(*ast.RangeStmt)
		return ok && varOf(f, rs.X) == pStrategies
	}
	for _, rp := range rets {
		path, found := core.PathQuery{F: f, From: f.Entry(), Target: core.PointSet(rp), AvoidEdge: func(b *cfg.Block, s int) bool { return guard(b, s) || rangeDone(b, s) }}.Find()
		c.Check(!found, "selection stops only when strategies are used up or no options remain", "T4 GuardedBy (normalised exit condition)", posOf(rp),
			"every path to return takes an edge establishing i >= len(strategies) (or the end of the range over strategies) or len(optionSet) == 0",
			"ChooseParents can return although a strategy and an option are still available: path "+f.DescribePath(path))
	}
}

// c19LoopOfCounter finds the for statement whose post statement increments v.
func c19LoopOfCounter(f *core.FuncInfo, v *types.Var) (*ast.ForStmt, bool) {
	var out *ast.ForStmt
	f.InspectOwn(func(n ast.Node) bool {
		if fs, ok := n.(*ast.ForStmt); ok && fs.Post != nil {
			if inc, ok := fs.Post.(*ast.IncDecStmt); ok && varOf(f, inc.X) == v {
				out = fs
			}
		}
		return true
	})
	return out, out != nil
}

// ---------------------------------------------------------------------------
// MetricStrategy.Choose

// c19IsMetricCall: the call evaluates the strategy's metric source: its result is a Metric and what is
// called is held by the strategy itself, i.e. the callee expression is rooted in a field of Choose's
// receiver: a func-valued field called in place (st.metricFn(x)) or a method of a field's value, declared
// or of a small interface (st.source.GetMetricOf(x)). The source is identified by where it is kept, not by
// the name of the field or method.
func c19IsMetricCall(f *core.FuncInfo, call *ast.CallExpr) bool {
	tv, ok := f.Info().Types[call]
	if !ok || tv.Type == nil || f.Recv() == nil {
		return false
	}
	nt, ok := tv.Type.(*types.Named)
	if !ok || f.P.ObjName(nt.Obj()) != c19AncPkg+".Metric" {
		return false
	}
	e := ast.Unparen(call.Fun)
	nFields := 0
	for i := 0; i < 4; i++ {
		sel, ok := e.(*ast.SelectorExpr)
		if !ok {
			break
		}
		if s, ok := f.Info().Selections[sel]; ok && s.Kind() == types.FieldVal {
			if strings.HasPrefix(fieldNameOf(f, sel), c19MetricStr+".") {
				nFields++
			}
		}
		e = ast.Unparen(sel.X)
	}
	return nFields >= 1 && varOf(f, e) != nil && varOf(f, e) == f.Recv()
}

func c19Metric(c *core.Ctx) {
	f := c.Fn(c19MetricStr + ".Choose")
	pOpts := f.Param(1)
	c.Need(pOpts != nil, "MetricStrategy.Choose has a named options parameter")
	rets := f.ReturnPoints()
	c.Need(len(rets) > 0, "Choose returns")
	var idx *types.Var
	for _, rp := range rets {
		r := rp.Node().(*ast.ReturnStmt)
		c.Need(len(r.Results) == 1, "Choose returns one value")
		v := varOf(f, r.Results[0])
		c.Need(v != nil && (idx == nil || idx == v), "every return yields the same tracked index variable")
		idx = v
	}
	// the loop over the options: a range with a key, or `for i := 0; i < len(options); i++`
	it, curAt := c20SliceIteration(c, f, pOpts, "the options parameter")
	loop, key, val := it.Stmt, it.Index, it.Value
	c.Need(key != nil, "the loop over the options has an index variable (range key or counter)")
	head, done, complete := it.Head, it.Done, it.Complete
	c.Need(head != nil && done != nil, "loop head/exit blocks")

	// assignments to the index: initial zero + updates with the range key
	var idxUpd []assignment
	okInit := false
	for _, a := range assignsToVar(f, idx) {
		if !c19Within(loop, a.Stmt.Pos()) {
			if a.RHS == nil {
				_, okInit = a.Stmt.(*ast.ValueSpec)
			} else {
				okInit = core.IsConstInt(f.Info(), a.RHS, 0)
			}
			if !okInit {
				c.Fail("initial index", "provenance", a.Stmt.Pos(), "the tracked index does not start at 0 (option 0)")
			}
			continue
		}
		if a.RHS != nil && varOf(f, core.StripConv(f.Info(), a.RHS)) == key && a.Tok == token.ASSIGN {
			idxUpd = append(idxUpd, a)
			continue
		}
		c.Fail("index update", "provenance", a.Stmt.Pos(), "the returned index is assigned something other than the position of the current option ("+exprStr(a.RHS)+"): the result does not denote the option whose metric was compared")
	}
	if n, addr := c19AssignCount(f, idx); addr || n != len(assignsToVar(f, idx)) {
		c.Undecided("index variable", "provenance", f.Pos(), "the tracked index is modified through a closure or pointer")
	}
	c.Check(okInit, "index starts at option 0", "provenance", f.Pos(), "the tracked index is initialised to 0", "the tracked index has no zero initialisation before the loop")
	c.ExpectAtLeast("index updates in the loop", len(idxUpd), 1)

	// the running maximum: the variable assigned together with the index
	var maxV, wV *types.Var
	var maxUpd []assignment
	for _, a := range assignments(f) {
		v := varOf(f, a.LHS)
		if v == nil || v == idx || v == key || v == val || !c19Within(loop, a.Stmt.Pos()) || a.RHS == nil {
			continue
		}
		w := varOf(f, core.StripConv(f.Info(), a.RHS))
		if w == nil {
			continue
		}
		// candidate: max = weight where weight is single-def metricFn(opt)
		if d, ok := c19SingleDef(f, w); ok {
			if call, isCall := ast.Unparen(d.RHS).(*ast.CallExpr); isCall && c19IsMetricCall(f, call) {
				c.Need(maxV == nil || maxV == v, "one running-maximum variable")
				c.Need(wV == nil || wV == w, "one weight variable")
				maxV, wV = v, w
				maxUpd = append(maxUpd, a)
			}
		}
	}
	if maxV == nil {
		c.Fail("running maximum", "T7 Pairing", f.Pos(), "no variable is assigned the metric of an option (a call of the strategy's own metric source) next to the index: the index is not tracked together with the maximum it belongs to, so later comparisons do not use the weight of the recorded option")
		return
	}
	wDef, _ := c19SingleDef(f, wV)
	wCall := ast.Unparen(wDef.RHS).(*ast.CallExpr)
	// weight is the metric of the option of this iteration
	okArg := len(wCall.Args) == 1 && curAt(wCall.Args[0], wDef.Pt)
	c.Check(okArg, "weight is the metric of the current option", "provenance", wDef.Stmt.Pos(), "weight = metricFn(option at the range position)", "the compared weight is not the metric of the option at the recorded position")
	// all assignments to max: zero init before the loop, `max = weight` inside
	okMaxInit := false
	for _, a := range assignsToVar(f, maxV) {
		if !c19Within(loop, a.Stmt.Pos()) {
			if a.RHS == nil {
				_, okMaxInit = a.Stmt.(*ast.ValueSpec)
			} else {
				okMaxInit = core.IsConstInt(f.Info(), a.RHS, 0)
			}
			continue
		}
		if varOf(f, core.StripConv(f.Info(), a.RHS)) != wV || a.Tok != token.ASSIGN {
			c.Fail("maximum update", "provenance", a.Stmt.Pos(), "the running maximum is assigned something other than the current weight")
		}
	}
	unsigned := false
	if b, ok := maxV.Type().Underlying().(*types.Basic); ok && b.Info()&types.IsUnsigned != 0 {
		unsigned = true
	}
	c.Check(okMaxInit && unsigned, "initial (index 0, maximum 0) is a lower bound for option 0", "T15 ConstRelation / type", f.Pos(),
		"the running maximum starts at 0 and the metric type is unsigned, so 0 <= metric(option 0)", "the running maximum does not start at the least value of the metric type (signed or non-zero start): option 0 can be returned although a later option has a larger metric")

	// T7: index and value updated together
	for _, a := range idxUpd {
		ok, w := pairedWith(f, a.Pt, pointsOfAssign(maxUpd))
		c.Check(ok, "index update paired with maximum update", "T7 Pairing", a.Stmt.Pos(), "every path recording a new index also records its weight as the maximum", "the index is replaced without replacing the maximum: later comparisons use a stale maximum; path "+f.DescribePath(w))
	}
	for _, a := range maxUpd {
		ok, w := pairedWith(f, a.Pt, pointsOfAssign(idxUpd))
		c.Check(ok, "maximum update paired with index update", "T7 Pairing", a.Stmt.Pos(), "every path recording a new maximum also records its index", "the maximum is replaced without recording the index: the returned index is not the option holding the maximum; path "+f.DescribePath(w))
	}

	// guards
	namer := func(e ast.Expr) string {
		switch varOf(f, e) {
		case wV:
			return "w"
		case maxV:
			return "max"
		case key:
			return "k"
		}
		return ""
	}
	greater := c19LinMatch(f, namer, "max - w + 1 <= 0", "max - w <= 0") // w > max, w >= max
	notGreater := c19LinMatch(f, namer, "w - max <= 0", "w - max + 1 <= 0")
	unset := c19LinMatch(f, namer, "max == 0")
	first := c19LinMatch(f, namer, "k == 0", "k <= 0")
	// update only when weight >(=) max, or max is still 0 (unsigned: weight >= 0 = max), or first option
	updateEdge := c19Edges(f, func(ft core.Fact) bool { return greater(ft) || first(ft) || (unsigned && unset(ft)) })
	bodyEntry := core.Point{B: head.Succs[0], I: 0}
	for _, a := range maxUpd {
		path, found := core.PathQuery{F: f, From: bodyEntry, Target: core.PointSet(a.Pt), AvoidEdge: func(b *cfg.Block, s int) bool { return updateEdge(b, s) || b.Succs[s] == head }}.Find()
		c.Check(!found, "maximum replaced only on weight > max", "T4 GuardedBy (normalised comparison)", a.Stmt.Pos(), "within an iteration the update is reached only over weight > max (or >=, or max == 0 with an unsigned metric, or the first option)",
			"the maximum can be replaced by a smaller weight: the returned option is not maximal; path "+f.DescribePath(path))
	}
	// skip only when weight <= max: from the weight's definition to the next iteration / loop exit without update
	updPts := core.PointSet(pointsOfAssign(maxUpd)...)
	skipEdge := c19Edges(f, notGreater)
	path, found := core.PathQuery{F: f, From: wDef.Pt, FromAfter: true, Target: func(pt core.Point) bool { return pt.B == head || pt.B == done }, Avoid: updPts, AvoidEdge: skipEdge, TargetExit: true}.Find()
	c.Check(!found, "update skipped only on weight <= max", "T4 GuardedBy (normalised comparison)", wDef.Stmt.Pos(), "an iteration leaves the maximum unchanged only over an edge implying weight <= max",
		"an option with weight > max can be passed over: the returned option is not maximal; path "+f.DescribePath(path))
	// the weight is computed before the comparison in every iteration and every option is evaluated
	path, found = core.PathQuery{F: f, From: bodyEntry, Target: func(pt core.Point) bool { return pt.B == head || pt.B == done }, Avoid: core.PointSet(wDef.Pt), TargetExit: true}.Find()
	c.Check(!found && complete, "every option is evaluated", "T2 (loop)", loop.Pos(), "no iteration skips the metric evaluation and the loop has no break", "some options are never compared (continue/break/return inside the loop): "+f.DescribePath(path))
	for _, rp := range rets {
		ok, w := mustPassBlockBefore(f, done, rp)
		c.Check(ok, "index returned only after all options were compared", "T2 Dominates (loop exit)", posOf(rp), "the loop's exit dominates the return", "Choose can return before all options were compared: "+f.DescribePath(w))
	}
}

// ---------------------------------------------------------------------------
// strategies in the package: options parameter is read-only; RandomStrategy returns Intn(len(options))

func c19Strategies(c *core.Ctx) {
	n := 0
	for _, tn := range []string{c19MetricStr, c19RandStr} {
		f := c.Fn(tn + ".Choose")
		n++
		for i, role := range []string{"existing parents", "options"} {
			p := f.Param(i)
			if p == nil {
				c.Pass(short(tn)+".Choose "+role+" parameter untouched", "T12 Purity", "the parameter is unnamed: it cannot be modified")
				continue
			}
			ok := true
			for _, u := range c19UsesOf(f, p) {
				switch u.Kind {
				case "range", "index", "len":
				default:
					ok = false
					c.Check(false, short(tn)+".Choose "+role+" parameter untouched", "T12 Purity", u.Id.Pos(), "", "the strategy writes through or leaks its "+role+" slice ("+u.Kind+"): ChooseParents' view of the options can change under it")
				}
			}
			if ok {
				c.Pass(short(tn)+".Choose "+role+" parameter untouched", "T12 Purity", "the parameter is only ranged over, indexed for reading or measured")
			}
		}
	}
	c.ExpectAtLeast("SearchStrategy implementations in emitter/ancestor", n, 2)
	// other implementations inside the module must be known
	if tn := c.P.LookupType(c19AncPkg + ".SearchStrategy"); tn != nil {
		if iface, ok := tn.Type().Underlying().(*types.Interface); ok {
			for _, fn := range c.P.Funcs() {
				if fn.Obj == nil || fn.Obj.Name() != "Choose" || fn.RecvTypeName() == "" || fn.RecvTypeName() == c19MetricStr || fn.RecvTypeName() == c19RandStr {
					continue
				}
				sig, _ := fn.Obj.Type().(*types.Signature)
				if sig == nil || sig.Recv() == nil {
					continue
				}
				rt := sig.Recv().Type()
				if types.Implements(rt, iface) || types.Implements(types.NewPointer(rt), iface) {
					c.Undecided("unknown strategy "+short(fn.Name), "T6", fn.Pos(), "a further SearchStrategy implementation exists that the rule does not know")
				}
			}
		}
	}
	// RandomStrategy: index in range
	rf := c.Fn(c19RandStr + ".Choose")
	pOpts := rf.Param(1)
	okAll := pOpts != nil && len(rf.ReturnPoints()) > 0
	for _, rp := range rf.ReturnPoints() {
		r := rp.Node().(*ast.ReturnStmt)
		ok := false
		if len(r.Results) == 1 {
			e := c19Resolve(rf, r.Results[0], rp)
			if call := isCallTo(rf, e, "math/rand.Rand.Intn", "math/rand.Intn"); call != nil && len(call.Args) == 1 {
				if l := isCallTo(rf, call.Args[0], "builtin.len"); l != nil && varOf(rf, l.Args[0]) == pOpts {
					ok = true
				}
			}
		}
		if !ok {
			okAll = false
		}
	}
	c.Check(okAll, "RandomStrategy.Choose returns Intn(len(options))", "provenance", rf.Pos(), "the random index lies in [0,len(options))", "the random strategy's result is not rand.Intn(len(options)): it can be out of range of the offered options")
}
