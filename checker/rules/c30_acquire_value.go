package rules

import (
	"go/ast"
	"go/token"
	"go/types"

	"golang.org/x/tools/go/cfg"

	"lachk/core"
)

// C30.tryAcquire decided on the inlined view of tryAcquire by the reaching definitions of what is
// stored into the held amount (the machinery of C30.overrelease with the roles held / req / max): used
// when the new amount is not built in a local of tryAcquire itself (tmp := processing; tmp.X += req.X),
// e.g. when a pure helper computes it and reports with a boolean result whether it fits
// (`reserved, ok := reserve(s.processing, metric, s.maxProcessing); if ok { s.processing = reserved }`),
// or when the store lives in a helper. Nothing is interpreted: every definition that can reach a store
// is classified by its linear normal form (held + req, held, anything else), and the guards are path
// queries over the branch edges of the functions on the way to the definition and to the store.

// findSums records the locals of the view every definition of which is held + request (both components).
func (r *c30Rel) findSums(root *c30Scope, depth int) {
	r.sums = map[*types.Var]bool{}
	c30ViewSites(root, depth, func(sc *c30Scope) []c30Site {
		g := sc.F
		whole := map[*types.Var][]assignment{}
		dirty := map[*types.Var]bool{}
		for _, a := range assignments(g) {
			if v := varOfRaw(g, a.LHS); v != nil {
				whole[v] = append(whole[v], a)
				continue
			}
			if v, path := c30RawPath(g, a.LHS); v != nil && len(path) > 0 {
				dirty[v] = true
			}
		}
		for v, defs := range whole {
			if dirty[v] || !c30IsLocalOf(g, v) {
				continue
			}
			if _, bound := sc.Bind[v]; bound {
				continue
			}
			ok := true
			for _, d := range defs {
				if d.RHS == nil {
					ok = false
					break
				}
				if as, isAssign := d.Stmt.(*ast.AssignStmt); isAssign && (len(as.Lhs) != len(as.Rhs) || (as.Tok != token.ASSIGN && as.Tok != token.DEFINE)) {
					ok = false
					break
				}
				for _, comp := range c30Comps {
					if r.classifyWhole(sc, d.RHS, comp) != "sum" {
						ok = false
					}
				}
			}
			if ok {
				for _, l := range allLits(g) {
					if len(assignsToVar(l, v)) > 0 {
						ok = false
					}
				}
			}
			if ok {
				r.sums[v] = true
			}
		}
		return nil
	})
}

// fitsCap: the fact establishes held.X + req.X <= max.X (written on the parts or on a local that holds
// the sum).
func (r *c30Rel) fitsCap(comp string) func(sc *c30Scope, ft core.Fact) bool {
	ws := []core.LinCmp{
		core.ParseLinCmp("new." + short(comp) + " - max." + short(comp) + " <= 0"),
		core.ParseLinCmp("held." + short(comp) + " + req." + short(comp) + " - max." + short(comp) + " <= 0"),
	}
	return func(sc *c30Scope, ft core.Fact) bool { return c30ImpliesAny(sc, ft, ws, c30AccessNamer(r.name), 2) }
}

func c30TryAcquireValue(c *core.Ctx, f *core.FuncInfo) {
	r := &c30Rel{f: f, weight: f.Param(0), arg: "req"}
	c.Need(r.weight != nil, "tryAcquire has a named metric parameter")
	r.snapshots()
	root := &c30Scope{F: f}
	r.findSums(root, 2)

	type rawStore struct {
		sc *c30Scope
		a  assignment
	}
	var raw []rawStore
	stores := c30ViewSites(root, 2, func(sc *c30Scope) []c30Site {
		var out []c30Site
		for _, a := range assignments(sc.F) {
			if _, path := c30RawPath(sc.F, a.LHS); len(path) >= 1 && len(path) <= 2 && path[0] == c30ProcF {
				raw = append(raw, rawStore{sc, a})
				out = append(out, c30Site{Hops: []c30Hop{{sc, a.Pt}}, Pos: a.Stmt.Pos()})
			}
		}
		return out
	})
	c.Need(len(raw) == len(stores) && len(stores) > 0, "tryAcquire stores into processing (itself or in a function it calls)")
	covers := func(i int, comp string) bool {
		_, path := c30RawPath(raw[i].sc.F, raw[i].a.LHS)
		return len(path) == 1 || path[1] == comp
	}
	type vdef struct {
		c30ValueDef
		store c30Site
	}
	var defs []vdef
	for i, s := range stores {
		sc, a := raw[i].sc, raw[i].a
		prefix := s.Hops[:len(s.Hops)-1]
		_, lpath := c30RawPath(sc.F, a.LHS)
		for _, comp := range c30Comps {
			if !covers(i, comp) {
				continue
			}
			direct := func(class string) {
				defs = append(defs, vdef{c30ValueDef{Site: s, Sc: sc, Class: class, Comp: comp, Store: a.Pt}, s})
			}
			switch {
			case len(lpath) == 2 && a.Tok == token.ADD_ASSIGN:
				// processing.C += req.C: the sum, provided no other store of C can come before it
				class := "?"
				if acc, ok := sc.access(a.RHS); ok && r.name(acc) == "req."+short(comp) {
					class = "sum"
					for j, o := range stores {
						if covers(j, comp) && (j != i && c28CanFollow(o, s) || j == i && sc.F.CanReach(a.Pt, a.Pt)) {
							class = "?"
						}
					}
				}
				direct(class)
			case len(lpath) == 2 && a.Tok == token.ASSIGN:
				direct(r.classify(sc, a.RHS, comp))
			case len(lpath) == 1 && a.Tok == token.ASSIGN:
				for _, d := range r.exprCases(sc, a.RHS, a.Pt, comp, 3) {
					d.Site.Hops = append(append([]c30Hop(nil), prefix...), d.Site.Hops...)
					defs = append(defs, vdef{d, s})
				}
			default:
				direct("?")
			}
		}
	}
	nSum := 0
	provenance := true
	var badPos token.Pos
	for _, d := range defs {
		cn := short(d.Comp)
		switch d.Class {
		case "sum":
			nSum++
			// the guard may stand on the way to the definition (inside the helper that computes the sum) or
			// on the way to the store
			site := c30Site{Hops: append(append([]c30Hop(nil), d.Site.Hops...), d.store.Hops...), Pos: d.Site.Pos}
			for _, x := range c30Comps {
				ok, wit := c30SiteGuarded(site, r.fitsCap(x))
				c.Check(ok, "commit guarded by "+short(x)+"<=max", "reaching definition + T4 GuardedBy", d.store.Pos,
					"held."+cn+" + request."+cn+" reaches processing only on paths that have established held."+short(x)+" + request."+short(x)+" <= max."+short(x),
					"processing can be updated without held."+short(x)+" + request."+short(x)+" <= max."+short(x)+" having been established: path "+f.DescribePath(wit)+c30WrapHint(f))
			}
		case "held":
			// storing the held amount back changes nothing
		default:
			provenance = false
			if badPos == token.NoPos {
				badPos = d.Site.Pos
			}
		}
	}
	pos := stores[0].Pos
	if badPos != token.NoPos {
		pos = badPos
	}
	c.Check(provenance && nSum > 0, "tmp=processing+request", "reaching definitions (linear normal form)", pos,
		"every definition that can reach a store into processing is processing + request (Num and Size), or processing itself",
		"the value stored into processing is not processing + request (Num and Size)")
	c.ExpectAtLeast("definitions of held + request reaching processing", nSum, 1)

	// success result only after a commit of both components
	commits := map[string][]core.Point{}
	for _, comp := range c30Comps {
		comp := comp
		commits[comp] = c30MustPoints(f, 2, func(g *core.FuncInfo) []core.Point {
			var out []core.Point
			for _, a := range assignments(g) {
				if _, path := c30RawPath(g, a.LHS); len(path) >= 1 && path[0] == c30ProcF && (len(path) == 1 || len(path) == 2 && path[1] == comp) {
					out = append(out, a.Pt)
				}
			}
			return out
		})
	}
	for _, rp := range f.ReturnPoints() {
		ret, _ := rp.Node().(*ast.ReturnStmt)
		if ret == nil || len(ret.Results) != 1 {
			continue // reported by the refusal clause below
		}
		res := ret.Results[0]
		val, isConst := c30ConstBool(f, res)
		if isConst && !val {
			continue
		}
		var falseEdges func(*cfg.Block, int) bool
		if !isConst {
			v := varOfRaw(f, res)
			if v == nil {
				continue
			}
			falseEdges = f.GuardEdges(func(ft core.Fact) bool {
				cm, ok := core.NormCmp(ft)
				return ok && cm.R == nil && cm.Op == token.NEQ && varOfRaw(f, cm.L) == v
			})
		}
		for _, comp := range c30Comps {
			wit, found := core.PathQuery{F: f, From: f.Entry(), Target: core.PointSet(rp), Avoid: core.PointSet(commits[comp]...), AvoidEdge: falseEdges}.Find()
			c.Check(!found, "true only after commit", "T2 Dominates", posOf(rp), "returns true only after committing", "returns true without committing "+short(comp)+": "+f.DescribePath(wit))
		}
	}
	// a fitting request is granted: false is returned only when some component does not fit
	c30Refusals(c, f, func(comp string) []string {
		return []string{"max." + comp + " - new." + comp + " + 1 <= 0", "max." + comp + " - held." + comp + " - req." + comp + " + 1 <= 0"}
	}, r.name)
}
