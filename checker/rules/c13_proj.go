package rules

import (
	"go/ast"
	"go/token"
	"go/types"

	"lachk/core"
)

// ---------------------------------------------------------------------------
// Field projection: values that travel through the view grouped in a small struct.
//
// `g := group{e: e, parents: parents}; g.check()` with `func (g group) check() { ... g.e.Seq() ... }` is the
// same program as `check(e, parents)`: the selection g.e of a struct value that was built by a composite
// literal stands for the literal's element of that field, provided nothing else ever stores into the field
// (or overwrites the whole struct through a pointer). proj resolves such a selection to the element
// expression and the environment (frame) it is written in, following single-definition locals, receivers
// and parameters bound to argument expressions, and variables captured by closures - by objects, never names.

type c13StoreIndex struct {
	fields map[*types.Var]bool // fields stored into (x.f = ..., x.f[i] = ..., x.f++) or whose address is taken
	types  map[types.Type]bool // named struct types overwritten as a whole through a pointer (*p = T{...})
}

var c13Stores = map[*core.Prog]*c13StoreIndex{}

func c13StoreIndexOf(p *core.Prog) *c13StoreIndex {
	if ix, ok := c13Stores[p]; ok {
		return ix
	}
	ix := &c13StoreIndex{fields: map[*types.Var]bool{}, types: map[types.Type]bool{}}
	c13Stores[p] = ix
	fieldOf := func(g *core.FuncInfo, e ast.Expr) *types.Var {
		sel, ok := ast.Unparen(e).(*ast.SelectorExpr)
		if !ok {
			return nil
		}
		if s, ok := g.Info().Selections[sel]; ok {
			if v, ok := s.Obj().(*types.Var); ok && v.IsField() {
				return v.Origin()
			}
		}
		return nil
	}
	for _, g := range p.Funcs() {
		if g.Body == nil {
			continue
		}
		g.InspectOwn(func(n ast.Node) bool {
			var targets []ast.Expr
			switch x := n.(type) {
			case *ast.AssignStmt:
				if x.Tok != token.DEFINE {
					targets = x.Lhs
				}
			case *ast.IncDecStmt:
				targets = []ast.Expr{x.X}
			case *ast.UnaryExpr:
				if x.Op == token.AND {
					if fv := fieldOf(g, x.X); fv != nil {
						ix.fields[fv] = true
					}
				}
			case *ast.RangeStmt:
				if x.Tok == token.ASSIGN {
					targets = []ast.Expr{x.Key, x.Value}
				}
			}
			for _, t := range targets {
				if t == nil {
					continue
				}
				lhs := ast.Unparen(t)
				if st, ok := lhs.(*ast.StarExpr); ok {
					if tv, ok := g.Info().Types[st]; ok && tv.Type != nil {
						ix.types[tv.Type] = true
					}
				}
				// a store into a path: every field on the path is (partly) overwritten
				for {
					switch y := lhs.(type) {
					case *ast.SelectorExpr:
						if fv := fieldOf(g, y); fv != nil {
							ix.fields[fv] = true
						}
						lhs = ast.Unparen(y.X)
						continue
					case *ast.IndexExpr:
						lhs = ast.Unparen(y.X)
						continue
					case *ast.StarExpr:
						lhs = ast.Unparen(y.X)
						continue
					}
					break
				}
			}
			return true
		})
	}
	return ix
}

// c13FieldOfSel: the struct field a selector denotes directly (no promotion through embedded structs).
func c13FieldOfSel(f *core.FuncInfo, sel *ast.SelectorExpr) *types.Var {
	s, ok := f.Info().Selections[sel]
	if !ok || s.Kind() != types.FieldVal || len(s.Index()) != 1 {
		return nil
	}
	v, _ := s.Obj().(*types.Var)
	if v == nil || !v.IsField() {
		return nil
	}
	return v
}

// litOf: the composite literal that built the struct value e denotes, and the environment it is written in.
func (env *c13Env) litOf(e ast.Expr, depth int) (*c13Env, *ast.CompositeLit) {
	if depth > 8 {
		return nil, nil
	}
	x := env.res(e)
	if u, ok := x.(*ast.UnaryExpr); ok && u.Op == token.AND {
		x = ast.Unparen(u.X)
	}
	switch y := x.(type) {
	case *ast.CompositeLit:
		return env, y
	case *ast.StarExpr:
		return env.litOf(y.X, depth+1)
	case *ast.SelectorExpr:
		if pe, elt := env.proj(y); pe != nil {
			return pe.litOf(elt, depth+1)
		}
	case *ast.Ident:
		v := varOf(env.f, y)
		if v == nil || env.up == nil {
			return nil, nil
		}
		if arg, ok := env.fr.bind[v]; ok {
			return env.up.litOf(arg, depth+1)
		}
		if lit := env.f.Lit; lit != nil && !(lit.Pos() <= v.Pos() && v.Pos() < lit.End()) && v.Pkg() != nil && v.Parent() != v.Pkg().Scope() && !v.IsField() {
			return env.up.litOf(y, depth+1)
		}
	}
	return nil, nil
}

// proj: e selects a field of a struct value built by a composite literal, and the field is written nowhere
// else: returns the literal's element of that field and the environment it belongs to (nil, nil otherwise).
func (env *c13Env) proj(e ast.Expr) (*c13Env, ast.Expr) {
	if env == nil || env.fr == nil {
		return nil, nil
	}
	sel, ok := ast.Unparen(e).(*ast.SelectorExpr)
	if !ok {
		return nil, nil
	}
	fv := c13FieldOfSel(env.f, sel)
	if fv == nil {
		return nil, nil
	}
	ix := c13StoreIndexOf(env.f.P)
	if ix.fields[fv.Origin()] {
		return nil, nil
	}
	le, lit := env.litOf(sel.X, 0)
	if lit == nil {
		return nil, nil
	}
	tv, ok := le.f.Info().Types[lit]
	if !ok || tv.Type == nil || ix.types[tv.Type] {
		return nil, nil
	}
	st, ok := tv.Type.Underlying().(*types.Struct)
	if !ok {
		return nil, nil
	}
	at := -1
	for i := 0; i < st.NumFields(); i++ {
		if st.Field(i).Origin() == fv.Origin() {
			at = i
		}
	}
	if at < 0 {
		return nil, nil
	}
	for i, elt := range lit.Elts {
		if kv, ok := elt.(*ast.KeyValueExpr); ok {
			if id, ok := kv.Key.(*ast.Ident); ok {
				if o, _ := le.f.Info().ObjectOf(id).(*types.Var); o != nil && o.Origin() == fv.Origin() {
					return le, kv.Value
				}
			}
			continue
		}
		if i == at {
			return le, elt
		}
	}
	return nil, nil
}
