package rules

import (
	"go/ast"
	"go/token"
	"go/types"

	"lachk/core"
)

// Generic views written for C01/C02/C03 (round 2; candidates for promotion to core/helpers):
//
//	c01IterationOf   core.IterationOf plus counted loops whose init clause defines several variables
//	                 (`for i, n := 0, len(xs); i < n; i++`) or whose index is initialised before the loop
//	c01FactThrough   lets a fact matcher look through single-definition boolean locals
//	                 (`seen := mark != 0; if seen {…}` is read as the facts of `mark != 0`)
//	c01Producer      an expression that is the result of a static call of a module function: the callee
//	                 as a view (parameters and receiver translate to the caller's arguments)
//	(round 4: the one-level "deep query" with return-value scenarios was replaced by inlined views plus
//	 c01EnvQuery, see c01_env.go)

// c01IterationOf recognises the loop as an iteration over a collection or over 0..n-1.
func c01IterationOf(f *core.FuncInfo, loop ast.Stmt) (*core.Iteration, bool) {
	if loop == nil {
		return nil, false
	}
	res := c01Resolver(f)
	if it, ok := core.IterationOf(f, loop, res); ok {
		return it, true
	}
	fs, ok := loop.(*ast.ForStmt)
	if !ok || fs == nil || fs.Cond == nil || fs.Body == nil {
		return nil, false
	}
	info := f.Info()
	cm, ok := core.NormCmp(core.Fact{Expr: fs.Cond, Truth: true})
	if !ok || cm.R == nil || cm.Op != token.LSS {
		return nil, false
	}
	iv := varOf(f, cm.L)
	if iv == nil {
		return nil, false
	}
	inc, ok := fs.Post.(*ast.IncDecStmt)
	if !ok || inc.Tok != token.INC || varOf(f, inc.X) != iv {
		return nil, false
	}
	// the index has exactly one other definition, placed before the body
	var init ast.Expr
	n := 0
	for _, a := range assignsToVar(f, iv) {
		if a.Stmt == ast.Node(fs.Post) {
			continue
		}
		if _, isDecl := a.Stmt.(*ast.ValueSpec); isDecl && a.RHS == nil {
			continue
		}
		n++
		if a.RHS == nil || a.Stmt.Pos() >= fs.Body.Pos() {
			return nil, false
		}
		if as, isAs := a.Stmt.(*ast.AssignStmt); isAs && len(as.Lhs) != len(as.Rhs) {
			return nil, false
		}
		init = a.RHS
	}
	if n != 1 || init == nil {
		return nil, false
	}
	for _, l := range allLits(f) {
		if len(assignsToVar(l, iv)) > 0 {
			return nil, false
		}
	}
	it := &core.Iteration{F: f, Stmt: loop, Body: fs.Body, Counted: true, Index: iv, Bound: cm.R}
	it.Head, it.Done = f.LoopOf(loop)
	it.FromZero = core.IsConstInt(info, core.StripConv(info, init), 0)
	if it.Head != nil && it.Done != nil {
		k := 0
		for _, b := range f.CFG().Blocks {
			if !b.Live {
				continue
			}
			for _, s := range b.Succs {
				if s == it.Done {
					k++
					if b != it.Head {
						k += 100
					}
				}
			}
		}
		it.Complete = k == 1
	}
	b := res(cm.R)
	for i := 0; i < 4; i++ {
		nb := res(core.StripConv(info, b))
		if nb == b {
			break
		}
		b = nb
	}
	if call, isCall := b.(*ast.CallExpr); isCall && len(call.Args) == 1 {
		if bi, isB := core.ObjOfExpr(info, call.Fun).(*types.Builtin); isB && bi.Name() == "len" {
			it.Coll = res(call.Args[0])
		}
	}
	return it, true
}

// c01FactThrough: a matcher that also accepts a fact about a single-definition boolean local when the
// facts implied by its defining expression are accepted.
func c01FactThrough(f *core.FuncInfo, match func(core.Fact) bool) func(core.Fact) bool {
	var m func(ft core.Fact, depth int) bool
	m = func(ft core.Fact, depth int) bool {
		if match(ft) {
			return true
		}
		if depth > 3 {
			return false
		}
		e, truth, ok := c01BoolOperand(f.Info(), ft)
		if !ok {
			return false
		}
		id, isID := ast.Unparen(e).(*ast.Ident)
		if !isID {
			return false
		}
		d := resolveLocal(f, id)
		if _, still := d.(*ast.Ident); still || d == nil {
			return false
		}
		for _, sub := range core.Decompose(d, truth) {
			if m(sub, depth+1) {
				return true
			}
		}
		return false
	}
	return func(ft core.Fact) bool { return m(ft, 0) }
}

// c01CallSiteOf: the call site of f's own body for the call expression.
func c01CallSiteOf(f *core.FuncInfo, call *ast.CallExpr) *core.CallSite {
	for _, cs := range f.Calls() {
		if cs.Call == call {
			return cs
		}
	}
	return nil
}

// c01Producer: e (in f) denotes the result of a static call of a module function (single-definition
// locals looked through). The view has Caller=f, At=the call, G=the callee, Eff=At.
func c01Producer(f *core.FuncInfo, e ast.Expr) (c01Effect, bool) {
	if e == nil {
		return c01Effect{}, false
	}
	call, ok := resolveLocal(f, e).(*ast.CallExpr)
	if !ok {
		return c01Effect{}, false
	}
	cs := c01CallSiteOf(f, call)
	if cs == nil {
		return c01Effect{}, false
	}
	fn, ok := cs.Callee.(*types.Func)
	if !ok {
		return c01Effect{}, false
	}
	g := f.P.FuncOf(fn)
	if g == nil || g == f {
		return c01Effect{}, false
	}
	return c01Effect{Caller: f, At: cs, G: g, Eff: cs}, true
}

// c01HelperViews: the direct view of f followed by one view per static call of a module function
// made in f's own body.
func c01HelperViews(f *core.FuncInfo) []c01Effect {
	out := []c01Effect{{Caller: f, G: f}}
	for _, cs := range f.Calls() {
		fn, ok := cs.Callee.(*types.Func)
		if !ok {
			continue
		}
		if g := f.P.FuncOf(fn); g != nil && g != f {
			out = append(out, c01Effect{Caller: f, At: cs, G: g, Eff: cs})
		}
	}
	return out
}

// ---------------------------------------------------------------------------
// abstract values (used by c01EnvQuery, c01_env.go)

type c01Abs int

const (
	c01AbsUnknown c01Abs = iota
	c01AbsTrue
	c01AbsFalse
	c01AbsNil
	c01AbsNonNil
)
