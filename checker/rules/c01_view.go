package rules

import (
	"go/ast"
	"go/constant"
	"go/token"
	"go/types"

	"golang.org/x/tools/go/cfg"

	"lachk/core"
)

// Generic views written for C01/C02/C03 (round 2; candidates for promotion to core/helpers):
//
//	c01IterationOf   core.IterationOf plus counted loops whose init clause defines several variables
//	                 (`for i, n := 0, len(xs); i < n; i++`) or whose index is initialised before the loop
//	c01FactThrough   lets a fact matcher look through single-definition boolean locals
//	                 (`seen := mark != 0; if seen {…}` is read as the facts of `mark != 0`)
//	c01Producer      an expression that is the result of a static call of a module function: the callee
//	                 as a view (parameters and receiver translate to the caller's arguments)
//	c01DeepQuery     path question that starts at a call made in a function or in a helper one call
//	                 down and follows control through the helper's returns back into the caller; the
//	                 caller does not take edges that contradict what the helper returned on that exit
//	                 (return-value scenarios: true/false/nil/non-nil/alias of a tracked result)

// c01IterationOf recognises the loop as an iteration over a collection or over 0..n-1.
func c01IterationOf(f *core.FuncInfo, loop ast.Stmt) (*core.Iteration, bool) {
	if loop == nil {
		return nil, false
	}
	res := c01Resolver(f)
	if it, ok := core.IterationOf(f, loop, res); ok {
		return it, true
	}
	fs, ok := loop.(*ast.ForStmt)
	if !ok || fs == nil || fs.Cond == nil || fs.Body == nil {
		return nil, false
	}
	info := f.Info()
	cm, ok := core.NormCmp(core.Fact{Expr: fs.Cond, Truth: true})
	if !ok || cm.R == nil || cm.Op != token.LSS {
		return nil, false
	}
	iv := varOf(f, cm.L)
	if iv == nil {
		return nil, false
	}
	inc, ok := fs.Post.(*ast.IncDecStmt)
	if !ok || inc.Tok != token.INC || varOf(f, inc.X) != iv {
		return nil, false
	}
	// the index has exactly one other definition, placed before the body
	var init ast.Expr
	n := 0
	for _, a := range assignsToVar(f, iv) {
		if a.Stmt == ast.Node(fs.Post) {
			continue
		}
		if _, isDecl := a.Stmt.(*ast.ValueSpec); isDecl && a.RHS == nil {
			continue
		}
		n++
		if a.RHS == nil || a.Stmt.Pos() >= fs.Body.Pos() {
			return nil, false
		}
		if as, isAs := a.Stmt.(*ast.AssignStmt); isAs && len(as.Lhs) != len(as.Rhs) {
			return nil, false
		}
		init = a.RHS
	}
	if n != 1 || init == nil {
		return nil, false
	}
	for _, l := range allLits(f) {
		if len(assignsToVar(l, iv)) > 0 {
			return nil, false
		}
	}
	it := &core.Iteration{F: f, Stmt: loop, Body: fs.Body, Counted: true, Index: iv, Bound: cm.R}
	it.Head, it.Done = f.LoopOf(loop)
	it.FromZero = core.IsConstInt(info, core.StripConv(info, init), 0)
	if it.Head != nil && it.Done != nil {
		k := 0
		for _, b := range f.CFG().Blocks {
			if !b.Live {
				continue
			}
			for _, s := range b.Succs {
				if s == it.Done {
					k++
					if b != it.Head {
						k += 100
					}
				}
			}
		}
		it.Complete = k == 1
	}
	b := res(cm.R)
	for i := 0; i < 4; i++ {
		nb := res(core.StripConv(info, b))
		if nb == b {
			break
		}
		b = nb
	}
	if call, isCall := b.(*ast.CallExpr); isCall && len(call.Args) == 1 {
		if bi, isB := core.ObjOfExpr(info, call.Fun).(*types.Builtin); isB && bi.Name() == "len" {
			it.Coll = res(call.Args[0])
		}
	}
	return it, true
}

// c01FactThrough: a matcher that also accepts a fact about a single-definition boolean local when the
// facts implied by its defining expression are accepted.
func c01FactThrough(f *core.FuncInfo, match func(core.Fact) bool) func(core.Fact) bool {
	var m func(ft core.Fact, depth int) bool
	m = func(ft core.Fact, depth int) bool {
		if match(ft) {
			return true
		}
		if depth > 3 {
			return false
		}
		e, truth, ok := c01BoolOperand(f.Info(), ft)
		if !ok {
			return false
		}
		id, isID := ast.Unparen(e).(*ast.Ident)
		if !isID {
			return false
		}
		d := resolveLocal(f, id)
		if _, still := d.(*ast.Ident); still || d == nil {
			return false
		}
		for _, sub := range core.Decompose(d, truth) {
			if m(sub, depth+1) {
				return true
			}
		}
		return false
	}
	return func(ft core.Fact) bool { return m(ft, 0) }
}

// c01CallSiteOf: the call site of f's own body for the call expression.
func c01CallSiteOf(f *core.FuncInfo, call *ast.CallExpr) *core.CallSite {
	for _, cs := range f.Calls() {
		if cs.Call == call {
			return cs
		}
	}
	return nil
}

// c01Producer: e (in f) denotes the result of a static call of a module function (single-definition
// locals looked through). The view has Caller=f, At=the call, G=the callee, Eff=At.
func c01Producer(f *core.FuncInfo, e ast.Expr) (c01Effect, bool) {
	if e == nil {
		return c01Effect{}, false
	}
	call, ok := resolveLocal(f, e).(*ast.CallExpr)
	if !ok {
		return c01Effect{}, false
	}
	cs := c01CallSiteOf(f, call)
	if cs == nil {
		return c01Effect{}, false
	}
	fn, ok := cs.Callee.(*types.Func)
	if !ok {
		return c01Effect{}, false
	}
	g := f.P.FuncOf(fn)
	if g == nil || g == f {
		return c01Effect{}, false
	}
	return c01Effect{Caller: f, At: cs, G: g, Eff: cs}, true
}

// c01HelperViews: the direct view of f followed by one view per static call of a module function
// made in f's own body.
func c01HelperViews(f *core.FuncInfo) []c01Effect {
	out := []c01Effect{{Caller: f, G: f}}
	for _, cs := range f.Calls() {
		fn, ok := cs.Callee.(*types.Func)
		if !ok {
			continue
		}
		if g := f.P.FuncOf(fn); g != nil && g != f {
			out = append(out, c01Effect{Caller: f, At: cs, G: g, Eff: cs})
		}
	}
	return out
}

// c01IsReplayCall: the call re-processes the stored roots (the replay routine or its inner step).
func c01IsReplayCall(cs *core.CallSite) bool {
	return cs != nil && (cs.Name == "abft.Orderer.bootstrapElection" || cs.Name == "abft.Orderer.processKnownRoots")
}

// c01ResultCount: number of results of g.
func c01ResultCount(g *core.FuncInfo) int {
	if g.Type.Results == nil {
		return 0
	}
	n := 0
	for _, fl := range g.Type.Results.List {
		if len(fl.Names) == 0 {
			n++
		} else {
			n += len(fl.Names)
		}
	}
	return n
}

// ---------------------------------------------------------------------------
// return-value scenarios

type c01Abs int

const (
	c01AbsUnknown c01Abs = iota
	c01AbsTrue
	c01AbsFalse
	c01AbsNil
	c01AbsNonNil
)

// c01AbsResult: what is statically known about result expression x of the return statement at ret:
// a constant, or a variable that every path to the return has tested (after its last assignment).
func c01AbsResult(g *core.FuncInfo, ret core.Point, x ast.Expr) c01Abs {
	info := g.Info()
	if core.IsNil(info, x) {
		return c01AbsNil
	}
	if cv, ok := core.ConstVal(info, x); ok && cv.Kind() == constant.Bool {
		if constant.BoolVal(cv) {
			return c01AbsTrue
		}
		return c01AbsFalse
	}
	v := varOf(g, x)
	if v == nil {
		return c01AbsUnknown
	}
	guarded := func(match func(core.Fact) bool) bool {
		if ok, _ := g.GuardedBy(ret, match); !ok {
			return false
		}
		ge := g.GuardEdges(match)
		for _, a := range assignsToVar(g, v) {
			if a.Pt == ret {
				continue
			}
			if _, found := (core.PathQuery{F: g, From: a.Pt, FromAfter: true, Target: core.PointSet(ret), AvoidEdge: ge}).Find(); found {
				return false
			}
		}
		return true
	}
	if b, isB := v.Type().Underlying().(*types.Basic); isB && b.Info()&types.IsBoolean != 0 {
		switch {
		case guarded(c01BoolFact(g, v, true)):
			return c01AbsTrue
		case guarded(c01BoolFact(g, v, false)):
			return c01AbsFalse
		}
		return c01AbsUnknown
	}
	switch {
	case guarded(varNilFact(g, v, false)):
		return c01AbsNonNil
	case guarded(varNilFact(g, v, true)):
		return c01AbsNil
	}
	return c01AbsUnknown
}

// c01Exit: one return statement of a helper with what is known about its results on the paths asked for.
type c01Exit struct {
	Ret     core.Point
	Vals    []c01Abs
	Tracked []bool // result i carries the tracked result of the source call
}

// c01HoldsAfter: the blocks at whose end variable v still holds the value assigned at `from`: blocks
// that cannot be reached from another assignment of v without passing `from` again.
func c01HoldsAfter(f *core.FuncInfo, from core.Point, v *types.Var) func(*cfg.Block) bool {
	dirty := map[*cfg.Block]bool{}
	var work []*cfg.Block
	push := func(b *cfg.Block) {
		if !dirty[b] {
			// a block that contains `from` re-establishes the value before its end
			if b == from.B {
				return
			}
			dirty[b] = true
			work = append(work, b)
		}
	}
	for _, a := range assignsToVar(f, v) {
		if a.Pt == from || a.Pt.B == nil {
			continue
		}
		if a.Pt.B == from.B && a.Pt.I < from.I {
			continue // overwritten by `from` before the block ends
		}
		if !dirty[a.Pt.B] {
			dirty[a.Pt.B] = true
			work = append(work, a.Pt.B)
		}
	}
	for len(work) > 0 {
		b := work[0]
		work = work[1:]
		for _, s := range b.Succs {
			push(s)
		}
	}
	return func(b *cfg.Block) bool { return !dirty[b] }
}

// c01DeepQuery: can control get from the source call to a target effect without passing a `via` effect?
// The source call is made in e.Caller itself or in the module helper e.G that e.Caller calls at e.At.
// With Track >= 0 the source's boolean result Track must not be known false on the way: edges on which
// it is false are not taken, and an overwrite of the variable holding it counts as reaching a target
// (a later test of that variable speaks about another call).
//
// With Neg the tracked result is assumed false instead: edges on which it is true are not taken while the
// variable still holds that result (an overwrite ends the assumption, it is not a target), and a
// discarded result merely means that nothing is known.
type c01DeepQuery struct {
	Via   func(*core.CallSite) bool // nil: nothing discharges
	Tgt   func(*core.CallSite) bool
	Track int
	Neg   bool
}

// from returns found (with a witness) or discarded (the tracked result is thrown away).
func (q c01DeepQuery) from(e c01Effect) (found, discarded bool, wit string) {
	g := e.G
	via := func(f *core.FuncInfo) []core.Point {
		if q.Via == nil {
			return nil
		}
		return f.SitesMust(q.Via, 2)
	}
	targets := g.SitesMay(q.Tgt, 1)
	var avoidEdge func(*cfg.Block, int) bool
	var sv *types.Var
	_, inReturn := e.Eff.Pt.Node().(*ast.ReturnStmt)
	tail := false
	if inReturn {
		if r := e.Eff.Pt.Node().(*ast.ReturnStmt); len(r.Results) == 1 && ast.Unparen(r.Results[0]) == ast.Expr(e.Eff.Call) {
			tail = true
		}
	}
	if q.Track >= 0 && !tail {
		sv = c01ResultVar(g, e.Eff.Call, q.Track)
		switch {
		case sv == nil && !q.Neg:
			return false, true, ""
		case sv == nil:
		case q.Neg:
			ge, holds := g.GuardEdges(c01BoolFact(g, sv, true)), c01HoldsAfter(g, e.Eff.Pt, sv)
			avoidEdge = func(b *cfg.Block, s int) bool { return holds(b) && ge(b, s) }
		default:
			avoidEdge = g.GuardEdges(c01BoolFact(g, sv, false))
			for _, a := range assignsToVar(g, sv) {
				if a.Pt != e.Eff.Pt {
					targets = append(targets, a.Pt)
				}
			}
		}
	}
	viaG := via(g)
	if !inReturn {
		if p, ok := (core.PathQuery{F: g, From: e.Eff.Pt, FromAfter: true, Target: core.PointSet(targets...), Avoid: core.PointSet(viaG...), AvoidEdge: avoidEdge}).Find(); ok {
			return true, false, g.DescribePath(p)
		}
	}
	if g == e.Caller || e.At == nil {
		return false, false, ""
	}
	// the helper's exits that the source can reach
	nres := c01ResultCount(g)
	var exits []c01Exit
	if inReturn {
		ex := c01Exit{Ret: e.Eff.Pt, Vals: make([]c01Abs, nres), Tracked: make([]bool, nres)}
		if tail && q.Track >= 0 && q.Track < nres {
			ex.Tracked[q.Track] = true
		}
		exits = append(exits, ex)
	} else {
		stop := core.PointSet(append(append([]core.Point(nil), viaG...), targets...)...)
		for _, rp := range g.ReturnPoints() {
			if _, ok := (core.PathQuery{F: g, From: e.Eff.Pt, FromAfter: true, Target: core.PointSet(rp), Avoid: stop, AvoidEdge: avoidEdge}).Find(); !ok {
				continue
			}
			ex := c01Exit{Ret: rp, Vals: make([]c01Abs, nres), Tracked: make([]bool, nres)}
			if r := rp.Node().(*ast.ReturnStmt); len(r.Results) == nres {
				for i, x := range r.Results {
					ex.Vals[i] = c01AbsResult(g, rp, x)
					if sv != nil && canonVar(g, varOf(g, x)) == sv {
						ex.Tracked[i] = true
					}
				}
			}
			exits = append(exits, ex)
		}
	}
	// back in the caller
	F, H := e.Caller, e.At
	if _, leaves := H.Pt.Node().(*ast.ReturnStmt); leaves {
		return false, false, "" // the helper's result leaves the caller as well
	}
	vars := make([]*types.Var, nres)
	for i := range vars {
		vars[i] = c01ResultVar(F, H.Call, i)
	}
	tgtF, viaF := F.SitesMay(q.Tgt, 1), via(F)
	for _, ex := range exits {
		tg := append([]core.Point(nil), tgtF...)
		var conds []func(*cfg.Block, int) bool
		for i, v := range vars {
			if v == nil {
				continue
			}
			var m func(core.Fact) bool
			switch {
			case ex.Tracked[i] && q.Neg:
				m = c01BoolFact(F, v, true)
			case ex.Tracked[i] || ex.Vals[i] == c01AbsTrue:
				m = c01BoolFact(F, v, false)
			case ex.Vals[i] == c01AbsFalse:
				m = c01BoolFact(F, v, true)
			case ex.Vals[i] == c01AbsNil:
				m = varNilFact(F, v, false)
			case ex.Vals[i] == c01AbsNonNil:
				m = varNilFact(F, v, true)
			}
			if m == nil {
				continue
			}
			ge, holds := F.GuardEdges(m), c01HoldsAfter(F, H.Pt, v)
			conds = append(conds, func(b *cfg.Block, s int) bool { return holds(b) && ge(b, s) })
			if ex.Tracked[i] && !q.Neg {
				for _, a := range assignsToVar(F, v) {
					if a.Pt != H.Pt {
						tg = append(tg, a.Pt)
					}
				}
			}
		}
		contradicted := func(b *cfg.Block, s int) bool {
			for _, cnd := range conds {
				if cnd(b, s) {
					return true
				}
			}
			return false
		}
		if p, ok := (core.PathQuery{F: F, From: H.Pt, FromAfter: true, Target: core.PointSet(tg...), Avoid: core.PointSet(viaF...), AvoidEdge: contradicted}).Find(); ok {
			return true, false, short(g.Name) + " returns at " + g.DescribePath([]core.Point{ex.Ret}) + ", then " + F.DescribePath(p)
		}
	}
	return false, false, ""
}
