package rules

import (
	"go/ast"
	"go/token"
	"go/types"

	"lachk/core"
)

// Inlined view used by the C05 clauses (candidate for promotion to core): a statement of an accessor or
// of the fork scan may live in a helper (extract method / named predicate), and a helper may have been
// inlined. The clauses therefore look at the call sites and expressions of the anchor function *and* of
// the declared module functions it calls statically (bounded depth), each in its own activation frame,
// and read every operand back through the parameter bindings of the frames (and through
// single-definition locals) to the expression the anchor function passed in.
//
//	c05Frame      one activation: the function, the caller's frame and the call that enters it
//	c05Frames     all activations below a root (one per call site, bounded depth, no recursion)
//	c05Resolve    (frame, expr) -> (frame', expr'): look through locals and parameter/receiver bindings
//	c05Sites      call sites matching a predicate in the inlined view
//	c05Site       .RootPt (the point of the root function at which the effect happens),
//	              .Always (the helpers on the way perform it on every returning path)

type c05Frame struct {
	F   *core.FuncInfo
	Up  *c05Frame      // nil for the root
	At  *core.CallSite // the call in Up.F that enters F
	Lex *c05Frame      // for a function literal: the frame of the function in which the literal is written
}

// c05Callee returns the declared module function entered by a plain static call (no interface dispatch,
// no function values, no go/defer).
func c05Callee(cs *core.CallSite) *core.FuncInfo {
	if cs.InGo || cs.InDefer || cs.IsConv {
		return nil
	}
	fn, ok := cs.Callee.(*types.Func)
	if !ok {
		return nil
	}
	g := cs.F.P.FuncOf(fn)
	if g == nil || g.Body == nil || g.Decl == nil {
		return nil
	}
	if sig, _ := fn.Type().(*types.Signature); sig == nil || sig.Variadic() {
		return nil
	}
	return g
}

// c05Frames lists the root frame and the frames of every function entered from it through static
// calls, to the given depth (a function already active on the chain is not entered again). scope
// restricts the functions that are entered (nil: all module functions).
func c05Frames(root *core.FuncInfo, depth int, scope func(*core.FuncInfo) bool) []*c05Frame {
	var out []*c05Frame
	var walk func(fr *c05Frame, d int)
	walk = func(fr *c05Frame, d int) {
		out = append(out, fr)
		if d <= 0 {
			return
		}
		for _, cs := range fr.F.Calls() {
			sub := c05Enter(fr, cs)
			if sub == nil || (scope != nil && !scope(sub.F)) {
				continue
			}
			walk(sub, d-1)
		}
	}
	walk(&c05Frame{F: root}, depth)
	return out
}

// c05Enter returns the activation entered by the call cs made in frame fr: a declared module function
// (plain static call), or a function literal that the called variable certainly denotes — a callback
// parameter of fr.F that the caller bound to a literal, or a single-definition local holding a literal.
// nil when the callee is unknown, already active on the chain, or the call is a go/defer/conversion.
func c05Enter(fr *c05Frame, cs *core.CallSite) *c05Frame {
	sub := &c05Frame{Up: fr, At: cs}
	if g := c05Callee(cs); g != nil {
		sub.F = g
	} else {
		if cs.InGo || cs.InDefer || cs.IsConv {
			return nil
		}
		v, ok := cs.Callee.(*types.Var)
		if !ok || v.IsField() {
			return nil
		}
		id, ok := ast.Unparen(cs.Call.Fun).(*ast.Ident)
		if !ok {
			return nil
		}
		lfr, x := c05Resolve(fr, id)
		lit, ok := ast.Unparen(x).(*ast.FuncLit)
		if !ok {
			return nil
		}
		g := lfr.F.P.LitInfo(lit)
		if g == nil || g.Body == nil || g.Type == nil || g.Type.Params == nil {
			return nil
		}
		if sig, _ := lfr.F.Info().TypeOf(lit).(*types.Signature); sig == nil || sig.Variadic() {
			return nil
		}
		sub.F, sub.Lex = g, lfr
	}
	for a := fr; a != nil; a = a.Up {
		if a.F == sub.F {
			return nil
		}
	}
	return sub
}

// c05Inside: pos lies in the source extent of g (parameters and body).
func c05Inside(g *core.FuncInfo, pos token.Pos) bool {
	if g.Lit != nil {
		return g.Lit.Pos() <= pos && pos < g.Lit.End()
	}
	return g.Decl != nil && g.Decl.Pos() <= pos && pos < g.Decl.End()
}

// c05CallSiteOf: the call site record of the call expression in g's own body.
func c05CallSiteOf(g *core.FuncInfo, call *ast.CallExpr) *core.CallSite {
	for _, cs := range g.Calls() {
		if cs.Call == call {
			return cs
		}
	}
	return nil
}

// c05StableParam: v is a parameter (index >= 0) or the receiver (index -1) of g that g never reassigns
// and whose address g never takes, so inside g it stands for the caller's argument. ok=false otherwise.
func c05StableParam(g *core.FuncInfo, v *types.Var) (index int, ok bool) {
	if v == nil {
		return 0, false
	}
	index = -2
	if g.Recv() == v {
		index = -1
	} else {
		n := 0
		for _, fl := range g.Type.Params.List {
			if len(fl.Names) == 0 {
				n++
				continue
			}
			for range fl.Names {
				if g.Param(n) == v {
					index = n
				}
				n++
			}
		}
	}
	if index == -2 {
		return 0, false
	}
	stable := true
	all := append([]*core.FuncInfo{g}, allLits(g)...)
	for _, h := range all {
		for _, a := range assignments(h) {
			if varOfRaw(h, a.LHS) == v {
				stable = false
			}
		}
		h.InspectOwn(func(n ast.Node) bool {
			if u, isU := n.(*ast.UnaryExpr); isU && u.Op == token.AND && varOfRaw(h, u.X) == v {
				stable = false
			}
			return stable
		})
	}
	return index, stable
}

// c05Resolve reads e (an expression of fr.F) back to where its value comes from: single-definition
// locals are looked through (resolveLocal) and an unmodified parameter or receiver of a helper is
// replaced by the argument (receiver expression) of the call that entered the helper, in the caller's
// frame. The result is an expression of the returned frame's function.
func c05Resolve(fr *c05Frame, e ast.Expr) (*c05Frame, ast.Expr) {
	for step := 0; step < 12 && e != nil; step++ {
		// a variable captured by a function literal lives in the frame of the function that wrote the literal
		for fr.Lex != nil {
			id, isID := ast.Unparen(e).(*ast.Ident)
			if !isID {
				break
			}
			v, _ := fr.F.Info().ObjectOf(id).(*types.Var)
			if v == nil || v.IsField() || c05Inside(fr.F, v.Pos()) {
				break
			}
			fr = fr.Lex
		}
		e = resolveLocal(fr.F, e)
		id, isID := ast.Unparen(e).(*ast.Ident)
		if !isID || fr.Up == nil {
			return fr, e
		}
		v, _ := fr.F.Info().ObjectOf(id).(*types.Var)
		ix, ok := c05StableParam(fr.F, v)
		if !ok {
			return fr, e
		}
		var arg ast.Expr
		if ix == -1 {
			arg = fr.At.Recv()
		} else if ix < len(fr.At.Call.Args) {
			arg = fr.At.Call.Args[ix]
		}
		if arg == nil {
			return fr, e
		}
		fr, e = fr.Up, arg
	}
	return fr, e
}

// c05VarIn: the variable that e denotes after resolution (pure aliases followed), with its frame.
func c05VarIn(fr *c05Frame, e ast.Expr) (*c05Frame, *types.Var) {
	if e == nil {
		return nil, nil
	}
	fr2, e2 := c05Resolve(fr, core.StripConv(fr.F.Info(), e))
	for i := 0; i < 4; i++ {
		s := core.StripConv(fr2.F.Info(), e2)
		if s == e2 {
			break
		}
		fr2, e2 = c05Resolve(fr2, s)
	}
	v := canonVar(fr2.F, varOf(fr2.F, e2))
	if v == nil {
		return nil, nil
	}
	return fr2, v
}

// c05IsRootVar: e denotes the variable v of the root function (e.g. a parameter of the anchor).
func c05IsRootVar(fr *c05Frame, e ast.Expr, v *types.Var) bool {
	fr2, w := c05VarIn(fr, e)
	return v != nil && fr2 != nil && fr2.Up == nil && w == v
}

// c05FieldIn: the canonical name of the field e denotes (through locals and parameter bindings), and
// whether the object it is selected from is the root function's receiver.
func c05FieldIn(fr *c05Frame, e ast.Expr) (name string, onRootRecv bool) {
	if e == nil {
		return "", false
	}
	fr2, e2 := c05ResolveDeep(fr, e)
	name = fieldNameOf(fr2.F, e2)
	if name == "" {
		return "", false
	}
	base, _ := fieldPath(fr2.F, e2)
	fr3, v := c05VarIn(fr2, base)
	return name, fr3 != nil && fr3.Up == nil && v != nil && v == fr3.F.Recv()
}

type c05Site struct {
	Fr *c05Frame
	CS *core.CallSite
}

// c05Sites: the call sites accepted by pred in the inlined view of root.
func c05Sites(root *core.FuncInfo, depth int, scope func(*core.FuncInfo) bool, pred func(fr *c05Frame, cs *core.CallSite) bool) []c05Site {
	var out []c05Site
	for _, fr := range c05Frames(root, depth, scope) {
		for _, cs := range fr.F.Calls() {
			if pred(fr, cs) {
				out = append(out, c05Site{fr, cs})
			}
		}
	}
	return out
}

// RootPt: the point of the root function at which the site's effect happens (the site itself, or the
// call of the outermost helper that contains it).
func (s c05Site) RootPt() core.Point {
	pt := s.CS.Pt
	for fr := s.Fr; fr.Up != nil; fr = fr.Up {
		pt = fr.At.Pt
	}
	return pt
}

// RootCall: the call expression of the root function through which the site is reached.
func (s c05Site) RootCall() *ast.CallExpr {
	call := s.CS.Call
	for fr := s.Fr; fr.Up != nil; fr = fr.Up {
		call = fr.At.Call
	}
	return call
}

// Always: every helper on the way performs the effect on each of its returning paths, so the effect
// happens whenever the root function passes RootPt.
func (s c05Site) Always() bool {
	pt := s.CS.Pt
	for fr := s.Fr; fr.Up != nil; fr = fr.Up {
		if _, skip := (core.PathQuery{F: fr.F, From: fr.F.Entry(), Avoid: core.PointSet(pt), TargetExit: true}).Find(); skip {
			return false
		}
		pt = fr.At.Pt
	}
	return true
}

// Arg reads the i-th argument of the site back to the root-most frame that determines it.
func (s c05Site) Arg(i int) (*c05Frame, ast.Expr) {
	if i >= len(s.CS.Call.Args) {
		return s.Fr, nil
	}
	return c05Resolve(s.Fr, s.CS.Call.Args[i])
}

// c05MethodOnRootVar: e is (after resolution) a call recv.<method>() whose receiver denotes the root
// function's variable v, e.g. id.Bytes() for the accessor's id parameter.
func c05MethodOnRootVar(fr *c05Frame, e ast.Expr, method string, v *types.Var) bool {
	if e == nil {
		return false
	}
	fr2, e2 := c05Resolve(fr, e)
	call, ok := ast.Unparen(e2).(*ast.CallExpr)
	if !ok || !methodNamed(calleeName(fr2.F, call), method) {
		return false
	}
	sel, ok := ast.Unparen(call.Fun).(*ast.SelectorExpr)
	return ok && c05IsRootVar(fr2, sel.X, v)
}

// c05DefiningCall: the call whose (first) result e holds, in the frame's function: e itself, or a local
// whose only definition is that call (conversions stripped, also `x, err := call()`).
func c05DefiningCall(fr *c05Frame, e ast.Expr) (*c05Frame, *ast.CallExpr) {
	for step := 0; step < 6 && e != nil; step++ {
		var x ast.Expr
		fr, x = c05Resolve(fr, e)
		x = core.StripConv(fr.F.Info(), x)
		switch y := ast.Unparen(x).(type) {
		case *ast.CallExpr:
			return fr, y
		case *ast.Ident:
			if ast.Expr(y) != ast.Unparen(e) {
				e = y // a conversion was stripped: resolve the operand first
				continue
			}
			v := varOf(fr.F, y)
			defs := assignsToVar(fr.F, v)
			var rhs ast.Expr
			n := 0
			for _, d := range defs {
				if d.RHS == nil {
					if _, spec := d.Stmt.(*ast.ValueSpec); spec {
						continue
					}
					return fr, nil
				}
				if as, ok := d.Stmt.(*ast.AssignStmt); ok && len(as.Lhs) != len(as.Rhs) && (len(as.Lhs) == 0 || ast.Unparen(as.Lhs[0]) != ast.Unparen(d.LHS)) {
					return fr, nil // not the first result of the multi-value call
				}
				n++
				rhs = d.RHS
			}
			if n != 1 || rhs == nil || rhs == e {
				return fr, nil
			}
			e = rhs
		default:
			return fr, nil
		}
	}
	return fr, nil
}

// c05StoredThrough: some assignment of g (or of its literals) stores through the variable v
// (v.f = …, v[i] = …, *v = …), so v is a mutable object rather than a name for its defining value.
func c05StoredThrough(g *core.FuncInfo, v *types.Var) bool {
	for _, h := range append([]*core.FuncInfo{g}, allLits(g)...) {
		for _, a := range assignments(h) {
			root, depth := ast.Unparen(a.LHS), 0
			for {
				switch x := root.(type) {
				case *ast.SelectorExpr:
					root, depth = ast.Unparen(x.X), depth+1
					continue
				case *ast.IndexExpr:
					root, depth = ast.Unparen(x.X), depth+1
					continue
				case *ast.StarExpr:
					root, depth = ast.Unparen(x.X), depth+1
					continue
				}
				break
			}
			if depth > 0 && varOfRaw(h, root) == v {
				return true
			}
		}
	}
	return false
}

// c05ResolveDeep extends c05Resolve by two provenance steps (symbolic, no evaluation):
//
//	projection   X.f where X denotes a struct value built by a composite literal (directly, held in a
//	             never-modified local or parameter, or returned by a helper) stands for the literal's
//	             element of field f, in the frame that wrote the literal;
//	result       a call of a module function or bound literal with a single return statement stands for
//	             the returned expression, in the callee's activation.
//
// The result is an expression of the returned frame's function; anything else is left as it is.
func c05ResolveDeep(fr *c05Frame, e ast.Expr) (*c05Frame, ast.Expr) {
	return c05ResolveDeepX(fr, e, nil)
}

// c05ResolveDeepX: as c05ResolveDeep; calls whose canonical callee name is accepted by opaque are not entered.
func c05ResolveDeepX(fr *c05Frame, e ast.Expr, opaque func(name string) bool) (*c05Frame, ast.Expr) {
	for step := 0; step < 10 && e != nil; step++ {
		fr, e = c05Resolve(fr, e)
		switch x := ast.Unparen(e).(type) {
		case *ast.SelectorExpr:
			sel, ok := fr.F.Info().Selections[x]
			if !ok || sel.Kind() != types.FieldVal || len(sel.Index()) != 1 {
				return fr, e
			}
			fld, _ := sel.Obj().(*types.Var)
			if fld == nil {
				return fr, e
			}
			if bv := varOfRaw(fr.F, x.X); bv != nil && c05StoredThrough(fr.F, bv) {
				return fr, e
			}
			bfr, bx := c05ResolveDeepX(fr, x.X, opaque)
			bx = ast.Unparen(bx)
			if u, isU := bx.(*ast.UnaryExpr); isU && u.Op == token.AND {
				bx = ast.Unparen(u.X)
			}
			cl, isLit := bx.(*ast.CompositeLit)
			if !isLit {
				return fr, e
			}
			st, _ := bfr.F.Info().TypeOf(cl).Underlying().(*types.Struct)
			if st == nil {
				return fr, e
			}
			var el ast.Expr
			for i, elt := range cl.Elts {
				if kv, keyed := elt.(*ast.KeyValueExpr); keyed {
					if id, isID := kv.Key.(*ast.Ident); isID && bfr.F.Info().ObjectOf(id) == types.Object(fld) {
						el = kv.Value
					}
				} else if i < st.NumFields() && st.Field(i) == fld {
					el = elt
				}
			}
			if el == nil {
				return fr, e
			}
			fr, e = bfr, el
		case *ast.CallExpr:
			cs := c05CallSiteOf(fr.F, x)
			if cs == nil || (opaque != nil && opaque(cs.Name)) {
				return fr, e
			}
			sub := c05Enter(fr, cs)
			if sub == nil {
				return fr, e
			}
			rets := sub.F.ReturnPoints()
			if len(rets) != 1 {
				return fr, e
			}
			rs, _ := rets[0].Node().(*ast.ReturnStmt)
			if rs == nil || len(rs.Results) != 1 {
				return fr, e
			}
			fr, e = sub, rs.Results[0]
		default:
			return fr, e
		}
	}
	return fr, e
}

// c05Origin reads a value back to the opaque call that produced it: conversions, the address of a
// local holding the value, single-definition locals (also the first result of `x, err := call()`),
// parameter bindings, struct projections and the results of helpers and bound callbacks are looked
// through. (nil call: the value does not come from a call the view can name.)
func c05Origin(fr *c05Frame, e ast.Expr) (*c05Frame, *ast.CallExpr) {
	return c05OriginX(fr, e, nil)
}

// c05OriginX: as c05Origin; calls accepted by opaque are reported as the origin instead of being entered.
func c05OriginX(fr *c05Frame, e ast.Expr, opaque func(name string) bool) (*c05Frame, *ast.CallExpr) {
	for step := 0; step < 16 && e != nil; step++ {
		var x ast.Expr
		fr, x = c05ResolveDeepX(fr, e, opaque)
		if s := core.StripConv(fr.F.Info(), x); s != x {
			e = s
			continue
		}
		switch y := ast.Unparen(x).(type) {
		case *ast.UnaryExpr:
			if y.Op != token.AND {
				return fr, nil
			}
			e = y.X
		case *ast.CallExpr:
			return fr, y
		case *ast.Ident:
			v := varOf(fr.F, y)
			if v == nil || !c05Inside(fr.F, v.Pos()) {
				return fr, nil
			}
			var rhs ast.Expr
			n := 0
			for _, d := range assignsToVar(fr.F, v) {
				if d.RHS == nil {
					if _, spec := d.Stmt.(*ast.ValueSpec); spec {
						continue
					}
					return fr, nil
				}
				if as, ok := d.Stmt.(*ast.AssignStmt); ok && len(as.Lhs) != len(as.Rhs) && (len(as.Lhs) == 0 || ast.Unparen(as.Lhs[0]) != ast.Unparen(d.LHS)) {
					return fr, nil // not the first result of the multi-value call
				}
				n++
				rhs = d.RHS
			}
			for _, l := range allLits(fr.F) {
				if len(assignsToVar(l, v)) > 0 {
					return fr, nil
				}
			}
			if n != 1 || rhs == nil || ast.Unparen(rhs) == ast.Expr(y) {
				return fr, nil
			}
			e = rhs
		default:
			return fr, nil
		}
	}
	return fr, nil
}
